/-
C02 helper lemmas, part 5: the shape of what the result handling returns.
-/
import Proofs.Lemmas.EnvSafe2

namespace Proofs.C02
open Pywbem.Model Pywbem.Model.Resp Pywbem.Model.Envelope Pywbem.Proto Pywbem.Model.XmlText

theorem pure_eq_ok {α} {a b : α} (h : (pure a : R α) = .ok b) : a = b := by cases h; rfl

theorem allInstWithPath_spec (l : List PV) (r : List Inst) (h : allInstWithPath l = .ok r) :
    ∀ i ∈ r, instHasPath i = true := by
  induction l generalizing r with
  | nil => unfold allInstWithPath at h; cases h; intro i hi; cases hi
  | cons x xs ih =>
    unfold allInstWithPath at h
    split at h
    · cases h; intro i hi; cases hi
    · rename_i i0 rest heq
      cases heq
      split at h
      · obtain ⟨r2, hr2, h⟩ := bind_eq_ok h
        cases h
        intro i hi
        rcases List.mem_cons.mp hi with hi | hi
        · subst hi; assumption
        · exact ih _ hr2 i hi
      · cases h
    · cases h

theorem allInstPaths_spec (l : List PV) (r : List Path) (h : allInstPaths l = .ok r) :
    ∀ p ∈ r, isInstPath p = true := by
  induction l generalizing r with
  | nil => unfold allInstPaths at h; cases h; intro i hi; cases hi
  | cons x xs ih =>
    unfold allInstPaths at h
    split at h
    · cases h; intro i hi; cases hi
    · rename_i p0 rest heq
      cases heq
      split at h
      · obtain ⟨r2, hr2, h⟩ := bind_eq_ok h
        cases h
        intro i hi
        rcases List.mem_cons.mp hi with hi | hi
        · subst hi; assumption
        · exact ih _ hr2 i hi
      · cases h
    · cases h

theorem allClassPaths_spec (l : List PV) (r : List Path) (h : allClassPaths l = .ok r) :
    ∀ p ∈ r, isInstPath p = false := by
  induction l generalizing r with
  | nil => unfold allClassPaths at h; cases h; intro i hi; cases hi
  | cons x xs ih =>
    unfold allClassPaths at h
    split at h
    · cases h; intro i hi; cases hi
    · rename_i p0 rest heq
      cases heq
      split at h
      · obtain ⟨r2, hr2, h⟩ := bind_eq_ok h
        cases h
        intro i hi
        rcases List.mem_cons.mp hi with hi | hi
        · subst hi; rename_i hc; simpa using hc
        · exact ih _ hr2 i hi
      · cases h
    · cases h

theorem allPairs_spec (l : List PV) (r : List (Path × Cls)) (h : allPairs l = .ok r) :
    ∀ pc ∈ r, isInstPath pc.1 = false := by
  induction l generalizing r with
  | nil => unfold allPairs at h; cases h; intro i hi; cases hi
  | cons x xs ih =>
    unfold allPairs at h
    split at h
    · cases h; intro i hi; cases hi
    · rename_i p0 c0 rest heq
      cases heq
      split at h
      · obtain ⟨r2, hr2, h⟩ := bind_eq_ok h
        cases h
        intro i hi
        rcases List.mem_cons.mp hi with hi | hi
        · subst hi; rename_i hc; simpa using hc
        · exact ih _ hr2 i hi
      · cases h
    · cases h

theorem setNs_isInstPath (ns : Str) (p : Path) : isInstPath (setNs ns p) = isInstPath p := by
  cases p <;> rfl

theorem instSetNs_hasPath (ns : Str) (i : Inst) (h : instHasPath i = true) : instHasPath (instSetNs ns i) = true := by
  cases i with
  | mk c p ps qs =>
    cases p with
    | none => simp [instHasPath, instPath] at h
    | some p => simp [instHasPath, instPath, instSetNs, setNs_isInstPath] at h ⊢; exact h

theorem instQueryPath_hasPath (ns : Str) (i : Inst) (h : ∀ p, instPath i = some p → isInstPath p = true) :
    instHasPath (instQueryPath ns i) = true := by
  cases i with
  | mk c p ps qs =>
    cases p with
    | none => simp [instHasPath, instPath, instQueryPath, isInstPath]
    | some p =>
      have := h p rfl
      simp [instHasPath, instPath, instQueryPath, setNs_isInstPath, this]

theorem withPath_hasPath (i : Inst) (p : Path) (h : isInstPath p = true) : instHasPath (withPath i p) = true := by
  cases i; simp [withPath, instHasPath, instPath, h]

def clsHasPath : Cls → Bool
  | .mk _ _ (some p) _ _ _ => !isInstPath p
  | .mk _ _ none _ _ _ => false

theorem clsSetPath_hasPath (h n : Str) (c : Cls) : clsHasPath (clsSetPath h n c) = true := by
  cases c; simp [clsSetPath, clsHasPath, isInstPath]

/-- `_get_rslt_params`: end-of-sequence without context, otherwise a context string -/
theorem getRsltParams_spec (kids : List RspKid) (check : List PV → R Unit) (p : PullParams)
    (h : getRsltParams kids check = .ok p) : (p.eos = true ↔ p.ctx = none) := by
  unfold getRsltParams at h
  obtain ⟨st, _, h⟩ := bind_eq_ok h
  obtain ⟨objs, eos, eosF, ctx, ctxF⟩ := st
  dsimp only at h
  obtain ⟨_, _, h⟩ := bind_eq_ok h
  split at h
  · cases h
  · split at h
    · cases h
    · rename_i h2
      cases h
      cases eos <;> cases ctx <;> simp_all


/-- the documented result type of each operation shape (docstrings of the WBEMConnection methods) -/
def HasDocumentedShape (post : Post) (r : Res) : Prop :=
  match post with
  | .void => r = .void
  | .instList => ∃ l, r = .instances l ∧ ∀ i ∈ l, instHasPath i = true
  | .query => ∃ l, r = .instances l ∧ ∀ i ∈ l, (instPath i).isSome = true
  | .pathList => ∃ l, r = .paths l ∧ ∀ p ∈ l, isInstPath p = true
  | .oneInst => ∃ i, r = .inst i ∧ instHasPath i = true
  | .onePath => ∃ p, r = .path p ∧ isInstPath p = true
  | .objs true => ∃ l, r = .instances l ∧ ∀ i ∈ l, instHasPath i = true
  | .objs false => ∃ l, r = .classPairs l ∧ ∀ pc ∈ l, isInstPath pc.1 = false
  | .objNames true => ∃ l, r = .paths l ∧ ∀ p ∈ l, isInstPath p = true
  | .objNames false => ∃ l, r = .paths l ∧ ∀ p ∈ l, isInstPath p = false
  | .pullInst => ∃ l eos ctx, r = .pullI l eos ctx none ∧ (∀ i ∈ l, instHasPath i = true) ∧ (eos = true ↔ ctx = none)
  | .pullPath => ∃ l eos ctx, r = .pullP l eos ctx ∧ (∀ p ∈ l, isInstPath p = true) ∧ (eos = true ↔ ctx = none)
  | .pullQuery rc => ∃ l eos ctx q, r = .pullI l eos ctx q ∧ q.isSome = rc ∧ (eos = true ↔ ctx = none)
  | .classList => ∃ l, r = .classes l ∧ ∀ c ∈ l, clsHasPath c = true
  | .classNameList => ∃ l, r = .classNames l
  | .oneClass => ∃ c, r = .cls c ∧ clsHasPath c = true
  | .qdeclList => ∃ l, r = .qdecls l
  | .oneQdecl => ∃ q, r = .qdecl q
  | .invoke => ∃ a b, r = .invoke a b

theorem instQueryPath_some (ns : Str) (i : Inst) : (instPath (instQueryPath ns i)).isSome = true := by
  cases i with
  | mk c p ps qs => cases p <;> simp [instQueryPath, instPath]

theorem methodResult_shape (C : EnvCodec) (kids : List RspKid) (r : Res) (h : methodResult C kids = .ok r) :
    ∃ a b, r = .invoke a b := by
  unfold methodResult at h
  split at h
  · obtain ⟨_, _, h⟩ := bind_eq_ok h; cases h
  · obtain ⟨x, _, h⟩ := bind_eq_ok h
    obtain ⟨o, _, h⟩ := bind_eq_ok h
    cases h; exact ⟨_, _, rfl⟩

theorem postProcess_shape (C : EnvCodec) (op : OpSpec) (hreq : isInstPath op.reqPath = true) (kids : List RspKid)
    (r : Res) (h : postProcess C op kids = .ok r) : HasDocumentedShape op.post r := by
  unfold postProcess at h
  dsimp only at h
  unfold HasDocumentedShape
  generalize op.post = post at h ⊢
  cases post <;> dsimp only at h ⊢
  · -- void
    cases h; rfl
  · -- instList
    obtain ⟨l, _, h⟩ := bind_eq_ok h
    obtain ⟨l2, hl2, h⟩ := bind_eq_ok h
    cases h
    refine ⟨_, rfl, ?_⟩
    intro i hi
    obtain ⟨j, hj, rfl⟩ := List.mem_map.mp hi
    exact instSetNs_hasPath _ _ (allInstWithPath_spec _ _ hl2 j hj)
  · -- pathList
    obtain ⟨l, hl, h⟩ := bind_eq_ok h
    cases h
    refine ⟨_, rfl, ?_⟩
    intro p hp
    obtain ⟨q, hq, rfl⟩ := List.mem_map.mp hp
    rw [setNs_isInstPath]; exact allInstPaths_spec _ _ hl q hq
  · -- oneInst
    split at h
    · cases h
    · cases h
    · cases h
      exact ⟨_, rfl, withPath_hasPath _ _ (by rw [setNs_isInstPath]; exact hreq)⟩
    · cases h
  · -- onePath
    split at h
    · cases h
    · cases h
    · split at h
      · cases h
        exact ⟨_, rfl, by rw [setNs_isInstPath]; assumption⟩
      · cases h
    · cases h
  · -- objs
    rename_i instLevel
    obtain ⟨objs, _, h⟩ := bind_eq_ok h
    cases instLevel with
    | true =>
      simp only [if_true] at h
      obtain ⟨l, hl, h⟩ := bind_eq_ok h
      cases h
      dsimp only
      exact ⟨_, rfl, allInstWithPath_spec _ _ hl⟩
    | false =>
      simp only [Bool.false_eq_true, if_false] at h
      obtain ⟨l, hl, h⟩ := bind_eq_ok h
      cases h
      dsimp only
      exact ⟨_, rfl, allPairs_spec _ _ hl⟩
  · -- objNames
    rename_i instLevel
    obtain ⟨objs, _, h⟩ := bind_eq_ok h
    cases instLevel with
    | true =>
      simp only [if_true] at h
      obtain ⟨l, hl, h⟩ := bind_eq_ok h
      cases h
      dsimp only
      exact ⟨_, rfl, allInstPaths_spec _ _ hl⟩
    | false =>
      simp only [Bool.false_eq_true, if_false] at h
      obtain ⟨l, hl, h⟩ := bind_eq_ok h
      cases h
      dsimp only
      exact ⟨_, rfl, allClassPaths_spec _ _ hl⟩
  · -- query
    obtain ⟨objs, _, h⟩ := bind_eq_ok h
    obtain ⟨l, hl, h⟩ := bind_eq_ok h
    cases h
    refine ⟨_, rfl, ?_⟩
    intro i hi
    obtain ⟨j, hj, rfl⟩ := List.mem_map.mp hi
    exact instQueryPath_some _ _
  · -- pullInst
    obtain ⟨p, hp, h⟩ := bind_eq_ok h
    obtain ⟨l, hl, h⟩ := bind_eq_ok h
    cases h
    exact ⟨_, _, _, rfl, allInstWithPath_spec _ _ hl, getRsltParams_spec _ _ _ hp⟩
  · -- pullPath
    obtain ⟨p, hp, h⟩ := bind_eq_ok h
    obtain ⟨l, hl, h⟩ := bind_eq_ok h
    cases h
    exact ⟨_, _, _, rfl, allInstPaths_spec _ _ hl, getRsltParams_spec _ _ _ hp⟩
  · -- pullQuery
    rename_i rc
    obtain ⟨p, hp, h⟩ := bind_eq_ok h
    obtain ⟨l, hl, h⟩ := bind_eq_ok h
    cases rc with
    | true =>
      simp only [if_true] at h
      obtain ⟨c, _, h⟩ := bind_eq_ok h
      cases h
      exact ⟨_, _, _, _, rfl, rfl, getRsltParams_spec _ _ _ hp⟩
    | false =>
      simp only [Bool.false_eq_true, if_false] at h
      cases h
      exact ⟨_, _, _, _, rfl, rfl, getRsltParams_spec _ _ _ hp⟩
  · -- classList
    obtain ⟨l, _, h⟩ := bind_eq_ok h
    cases h
    refine ⟨_, rfl, ?_⟩
    intro c hc
    obtain ⟨d, _, rfl⟩ := List.mem_map.mp hc
    exact clsSetPath_hasPath _ _ _
  · -- classNameList
    obtain ⟨l, _, h⟩ := bind_eq_ok h
    cases h; exact ⟨_, rfl⟩
  · -- oneClass
    split at h
    · cases h
    · cases h
    · cases h; exact ⟨_, rfl, clsSetPath_hasPath _ _ _⟩
    · cases h
  · -- qdeclList
    obtain ⟨l, _, h⟩ := bind_eq_ok h
    cases h; exact ⟨_, rfl⟩
  · -- oneQdecl
    split at h
    · cases h
    · cases h
    · cases h; exact ⟨_, rfl⟩
    · cases h
  · -- invoke
    exact methodResult_shape C kids r h

end Proofs.C02
