/-
C19 — lemmas about the configure_logger model (Model/LogConfig.lean).
-/
import Pywbem.Model.LogConfig
import Proofs.Lemmas.ObserverOp

namespace Proofs.Lemmas.LogConfig
open Pywbem.Proto Pywbem.Model.ToYaml Pywbem.Model.Observer Pywbem.Model.LogConfig
open Proofs.Lemmas.ObserverOp

/-- the parameter validation of one configure step: depends on nothing but the three arguments -/
def validate (dest : DestArg) (detail : DetailArg) (fn : Bool) : Option Exc :=
  if dest = .off then none
  else match configureDetail detail with
    | .error e => some e
    | .ok _ =>
      match handlerFor dest fn with
      | .error e => some e
      | .ok _ => none

theorem activate_exc (g : Global) (c : Conn) (a : Bool) (d : Detail) (h : Option HandlerKind) (cn : ConnArg) (p : Bool) :
    (activate g c a d h cn p).exc = none := by
  simp only [activate]
  cases cn with
  | none => rfl
  | flag b => cases b <;> rfl
  | conn => simp only []; split <;> rfl

theorem configureOne_exc (g : Global) (c : Conn) (a : Bool) (dest : DestArg) (detail : DetailArg) (fn : Bool)
    (cn : ConnArg) (p : Bool) : (configureOne g c a dest detail fn cn p).exc = validate dest detail fn := by
  simp only [configureOne, validate]
  by_cases hd : dest = .off
  · simp [hd]
  · simp only [hd, if_false]
    cases configureDetail detail with
    | error e => rfl
    | ok d =>
      simp only []
      cases handlerFor dest fn with
      | error e => rfl
      | ok h => simp only []; exact activate_exc g c a d h cn p

theorem configureOne_error_unchanged (g : Global) (c : Conn) (a : Bool) (dest : DestArg) (detail : DetailArg)
    (fn : Bool) (cn : ConnArg) (p : Bool) (e : Exc) (h : (configureOne g c a dest detail fn cn p).exc = some e) :
    (configureOne g c a dest detail fn cn p).g = g ∧ (configureOne g c a dest detail fn cn p).c = c ∧
    (configureOne g c a dest detail fn cn p).events = [] := by
  simp only [configureOne] at h ⊢
  by_cases hd : dest = .off
  · simp [hd] at h
  · simp only [hd, if_false] at h ⊢
    cases hcd : configureDetail detail with
    | error e' => exact ⟨rfl, rfl, rfl⟩
    | ok d =>
      simp only [hcd] at h ⊢
      cases hh : handlerFor dest fn with
      | error e' => exact ⟨rfl, rfl, rfl⟩
      | ok hk => simp only [hh] at h; rw [activate_exc] at h; cases h

/-- configure_logger raises ValueError only before it changed anything: loggers, class variables, the connection and
    its recorders are as before ("Raises ValueError: … loggers remain unchanged"), also for 'all' -/
theorem configure_error_unchanged (g : Global) (c : Conn) (name : NameArg) (dest : DestArg) (detail : DetailArg)
    (fn : Bool) (cn : ConnArg) (p : Bool) (e : Exc) (h : (configure g c name dest detail fn cn p).exc = some e) :
    (configure g c name dest detail fn cn p).g = g ∧ (configure g c name dest detail fn cn p).c = c ∧
    (configure g c name dest detail fn cn p).events = [] := by
  cases name with
  | other => exact ⟨rfl, rfl, rfl⟩
  | api => exact configureOne_error_unchanged g c true dest detail fn cn p e h
  | http => exact configureOne_error_unchanged g c false dest detail fn cn p e h
  | all =>
    simp only [configure] at h ⊢
    cases h1 : (configureOne g c true dest detail fn cn p).exc with
    | some e1 =>
      simp only [h1] at h ⊢
      exact configureOne_error_unchanged g c true dest detail fn cn p e1 h1
    | none =>
      simp only [h1] at h ⊢
      -- the second step validates the same arguments: it cannot fail when the first did not
      rw [configureOne_exc] at h
      rw [configureOne_exc] at h1
      rw [h1] at h
      cases h

theorem configureDetail_ok_iff (d : DetailArg) :
    (∃ x, configureDetail d = .ok x) ↔
    (d = .none ∨ d = .str sAll ∨ d = .str sPaths ∨ d = .str sSummary ∨ ∃ i, d = .int i ∧ 0 ≤ i) := by
  cases d with
  | none => simp [configureDetail, pure, Except.pure]
  | other => simp [configureDetail, throw, throwThe, MonadExceptOf.throw]
  | int i =>
    by_cases hi : i < 0
    · simp [configureDetail, hi, throw, throwThe, MonadExceptOf.throw]
      try omega
    · simp [configureDetail, hi, pure, Except.pure]
      try omega
  | str s =>
    simp only [configureDetail]
    by_cases h1 : s = sAll
    · simp [h1, pure, Except.pure]
    · by_cases h2 : s = sPaths
      · have : ¬ s = sAll := h1
        simp only [h2, if_true, pure, Except.pure]
        rw [h2] at this
        simp only [this, if_false]
        exact ⟨fun _ => by simp, fun _ => ⟨_, rfl⟩⟩
      · by_cases h3 : s = sSummary
        · have a1 : ¬ sSummary = sAll := by rw [← h3]; exact h1
          have a2 : ¬ sSummary = sPaths := by rw [← h3]; exact h2
          simp only [h3, a1, a2, if_false, if_true, pure, Except.pure]
          exact ⟨fun _ => by simp, fun _ => ⟨_, rfl⟩⟩
        · simp [h1, h2, h3, throw, throwThe, MonadExceptOf.throw]

/-! ### what configure_logger can touch of a connection: its recorders, nothing else -/

def sameButRecorders (c c' : Conn) : Prop :=
  c'.info = c.info ∧ c'.lastSrvTime = c.lastSrvTime ∧ c'.stats = c.stats ∧ bookOf c' = bookOf c ∧ c'.debug = c.debug

theorem sbr_refl (c : Conn) : sameButRecorders c c := ⟨rfl, rfl, rfl, rfl, rfl⟩

theorem sbr_trans {a b c : Conn} (h1 : sameButRecorders a b) (h2 : sameButRecorders b c) : sameButRecorders a c :=
  ⟨h2.1.trans h1.1, h2.2.1.trans h1.2.1, h2.2.2.1.trans h1.2.2.1, h2.2.2.2.1.trans h1.2.2.2.1,
   h2.2.2.2.2.trans h1.2.2.2.2⟩

theorem sbr_syncOn (g : Global) (c : Conn) : sameButRecorders c (syncOn g c) := ⟨rfl, rfl, rfl, rfl, rfl⟩

theorem sbr_addRecorder (c : Conn) (r : Recorder) : sameButRecorders c (c.addRecorder r).1 := by
  cases r <;> exact ⟨rfl, rfl, rfl, rfl, rfl⟩

theorem sbr_activate (g : Global) (c : Conn) (a : Bool) (d : Detail) (h : Option HandlerKind) (cn : ConnArg) (p : Bool) :
    sameButRecorders c (activate g c a d h cn p).c := by
  simp only [activate]
  cases cn with
  | none => exact sbr_syncOn _ c
  | flag b => cases b <;> exact sbr_syncOn _ c
  | conn =>
    simp only []
    split
    · exact ⟨rfl, rfl, rfl, rfl, rfl⟩
    · exact sbr_trans (sbr_syncOn _ c) (sbr_addRecorder _ _)

theorem sbr_configureOne (g : Global) (c : Conn) (a : Bool) (dest : DestArg) (detail : DetailArg) (fn : Bool)
    (cn : ConnArg) (p : Bool) : sameButRecorders c (configureOne g c a dest detail fn cn p).c := by
  simp only [configureOne]
  split
  · exact sbr_syncOn _ c
  · cases configureDetail detail with
    | error e => exact sbr_refl c
    | ok d =>
      simp only []
      cases handlerFor dest fn with
      | error e => exact sbr_refl c
      | ok h => exact sbr_activate g c a d h cn p

theorem sbr_configure (g : Global) (c : Conn) (name : NameArg) (dest : DestArg) (detail : DetailArg) (fn : Bool)
    (cn : ConnArg) (p : Bool) : sameButRecorders c (configure g c name dest detail fn cn p).c := by
  cases name with
  | other => exact sbr_refl c
  | api => exact sbr_configureOne g c true dest detail fn cn p
  | http => exact sbr_configureOne g c false dest detail fn cn p
  | all =>
    simp only [configure]
    cases (configureOne g c true dest detail fn cn p).exc with
    | some e => exact sbr_configureOne g c true dest detail fn cn p
    | none => exact sbr_trans (sbr_configureOne g c true dest detail fn cn p) (sbr_configureOne _ _ false dest detail fn cn p)

/-! ### postconditions -/

theorem any_isLog_setDetailFirstLog (api : Bool) (d : Detail) : ∀ rs : List Recorder,
    (setDetailFirstLog api d rs).map isLog = rs.map isLog
  | [] => rfl
  | .log l :: rs => by simp [setDetailFirstLog, isLog]
  | .tcr t :: rs => by simp [setDetailFirstLog, isLog, any_isLog_setDetailFirstLog api d rs]

/-- log_dest='off' for a logger: afterwards it is not enabled for DEBUG and future connections are not activated -/
theorem off_postcondition (g : Global) (c : Conn) (a : Bool) (detail : DetailArg) (fn : Bool) (cn : ConnArg) (p : Bool) :
    loggerOn (configureOne g c a .off detail fn cn p).g a = false ∧
    (configureOne g c a .off detail fn cn p).g.activate = false ∧
    (configureOne g c a .off detail fn cn p).exc = none := by
  cases a <;> simp [configureOne, loggerOn, setLogger, getLogger]

/-- a connection created while logging is not activated for future connections has no recorder; otherwise exactly one
    log recorder carrying the class-level detail levels -/
theorem newConn_recorders (g : Global) (info : ConnInfo) (st : Bool) :
    (g.activate = false → (newConn g info st).1.recorders = []) ∧
    (g.activate = true → ∃ l, (newConn g info st).1.recorders = [.log l] ∧
      (∀ d, g.apiDetail = some d → l.apiLevel = some d) ∧ (∀ d, g.httpDetail = some d → l.httpLevel = some d) ∧
      (g.apiDetail = none → l.apiLevel = none) ∧ (g.httpDetail = none → l.httpLevel = none)) := by
  constructor
  · intro h; simp [newConn, h, Conn.new]
  · intro h
    simp only [newConn, h, if_true, Conn.addRecorder, Conn.new]
    refine ⟨_, rfl, ?_, ?_, ?_, ?_⟩
    · intro d hd; cases hh : g.httpDetail <;> simp [hd, hh, LogRec.setDetail]
    · intro d hd; cases ha : g.apiDetail <;> simp [hd, ha, LogRec.setDetail]
    · intro hd; cases hh : g.httpDetail <;> simp [hd, hh, LogRec.setDetail]
    · intro hd; cases ha : g.apiDetail <;> simp [hd, ha, LogRec.setDetail]

/-! ### WBEMConnection.copy() -/

theorem addCopies_fields (g : Global) : ∀ (rs : List Recorder) (c : Conn),
    (addCopies g c rs).1.info = c.info ∧ (addCopies g c rs).1.lastSrvTime = c.lastSrvTime
  | [], _ => ⟨rfl, rfl⟩
  | r :: rs, c => by
    simp only [addCopies]
    have h1 := sbr_addRecorder { c with recorders := c.recorders.filter (fun x => !sameClass r x) } (copyRec g r)
    have ih := addCopies_fields g rs
      ({ c with recorders := c.recorders.filter (fun x => !sameClass r x) }.addRecorder (copyRec g r)).1
    exact ⟨ih.1.trans h1.1, ih.2.trans h1.2.1⟩

theorem newConn_fields (g : Global) (info : ConnInfo) (st : Bool) :
    (newConn g info st).1.info = info ∧ (newConn g info st).1.lastSrvTime = .none := by
  simp only [newConn]
  split
  · exact ⟨rfl, rfl⟩
  · exact ⟨rfl, rfl⟩

theorem copyConn_fields (g : Global) (c : Conn) :
    (copyConn g c).1.info = c.info ∧ (copyConn g c).1.lastSrvTime = .none := by
  simp only [copyConn]
  obtain ⟨a, b⟩ := addCopies_fields g c.recorders (newConn g c.info c.stats.enabled).1
  obtain ⟨x, y⟩ := newConn_fields g c.info c.stats.enabled
  exact ⟨a.trans x, b.trans y⟩

end Proofs.Lemmas.LogConfig
