/-
Helper lemmas for C13: class store lookups, hierarchy, congruence of the traversal functions under
recasing (`lower`), class-level membership.
-/
import Proofs.Lemmas.Assoc

namespace Pywbem.Model.Assoc
open Pywbem.Proto

/-! ### class store -/

theorem classExists_iff {cs : List Cls} {n : Name} :
    classExists cs n = true ↔ ∃ c ∈ cs, ieq c.name n = true := by simp [classExists]

theorem classExists_of_mem {cs : List Cls} {c : Cls} (h : c ∈ cs) : classExists cs c.name = true :=
  classExists_iff.mpr ⟨c, h, ieq_refl _⟩

theorem findClass_of_exists {cs : List Cls} {n : Name} (h : classExists cs n = true) :
    ∃ c, findClass cs n = some c ∧ c ∈ cs ∧ ieq c.name n = true := by
  unfold findClass
  cases hf : cs.find? (fun c => ieq c.name n) with
  | none =>
    rw [List.find?_eq_none] at hf
    obtain ⟨c, hc, hi⟩ := classExists_iff.mp h
    have := hf c hc
    simp [hi] at this
  | some c =>
    have h1 : ieq c.name n = true := by have := List.find?_some hf; exact this
    exact ⟨c, rfl, List.mem_of_find?_eq_some hf, h1⟩

theorem classExists_congr {cs : List Cls} {a b : Name} (h : lower a = lower b) :
    classExists cs a = classExists cs b := by
  simp [classExists, ieq, h]

theorem findClass_congr {cs : List Cls} {a b : Name} (h : lower a = lower b) :
    findClass cs a = findClass cs b := by
  simp [findClass, ieq, h]

/-! ### hierarchy: congruence under recasing -/

theorem children_congr {cs : List Cls} {a b : Name} (h : lower a = lower b) :
    children cs a = children cs b := by
  simp [children, ieq, h]

theorem subNamesDeep_congr {cs : List Cls} {a b : Name} (h : lower a = lower b) :
    ∀ fuel, subNamesDeep fuel cs a = subNamesDeep fuel cs b
  | 0 => rfl
  | fuel + 1 => by simp [subNamesDeep, children_congr h]

theorem superChain_congr {cs : List Cls} {a b : Name} (h : lower a = lower b) :
    ∀ fuel, superChain fuel cs a = superChain fuel cs b
  | 0 => rfl
  | fuel + 1 => by simp [superChain, findClass_congr h]

theorem superNames_congr {cs : List Cls} {a b : Name} (h : lower a = lower b) :
    superNames cs a = superNames cs b := by
  simp [superNames, superChain_congr h]

/-- two optional filter values that the code cannot tell apart: both inactive, or both active with
    the same lower-cased name -/
def optIeq (a b : Option Name) : Prop := lcOpt a = lcOpt b

theorem lcOpt_eq_none_iff {a : Option Name} : lcOpt a = none ↔ truthy a = false := by
  cases a with
  | none => simp [lcOpt, truthy]
  | some n => by_cases h : n.isEmpty = true <;> simp [lcOpt, truthy, h]

theorem optIeq_cases {a b : Option Name} (h : optIeq a b) :
    (truthy a = false ∧ truthy b = false) ∨
    (∃ n m, a = some n ∧ b = some m ∧ n.isEmpty = false ∧ m.isEmpty = false ∧ lower n = lower m) := by
  unfold optIeq at h
  cases ha : lcOpt a with
  | none =>
    rw [ha] at h
    exact Or.inl ⟨lcOpt_eq_none_iff.mp ha, lcOpt_eq_none_iff.mp h.symm⟩
  | some r =>
    rw [ha] at h
    right
    cases a with
    | none => simp [lcOpt] at ha
    | some n =>
      cases b with
      | none => simp [lcOpt] at h
      | some m =>
        by_cases hn : n.isEmpty = true
        · simp [lcOpt, hn] at ha
        · by_cases hm : m.isEmpty = true
          · simp [lcOpt, hm] at h
          · simp [lcOpt, hn] at ha
            simp [lcOpt, hm] at h
            exact ⟨n, m, rfl, rfl, by simpa using hn, by simpa using hm, by rw [ha, h]⟩

theorem truthy_congr {a b : Option Name} (h : optIeq a b) : truthy a = truthy b := by
  rcases optIeq_cases h with ⟨h1, h2⟩ | ⟨n, m, rfl, rfl, hn, hm, _⟩
  · rw [h1, h2]
  · simp [truthy, hn, hm]

theorem subclassesLc_congr {cs : List Cls} {a b : Option Name} (h : optIeq a b) :
    subclassesLc cs a = subclassesLc cs b := by
  rcases optIeq_cases h with ⟨h1, h2⟩ | ⟨n, m, rfl, rfl, hn, hm, hl⟩
  · rw [subclassesLc_of_not_truthy h1, subclassesLc_of_not_truthy h2]
  · simp [subclassesLc, hn, hm, hl, subNamesDeep_congr hl]

theorem filterClassOk_congr {cs : List Cls} {a b : Option Name} (h : optIeq a b) :
    filterClassOk cs a = filterClassOk cs b := by
  rcases optIeq_cases h with ⟨h1, h2⟩ | ⟨n, m, rfl, rfl, hn, hm, hl⟩
  · rw [filterClassOk_of_not_truthy h1, filterClassOk_of_not_truthy h2]
  · simp [filterClassOk, hn, hm, classExists_congr hl]

theorem classAdmits_congr {cs : List Cls} {a b : Option Name} (h : optIeq a b) {c c' : Name}
    (hc : lower c = lower c') : classAdmits cs a c = classAdmits cs b c' := by
  simp [classAdmits, truthy_congr h, subclassesLc_congr h, hc]

theorem roleAdmits_congr {a b : Option Name} (h : optIeq a b) (p : Name) :
    roleAdmits a p = roleAdmits b p := by
  unfold optIeq at h
  simp [roleAdmits, h]

/-! ### instance level: congruence -/

theorem refPropHit_congr {cs : List Cls} {x x' : Path} {rc rc' role role' : Option Name}
    (hx : x.eqv x' = true) (h1 : optIeq rc rc') (h2 : optIeq role role') (ic : Name) (p : IProp) :
    refPropHit cs x rc role ic p = refPropHit cs x' rc' role' ic p := by
  simp only [refPropHit, eqv_congr_right hx, classAdmits_congr h1 rfl, roleAdmits_congr h2]

theorem otherEnd_congr {cs : List Cls} {x x' : Path} {rc rc' rr rr' : Option Name}
    (hx : x.eqv x' = true) (h1 : optIeq rc rc') (h2 : optIeq rr rr') (p : IProp) :
    otherEnd cs x rc rr p = otherEnd cs x' rc' rr' p := by
  simp only [otherEnd, eqv_congr_right hx, classAdmits_congr h1 rfl, roleAdmits_congr h2]

theorem refInsts_congr {S : NsStore} {x x' : Path} {rc rc' role role' : Option Name}
    (hx : x.eqv x' = true) (h1 : optIeq rc rc') (h2 : optIeq role role') :
    refInsts S x rc role = refInsts S x' rc' role' := by
  unfold refInsts
  congr 1
  funext a
  congr 1
  funext p
  exact refPropHit_congr hx h1 h2 a.cls p

theorem refInstsE_congr {S : NsStore} {x x' : Path} {rc rc' role role' : Option Name}
    (hx : x.eqv x' = true) (h1 : optIeq rc rc') (h2 : optIeq role role') :
    refInstsE S x rc role = refInstsE S x' rc' role' := by
  unfold refInstsE
  rw [classExists_congr (ieq_iff.mp (eqv_iff.mp hx).2.2.1), filterClassOk_congr h1, refInsts_congr hx h1 h2]

/-! ### class level -/

theorem refClasses_ok {S : NsStore} {cn : Name} {rc role : Option Name} {l : List Cls}
    (h : refClasses S cn rc role = .ok l) :
    classExists S.classes cn = true ∧ filterClassOk S.classes rc = true ∧
    ∃ sup, superNames S.classes cn = .ok sup ∧
      l = S.classes.filter (fun c => c.isAssoc && c.props.any (fun p => p.isRef &&
            refPropMatches p ((sup ++ [cn]).map lower) (lower c.name) (subclassesLc S.classes rc) (lcOpt role))) := by
  unfold refClasses at h
  by_cases h1 : classExists S.classes cn = true
  · by_cases h2 : filterClassOk S.classes rc = true
    · simp only [h1, h2, Bool.not_true, Bool.false_eq_true, if_false] at h
      cases hs : superNames S.classes cn with
      | error e => simp [hs] at h
      | ok sup => simp only [hs] at h; exact ⟨h1, h2, sup, rfl, (Except.ok.inj h).symm⟩
    · simp [h1, h2] at h
  · simp [h1] at h

theorem refClasses_eq_ok {S : NsStore} {cn : Name} {rc role : Option Name} {sup : List Name}
    (h1 : classExists S.classes cn = true) (h2 : filterClassOk S.classes rc = true)
    (hs : superNames S.classes cn = .ok sup) :
    refClasses S cn rc role = .ok (S.classes.filter (fun c => c.isAssoc && c.props.any (fun p => p.isRef &&
            refPropMatches p ((sup ++ [cn]).map lower) (lower c.name) (subclassesLc S.classes rc) (lcOpt role)))) := by
  simp [refClasses, h1, h2, hs]

theorem refClasses_mem {S : NsStore} {cn : Name} {rc role : Option Name} {l : List Cls}
    (h : refClasses S cn rc role = .ok l) {c : Cls} (hc : c ∈ l) : c ∈ S.classes := by
  obtain ⟨_, _, sup, _, hl⟩ := refClasses_ok h
  rw [hl] at hc
  exact (List.mem_filter.mp hc).1

theorem refClasses_congr {S : NsStore} {cn cn' : Name} {rc rc' role role' : Option Name}
    (hc : lower cn = lower cn') (h1 : optIeq rc rc') (h2 : optIeq role role') :
    refClasses S cn rc role = refClasses S cn' rc' role' := by
  unfold refClasses
  unfold optIeq at h2
  rw [classExists_congr hc, filterClassOk_congr h1, superNames_congr hc, subclassesLc_congr h1, h2]
  simp [hc]

theorem refPropMatches_iff {p : CProp} {targets : List Name} {rcn : Name} {rcs : List Name}
    {role : Option Name} :
    refPropMatches p targets rcn rcs role = true ↔
      lower p.refCls ∈ targets ∧ (rcs = [] ∨ rcn ∈ rcs) ∧ (∀ r, role = some r → lower p.name = r) := by
  unfold refPropMatches
  by_cases ht : lower p.refCls ∈ targets
  · by_cases hr : rcs = [] ∨ rcn ∈ rcs
    · cases role with
      | none => rcases hr with hr | hr <;> simp [ht, hr]
      | some r => rcases hr with hr | hr <;> simp [ht, hr]
    · have h1 : rcs ≠ [] := fun h => hr (Or.inl h)
      have h2 : rcn ∉ rcs := fun h => hr (Or.inr h)
      simp [ht, h1, h2]
  · simp [ht]

theorem refPropMatches_mono {p : CProp} {targets : List Name} {rcn : Name} {rcs rcs' : List Name}
    {role role' : Option Name} (h1 : rcs = [] ∨ rcs = rcs') (h2 : role = none ∨ role = role')
    (h : refPropMatches p targets rcn rcs' role' = true) : refPropMatches p targets rcn rcs role = true := by
  rw [refPropMatches_iff] at *
  obtain ⟨ht, hr, hro⟩ := h
  refine ⟨ht, ?_, ?_⟩
  · rcases h1 with h1 | h1
    · exact Or.inl h1
    · rw [h1]; exact hr
  · rcases h2 with h2 | h2
    · intro r hr'; rw [h2] at hr'; cases hr'
    · rw [h2]; exact hro

theorem assocPropMatches_iff {p : CProp} {rcn : Name} {acs rcs : List Name} {rr : Option Name} :
    assocPropMatches p rcn acs rcs rr = true ↔
      (acs = [] ∨ lower rcn ∈ acs) ∧ (rcs = [] ∨ lower p.refCls ∈ rcs) ∧
        (∀ r, rr = some r → lower p.name = r) := by
  unfold assocPropMatches
  by_cases ha : acs = [] ∨ lower rcn ∈ acs
  · by_cases hr : rcs = [] ∨ lower p.refCls ∈ rcs
    · cases rr with
      | none => rcases ha with ha | ha <;> rcases hr with hr | hr <;> simp [ha, hr]
      | some r => rcases ha with ha | ha <;> rcases hr with hr | hr <;> simp [ha, hr]
    · have h1 : rcs ≠ [] := fun h => hr (Or.inl h)
      have h2 : lower p.refCls ∉ rcs := fun h => hr (Or.inr h)
      rcases ha with ha | ha <;> simp [ha, h1, h2]
  · have h1 : acs ≠ [] := fun h => ha (Or.inl h)
    have h2 : lower rcn ∉ acs := fun h => ha (Or.inr h)
    simp [h1, h2]

theorem assocPropMatches_mono {p : CProp} {rcn : Name} {acs acs' rcs rcs' : List Name}
    {rr rr' : Option Name} (h0 : acs = [] ∨ acs = acs') (h1 : rcs = [] ∨ rcs = rcs') (h2 : rr = none ∨ rr = rr')
    (h : assocPropMatches p rcn acs' rcs' rr' = true) : assocPropMatches p rcn acs rcs rr = true := by
  rw [assocPropMatches_iff] at *
  obtain ⟨ha, hr, hro⟩ := h
  refine ⟨?_, ?_, ?_⟩
  · rcases h0 with h0 | h0
    · exact Or.inl h0
    · rw [h0]; exact ha
  · rcases h1 with h1 | h1
    · exact Or.inl h1
    · rw [h1]; exact hr
  · rcases h2 with h2 | h2
    · intro r hr'; rw [h2] at hr'; cases hr'
    · rw [h2]; exact hro

theorem assocClassNames_ok {S : NsStore} {cn : Name} {f : AFilter} {l : List Name}
    (h : assocClassNames S cn f = .ok l) :
    filterClassOk S.classes f.assocClass = true ∧ filterClassOk S.classes f.resultClass = true ∧
    ∃ rl, refClasses S cn f.assocClass f.role = .ok rl ∧
      l = rl.flatMap (fun c => assocClassEnds c cn (subclassesLc S.classes f.assocClass)
            (subclassesLc S.classes f.resultClass) (lcOpt f.resultRole)) := by
  unfold assocClassNames at h
  by_cases h1 : filterClassOk S.classes f.assocClass = true
  · by_cases h2 : filterClassOk S.classes f.resultClass = true
    · simp only [h1, h2, Bool.not_true, Bool.false_eq_true, if_false] at h
      cases hr : refClasses S cn f.assocClass f.role with
      | error e => simp [hr] at h
      | ok rl => simp [hr] at h; exact ⟨h1, h2, rl, rfl, h.symm⟩
    · simp [h1, h2] at h
  · simp [h1] at h

theorem assocClassNames_eq_ok {S : NsStore} {cn : Name} {f : AFilter} {rl : List Cls}
    (h1 : filterClassOk S.classes f.assocClass = true) (h2 : filterClassOk S.classes f.resultClass = true)
    (hrl : refClasses S cn f.assocClass f.role = .ok rl) :
    assocClassNames S cn f = .ok (rl.flatMap (fun c => assocClassEnds c cn (subclassesLc S.classes f.assocClass)
            (subclassesLc S.classes f.resultClass) (lcOpt f.resultRole))) := by
  simp [assocClassNames, h1, h2, hrl]

theorem mem_assocClassEnds {c : Cls} {cn : Name} {acs rcs : List Name} {rr : Option Name} {n : Name} :
    n ∈ assocClassEnds c cn acs rcs rr ↔
      ∃ p ∈ c.props, p.refCls = n ∧ p.isRef = true ∧ assocPropMatches p c.name acs rcs rr = true ∧
        ¬ (lower p.refCls = lower cn ∧ singleUse c (lower p.refCls) = true) := by
  simp only [assocClassEnds, List.mem_map, List.mem_filter]
  constructor
  · rintro ⟨p, ⟨hp, hcond⟩, rfl⟩
    simp at hcond
    refine ⟨p, hp, rfl, hcond.1.1, hcond.1.2, ?_⟩
    rintro ⟨h1, h2⟩
    rcases hcond.2 with h | h
    · exact h h1
    · simp [h2] at h
  · rintro ⟨p, hp, rfl, h1, h2, h3⟩
    refine ⟨p, ⟨hp, ?_⟩, rfl⟩
    simp [h1, h2]
    by_cases hl : lower p.refCls = lower cn
    · by_cases hs : singleUse c (lower p.refCls) = true
      · exact absurd ⟨hl, hs⟩ h3
      · exact Or.inr (by simpa using hs)
    · exact Or.inl hl

theorem assocClassEnds_congr {c : Cls} {cn cn' : Name} (hc : lower cn = lower cn') (acs rcs : List Name)
    (rr : Option Name) : assocClassEnds c cn acs rcs rr = assocClassEnds c cn' acs rcs rr := by
  simp [assocClassEnds, hc]

/-! ### hierarchy: soundness of the computed subclass lists -/

/-- `c` is stored as a direct subclass of (a class named like) `a` -/
def IsChild (c : Cls) (a : Name) : Prop := ∃ s, c.super = some s ∧ s.isEmpty = false ∧ ieq s a = true

/-- `d` names a stored (direct or indirect) subclass of `a` -/
inductive Desc (cs : List Cls) : Name → Name → Prop where
  | child {c : Cls} {a : Name} : c ∈ cs → IsChild c a → Desc cs c.name a
  | trans {c : Cls} {m a : Name} : Desc cs m a → c ∈ cs → IsChild c m → Desc cs c.name a

theorem mem_children {cs : List Cls} {a x : Name} :
    x ∈ children cs a ↔ ∃ c ∈ cs, c.name = x ∧ IsChild c a := by
  simp only [children, List.mem_map, List.mem_filter, IsChild]
  constructor
  · rintro ⟨c, ⟨hc, hcond⟩, rfl⟩
    cases hs : c.super with
    | none => simp [hs] at hcond
    | some s => simp [hs] at hcond; exact ⟨c, hc, rfl, s, hs, by simpa using hcond.1, hcond.2⟩
  · rintro ⟨c, hc, rfl, s, hs, hne, hi⟩
    exact ⟨c, ⟨hc, by simp [hs, hne, hi]⟩, rfl⟩

theorem desc_of_child_desc {cs : List Cls} {d : Cls} {a x : Name} (hd : d ∈ cs) (hda : IsChild d a)
    (h : Desc cs x d.name) : Desc cs x a := by
  generalize hm : d.name = m at h
  induction h with
  | child hc hch => subst hm; exact Desc.trans (Desc.child hd hda) hc hch
  | trans _ hc hch ih => exact Desc.trans (ih hm) hc hch

theorem subNamesDeep_sound {cs : List Cls} :
    ∀ {fuel : Nat} {a x : Name}, x ∈ subNamesDeep fuel cs a → Desc cs x a
  | 0, _, _, h => by simp [subNamesDeep] at h
  | fuel + 1, a, x, h => by
    simp only [subNamesDeep, List.mem_append, List.mem_flatten, List.mem_map] at h
    rcases h with h | ⟨l, ⟨m, hm, rfl⟩, hx⟩
    · obtain ⟨c, hc, rfl, hch⟩ := mem_children.mp h
      exact Desc.child hc hch
    · obtain ⟨d, hd, rfl, hda⟩ := mem_children.mp hm
      exact desc_of_child_desc hd hda (subNamesDeep_sound hx)

/-- descendants reachable by a chain of at most `n` superclass links -/
inductive DescN (cs : List Cls) : Nat → Name → Name → Prop where
  | child {c : Cls} {a : Name} {n : Nat} : c ∈ cs → IsChild c a → DescN cs (n + 1) c.name a
  | step {c d : Cls} {a : Name} {n : Nat} : d ∈ cs → IsChild d a → DescN cs n c.name d.name → c ∈ cs →
      DescN cs (n + 1) c.name a

theorem subNamesDeep_complete {cs : List Cls} :
    ∀ {n : Nat} {a x : Name}, DescN cs n x a → x ∈ subNamesDeep n cs a
  | 0, _, _, h => by cases h
  | n + 1, a, x, h => by
    simp only [subNamesDeep, List.mem_append, List.mem_flatten, List.mem_map]
    cases h with
    | child hc hch => exact Or.inl (mem_children.mpr ⟨_, hc, rfl, hch⟩)
    | step hd hda hrest _ =>
      exact Or.inr ⟨_, ⟨_, mem_children.mpr ⟨_, hd, rfl, hda⟩, rfl⟩, subNamesDeep_complete hrest⟩

end Pywbem.Model.Assoc
