/-
Helper lemmas for C13, class level and hierarchy.
-/
import Proofs.Lemmas.Assoc

namespace Pywbem.Model.Assoc
open Pywbem.Proto

end Pywbem.Model.Assoc
