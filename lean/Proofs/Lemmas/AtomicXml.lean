/-
C06: atomic values on the CIM-XML wire (Model/AtomicXml.lean): decimal text of integers and the way back through the
model of CPython int() and unpack_numeric.
-/
import Proofs.Lemmas.TypedElems
import Pywbem.Model.AtomicXml

namespace Proofs.CimTypes
open Pywbem.Proto Pywbem.Model.CimTypes Pywbem.Model.DateTime Pywbem.Model.CimValue Pywbem.Model.AtomicXml
open Proofs.DateTime

theorem natDigits_eq (n : Nat) : natDigits n = if n < 10 then [digitChar n] else natDigits (n / 10) ++ [digitChar n] := by
  rw [natDigits]

/-- every character is a decimal digit -/
theorem natDigits_digits (n : Nat) : ∀ c ∈ natDigits n, ∃ k, c = digitChar k := by
  induction n using Nat.strongRecOn with
  | _ n ih =>
    rw [natDigits_eq]
    split
    · intro c hc; simp at hc; exact ⟨n, hc⟩
    · intro c hc
      simp at hc
      rcases hc with hc | hc
      · exact ih (n / 10) (by omega) c hc
      · exact ⟨n, hc⟩

theorem natDigits_ne_nil (n : Nat) : natDigits n ≠ [] := by
  rw [natDigits_eq]; split <;> simp

/-- positional value of a digit string -/
def decVal (l : List Char) (acc : Nat) : Nat := l.foldl (fun a c => a * 10 + digitVal c) acc

theorem decVal_natDigits (n : Nat) : decVal (natDigits n) 0 = n := by
  induction n using Nat.strongRecOn with
  | _ n ih =>
    rw [natDigits_eq]
    split
    · simp [decVal]; omega
    · have := ih (n / 10) (by omega)
      simp only [decVal, List.foldl_append, List.foldl_cons, List.foldl_nil] at this ⊢
      rw [this]; simp; omega

theorem natDigits_length (n k : Nat) (hk : 0 < k) (h : n < 10 ^ k) : (natDigits n).length ≤ k := by
  induction k generalizing n with
  | zero => omega
  | succ k ih =>
    rw [natDigits_eq]
    split
    · simp
    · have hk' : 0 < k := by
        cases k with
        | zero => simp at h; omega
        | succ _ => omega
      have : n / 10 < 10 ^ k := by
        rw [Nat.pow_succ] at h; omega
      have := ih (n / 10) hk' this
      simp; omega

theorem digitChar_toNat (k : Nat) : (digitChar k).toNat = 48 + k % 10 := by
  have hk : k % 10 < 10 := Nat.mod_lt _ (by decide)
  unfold digitChar
  generalize k % 10 = m at hk
  revert m
  decide

theorem digitValue_digit (m : Nat) (h : m < 10) : digitValue (48 + m) = m := by
  revert m; decide

/-- CPython's digit scanner on a plain digit string: consumes everything, value = positional value -/
theorem scanDigits_digits (l : List Char) (hl : ∀ c ∈ l, ∃ k, c = digitChar k) (acc nd : Nat) (pu : Bool)
    (hp : l ≠ [] ∨ pu = false) :
    scanDigits 10 (l.map Char.toNat) acc nd pu = some (decVal l acc, nd + l.length, []) := by
  induction l generalizing acc nd pu with
  | nil => simp at hp; simp [scanDigits, hp, decVal]
  | cons c cs ih =>
    obtain ⟨k, hk⟩ := hl c (by simp)
    have hc : c.toNat = 48 + k % 10 := by rw [hk]; exact digitChar_toNat k
    have hm : k % 10 < 10 := Nat.mod_lt _ (by decide)
    have h95 : (c.toNat == 95) = false := by simp [hc]; omega
    have hdv : digitValue c.toNat = k % 10 := by rw [hc]; exact digitValue_digit _ hm
    have hlt : digitValue c.toNat < 10 := by omega
    simp only [List.map_cons, scanDigits, h95, hlt, if_true, Bool.false_eq_true, if_false]
    rw [ih (fun c' hc' => hl c' (by simp [hc'])) _ _ false (Or.inr rfl)]
    have hdval : digitVal c = k % 10 := by rw [hk]; simp
    simp [decVal, hdv, hdval]; omega

theorem digit_code_facts (c : Char) (h : ∃ k, c = digitChar k) :
    48 ≤ c.toNat ∧ c.toNat ≤ 57 := by
  obtain ⟨k, hk⟩ := h
  have := digitChar_toNat k
  have hm : k % 10 < 10 := Nat.mod_lt _ (by decide)
  rw [hk]; omega

/-- PyLong_FromString on a non-empty plain digit string in base 10 -/
theorem finishScan_digits (neg : Bool) (l : List Char) (hl : ∀ c ∈ l, ∃ k, c = digitChar k) (hne : l ≠ [])
    (hlen : l.length ≤ 4300) :
    finishScan isCSpace neg 10 false (l.map Char.toNat) = .ok (if neg then -(decVal l 0 : Int) else (decVal l 0 : Int)) := by
  obtain ⟨c, cs, rfl⟩ := List.exists_cons_of_ne_nil hne
  have hc := digit_code_facts c (hl c (by simp))
  unfold finishScan
  have hs := scanDigits_digits (c :: cs) hl 0 0 false (Or.inl (by simp))
  split
  · rename_i heq; simp at heq; omega
  · rw [hs]
    simp only [Nat.zero_add]
    have h1 : ((c :: cs).length == 0) = false := by simp
    have h2 : (!isPow2Base 10 && decide ((c :: cs).length > maxStrDigits)) = false := by
      have hl' : cs.length + 1 ≤ 4300 := by simpa using hlen
      simp [maxStrDigits]; intro _; omega
    simp only [h1, h2, Bool.false_eq_true, if_false, Bool.false_and, List.dropWhile_nil, List.isEmpty_nil, Bool.not_true]

theorem strToBytes_ascii (s : List Char) (h : ∀ c ∈ s, 0 < c.toNat ∧ c.toNat < 127) :
    strToBytes s = some (s.map Char.toNat) := by
  unfold strToBytes
  induction s with
  | nil => simp
  | cons c cs ih =>
    have hc := h c (by simp)
    have := ih (fun c' hc' => h c' (by simp [hc']))
    have e0 : (c.toNat == 0) = false := by simp; omega
    rw [List.mapM_cons]
    simp only [e0, hc.2, Bool.false_eq_true, if_false, if_true, this, bind, Option.bind, pure, List.map_cons]

/-- **int(str(v)) == v** for the model of CPython int(): the decimal text of any integer of up to 4300 digits is read
    back as that integer -/
theorem intOfStr_intStr (v : Int) (hlen : (natDigits v.natAbs).length ≤ 4300) : intOfStr (intStr v) 10 = .ok v := by
  have hd := natDigits_digits v.natAbs
  have hne := natDigits_ne_nil v.natAbs
  have hval := decVal_natDigits v.natAbs
  obtain ⟨c, cs, hcs⟩ := List.exists_cons_of_ne_nil hne
  have hcc := digit_code_facts c (hd c (by rw [hcs]; simp))
  have hall : ∀ c ∈ natDigits v.natAbs, 0 < c.toNat ∧ c.toNat < 127 := by
    intro c hc; have := digit_code_facts c (hd c hc); omega
  unfold intOfStr intStr
  by_cases hneg : v < 0
  · simp only [hneg, if_true]
    have hb : strToBytes ('-' :: natDigits v.natAbs) = some (45 :: (natDigits v.natAbs).map Char.toNat) := by
      have := strToBytes_ascii ('-' :: natDigits v.natAbs) (by
        intro c hc; simp at hc; rcases hc with rfl | hc
        · decide
        · exact hall c hc)
      simpa using this
    simp only [hb]
    unfold longFromString
    have hdw : List.dropWhile isCSpace (45 :: (natDigits v.natAbs).map Char.toNat) = 45 :: (natDigits v.natAbs).map Char.toNat := by
      simp [List.dropWhile, isCSpace]
    simp only [hdw, stripSign, pickBase]
    have hsp : stripPrefix 10 ((natDigits v.natAbs).map Char.toNat) = (natDigits v.natAbs).map Char.toNat := by
      unfold stripPrefix; split <;> simp
    simp only [show ((10 : Nat) != 0) = true by decide, if_true, hsp]
    rw [finishScan_digits true _ hd hne hlen, hval]
    simp; omega
  · simp only [hneg, if_false]
    have e : v.toNat = v.natAbs := by omega
    rw [e]
    simp only [strToBytes_ascii _ hall]
    unfold longFromString
    have hdw : List.dropWhile isCSpace ((natDigits v.natAbs).map Char.toNat) = (natDigits v.natAbs).map Char.toNat := by
      have hsp : isCSpace c.toNat = false := by
        simp only [isCSpace, Bool.or_eq_false_iff, Bool.and_eq_false_iff, decide_eq_false_iff_not, beq_eq_false_iff_ne]
        omega
      rw [hcs]; simp [List.dropWhile, hsp]
    have hss : stripSign ((natDigits v.natAbs).map Char.toNat) = (false, (natDigits v.natAbs).map Char.toNat) := by
      rw [hcs]; simp only [List.map_cons]; unfold stripSign
      split
      · rename_i heq; simp at heq; omega
      · rename_i heq; simp at heq; omega
      · rfl
    have hsp : stripPrefix 10 ((natDigits v.natAbs).map Char.toNat) = (natDigits v.natAbs).map Char.toNat := by
      unfold stripPrefix; split <;> simp
    simp only [hdw, hss, pickBase, show ((10 : Nat) != 0) = true by decide, if_true, hsp]
    rw [finishScan_digits false _ hd hne hlen, hval]
    simp; omega

theorem digit_not_space (c : Char) (h : ∃ k, c = digitChar k) : isStrSpace c = false := by
  have := digit_code_facts c h
  simp [isStrSpace]
  omega

theorem pyStrip_of_ends (l : List Char) (hne : l ≠ []) (hh : isStrSpace (l.head hne) = false)
    (hl : isStrSpace (l.getLast hne) = false) : pyStrip l = l := by
  unfold pyStrip
  have h1 : l.dropWhile isStrSpace = l := by
    obtain ⟨a, t, rfl⟩ := List.exists_cons_of_ne_nil hne
    simp at hh; simp [List.dropWhile, hh]
  rw [h1]
  have h2 : l.reverse = l.getLast hne :: l.dropLast.reverse := by
    conv => lhs; rw [← List.dropLast_concat_getLast hne]
    simp
  rw [h2]
  simp only [List.dropWhile, hl]
  rw [← h2]; simp

theorem intStr_chars (v : Int) : ∀ c ∈ intStr v, c = '-' ∨ ∃ k, c = digitChar k := by
  intro c hc
  unfold intStr at hc
  split at hc
  · simp at hc
    rcases hc with hc | hc
    · exact Or.inl hc
    · exact Or.inr (natDigits_digits _ c hc)
  · exact Or.inr (natDigits_digits _ c hc)

theorem intStr_ne_nil (v : Int) : intStr v ≠ [] := by
  unfold intStr; split
  · simp
  · exact natDigits_ne_nil _

theorem pyStrip_intStr (v : Int) : pyStrip (intStr v) = intStr v := by
  apply pyStrip_of_ends _ (intStr_ne_nil v)
  · rcases intStr_chars v _ (List.head_mem (intStr_ne_nil v)) with h | h
    · rw [h]; decide
    · exact digit_not_space _ h
  · -- the last character is a digit
    have : ∃ k, (intStr v).getLast (intStr_ne_nil v) = digitChar k := by
      unfold intStr
      split
      · have hne := natDigits_ne_nil v.natAbs
        have : ('-' :: natDigits v.natAbs).getLast (by simp) = (natDigits v.natAbs).getLast hne := by
          simp [List.getLast_cons hne]
        rw [this]; exact natDigits_digits _ _ (List.getLast_mem hne)
      · exact natDigits_digits _ _ (List.getLast_mem _)
    exact digit_not_space _ this

theorem hexCore_digits' (l : List Char) (hl : ∀ c ∈ l, ∃ k, c = digitChar k) : isHexPattern.hexCore l = false := by
  unfold isHexPattern.hexCore
  split
  · rename_i x ds
    have hx := digit_code_facts x (hl x (by simp))
    have e1 : (x == 'x') = false := by simp; intro h; subst h; simp at hx
    have e2 : (x == 'X') = false := by simp; intro h; subst h; simp at hx
    simp [e1, e2]
  · rfl

theorem intStr_not_hex (v : Int) : isHexPattern (intStr v) = false := by
  unfold isHexPattern intStr
  split
  · have : isHexPattern.hexBody ('-' :: natDigits v.natAbs) = natDigits v.natAbs := rfl
    rw [this]; exact hexCore_digits' _ (natDigits_digits _)
  · have hne := natDigits_ne_nil v.toNat
    obtain ⟨c, cs, hcs⟩ := List.exists_cons_of_ne_nil hne
    have hc := digit_code_facts c (natDigits_digits _ c (by rw [hcs]; simp))
    have : isHexPattern.hexBody (natDigits v.toNat) = natDigits v.toNat := by
      rw [hcs]; unfold isHexPattern.hexBody
      split
      · rename_i heq; simp at heq; have := heq.1; subst this; simp at hc
      · rename_i heq; simp at heq; have := heq.1; subst this; simp at hc
      · rfl
    rw [this]; exact hexCore_digits' _ (natDigits_digits _)

theorem mkIntCfg_plain (t : IntTy) (v : Int) (h1 : t.lo ≤ v) (h2 : v ≤ t.hi) :
    mkIntCfg t { pos := [.int v] } = .ok ⟨t, v⟩ := by
  have : ¬ (v > t.hi ∨ v < t.lo) := by omega
  simp [mkIntCfg, mkInt, effArgs, pyInt, intOf1, bind, Except.bind, this]

theorem int_digits_bound (t : IntTy) (v : Int) (h1 : t.lo ≤ v) (h2 : v ≤ t.hi) : (natDigits v.natAbs).length ≤ 4300 := by
  have hl := (limits_spec t).1
  have hh := (limits_spec t).2
  have hb : v.natAbs < 10 ^ 20 := by
    rw [hl] at h1; rw [hh] at h2
    cases t <;> simp [IntTy.specLo, IntTy.specHi, IntTy.signed, IntTy.bits] at h1 h2 <;> omega
  have := natDigits_length v.natAbs 20 (by omega) hb
  omega

/-- **integers print/parse losslessly**: the decimal text CIMInt.__str__ / atomic_to_cim_xml writes for an in-range value is
    read back by unpack_numeric as the same value of the same type — whatever float() would say about the text -/
theorem unpackNumeric_intStr (pf : Option Nat) (t : IntTy) (v : Int) (h1 : t.lo ≤ v) (h2 : v ≤ t.hi) :
    unpackNumeric pf (intStr v) (.int t) = .ok (.cimInt t v) := by
  unfold unpackNumeric
  simp only [pyStrip_intStr, intStr_not_hex, intOfStr_intStr v (int_digits_bound t v h1 h2), Bool.false_eq_true, if_false,
    mkIntCfg_plain t v h1 h2, Except.map]

/-! ### module-level tocimxml(): arrays of integers with None items -/

theorem item_rt_int (f17 f11 : Nat → List Char) (utf8 : List Nat → Option (List Char)) (pf : List Char → Option Nat)
    (t : IntTy) (s : Sc) (h : s = .none ∨ ∃ v, s = .cimInt t v ∧ t.lo ≤ v ∧ v ≤ t.hi) :
    ∃ x, tocimxmlItem f17 f11 utf8 true s = .ok x ∧ unpackItem pf (.num (.int t)) x = .ok s := by
  rcases h with rfl | ⟨v, rfl, h1, h2⟩
  · exact ⟨.valueNull, rfl, rfl⟩
  · refine ⟨.value (some (intStr v)), rfl, ?_⟩
    simp only [unpackItem, unpackSingleValue]
    exact unpackNumeric_intStr _ t v h1 h2

theorem array_rt_int (f17 f11 : Nat → List Char) (utf8 : List Nat → Option (List Char)) (pf : List Char → Option Nat)
    (t : IntTy) (l : List Sc) (h : ∀ s ∈ l, s = .none ∨ ∃ v, s = .cimInt t v ∧ t.lo ≤ v ∧ v ≤ t.hi) :
    ∃ xs, l.mapM (tocimxmlItem f17 f11 utf8 true) = .ok xs ∧ xs.mapM (unpackItem pf (.num (.int t))) = .ok l := by
  induction l with
  | nil => exact ⟨[], rfl, rfl⟩
  | cons s r ih =>
    obtain ⟨x, hx1, hx2⟩ := item_rt_int f17 f11 utf8 pf t s (h s (by simp))
    obtain ⟨xs, hxs1, hxs2⟩ := ih (fun s' hs' => h s' (by simp [hs']))
    refine ⟨x :: xs, ?_, ?_⟩
    · simp [List.mapM_cons, hx1, hxs1, bind, Except.bind, pure, Except.pure]
    · simp [List.mapM_cons, hx2, hxs2, bind, Except.bind, pure, Except.pure]

end Proofs.CimTypes
