/-
C03 — header/body agreement of `_imethodcall`, ExportIndication, and InvokeMethod (`_methodcall`).
-/
import Proofs.Lemmas.DtdReq2

set_option linter.unusedSimpArgs false
set_option linter.unusedVariables false

namespace Proofs.DtdReq
open Pywbem.Model Pywbem.Model.Dtd Pywbem.Model.XmlText Pywbem.Model.Sendable Proofs.Dtd Proofs.DtdEnc
open Pywbem.Model.Req Pywbem.Proto
open Pywbem.Generated

/-! ### the namespace written into LOCALNAMESPACEPATH reads back as the namespace -/

theorem joinSlash_cons_cons (a b : Str) (rest : List Str) : joinSlash (a :: b :: rest) = a ++ '/' :: joinSlash (b :: rest) := rfl

theorem joinSlash_splitSlash : ∀ (s : Str), joinSlash (splitSlash s) = s
  | [] => rfl
  | c :: cs => by
    have ih := joinSlash_splitSlash cs
    have hne := splitSlash_ne_nil cs
    simp only [splitSlash]
    cases hs : splitSlash cs with
    | nil => exact absurd hs hne
    | cons p ps =>
      rw [hs] at ih
      by_cases hc : c = '/'
      · subst hc
        simp only [if_true]
        rw [joinSlash_cons_cons, ih]; rfl
      · simp only [hc, if_false]
        cases ps with
        | nil => simp only [joinSlash] at ih ⊢; rw [ih]
        | cons q qs =>
          rw [joinSlash_cons_cons] at ih ⊢
          rw [← ih]; rfl

theorem nsNames_nsElems : ∀ (l : List Str), nsNames (l.map (fun n => E "NAMESPACE" [("NAME".toList, n)] [])) = l
  | [] => rfl
  | n :: l => by
    simp only [List.map_cons, E, nsNames, nsNames_nsElems l]
    have : Xml.attr [("NAME".toList, n)] "NAME".toList = some n := by simp [Xml.attr]
    rw [show (Xml.attr [("NAME".toList, n)] "NAME".toList).getD [] = n by rw [this]; rfl]
    congr 1
    have := nsNames_nsElems l
    simpa [E] using this

theorem lnpNamespace_localNsPath (n : Str) : lnpNamespace (localNsPath n) = n := by
  have h1 := nsNames_nsElems (splitSlash n)
  have h2 := joinSlash_splitSlash n
  unfold localNsPath
  show joinSlash (nsNames ((splitSlash n).map (fun n => E "NAMESPACE" [("NAME".toList, n)] []))) = n
  rw [h1, h2]

/-- `_imethodcall`: CIMMethod is the NAME of the IMETHODCALL element, CIMObject the namespace of its
    LOCALNAMESPACEPATH -/
theorem imethodcall_headers (C : Codec) (m : String) (ns : Arg) (params : List (String × Arg)) (h : Headers) (x : Xml)
    (hr : imethodcall C m ns params = .ok (h, x)) :
    header h "CIMOperation" = some "MethodCall".toList ∧
    header h "CIMMethod" = some m.toList ∧ bodyMethodName x = some m.toList ∧
    ∃ n, ns = .str n ∧ header h "CIMObject" = some n ∧ bodyNamespace x = some n := by
  cases ns with
  | str n =>
    simp only [imethodcall] at hr
    obtain ⟨plist, hpl, hr⟩ := bind_ok hr
    obtain ⟨lnp, hl, hr⟩ := bind_ok hr
    obtain ⟨doc, hd, hr⟩ := bind_ok hr
    cases hr
    obtain ⟨rfl, _⟩ := checked_ok hl
    obtain ⟨rfl, _⟩ := checked_ok hd
    refine ⟨by simp [header, Xml.attr], by simp [header, Xml.attr], ?_, n, rfl, by simp [header, Xml.attr], ?_⟩
    · simp [bodyMethodName, bodyCall, cimElem, E, Xml.attr]
    · have := lnpNamespace_localNsPath n
      simp only [bodyNamespace, bodyCall, cimElem, E, if_true]
      rw [show lnpNamespace (localNsPath n) = n from this]
  | none => simp [imethodcall] at hr
  | bool b => simp [imethodcall] at hr
  | int i => simp [imethodcall] at hr
  | className p => simp [imethodcall] at hr
  | instName p => simp [imethodcall] at hr
  | inst i => simp [imethodcall] at hr
  | cls c => simp [imethodcall] at hr
  | qdecl q => simp [imethodcall] at hr
  | list l => simp [imethodcall] at hr
  | other => simp [imethodcall] at hr

/-! ### ExportIndication -/

theorem exportIndication_valid (C : Codec) (a : Arg) (h : Headers) (x : Xml) (hs : argShape a = true)
    (hr : exportIndication C a = .ok (h, x)) :
    validTree D x = true ∧ header h "CIMExportMethod" = bodyMethodName x := by
  simp only [exportIndication] at hr
  obtain ⟨a', ha, hr⟩ := bind_ok hr
  cases a with
  | inst i =>
    simp only [iparamInstance] at ha; cases ha
    simp only at hr
    obtain ⟨plist, hpl, hr⟩ := bind_ok hr
    obtain ⟨doc, hd, hr⟩ := bind_ok hr
    cases hr
    obtain ⟨rfl, hchars⟩ := checked_ok hd
    simp only [iparamValues] at hpl
    obtain ⟨xi, hxi, hpl⟩ := bind_ok hpl
    obtain ⟨rest, hrest, hpl⟩ := bind_ok hpl
    cases hrest
    cases hpl
    simp only [argXml, instXml] at hxi
    split at hxi
    · cases hxi
    obtain ⟨rfl, _⟩ := checked_ok hxi
    have hshape : shapeInst (instSetPath (fun _ => none) i) = true := by
      cases i
      simp only [argShape, shapeInst, Bool.and_eq_true] at hs
      simp only [instSetPath, shapeInst, Bool.and_eq_true]
      exact ⟨hs.1, trivial⟩
    have hi : structNode D (encInst C (instSetPath (fun _ => none) i)) = true := struct_encInst C _ hshape
    have hie : ∃ as ks, encInst C (instSetPath (fun _ => none) i) = .elem "INSTANCE".toList as ks := by
      cases i; exact ⟨_, _, by simp only [instSetPath, encInst, E]; rfl⟩
    obtain ⟨as, ks, hie⟩ := hie
    have hpv : structNode D (E "EXPPARAMVALUE" [("NAME".toList, "NewIndication".toList)]
        [encInst C (instSetPath (fun _ => none) i)]) = true := by
      apply struct_single dtdDecl_EXPPARAMVALUE hie (by rfl)
        (attrs_name_only "NAME" "NewIndication".toList (by rfl) (by rfl))
        (r := Re.alts [Re.opt (.sym "INSTANCE".toList), Re.opt (.sym "VALUE".toList),
          Re.opt (.sym "METHODRESPONSE".toList), Re.opt (.sym "IMETHODRESPONSE".toList)]) (by rfl) _ hi
      exact lang_alts_mem (r := Re.opt (.sym "INSTANCE".toList)) (by simp) (lang_opt_some (Lang.sym _))
    have hcall : structNode D (E "EXPMETHODCALL" [("NAME".toList, "ExportIndication".toList)]
        [E "EXPPARAMVALUE" [("NAME".toList, "NewIndication".toList)] [encInst C (instSetPath (fun _ => none) i)]]) = true :=
      struct_single dtdDecl_EXPMETHODCALL (by simp only [E]; rfl) (by rfl)
        (attrs_name_only "NAME" "ExportIndication".toList (by rfl) (by rfl))
        (r := .star (.sym "EXPPARAMVALUE".toList)) (by rfl) (lang_star_replicate _ 1) hpv
    have hsr := struct_single dtdDecl_SIMPLEEXPREQ (n := "SIMPLEEXPREQ") (as := []) (by simp only [E]; rfl) (by rfl)
      (by decide) (r := .sym "EXPMETHODCALL".toList) (by rfl) (Lang.sym _) hcall
    have hdoc := struct_envelope reqCimVersion.toList reqDtdVersion.toList reqMessageId.toList reqProtocolVersion.toList
      (by simp only [E]; rfl) (by simp [simpleNames]) hsr
    refine ⟨?_, ?_⟩
    · simp only [validTree, Bool.and_eq_true]; exact ⟨⟨rfl, hdoc⟩, hchars⟩
    · simp [header, Xml.attr, bodyMethodName, bodyCall, cimElem, E]
  | _ => simp [iparamInstance] at ha

end Proofs.DtdReq
