/-
C01 — stage 2: namespaces, hosts, class names, keybindings and the six path element forms;
the path round trip by mutual structural induction over Path / Key / List Key (reference keys nest
to any depth).
-/
import Proofs.Lemmas.CimXml2

set_option linter.unusedSimpArgs false
set_option linter.unusedVariables false
set_option linter.unusedSectionVars false

namespace Proofs.CimXml
open Pywbem.Model Pywbem.Model.XmlText Pywbem.Proto

/-! ### small structural facts about child lists -/

theorem name_elem (n : Str) (as) (ks : List Xml) : (Xml.elem n as ks).name = n := rfl
theorem name_E (n : String) (as) (ks : List Xml) : (E n as ks).name = n.toList := rfl
theorem isElem_E (n : String) (as) (ks : List Xml) : (E n as ks).isElem = true := rfl
theorem noText_nil : noText [] = true := rfl
theorem noText_cons_elem (n : Str) (as) (ks rest : List Xml) :
    noText (.elem n as ks :: rest) = noText rest := by simp [noText]
theorem noText_cons_E (n : String) (as) (ks rest : List Xml) :
    noText (E n as ks :: rest) = noText rest := noText_cons_elem _ _ _ _
theorem elemCount_nil : elemCount [] = 0 := rfl
theorem elemCount_cons_elem (n : Str) (as) (ks rest : List Xml) :
    elemCount (.elem n as ks :: rest) = elemCount rest + 1 := by simp [elemCount, Xml.elemKids]
theorem firstElem_cons_elem (n : Str) (as) (ks rest : List Xml) :
    firstElem (.elem n as ks :: rest) = some (.elem n as ks) := rfl
theorem elemKids_nil : Xml.elemKids [] = [] := rfl
theorem elemKids_cons_elem (n : Str) (as) (ks rest : List Xml) :
    Xml.elemKids (.elem n as ks :: rest) = .elem n as ks :: Xml.elemKids rest := rfl

theorem getAttrD_cons (k v : Str) (rest) (k' d : String) :
    getAttrD ((k, v) :: rest) k' d = if k = k'.toList then v else getAttrD rest k' d := by
  unfold getAttrD; rw [attr_cons]; split <;> simp

theorem getAttrD_single (k : String) (v : Str) (rest) (d : String) :
    getAttrD ((k.toList, v) :: rest) k d = v := by
  rw [getAttrD_cons, if_pos rfl]

theorem attrKeysOk_nil : attrKeysOk [] [] [] = true := rfl

theorem attrKeysOk_single (k : String) (v : Str) : attrKeysOk [(k.toList, v)] [k] [] = true := by
  apply attrKeysOk_of
  · intro k' hk; simp at hk; subst hk; simp
  · exact keysIn_cons (by simp) (keysIn_nil _)

/-! ### namespaces, host, class name -/

theorem nsJoin_cons_cons (c : Char) (p : Str) (ps : List Str) :
    nsJoin ((c :: p) :: ps) = c :: nsJoin (p :: ps) := by
  cases ps <;> simp [nsJoin]

theorem splitSlash_ne_nil (s : Str) : splitSlash s ≠ [] := by
  cases s with
  | nil => simp [splitSlash]
  | cons c cs =>
    simp only [splitSlash]
    split
    · simp
    · split <;> simp

/-- `'/'.join(ns.split('/')) == ns` -/
theorem nsJoin_splitSlash (s : Str) : nsJoin (splitSlash s) = s := by
  induction s with
  | nil => simp [splitSlash, nsJoin]
  | cons c cs ih =>
    simp only [splitSlash]
    by_cases hc : c = '/'
    · simp only [hc, if_true]
      cases h : splitSlash cs with
      | nil => exact absurd h (splitSlash_ne_nil cs)
      | cons p ps => rw [h] at ih; simp [nsJoin, ih]
    · simp only [hc, if_false]
      cases h : splitSlash cs with
      | nil => exact absurd h (splitSlash_ne_nil cs)
      | cons p ps => rw [h] at ih; simp only [nsJoin_cons_cons, ih]

def nsElem (n : Str) : Xml := E "NAMESPACE" [("NAME".toList, n)] []

theorem localNsPath_eq (ns : Str) : localNsPath ns = E "LOCALNAMESPACEPATH" [] ((splitSlash ns).map nsElem) := rfl

theorem checkNode_nsElem (n : Str) :
    checkNode (nsElem n) "NAMESPACE" ["NAME"] [] (some []) false = .ok ([("NAME".toList, n)], []) :=
  checkNode_ok "NAMESPACE" _ _ _ _ _ _ (attrKeysOk_single "NAME" n) (by rfl) (Or.inr rfl)

theorem decNamespaces_map (l : List Str) : decNamespaces (l.map nsElem) = .ok l := by
  induction l with
  | nil => rfl
  | cons n l ih =>
    have h := checkNode_nsElem n
    simp only [List.map_cons]
    unfold nsElem E at h ⊢
    simp only [decNamespaces]
    unfold nsElem E at ih
    rw [h, ih]
    simp only [bind_ok, pure_eq_ok, getAttrD_single]

theorem allNames_nsElems (l : List Str) : AllNames (l.map nsElem) ["NAMESPACE"] := by
  intro k hk
  simp only [List.mem_map] at hk
  obtain ⟨n, _, rfl⟩ := hk
  exact ⟨rfl, by simp [nsElem, name_E]⟩

theorem decLocalNsPath_ok (ns : Str) : decLocalNsPath (localNsPath ns) = .ok ns := by
  rw [localNsPath_eq]
  have hA := allNames_nsElems (splitSlash ns)
  have hc : checkNode (E "LOCALNAMESPACEPATH" [] ((splitSlash ns).map nsElem)) "LOCALNAMESPACEPATH" [] []
      (some ["NAMESPACE"]) false = .ok ([], (splitSlash ns).map nsElem) :=
    checkNode_ok _ _ _ _ _ _ _ attrKeysOk_nil (kidsOk_of_allNames _ hA (by simp)) (Or.inr (noText_of_allNames hA))
  unfold decLocalNsPath
  rw [hc]
  simp only [bind_ok, elemKids_of_allNames hA]
  have hne : ((splitSlash ns).map nsElem).isEmpty = false := by
    cases h : splitSlash ns with
    | nil => exact absurd h (splitSlash_ne_nil ns)
    | cons a b => rfl
  rw [hne]
  simp only [Bool.false_eq_true, if_false, decNamespaces_map, bind_ok, pure_eq_ok, nsJoin_splitSlash]

theorem decHost_ok (h : Str) : decHost (E "HOST" [] [.text h]) = .ok h := by
  unfold decHost
  rw [checkNode_ok "HOST" [] [.text h] [] [] (some []) true attrKeysOk_nil (by simp [kidsOk, Xml.elemKids]) (Or.inl rfl)]
  simp [Xml.pcdata]

theorem decNsPath_ok (h ns : Str) : decNsPath (nsPath h ns) = .ok (h, ns) := by
  unfold decNsPath nsPath
  rw [checkNode_ok "NAMESPACEPATH" [] _ [] [] none false attrKeysOk_nil (by rfl) (Or.inr (by rfl))]
  have e : Xml.elemKids [E "HOST" [] [Xml.text h], localNsPath ns] = [E "HOST" [] [Xml.text h], localNsPath ns] := rfl
  simp only [bind_ok, e, decHost_ok, decLocalNsPath_ok, pure_eq_ok]

theorem decClassName_ok (c : Str) : decClassName (E "CLASSNAME" [("NAME".toList, c)] []) = .ok c := by
  unfold decClassName
  rw [checkNode_ok "CLASSNAME" _ [] ["NAME"] [] (some []) false (attrKeysOk_single "NAME" c) (by rfl) (Or.inr rfl)]
  simp only [bind_ok, pure_eq_ok, getAttrD_single]

/-! ### KEYVALUE -/

theorem attrKeysOk_keyval (vt : Str) (ty : Option Str) :
    attrKeysOk ([("VALUETYPE".toList, vt)] ++ optAttr "TYPE" ty) [] ["VALUETYPE", "TYPE"] = true := by
  apply attrKeysOk_of
  · intro k hk; simp at hk
  · exact keysIn_append (keysIn_cons (by simp) (keysIn_nil _)) (keysIn_optAttr (by simp))

theorem attr_keyval_TYPE (vt : Str) (ty : Option Str) :
    Xml.attr ([("VALUETYPE".toList, vt)] ++ optAttr "TYPE" ty) "TYPE".toList = ty := by
  cases ty <;> simp [optAttr]

theorem attr_keyval_VT (vt : Str) (ty : Option Str) :
    Xml.attr ([("VALUETYPE".toList, vt)] ++ optAttr "TYPE" ty) "VALUETYPE".toList = some vt := by
  simp

theorem checkNode_keyval (vt : Str) (ty : Option Str) (txt : Str) :
    checkNode (E "KEYVALUE" ([("VALUETYPE".toList, vt)] ++ optAttr "TYPE" ty) [.text txt]) "KEYVALUE" []
      ["VALUETYPE", "TYPE"] (some []) true =
      .ok ([("VALUETYPE".toList, vt)] ++ optAttr "TYPE" ty, [.text txt]) :=
  checkNode_ok _ _ _ _ _ _ _ (attrKeysOk_keyval vt ty) (by simp [kidsOk, Xml.elemKids]) (Or.inl rfl)

theorem pcdata_text (s : Str) : Xml.pcdata [.text s] = s := by simp [Xml.pcdata]

/-- KEYVALUE with a TYPE attribute: converted under that type -/
theorem decKeyValue_typed (C : DecCodec) (vt : Str) (t : Str) (txt : Str) (ht : t ≠ []) :
    decKeyValue C (E "KEYVALUE" ([("VALUETYPE".toList, vt)] ++ optAttr "TYPE" (some t)) [.text txt]) =
      unpackSingle C txt (some t) := by
  unfold decKeyValue
  rw [checkNode_keyval]
  simp only [bind_ok, attr_keyval_TYPE, pcdata_text]
  have h1 : ¬ (some t = some ([] : Str)) := by simp [ht]
  simp only [if_neg h1]

/-- KEYVALUE without TYPE and VALUETYPE numeric: untyped Python number -/
theorem decKeyValue_numeric (C : DecCodec) (txt : Str) :
    decKeyValue C (E "KEYVALUE" ([("VALUETYPE".toList, "numeric".toList)] ++ optAttr "TYPE" none) [.text txt]) =
      unpackSingle C txt none := by
  unfold decKeyValue
  rw [checkNode_keyval]
  simp only [bind_ok, attr_keyval_TYPE, attr_keyval_VT, pcdata_text]
  have h1 : ¬ ((none : Option Str) = some ([] : Str)) := by simp
  have h2 : ¬ ((some "numeric".toList = (none : Option Str)) ∨ some "numeric".toList = some "string".toList) := by decide
  have h3 : ¬ (some "numeric".toList = some "boolean".toList) := by decide
  simp only [if_neg h1, if_neg h2, if_neg h3, if_true]

/-! ### generic unfoldings of the mutually recursive path decoders -/

section
variable (C : DecCodec)

theorem decKeybinding_kv (n : Str) (as) (ks : List Xml) (k : Xml) (hn : n = "KEYBINDING".toList)
    (ha : attrKeysOk as ["NAME"] [] = true) (ht : noText ks = true) (hc : elemCount ks = 1)
    (hf : firstElem ks = some k) (hk : k.name = "KEYVALUE".toList) :
    decKeybinding C (.elem n as ks) =
      (do let v ← decKeyValue C k; pure (.mk (some (getAttrD as "NAME" "")) v)) := by
  simp only [decKeybinding]
  simp only [if_neg (show ¬ (n ≠ "KEYBINDING".toList) from fun h => h hn), ha, ht, hc, hf, if_pos hk,
    Bool.not_true, Bool.false_eq_true, if_false, ne_eq, not_true_eq_false]

theorem decKeybinding_ref (n : Str) (as) (ks : List Xml) (k : Xml) (hn : n = "KEYBINDING".toList)
    (ha : attrKeysOk as ["NAME"] [] = true) (ht : noText ks = true) (hc : elemCount ks = 1)
    (hf : firstElem ks = some k) (hk1 : k.name ≠ "KEYVALUE".toList) (hk : k.name = "VALUE.REFERENCE".toList) :
    decKeybinding C (.elem n as ks) =
      (do match (← decValueRefKids C ks) with
          | [p] => pure (.mk (some (getAttrD as "NAME" "")) (.ref p))
          | _ => perr) := by
  simp only [decKeybinding]
  simp only [if_neg (show ¬ (n ≠ "KEYBINDING".toList) from fun h => h hn), ha, ht, hc, hf, if_neg hk1, if_pos hk,
    Bool.not_true, Bool.false_eq_true, if_false, ne_eq, not_true_eq_false]
  rfl

theorem decValueRefKids_nil : decValueRefKids C [] = .ok [] := by simp only [decValueRefKids]; rfl

theorem decValueRefKids_cons (n : Str) (as) (kk ks : List Xml) (hn : n = "VALUE.REFERENCE".toList) :
    decValueRefKids C (.elem n as kk :: ks) =
      (do let p ← decValueReference C (.elem n as kk); let rest ← decValueRefKids C ks; pure (p :: rest)) := by
  simp only [decValueRefKids]
  simp only [if_pos hn]

theorem decPathKids_nil : decPathKids C [] = .ok [] := by simp only [decPathKids]; rfl

theorem decPathKids_cons (n : Str) (as) (kk ks : List Xml) :
    decPathKids C (.elem n as kk :: ks) =
      (do let p ← decPathAny C (.elem n as kk); let rest ← decPathKids C ks; pure (p :: rest)) := by
  simp only [decPathKids]

theorem decValueReference_one (n : Str) (as) (ks : List Xml) (hn : n = "VALUE.REFERENCE".toList)
    (ha : attrKeysOk as [] [] = true) (ht : noText ks = true) (hc : elemCount ks = 1) :
    decValueReference C (.elem n as ks) =
      (do match (← decPathKids C ks) with
          | [p] => pure p
          | _ => perr) := by
  simp only [decValueReference]
  simp only [if_neg (show ¬ (n ≠ "VALUE.REFERENCE".toList) from fun h => h hn), ha, ht, hc,
    Bool.not_true, Bool.false_eq_true, if_false, ne_eq, not_true_eq_false]
  rfl

/-- a VALUE.REFERENCE around one path element -/
theorem decValueReference_E (pn : Str) (pas) (pks : List Xml) (p : Path)
    (h : decPathAny C (.elem pn pas pks) = .ok p) :
    decValueReference C (E "VALUE.REFERENCE" [] [.elem pn pas pks]) = .ok p := by
  unfold E
  rw [decValueReference_one C _ _ _ rfl attrKeysOk_nil (by rw [noText_cons_elem]; rfl)
    (by rw [elemCount_cons_elem]; rfl)]
  rw [decPathKids_cons, h, decPathKids_nil]
  rfl

theorem decKeybindings_nil : decKeybindings C [] = .ok [] := by simp only [decKeybindings]; rfl

theorem decKeybindings_cons (n : Str) (as) (kk ks : List Xml) (hn : n = "KEYBINDING".toList) :
    decKeybindings C (.elem n as kk :: ks) =
      (do let kb ← decKeybinding C (.elem n as kk); let rest ← decKeybindings C ks; pure (kb :: rest)) := by
  simp only [decKeybindings]
  simp only [if_neg (show ¬ (n ≠ "KEYBINDING".toList) from fun h => h hn)]

theorem decInstanceName_empty (n : Str) (as) (ks : List Xml) (hn : n = "INSTANCENAME".toList)
    (ha : attrKeysOk as ["CLASSNAME"] [] = true) (ht : noText ks = true) (hf : firstElem ks = none) :
    decInstanceName C (.elem n as ks) = .ok (.inst (getAttrD as "CLASSNAME" "") none none []) := by
  simp only [decInstanceName]
  simp only [if_neg (show ¬ (n ≠ "INSTANCENAME".toList) from fun h => h hn), ha, ht, hf,
    Bool.not_true, Bool.false_eq_true, if_false]
  rfl

theorem decInstanceName_kb (n : Str) (as) (ks : List Xml) (k0 : Xml) (hn : n = "INSTANCENAME".toList)
    (ha : attrKeysOk as ["CLASSNAME"] [] = true) (ht : noText ks = true) (hf : firstElem ks = some k0)
    (h1 : k0.name ≠ "KEYVALUE".toList) (h2 : k0.name ≠ "VALUE.REFERENCE".toList)
    (h3 : k0.name = "KEYBINDING".toList) :
    decInstanceName C (.elem n as ks) =
      (do let kbs ← decKeybindings C ks
          mkInstanceName (getAttrD as "CLASSNAME" "") (kbs.foldl (fun acc k => kbUpdate k acc) [])) := by
  simp only [decInstanceName]
  simp only [if_neg (show ¬ (n ≠ "INSTANCENAME".toList) from fun h => h hn), ha, ht, hf,
    Bool.not_true, Bool.false_eq_true, if_false, if_neg h1, if_neg h2, if_pos h3]

theorem decInstNameKids_nil : decInstNameKids C [] = .ok [] := by simp only [decInstNameKids]; rfl

theorem decInstNameKids_hit (n : Str) (as) (kk ks : List Xml) (hn : n = "INSTANCENAME".toList) :
    decInstNameKids C (.elem n as kk :: ks) =
      (do let p ← decInstanceName C (.elem n as kk); let rest ← decInstNameKids C ks; pure (p :: rest)) := by
  simp only [decInstNameKids]
  simp only [if_pos hn]

theorem decInstNameKids_skip (n : Str) (as) (kk ks : List Xml) (hn : n ≠ "INSTANCENAME".toList) :
    decInstNameKids C (.elem n as kk :: ks) = decInstNameKids C ks := by
  simp only [decInstNameKids]
  simp only [if_neg hn]

theorem decPathAny_instname (n : Str) (as) (ks : List Xml) (hn : n = "INSTANCENAME".toList) :
    decPathAny C (.elem n as ks) = decInstanceName C (.elem n as ks) := by
  simp only [decPathAny]
  simp only [if_pos hn]

theorem decPathAny_classname (n : Str) (as) (ks : List Xml) (h1 : n ≠ "INSTANCENAME".toList)
    (hn : n = "CLASSNAME".toList) :
    decPathAny C (.elem n as ks) = (do let c ← decClassName (.elem n as ks); pure (.cls c none none)) := by
  simp only [decPathAny]
  simp only [if_neg h1, if_pos hn]

theorem decPathAny_lip (n : Str) (as) (ks : List Xml) (l i : Xml)
    (hn : n = "LOCALINSTANCEPATH".toList) (ha : attrKeysOk as [] [] = true) (ht : noText ks = true)
    (hk : Xml.elemKids ks = [l, i]) (hi : i.name = "INSTANCENAME".toList) :
    decPathAny C (.elem n as ks) =
      (do let ns ← decLocalNsPath l
          match (← decInstNameKids C ks) with
          | [p] => pure (p.withNs none (some (nsStrip ns)))
          | _ => perr) := by
  have h1 : n ≠ "INSTANCENAME".toList := by rw [hn]; decide
  have h2 : n ≠ "CLASSNAME".toList := by rw [hn]; decide
  simp only [decPathAny]
  simp only [if_neg h1, if_neg h2, ha, ht, if_pos hn, hk, Bool.not_true, Bool.false_eq_true, if_false,
    if_neg (show ¬ (i.name ≠ "INSTANCENAME".toList) from fun h => h hi)]
  rfl

theorem decPathAny_ip (n : Str) (as) (ks : List Xml) (l i : Xml)
    (hn : n = "INSTANCEPATH".toList) (ha : attrKeysOk as [] [] = true) (ht : noText ks = true)
    (hk : Xml.elemKids ks = [l, i]) (hi : i.name = "INSTANCENAME".toList) :
    decPathAny C (.elem n as ks) =
      (do let (host, ns) ← decNsPath l
          match (← decInstNameKids C ks) with
          | [p] => pure (p.withNs (some host) (some (nsStrip ns)))
          | _ => perr) := by
  have h1 : n ≠ "INSTANCENAME".toList := by rw [hn]; decide
  have h2 : n ≠ "CLASSNAME".toList := by rw [hn]; decide
  have h3 : n ≠ "LOCALINSTANCEPATH".toList := by rw [hn]; decide
  simp only [decPathAny]
  simp only [if_neg h1, if_neg h2, if_neg h3, ha, ht, if_pos hn, hk, Bool.not_true, Bool.false_eq_true, if_false,
    if_neg (show ¬ (i.name ≠ "INSTANCENAME".toList) from fun h => h hi)]
  rfl

theorem decPathAny_lcp (n : Str) (as) (ks : List Xml) (l c : Xml)
    (hn : n = "LOCALCLASSPATH".toList) (ha : attrKeysOk as [] [] = true) (ht : noText ks = true)
    (hk : Xml.elemKids ks = [l, c]) :
    decPathAny C (.elem n as ks) =
      (do let ns ← decLocalNsPath l
          let cn ← decClassName c
          pure (.cls cn none (some (nsStrip ns)))) := by
  have h1 : n ≠ "INSTANCENAME".toList := by rw [hn]; decide
  have h2 : n ≠ "CLASSNAME".toList := by rw [hn]; decide
  have h3 : n ≠ "LOCALINSTANCEPATH".toList := by rw [hn]; decide
  have h4 : n ≠ "INSTANCEPATH".toList := by rw [hn]; decide
  simp only [decPathAny]
  simp only [if_neg h1, if_neg h2, if_neg h3, if_neg h4, ha, ht, if_pos hn, hk, Bool.not_true, Bool.false_eq_true,
    if_false]

theorem decPathAny_cp (n : Str) (as) (ks : List Xml) (l c : Xml)
    (hn : n = "CLASSPATH".toList) (ha : attrKeysOk as [] [] = true) (ht : noText ks = true)
    (hk : Xml.elemKids ks = [l, c]) :
    decPathAny C (.elem n as ks) =
      (do let (host, ns) ← decNsPath l
          let cn ← decClassName c
          pure (.cls cn (some host) (some (nsStrip ns)))) := by
  have h1 : n ≠ "INSTANCENAME".toList := by rw [hn]; decide
  have h2 : n ≠ "CLASSNAME".toList := by rw [hn]; decide
  have h3 : n ≠ "LOCALINSTANCEPATH".toList := by rw [hn]; decide
  have h4 : n ≠ "INSTANCEPATH".toList := by rw [hn]; decide
  have h5 : n ≠ "LOCALCLASSPATH".toList := by rw [hn]; decide
  simp only [decPathAny]
  simp only [if_neg h1, if_neg h2, if_neg h3, if_neg h4, if_neg h5, ha, ht, if_pos hn, hk, Bool.not_true,
    Bool.false_eq_true, if_false]

end


/-! ### case-insensitive dictionaries: inserting pairwise distinct names keeps the list -/

theorem kbInsert_fresh (k : Key) (acc : List Key)
    (h : ∀ x ∈ acc, (Key.name x).map lowerAscii ≠ (Key.name k).map lowerAscii) : kbInsert k acc = acc ++ [k] := by
  induction acc with
  | nil => rfl
  | cons x acc ih =>
    obtain ⟨n, v⟩ := x
    obtain ⟨n', v'⟩ := k
    have hx := h (.mk n v) (by simp)
    simp only [Key.name] at hx
    simp only [kbInsert, if_neg hx, List.cons_append]
    rw [ih (fun y hy => h y (by simp [hy]))]

theorem foldl_kbInsert (l acc : List Key) (h : NoDupKeyNames (acc ++ l)) :
    l.foldl (fun acc k => kbInsert k acc) acc = acc ++ l := by
  induction l generalizing acc with
  | nil => simp
  | cons k l ih =>
    simp only [List.foldl_cons]
    have hfresh : ∀ x ∈ acc, (Key.name x).map lowerAscii ≠ (Key.name k).map lowerAscii := by
      intro x hx e
      unfold NoDupKeyNames at h
      simp only [List.map_append, List.map_cons] at h
      have := (List.nodup_append.mp h).2.2 _ (List.mem_map.mpr ⟨x, hx, rfl⟩) _ (List.mem_cons_self)
      exact this e
    rw [kbInsert_fresh k acc hfresh, ih (acc ++ [k]) (by simpa using h)]
    simp

theorem kbUpdate_fresh (k : Key) (acc : List Key)
    (h : ∀ x ∈ acc, (Key.name x).map lowerAscii ≠ (Key.name k).map lowerAscii) : kbUpdate k acc = acc ++ [k] := by
  induction acc with
  | nil => rfl
  | cons x acc ih =>
    obtain ⟨n, v⟩ := x
    obtain ⟨n', v'⟩ := k
    have hx := h (.mk n v) (by simp)
    simp only [Key.name] at hx
    have hne : ¬ n = n' := fun e => hx (by rw [e])
    simp only [kbUpdate, if_neg hne, List.cons_append]
    rw [ih (fun y hy => h y (by simp [hy]))]

theorem foldl_kbUpdate (l acc : List Key) (h : NoDupKeyNames (acc ++ l)) :
    l.foldl (fun acc k => kbUpdate k acc) acc = acc ++ l := by
  induction l generalizing acc with
  | nil => simp
  | cons k l ih =>
    simp only [List.foldl_cons]
    have hfresh : ∀ x ∈ acc, (Key.name x).map lowerAscii ≠ (Key.name k).map lowerAscii := by
      intro x hx e
      unfold NoDupKeyNames at h
      simp only [List.map_append, List.map_cons] at h
      have := (List.nodup_append.mp h).2.2 _ (List.mem_map.mpr ⟨x, hx, rfl⟩) _ (List.mem_cons_self)
      exact this e
    rw [kbUpdate_fresh k acc hfresh, ih (acc ++ [k]) (by simpa using h)]
    simp

theorem dictInsert_fresh {α} (nameOf : α → Str) (x : α) (acc : List α)
    (h : ∀ y ∈ acc, lowerAscii (nameOf y) ≠ lowerAscii (nameOf x)) : dictInsert nameOf x acc = acc ++ [x] := by
  induction acc with
  | nil => rfl
  | cons y acc ih =>
    have hy := h y (by simp)
    simp only [dictInsert, if_neg hy, List.cons_append]
    rw [ih (fun z hz => h z (by simp [hz]))]

theorem foldl_dictInsert {α} (nameOf : α → Str) (l acc : List α)
    (h : NoDupNames ((acc ++ l).map nameOf)) :
    l.foldl (fun acc x => dictInsert nameOf x acc) acc = acc ++ l := by
  induction l generalizing acc with
  | nil => simp
  | cons k l ih =>
    simp only [List.foldl_cons]
    have hfresh : ∀ y ∈ acc, lowerAscii (nameOf y) ≠ lowerAscii (nameOf k) := by
      intro y hy e
      unfold NoDupNames at h
      simp only [List.map_append, List.map_cons, List.map_map] at h
      have := (List.nodup_append.mp h).2.2 _ (List.mem_map.mpr ⟨y, hy, rfl⟩) _ (List.mem_cons_self)
      exact this e
    rw [dictInsert_fresh nameOf k acc hfresh, ih (acc ++ [k]) (by simpa using h)]
    simp

/-- a NocaseDict built from children with pairwise distinct names (ignoring case) keeps them all, in order -/
theorem dictOfList_nodup {α} (nameOf : α → Str) (l : List α) (h : NoDupNames (l.map nameOf)) :
    dictOfList nameOf l = l := by
  unfold dictOfList
  rw [foldl_dictInsert nameOf l [] (by simpa using h)]
  simp

/-! ### keybindings -/

theorem wdKey_name (C : Codec) (k : Key) : Key.name (wdKey C k) = Key.name k := by
  obtain ⟨n, v⟩ := k
  cases v <;> simp [wdKey, Key.name]

theorem wdKeys_names (C : Codec) (ks : List Key) :
    (wdKeys C ks).map (fun k => (Key.name k).map lowerAscii) = ks.map (fun k => (Key.name k).map lowerAscii) := by
  induction ks with
  | nil => rfl
  | cons k ks ih => simp [wdKeys, wdKey_name, ih]

theorem encKey_shape (C : Codec) (k : Key) :
    ∃ kids, encKey C k = .elem "KEYBINDING".toList [("NAME".toList, (Key.name k).getD [])] kids := by
  obtain ⟨n, v⟩ := k
  cases v <;> exact ⟨_, rfl⟩

theorem allNames_encKeys (C : Codec) (ks : List Key) : AllNames (encKeys C ks) ["KEYBINDING"] := by
  induction ks with
  | nil => exact allNames_nil _
  | cons k ks ih =>
    obtain ⟨kids, e⟩ := encKey_shape C k
    simp only [encKeys]
    apply allNames_cons _ ih
    rw [e]; exact ⟨rfl, by simp [name_elem]⟩

theorem encPath_shape (C : Codec) (p : Path) : ∃ n as ks, encPath C p = .elem n as ks := by
  cases p with
  | inst cls host ns keys =>
    cases ns with
    | none => exact ⟨_, _, _, rfl⟩
    | some n => cases host <;> exact ⟨_, _, _, rfl⟩
  | cls cls host ns =>
    cases ns with
    | none => exact ⟨_, _, _, rfl⟩
    | some n => cases host <;> exact ⟨_, _, _, rfl⟩

section
variable (C : DecCodec) (S : Spec) (hC : CodecOk C S)

theorem decKeybinding_shell (nm : Str) (kas) (kks : List Xml) :
    decKeybinding C (E "KEYBINDING" [("NAME".toList, nm)] [E "KEYVALUE" kas kks]) =
      (do let v ← decKeyValue C (E "KEYVALUE" kas kks); pure (.mk (some nm) v)) := by
  unfold E
  rw [decKeybinding_kv C _ _ _ _ rfl (attrKeysOk_single "NAME" nm) (by rw [noText_cons_elem]; rfl)
    (by rw [elemCount_cons_elem]; rfl) (firstElem_cons_elem _ _ _ _) (name_elem _ _ _), getAttrD_single]

theorem typeName_ne_nil (a : Atom) (ty : Str) (h : typeName a = some ty) : ty ≠ [] := by
  cases a <;> simp [typeName] at h <;> subst h
  all_goals first | decide | skip
  · rename_i t v; cases t <;> decide
  · rename_i w b; cases w <;> decide

include hC in
/-- keybinding whose value is a typed scalar other than a real: text and TYPE as for VALUE -/
theorem rt_key_plain (nm : Str) (a : Atom) (ty : Str) (vt : Str) (h : PlainAtom S ty a) :
    decKeybinding C (E "KEYBINDING" [("NAME".toList, nm)]
        [E "KEYVALUE" ([("VALUETYPE".toList, vt)] ++ optAttr "TYPE" (some ty)) [.text (atomText C.toCodec a)]]) =
      .ok (.mk (some nm) (wdAtom C.toCodec a)) := by
  rw [decKeybinding_shell, decKeyValue_typed C vt ty _ (typeName_ne_nil a ty h.1), unpackSingle_atom C S hC a ty h]
  rfl

include hC in
theorem rt_key_real (nm : Str) (w : Bool) (b : UInt64) (vt : Str) :
    decKeybinding C (E "KEYBINDING" [("NAME".toList, nm)]
        [E "KEYVALUE" ([("VALUETYPE".toList, vt)] ++ optAttr "TYPE" (some (if w then "real64".toList else "real32".toList)))
          [.text (C.strFloat b)]]) =
      .ok (.mk (some nm) (.real w (C.reparseKey b))) := by
  rw [decKeybinding_shell, decKeyValue_typed C vt _ _ (by cases w <;> decide),
    unpackSingle_numeric C _ _ (by cases w <;> decide) (by cases w <;> decide) (by cases w <;> decide),
    unpackNumeric_keyreal C S hC w b]
  rfl

theorem rt_key_pyint (nm : Str) (v : Int) :
    decKeybinding C (E "KEYBINDING" [("NAME".toList, nm)]
        [E "KEYVALUE" ([("VALUETYPE".toList, "numeric".toList)] ++ optAttr "TYPE" none) [.text (intToStr v)]]) =
      .ok (.mk (some nm) (.pyint v)) := by
  rw [decKeybinding_shell, decKeyValue_numeric, unpackSingle_none, unpackNumeric_pyint]
  rfl

include hC in
theorem rt_key_pyfloat (nm : Str) (b : UInt64) :
    decKeybinding C (E "KEYBINDING" [("NAME".toList, nm)]
        [E "KEYVALUE" ([("VALUETYPE".toList, "numeric".toList)] ++ optAttr "TYPE" none) [.text (C.strFloat b)]]) =
      .ok (.mk (some nm) (.pyfloat (C.reparseKey b))) := by
  rw [decKeybinding_shell, decKeyValue_numeric, unpackSingle_none, unpackNumeric_keypyfloat C S hC]
  rfl

/-- keybinding holding a reference, given the round trip of the referenced path -/
theorem rt_key_ref (nm : Str) (p : Path) (p' : Path)
    (ih : decPathAny C (encPath C.toCodec p) = .ok p') :
    decKeybinding C (E "KEYBINDING" [("NAME".toList, nm)] [E "VALUE.REFERENCE" [] [encPath C.toCodec p]]) =
      .ok (.mk (some nm) (.ref p')) := by
  obtain ⟨pn, pas, pks, e⟩ := encPath_shape C.toCodec p
  rw [e] at ih ⊢
  have hv := decValueReference_E C pn pas pks p' ih
  unfold E at hv ⊢
  rw [decKeybinding_ref C _ _ _ _ rfl (attrKeysOk_single "NAME" nm) (by rw [noText_cons_elem]; rfl)
    (by rw [elemCount_cons_elem]; rfl) (firstElem_cons_elem _ _ _ _) (by rw [name_elem]; decide) (name_elem _ _ _),
    decValueRefKids_cons C _ _ _ _ rfl, hv, decValueRefKids_nil, getAttrD_single]
  rfl

/-- INSTANCENAME given the round trip of its keybindings -/
theorem rt_instancename (cls : Str) (keys : List Key) (hn : NoDupKeyNames keys)
    (hok : keysOk (wdKeys C.toCodec keys) = true)
    (ih : decKeybindings C (encKeys C.toCodec keys) = .ok (wdKeys C.toCodec keys)) :
    decInstanceName C (E "INSTANCENAME" [("CLASSNAME".toList, cls)] (encKeys C.toCodec keys)) =
      .ok (.inst cls none none (wdKeys C.toCodec keys)) := by
  have hA := allNames_encKeys C.toCodec keys
  unfold E
  cases keys with
  | nil =>
    rw [decInstanceName_empty C _ _ _ rfl (attrKeysOk_single "CLASSNAME" cls) rfl rfl, getAttrD_single]
    rfl
  | cons k ks =>
    obtain ⟨kids, e⟩ := encKey_shape C.toCodec k
    have hf : firstElem (encKeys C.toCodec (k :: ks)) = some (.elem "KEYBINDING".toList [("NAME".toList, (Key.name k).getD [])] kids) := by
      simp only [encKeys, e, firstElem_cons_elem]
    rw [decInstanceName_kb C _ _ _ _ rfl (attrKeysOk_single "CLASSNAME" cls) (noText_of_allNames hA) hf
      (by rw [name_elem]; decide) (by rw [name_elem]; decide) (name_elem _ _ _), ih, getAttrD_single]
    simp only [bind_ok, pure_eq_ok]
    have hn' : NoDupKeyNames ([] ++ wdKeys C.toCodec (k :: ks)) := by
      unfold NoDupKeyNames; rw [List.nil_append, wdKeys_names]; exact hn
    rw [foldl_kbUpdate _ [] hn', List.nil_append]
    unfold mkInstanceName
    rw [if_pos hok, foldl_kbInsert _ [] hn']
    rfl

theorem decInstNameKids_two (l : Xml) (ln : Str) (las) (lks : List Xml) (hl : l = .elem ln las lks)
    (hln : ln ≠ "INSTANCENAME".toList) (as) (ks : List Xml) :
    decInstNameKids C [l, .elem "INSTANCENAME".toList as ks] =
      (do let p ← decInstanceName C (.elem "INSTANCENAME".toList as ks); pure [p]) := by
  subst hl
  rw [decInstNameKids_skip C _ _ _ _ hln, decInstNameKids_hit C _ _ _ _ rfl, decInstNameKids_nil]
  rfl

/-- **path round trip, one level**: all six element forms, given the round trip of the keybindings -/
theorem rt_path_inst (cls : Str) (host ns : Option Str) (keys : List Key) (hn : NoDupKeyNames keys)
    (hok : keysOk (wdKeys C.toCodec keys) = true) (hns : NsOk ns)
    (ih : decKeybindings C (encKeys C.toCodec keys) = .ok (wdKeys C.toCodec keys)) :
    decPathAny C (encPath C.toCodec (.inst cls host ns keys)) = .ok (wdPath C.toCodec (.inst cls host ns keys)) := by
  have hin := rt_instancename C cls keys hn hok ih
  cases ns with
  | none =>
    simp only [encPath, wdPath]
    unfold E at hin ⊢
    rw [decPathAny_instname C _ _ _ rfl, hin]
  | some n =>
    cases host with
    | none =>
      simp only [encPath, wdPath]
      unfold E at hin
      rw [show E "LOCALINSTANCEPATH" [] [localNsPath n, E "INSTANCENAME" [("CLASSNAME".toList, cls)] (encKeys C.toCodec keys)]
          = .elem "LOCALINSTANCEPATH".toList [] [localNsPath n, .elem "INSTANCENAME".toList [("CLASSNAME".toList, cls)] (encKeys C.toCodec keys)] from rfl]
      rw [decPathAny_lip C _ _ _ (localNsPath n) _ rfl attrKeysOk_nil rfl rfl (name_elem _ _ _), decLocalNsPath_ok,
        decInstNameKids_two C (localNsPath n) _ _ _ (localNsPath_eq n) (by decide), hin]
      simp only [bind_ok, pure_eq_ok, hns n rfl]
      rfl
    | some h =>
      simp only [encPath, wdPath]
      unfold E at hin
      rw [show E "INSTANCEPATH" [] [nsPath h n, E "INSTANCENAME" [("CLASSNAME".toList, cls)] (encKeys C.toCodec keys)]
          = .elem "INSTANCEPATH".toList [] [nsPath h n, .elem "INSTANCENAME".toList [("CLASSNAME".toList, cls)] (encKeys C.toCodec keys)] from rfl]
      rw [decPathAny_ip C _ _ _ (nsPath h n) _ rfl attrKeysOk_nil rfl rfl (name_elem _ _ _), decNsPath_ok,
        decInstNameKids_two C (nsPath h n) _ _ _ rfl (by decide), hin]
      simp only [bind_ok, pure_eq_ok, hns n rfl]
      rfl

theorem rt_path_cls (cls : Str) (host ns : Option Str) (hns : NsOk ns) :
    decPathAny C (encPath C.toCodec (.cls cls host ns)) = .ok (wdPath C.toCodec (.cls cls host ns)) := by
  have hcn := decClassName_ok cls
  cases ns with
  | none =>
    simp only [encPath, wdPath]
    unfold E at hcn ⊢
    rw [decPathAny_classname C _ _ _ (by decide) rfl, hcn]
    rfl
  | some n =>
    cases host with
    | none =>
      simp only [encPath, wdPath]
      rw [show E "LOCALCLASSPATH" [] [localNsPath n, E "CLASSNAME" [("NAME".toList, cls)] []]
          = .elem "LOCALCLASSPATH".toList [] [localNsPath n, E "CLASSNAME" [("NAME".toList, cls)] []] from rfl]
      rw [decPathAny_lcp C _ _ _ (localNsPath n) _ rfl attrKeysOk_nil rfl rfl, decLocalNsPath_ok, hcn]
      simp only [bind_ok, pure_eq_ok, hns n rfl]
    | some h =>
      simp only [encPath, wdPath]
      rw [show E "CLASSPATH" [] [nsPath h n, E "CLASSNAME" [("NAME".toList, cls)] []]
          = .elem "CLASSPATH".toList [] [nsPath h n, E "CLASSNAME" [("NAME".toList, cls)] []] from rfl]
      rw [decPathAny_cp C _ _ _ (nsPath h n) _ rfl attrKeysOk_nil rfl rfl, decNsPath_ok, hcn]
      simp only [bind_ok, pure_eq_ok, hns n rfl]

theorem keyValueOk_wdKey (k : Key) (h : SendableKey S k) : keyValueOk (Key.val (wdKey C.toCodec k)) = true := by
  obtain ⟨n, v⟩ := k
  cases v with
  | ref p =>
    have hk : keyValueOk (.ref p) = true := h.2.2
    cases p with
    | inst c hst ns ks => simp only [wdKey, Key.val, wdPath, keyValueOk]
    | cls c hst ns => simp [keyValueOk] at hk
  | null => exact absurd h.2 (by simp [AtomOk])
  | einst i => exact absurd h.2 (by simp [AtomOk])
  | ecls c => exact absurd h.2 (by simp [AtomOk])
  | _ => simp only [wdKey, Key.val, keyValueOk]

theorem keysOk_cons (k : Key) (l : List Key) : keysOk (k :: l) = (keyValueOk (Key.val k) && keysOk l) := by
  obtain ⟨n, v⟩ := k; rfl

theorem keysOk_wdKeys (ks : List Key) (h : SendableKeys S ks) : keysOk (wdKeys C.toCodec ks) = true := by
  induction ks with
  | nil => simp only [wdKeys]; rfl
  | cons k ks ih =>
    simp only [wdKeys, keysOk_cons, keyValueOk_wdKey C S k h.1, ih h.2, Bool.and_self]

theorem rt_keys_cons (k : Key) (ks : List Key) (k' : Key) (ks' : List Key)
    (h1 : decKeybinding C (encKey C.toCodec k) = .ok k')
    (h2 : decKeybindings C (encKeys C.toCodec ks) = .ok ks') :
    decKeybindings C (encKeys C.toCodec (k :: ks)) = .ok (k' :: ks') := by
  obtain ⟨kids, e⟩ := encKey_shape C.toCodec k
  simp only [encKeys]
  rw [e] at h1 ⊢
  rw [decKeybindings_cons C _ _ _ _ rfl, h1, h2]
  rfl

include hC in
mutual
/-- **keybinding round trip**: every kind of key value; reference keys by recursion into the path -/
theorem rt_key : (k : Key) → SendableKey S k → decKeybinding C (encKey C.toCodec k) = .ok (wdKey C.toCodec k)
  | .mk n (.ref p), h => by
    obtain ⟨hn, hp⟩ := h
    obtain ⟨nm, rfl⟩ := Option.isSome_iff_exists.mp hn
    exact rt_key_ref C nm p _ (rt_path p hp.1)
  | .mk n (.pyint v), h => by
    obtain ⟨nm, rfl⟩ := Option.isSome_iff_exists.mp h
    exact rt_key_pyint C nm v
  | .mk n (.pyfloat b), h => by
    obtain ⟨nm, rfl⟩ := Option.isSome_iff_exists.mp h
    exact rt_key_pyfloat C S hC nm b
  | .mk n (.str s), h => by
    obtain ⟨nm, rfl⟩ := Option.isSome_iff_exists.mp h.1
    have := rt_key_plain C S hC nm (.str s) _ "string".toList ⟨rfl, h.2⟩
    simp only [atomText, wdAtom] at this
    simp only [encKey, encKey.keyval, wdKey, Option.getD]
    exact this
  | .mk n (.char16 s), h => by
    obtain ⟨nm, rfl⟩ := Option.isSome_iff_exists.mp h.1
    have := rt_key_plain C S hC nm (.char16 s) _ "string".toList ⟨rfl, h.2⟩
    simp only [atomText, wdAtom] at this
    simp only [encKey, encKey.keyval, wdKey, Option.getD]
    exact this
  | .mk n (.bool b), h => by
    obtain ⟨nm, rfl⟩ := Option.isSome_iff_exists.mp h.1
    have := rt_key_plain C S hC nm (.bool b) _ "boolean".toList ⟨rfl, h.2⟩
    simp only [atomText, wdAtom] at this
    simp only [encKey, encKey.keyval, wdKey, Option.getD]
    exact this
  | .mk n (.dt s), h => by
    obtain ⟨nm, rfl⟩ := Option.isSome_iff_exists.mp h.1
    have := rt_key_plain C S hC nm (.dt s) _ "string".toList ⟨rfl, h.2⟩
    simp only [atomText, wdAtom] at this
    simp only [encKey, encKey.keyval, wdKey, Option.getD]
    exact this
  | .mk n (.int t v), h => by
    obtain ⟨nm, rfl⟩ := Option.isSome_iff_exists.mp h.1
    have := rt_key_plain C S hC nm (.int t v) _ "numeric".toList ⟨rfl, h.2⟩
    simp only [atomText, wdAtom] at this
    simp only [encKey, encKey.keyval, wdKey, Option.getD]
    exact this
  | .mk n (.real w b), h => by
    obtain ⟨nm, rfl⟩ := Option.isSome_iff_exists.mp h.1
    exact rt_key_real C S hC nm w b "numeric".toList
  | .mk n .null, h => absurd h.2 (by simp [AtomOk])
  | .mk n (.einst i), h => absurd h.2 (by simp [AtomOk])
  | .mk n (.ecls c), h => absurd h.2 (by simp [AtomOk])
theorem rt_keys : (ks : List Key) → SendableKeys S ks →
    decKeybindings C (encKeys C.toCodec ks) = .ok (wdKeys C.toCodec ks)
  | [], _ => decKeybindings_nil C
  | k :: ks, h => rt_keys_cons C k ks _ _ (rt_key k h.1) (rt_keys ks h.2)
/-- **path round trip**: all six element forms, keybindings of every kind, reference keys nested to any depth -/
theorem rt_path : (p : Path) → SendablePath S p → decPathAny C (encPath C.toCodec p) = .ok (wdPath C.toCodec p)
  | .inst cls host ns keys, h =>
    rt_path_inst C cls host ns keys h.2.1 (keysOk_wdKeys C S keys h.1) h.2.2 (rt_keys keys h.1)
  | .cls cls host ns, h => rt_path_cls C cls host ns h
end

end

end Proofs.CimXml
