/-
C01 — the error side of the decoder, part 2: values, qualifiers, properties, instances, parameters, methods,
classes, qualifier declarations, the top-level dispatcher, embedded objects; `decode_docSafe`.
-/
import Proofs.Lemmas.CimXml19

set_option linter.unusedSimpArgs false
set_option linter.unusedVariables false
set_option linter.unusedSectionVars false

namespace Proofs.CimXml
open Pywbem.Model Pywbem.Model.XmlText Pywbem.Proto Proofs.C02

variable {P : PyExc → Prop}

theorem unpackItems_docSafe [Allows P] (C : DecCodec) (ty : Str) (l : List (Option Str)) :
    Safe P (Pywbem.Model.unpackItems C ty l) := by
  fun_induction Pywbem.Model.unpackItems C ty l <;> safe
macro_rules | `(tactic| safe_leaf) => `(tactic| exact unpackItems_docSafe _ _ _)

theorem unpackValue_docSafe [Allows P] (C : DecCodec) (ty : Str) (ks : List Xml) :
    Safe P (Pywbem.Model.unpackValue C ty ks) := by
  unfold Pywbem.Model.unpackValue; safe
macro_rules | `(tactic| safe_leaf) => `(tactic| exact unpackValue_docSafe _ _ _)

section
variable (C : DecCodec) (emb : Str → R Atom)

theorem embOne_docSafe [Allows P] (hemb : ∀ s, Safe P (emb s)) (a : Atom) : Safe P (embOne emb a) := by
  unfold embOne; safe <;> exact hemb _
macro_rules | `(tactic| safe_leaf) => `(tactic| exact embOne_docSafe _ ‹_› _)

theorem embItems_docSafe [Allows P] (hemb : ∀ s, Safe P (emb s)) (l : List Atom) :
    Safe P (Pywbem.Model.embItems emb l) := by
  fun_induction Pywbem.Model.embItems emb l <;> safe
macro_rules | `(tactic| safe_leaf) => `(tactic| exact embItems_docSafe _ ‹_› _)

theorem embVal_docSafe [Allows P] (hemb : ∀ s, Safe P (emb s)) (v : Val) : Safe P (Pywbem.Model.embVal emb v) := by
  unfold Pywbem.Model.embVal; safe
macro_rules | `(tactic| safe_leaf) => `(tactic| exact embVal_docSafe _ ‹_› _)

theorem decQualifier_docSafe [Allows P] (t : Xml) : Safe P (Pywbem.Model.decQualifier C t) := by
  unfold Pywbem.Model.decQualifier; safe
macro_rules | `(tactic| safe_leaf) => `(tactic| exact decQualifier_docSafe _ _)

theorem decQualifiers_docSafe [Allows P] (ks : List Xml) : Safe P (Pywbem.Model.decQualifiers C ks) := by
  fun_induction Pywbem.Model.decQualifiers C ks <;> safe
macro_rules | `(tactic| safe_leaf) => `(tactic| exact decQualifiers_docSafe _ _)

theorem decProperty_docSafe [Allows P] (hemb : ∀ s, Safe P (emb s)) (t : Xml) :
    Safe P (Pywbem.Model.decProperty C emb t) := by
  unfold Pywbem.Model.decProperty; safe
macro_rules | `(tactic| safe_leaf) => `(tactic| exact decProperty_docSafe _ _ ‹_› _)

theorem decPropertyArray_docSafe [Allows P] (hemb : ∀ s, Safe P (emb s)) (t : Xml) :
    Safe P (Pywbem.Model.decPropertyArray C emb t) := by
  unfold Pywbem.Model.decPropertyArray; safe
macro_rules | `(tactic| safe_leaf) => `(tactic| exact decPropertyArray_docSafe _ _ ‹_› _)

theorem decValueRefs_docSafe [Allows P] (ks : List Xml) : Safe P (Pywbem.Model.decValueRefs C ks) := by
  fun_induction Pywbem.Model.decValueRefs C ks <;> safe
macro_rules | `(tactic| safe_leaf) => `(tactic| exact decValueRefs_docSafe _ _)

theorem decPropertyReference_docSafe [Allows P] (t : Xml) : Safe P (Pywbem.Model.decPropertyReference C t) := by
  unfold Pywbem.Model.decPropertyReference; safe
macro_rules | `(tactic| safe_leaf) => `(tactic| exact decPropertyReference_docSafe _ _)

theorem decProperties_docSafe [Allows P] (hemb : ∀ s, Safe P (emb s)) (ks : List Xml) :
    Safe P (Pywbem.Model.decProperties C emb ks) := by
  fun_induction Pywbem.Model.decProperties C emb ks <;> safe
macro_rules | `(tactic| safe_leaf) => `(tactic| exact decProperties_docSafe _ _ ‹_› _)

theorem decInstance_docSafe [Allows P] (hemb : ∀ s, Safe P (emb s)) (t : Xml) :
    Safe P (Pywbem.Model.decInstance C emb t) := by
  unfold Pywbem.Model.decInstance; safe
macro_rules | `(tactic| safe_leaf) => `(tactic| exact decInstance_docSafe _ _ ‹_› _)

theorem decParameter_docSafe [Allows P] (t : Xml) : Safe P (Pywbem.Model.decParameter C t) := by
  unfold Pywbem.Model.decParameter; safe
macro_rules | `(tactic| safe_leaf) => `(tactic| exact decParameter_docSafe _ _)

theorem decParameters_docSafe [Allows P] (ks : List Xml) : Safe P (Pywbem.Model.decParameters C ks) := by
  fun_induction Pywbem.Model.decParameters C ks <;> safe
macro_rules | `(tactic| safe_leaf) => `(tactic| exact decParameters_docSafe _ _)

theorem decMethod_docSafe [Allows P] (t : Xml) : Safe P (Pywbem.Model.decMethod C t) := by
  unfold Pywbem.Model.decMethod; safe
macro_rules | `(tactic| safe_leaf) => `(tactic| exact decMethod_docSafe _ _)

theorem decMethods_docSafe [Allows P] (ks : List Xml) : Safe P (Pywbem.Model.decMethods C ks) := by
  fun_induction Pywbem.Model.decMethods C ks <;> safe
macro_rules | `(tactic| safe_leaf) => `(tactic| exact decMethods_docSafe _ _)

theorem decClass_docSafe [Allows P] (hemb : ∀ s, Safe P (emb s)) (t : Xml) :
    Safe P (Pywbem.Model.decClass C emb t) := by
  unfold Pywbem.Model.decClass; safe
macro_rules | `(tactic| safe_leaf) => `(tactic| exact decClass_docSafe _ _ ‹_› _)

theorem decQualDecl_docSafe [Allows P] (t : Xml) : Safe P (Pywbem.Model.decQualDecl C t) := by
  unfold Pywbem.Model.decQualDecl; safe
macro_rules | `(tactic| safe_leaf) => `(tactic| exact decQualDecl_docSafe _ _)

set_option maxHeartbeats 1000000 in
theorem decodeTop_docSafe [Allows P] (hemb : ∀ s, Safe P (emb s)) (t : Xml) :
    Safe P (Pywbem.Model.decodeTop C emb t) := by
  unfold Pywbem.Model.decodeTop; safe

end

/-- the exception classes of `embAt`: CIMXMLParseError, XMLParseError (text of an embedded object is not XML),
    RecursionError (embedded nesting beyond the depth allowed) -/
theorem embAt_docSafe (C : DecCodec) (n : Nat) (s : Str) : Safe DE (Pywbem.Model.embAt C n s) := by
  induction n generalizing s with
  | zero => unfold Pywbem.Model.embAt; exact Safe.error (Or.inr (Or.inr rfl))
  | succ n ih =>
    unfold Pywbem.Model.embAt
    safe
    exact Safe.error (Or.inr (Or.inl rfl))

/-- **only documented errors**: for every tree, every codec, every depth -/
theorem decode_docSafe (C : DecCodec) (d : Nat) (t : Xml) : Safe DE (Pywbem.Model.decode C d t) := by
  unfold Pywbem.Model.decode
  exact decodeTop_docSafe C _ (embAt_docSafe C d) t

end Proofs.CimXml
