/-
Helper lemmas for C18, part 4: the world (several servers, several manager objects, restarts) and the
invariant over all well-behaved operation histories.
-/
import Proofs.Lemmas.SubMgr3

namespace Proofs.SubMgr
open Pywbem.Model.SubMgr Pywbem.Proto

/-! ### the world invariant -/

structure WInv (w : World) : Prop where
  stores : ∀ s, StoreInv (w.store s)
  idok : ∀ m id, w.ids m = some id → ':' ∉ id
  distinct : ∀ m m' id, w.ids m = some id → w.ids m' = some id → m = m'
  agree : ∀ m s id, w.ids m = some id → w.reg m s = true → Agree id (w.store s) (w.owned m s)
  unreg : ∀ m s, w.reg m s = false → (w.owned m s).od = none
  snodup : ∀ m, (w.servers m).Nodup
  fresh : ∀ m, w.nMgr ≤ m → w.ids m = none ∧ w.servers m = []

/-- well-behaved operations: the input classes of the recorded known findings are excluded -/
def WB (w : World) : Op → Prop
  | .newMgr id => ∀ m, w.ids m ≠ some id
  | .addDest _ _ a => a.owned = false → NoMarker .dest (a.name.getD [])
  | .addFilter _ _ owned _ name => owned = false → NoMarker .filt (name.getD [])
  | .addSubs m _ f sel owned => ∀ id, w.ids m = some id →
      NotOthers .filt id f.name ∧
      ∀ d, (sel = .one d ∨ ∃ ps, sel = .many ps ∧ d ∈ ps) → NotOthers .dest id d.name ∧
        (owned = true → ownsSpec .filt id f.name ∨ ownsSpec .dest id d.name)
  | .removeDests m _ sel => ∀ id, w.ids m = some id →
      ∀ p, (sel = .one p ∨ ∃ ps, sel = .many ps ∧ p ∈ ps) → NotOthers .dest id p.name
  | .removeFilter m _ p => ∀ id, w.ids m = some id → NotOthers .filt id p.name
  | .removeSubs m _ sel => ∀ id, w.ids m = some id →
      ∀ f h, (sel = .one f h ∨ ∃ ps, sel = .many ps ∧ (f, h) ∈ ps) →
        NotOthers .filt id f.name ∧ NotOthers .dest id h.name
  | _ => True

theorem put_store_same (w : World) (m s : Nat) (st : Store) (o : Owned) : (w.put m s st o).store s = st := by
  simp [World.put]
theorem put_store_other (w : World) (m s s' : Nat) (st : Store) (o : Owned) (h : s' ≠ s) :
    (w.put m s st o).store s' = w.store s' := by
  simp [World.put, h]
theorem put_owned_same (w : World) (m s : Nat) (st : Store) (o : Owned) : (w.put m s st o).owned m s = o := by
  simp [World.put]
theorem put_owned_other (w : World) (m s m' s' : Nat) (st : Store) (o : Owned) (h : ¬ (m' = m ∧ s' = s)) :
    (w.put m s st o).owned m' s' = w.owned m' s' := by
  simp [World.put, h]

/-- general write-back: new store for server `s`, new lists for (m, s), new registration list of `m` -/
def updW (w : World) (m s : Nat) (st : Store) (o : Owned) (srv : List Nat) : World :=
  { w.put m s st o with servers := fun m' => if m' = m then srv else w.servers m' }

theorem put_eq_upd (w : World) (m s : Nat) (st : Store) (o : Owned) :
    w.put m s st o = updW w m s st o (w.servers m) := by
  simp only [updW, World.put]
  congr 1
  funext m'
  by_cases e : m' = m <;> simp [e]

theorem upd_inv {w : World} (hw : WInv w) {m s : Nat} {id : Str} (hid : w.ids m = some id)
    (st' : Store) (o' : Owned) (srv' : List Nat)
    (hinv : StoreInv st') (hframe : Frame id (w.store s) st')
    (hsrv : ∀ s', s' ≠ s → (s' ∈ srv' ↔ s' ∈ w.servers m)) (hnd : srv'.Nodup)
    (hag : s ∈ srv' → Agree id st' o') (hun : s ∉ srv' → o'.od = none) :
    WInv (updW w m s st' o' srv') := by
  have hregm : ∀ s', (updW w m s st' o' srv').reg m s' = decide (s' ∈ srv') := by
    intro s'; simp [World.reg, updW, List.contains_iff_mem]
  have hrego : ∀ m' s', m' ≠ m → (updW w m s st' o' srv').reg m' s' = w.reg m' s' := by
    intro m' s' h; simp [World.reg, updW, World.put, h]
  have hstore_same : (updW w m s st' o' srv').store s = st' := by simp [updW, World.put]
  have hstore_other : ∀ s', s' ≠ s → (updW w m s st' o' srv').store s' = w.store s' := by
    intro s' h; simp [updW, World.put, h]
  have howned_same : (updW w m s st' o' srv').owned m s = o' := by simp [updW, World.put]
  have howned_other : ∀ m' s', ¬ (m' = m ∧ s' = s) → (updW w m s st' o' srv').owned m' s' = w.owned m' s' := by
    intro m' s' h; simp [updW, World.put, h]
  refine ⟨?_, hw.idok, hw.distinct, ?_, ?_, ?_, ?_⟩
  · intro s'
    by_cases e : s' = s
    · subst e; rw [hstore_same]; exact hinv
    · rw [hstore_other s' e]; exact hw.stores s'
  · intro m' s' id' hid0 hreg0
    have hid' : w.ids m' = some id' := hid0
    by_cases em : m' = m
    · subst em
      have : id' = id := by rw [hid] at hid'; exact (Option.some.inj hid').symm
      subst this
      rw [hregm] at hreg0
      have hmem : s' ∈ srv' := by simpa using hreg0
      by_cases e : s' = s
      · subst e; rw [hstore_same, howned_same]; exact hag hmem
      · rw [hstore_other s' e, howned_other m' s' (fun h => e h.2)]
        refine hw.agree m' s' id' hid' ?_
        simp [World.reg, List.contains_iff_mem, (hsrv s' e).mp hmem]
    · rw [hrego m' s' em] at hreg0
      have hag' := hw.agree m' s' id' hid' hreg0
      rw [howned_other m' s' (fun h => em h.1)]
      by_cases e : s' = s
      · subst e
        rw [hstore_same]
        have hne : id' ≠ id := fun h => em (hw.distinct m' m id' hid' (h ▸ hid))
        exact hag'.frame hframe hne (hw.idok m' id' hid')
      · rw [hstore_other s' e]; exact hag'
  · intro m' s' hr0
    by_cases em : m' = m
    · subst em
      rw [hregm] at hr0
      have hnm : s' ∉ srv' := by simpa using hr0
      by_cases e : s' = s
      · subst e; rw [howned_same]; exact hun hnm
      · rw [howned_other m' s' (fun h => e h.2)]
        refine hw.unreg m' s' ?_
        have : s' ∉ w.servers m' := fun h => hnm ((hsrv s' e).mpr h)
        simp [World.reg, List.contains_iff_mem, this]
    · rw [hrego m' s' em] at hr0
      rw [howned_other m' s' (fun h => em h.1)]
      exact hw.unreg m' s' hr0
  · intro m'
    by_cases em : m' = m
    · subst em; simp [updW, hnd]
    · simp only [updW, em, if_false]; exact hw.snodup m'
  · intro m' hm'
    have hm'' : w.nMgr ≤ m' := hm'
    have hne : m' ≠ m := by
      intro e; subst e
      have := (hw.fresh m' hm'').1
      rw [hid] at this; simp at this
    obtain ⟨h1, h2⟩ := hw.fresh m' hm''
    exact ⟨h1, by simp [updW, hne, h2]⟩

/-- a local step of manager `m` (id `id`) on server `s`, written back into the world -/
theorem put_inv {w : World} (hw : WInv w) {m s : Nat} {id : Str} (hid : w.ids m = some id) (r : R)
    (hreg : w.reg m s = true → Good id (w.store s) r)
    (hunreg : w.reg m s = false → r.st = w.store s ∧ r.o.od = none) :
    WInv (w.put m s r.st r.o) := by
  rw [put_eq_upd]
  cases hr : w.reg m s with
  | true =>
    have hg := hreg hr
    have hmem : s ∈ w.servers m := by simpa [World.reg, List.contains_iff_mem] using hr
    exact upd_inv hw hid _ _ _ hg.inv hg.frame (fun _ _ => Iff.rfl) (hw.snodup m) (fun _ => hg.agree)
      (fun h => absurd hmem h)
  | false =>
    have hmem : s ∉ w.servers m := by simpa [World.reg, List.contains_iff_mem] using hr
    obtain ⟨h1, h2⟩ := hunreg hr
    rw [h1]
    exact upd_inv hw hid _ _ _ (hw.stores s) (Frame.refl id _) (fun _ _ => Iff.rfl) (hw.snodup m)
      (fun h => absurd h hmem) (fun _ => h2)

/-! ### calls on a server the manager is not registered with change nothing -/

theorem addDest_unreg (id : Str) (st : Store) (o : Owned) (a : DestArgs) :
    (stepAddDest false id st o a).st = st ∧ (stepAddDest false id st o a).o = o := by
  unfold stepAddDest
  by_cases h1 : argErr a.owned a.destId a.name = true
  · simp [h1]
  by_cases h2 : destIdBad a.destId = true
  · simp [h1, h2]
  cases hv : validatePT a.pt <;> simp [h1, h2]

theorem addFilter_unreg (id : Str) (st : Store) (o : Owned) (owned : Bool) (fid name : Option Str) :
    (stepAddFilter false id st o owned fid name).st = st ∧ (stepAddFilter false id st o owned fid name).o = o := by
  unfold stepAddFilter
  by_cases h1 : argErr owned fid name = true
  · simp [h1]
  by_cases h2 : filterIdBad fid = true
  · simp [h1, h2]
  simp [h1, h2]

theorem addSubs_unreg (reg : Bool) (id : Str) (st : Store) (o : Owned) (f : Path) (sel : DestSel) (owned : Bool)
    (h : o.od = none) :
    (stepAddSubs reg id st o f sel owned).st = st ∧ (stepAddSubs reg id st o f sel owned).o = o := by
  simp [stepAddSubs, h]

theorem removeDests_unreg (st : Store) (o : Owned) (sel : PathSel) :
    (stepRemoveDests false st o sel).st = st ∧ (stepRemoveDests false st o sel).o = o := by
  simp [stepRemoveDests]

theorem removeFilter_unreg (st : Store) (o : Owned) (p : Path) :
    (stepRemoveFilter false st o p).st = st ∧ (stepRemoveFilter false st o p).o = o := by
  simp [stepRemoveFilter]

theorem removeSubs_unreg (st : Store) (o : Owned) (sel : SubSel) :
    (stepRemoveSubs false st o sel).st = st ∧ (stepRemoveSubs false st o sel).o = o := by
  simp [stepRemoveSubs]

/-! ### remove_server / remove_all_servers at world level -/

theorem mem_erase_of_nodup {l : List Nat} (h : l.Nodup) (a b : Nat) : a ∈ l.erase b ↔ a ≠ b ∧ a ∈ l :=
  h.mem_erase_iff

theorem removeServerW_inv {w : World} (hw : WInv w) {m : Nat} {id : Str} (hid : w.ids m = some id) (s : Nat) :
    WInv (stepRemoveServerW w m s).1 := by
  have hc := hw.idok m id hid
  unfold stepRemoveServerW
  cases hr : w.reg m s with
  | false =>
    simp only [stepRemoveServer, Bool.not_false, if_true, Bool.or_true]
    exact put_inv hw hid ⟨w.store s, w.owned m s, Res.err PyExc.valueError⟩ (fun h => by simp [hr] at h)
      (fun _ => ⟨rfl, hw.unreg m s hr⟩)
  | true =>
    have hag := hw.agree m s id hid hr
    have hmem : s ∈ w.servers m := by simpa [World.reg, List.contains_iff_mem] using hr
    rw [removeServer_exact (hw.stores s) hag hc]
    simp only [Bool.false_or, Bool.not_true, Bool.false_eq_true, if_false]
    have hnd := hw.snodup m
    exact upd_inv hw hid (purge id (w.store s)) ⟨none, none, none⟩ ((w.servers m).erase s)
      (purge_inv (hw.stores s) hc) (purge_frame hc)
      (fun s' hs' => by rw [hnd.mem_erase_iff]; exact ⟨fun h => h.2, fun h => ⟨hs', h⟩⟩)
      (hnd.erase s) (fun h => absurd h hnd.not_mem_erase) (fun _ => rfl)

theorem removeAllLoop_inv {m : Nat} {id : Str} :
    ∀ (l : List Nat) (w : World), WInv w → w.ids m = some id → WInv (removeAllLoop m w l).1 := by
  intro l
  induction l with
  | nil => intro w hw _; exact hw
  | cons s rest ih =>
    intro w hw hid
    have h1 := removeServerW_inv hw hid s
    have hid1 : (stepRemoveServerW w m s).1.ids m = some id := by
      unfold stepRemoveServerW
      split
      split <;> exact hid
    unfold removeAllLoop
    generalize stepRemoveServerW w m s = r at h1 hid1
    obtain ⟨w1, out1⟩ := r
    cases out1 with
    | done => simp only []; exact ih w1 h1 hid1
    | _ => exact h1

/-! ### every well-behaved step preserves the world invariant -/

theorem step_inv {w : World} (hw : WInv w) (op : Op) (wb : WB w op) : WInv (step w op).1 := by
  cases op with
  | newMgr id =>
    simp only [step]
    by_cases hb : managerIdBad id = true
    · simp only [hb, if_true]; exact hw
    simp only [hb, Bool.false_eq_true, if_false]
    have hcid : ':' ∉ id := by
      simpa [managerIdBad, Pywbem.Generated.SubMgr.managerIdColonRejected] using hb
    have hfr := hw.fresh w.nMgr (Nat.le_refl _)
    refine ⟨hw.stores, ?_, ?_, ?_, hw.unreg, hw.snodup, ?_⟩
    · intro m i h
      by_cases e : m = w.nMgr
      · simp only [e, if_true] at h; exact (Option.some.inj h) ▸ hcid
      · simp only [e, if_false] at h; exact hw.idok m i h
    · intro m m' i h h'
      by_cases e : m = w.nMgr <;> by_cases e' : m' = w.nMgr
      · rw [e, e']
      · simp only [e, if_true, e', if_false] at h h'
        exact absurd ((Option.some.inj h) ▸ h') (wb m')
      · simp only [e, if_false, e', if_true] at h h'
        exact absurd ((Option.some.inj h') ▸ h) (wb m)
      · simp only [e, e', if_false] at h h'; exact hw.distinct m m' i h h'
    · intro m s i h hr
      have hr' : w.reg m s = true := hr
      by_cases e : m = w.nMgr
      · subst e; simp [World.reg, hfr.2] at hr'
      · simp only [e, if_false] at h; exact hw.agree m s i h hr'
    · intro m hm
      have hm' : w.nMgr + 1 ≤ m := hm
      have hne : m ≠ w.nMgr := by omega
      obtain ⟨h1, h2⟩ := hw.fresh m (by omega)
      exact ⟨by simp [hne, h1], h2⟩
  | dropMgr m =>
    simp only [step]
    refine ⟨hw.stores, ?_, ?_, ?_, hw.unreg, hw.snodup, ?_⟩
    · intro m' i h
      by_cases e : m' = m
      · simp [e] at h
      · simp only [e, if_false] at h; exact hw.idok m' i h
    · intro m1 m2 i h1 h2
      by_cases e1 : m1 = m
      · simp [e1] at h1
      by_cases e2 : m2 = m
      · simp [e2] at h2
      simp only [e1, e2, if_false] at h1 h2; exact hw.distinct m1 m2 i h1 h2
    · intro m' s i h hr
      by_cases e : m' = m
      · simp [e] at h
      · simp only [e, if_false] at h; exact hw.agree m' s i h hr
    · intro m' hm'
      obtain ⟨h1, h2⟩ := hw.fresh m' hm'
      exact ⟨by by_cases e : m' = m <;> simp [e, h1], h2⟩
  | addServer m s =>
    simp only [step]
    cases hid : w.ids m with
    | none => exact hw
    | some id =>
      simp only []
      cases hr : w.reg m s with
      | true => simp only [if_true]; exact hw
      | false =>
        simp only [Bool.false_eq_true, if_false]
        have hc := hw.idok m id hid
        have hnm : s ∉ w.servers m := by simpa [World.reg, List.contains_iff_mem] using hr
        have := upd_inv hw hid (w.store s) (discover id (w.store s)) (w.servers m ++ [s])
          (hw.stores s) (Frame.refl id _) (fun s' hs' => by simp [hs']) (nodup_snoc (hw.snodup m) hnm)
          (fun _ => discover_agree id (w.store s) (hw.stores s) hc) (fun h => absurd (by simp) h)
        exact this
  | removeServer m s =>
    simp only [step]
    cases hid : w.ids m with
    | none => exact hw
    | some id => exact removeServerW_inv hw hid s
  | removeAll m =>
    simp only [step]
    cases hid : w.ids m with
    | none => exact hw
    | some id => exact removeAllLoop_inv _ w hw hid
  | exitCtx m exc =>
    simp only [step]
    cases hid : w.ids m with
    | none => exact hw
    | some id =>
      have h := removeAllLoop_inv (w.servers m) w hw hid
      simp only []
      generalize removeAllLoop m w (w.servers m) = r at h
      obtain ⟨w1, out1⟩ := r
      cases out1 <;> exact h
  | addDest m s a =>
    simp only [step]
    cases hid : w.ids m with
    | none => exact hw
    | some id =>
      simp only [World.applyR]
      refine put_inv hw hid _ (fun hr => ?_) (fun hr => ?_)
      · exact good_addDest (hw.stores s) (hw.agree m s id hid hr) (hw.idok m id hid) _ a wb
      · rw [hr]; obtain ⟨h1, h2⟩ := addDest_unreg id (w.store s) (w.owned m s) a
        exact ⟨h1, by rw [h2]; exact hw.unreg m s hr⟩
  | addFilter m s owned fid name =>
    simp only [step]
    cases hid : w.ids m with
    | none => exact hw
    | some id =>
      simp only [World.applyR]
      refine put_inv hw hid _ (fun hr => ?_) (fun hr => ?_)
      · exact good_addFilter (hw.stores s) (hw.agree m s id hid hr) (hw.idok m id hid) _ owned fid name wb
      · rw [hr]; obtain ⟨h1, h2⟩ := addFilter_unreg id (w.store s) (w.owned m s) owned fid name
        exact ⟨h1, by rw [h2]; exact hw.unreg m s hr⟩
  | addSubs m s f sel owned =>
    simp only [step]
    cases hid : w.ids m with
    | none => exact hw
    | some id =>
      simp only [World.applyR]
      obtain ⟨wf, wd⟩ := wb id hid
      refine put_inv hw hid _ (fun hr => ?_) (fun hr => ?_)
      · exact good_addSubs (hw.stores s) (hw.agree m s id hid hr) (hw.idok m id hid) _ f sel owned wf wd
      · obtain ⟨h1, h2⟩ := addSubs_unreg (w.reg m s) id (w.store s) (w.owned m s) f sel owned (hw.unreg m s hr)
        exact ⟨h1, by rw [h2]; exact hw.unreg m s hr⟩
  | removeDests m s sel =>
    simp only [step]
    cases hid : w.ids m with
    | none => exact hw
    | some id =>
      simp only [World.applyR]
      refine put_inv hw hid _ (fun hr => ?_) (fun hr => ?_)
      · exact good_removeDests (hw.stores s) (hw.agree m s id hid hr) _ sel (wb id hid)
      · rw [hr]; obtain ⟨h1, h2⟩ := removeDests_unreg (w.store s) (w.owned m s) sel
        exact ⟨h1, by rw [h2]; exact hw.unreg m s hr⟩
  | removeFilter m s p =>
    simp only [step]
    cases hid : w.ids m with
    | none => exact hw
    | some id =>
      simp only [World.applyR]
      refine put_inv hw hid _ (fun hr => ?_) (fun hr => ?_)
      · exact good_removeFilter (hw.stores s) (hw.agree m s id hid hr) _ p (wb id hid)
      · rw [hr]; obtain ⟨h1, h2⟩ := removeFilter_unreg (w.store s) (w.owned m s) p
        exact ⟨h1, by rw [h2]; exact hw.unreg m s hr⟩
  | removeSubs m s sel =>
    simp only [step]
    cases hid : w.ids m with
    | none => exact hw
    | some id =>
      simp only [World.applyR]
      refine put_inv hw hid _ (fun hr => ?_) (fun hr => ?_)
      · exact good_removeSubs (hw.stores s) (hw.agree m s id hid hr) _ sel (wb id hid)
      · rw [hr]; obtain ⟨h1, h2⟩ := removeSubs_unreg (w.store s) (w.owned m s) sel
        exact ⟨h1, by rw [h2]; exact hw.unreg m s hr⟩
  | getOwned m s which =>
    simp only [step]
    cases hid : w.ids m <;> exact hw
  | getAll m s which =>
    simp only [step]
    cases hid : w.ids m <;> exact hw

/-- well-behavedness along a run: each op is well-behaved in the state it is applied to -/
def WBrun : World → List Op → Prop
  | _, [] => True
  | w, op :: ops => WB w op ∧ WBrun (step w op).1 ops

theorem run_inv : ∀ (ops : List Op) (w : World), WInv w → WBrun w ops → WInv (run w ops).1 := by
  intro ops
  induction ops with
  | nil => intro w hw _; exact hw
  | cons op ops ih =>
    intro w hw hwb
    simp only [run]
    exact ih _ (step_inv hw op hwb.1) hwb.2

theorem init_inv (stores : Nat → Store) (h : ∀ s, StoreInv (stores s)) : WInv (World.init stores) := by
  refine ⟨h, ?_, ?_, ?_, ?_, ?_, ?_⟩
  · intro m id hid; simp [World.init] at hid
  · intro m m' id hid; simp [World.init] at hid
  · intro m s id hid; simp [World.init] at hid
  · intro m s _; rfl
  · intro m; simp [World.init]
  · intro m _; exact ⟨rfl, rfl⟩

/-! ### remove_all_servers, exactly -/

theorem removeServerW_eq {w : World} (hw : WInv w) {m : Nat} {id : Str} (hid : w.ids m = some id) (s : Nat)
    (hr : w.reg m s = true) :
    stepRemoveServerW w m s =
      (updW w m s (purge id (w.store s)) ⟨none, none, none⟩ ((w.servers m).erase s), .done) := by
  have hc := hw.idok m id hid
  have hag := hw.agree m s id hid hr
  unfold stepRemoveServerW
  rw [hr, removeServer_exact (hw.stores s) hag hc]
  simp only [Bool.false_or, Bool.not_true, Bool.false_eq_true, if_false]
  rfl

/-- remove_all_servers: every registered server is purged of exactly the manager's owned instances,
    nothing else changes, no exception -/
theorem removeAllLoop_exact {m : Nat} {id : Str} :
    ∀ (l : List Nat) (w : World), WInv w → w.ids m = some id → l.Nodup → (∀ s ∈ l, s ∈ w.servers m) →
      (removeAllLoop m w l).2 = .done ∧
      (∀ s, (removeAllLoop m w l).1.store s = if s ∈ l then purge id (w.store s) else w.store s) ∧
      (∀ s, s ∈ (removeAllLoop m w l).1.servers m ↔ (s ∈ w.servers m ∧ s ∉ l)) ∧
      (∀ m', m' ≠ m → (removeAllLoop m w l).1.servers m' = w.servers m') ∧
      (removeAllLoop m w l).1.ids = w.ids := by
  intro l
  induction l with
  | nil => intro w _ _ _ _; simp [removeAllLoop]
  | cons s rest ih =>
    intro w hw hid hnd hsub
    have hr : w.reg m s = true := by
      simp [World.reg, List.contains_iff_mem, hsub s (by simp)]
    have heq := removeServerW_eq hw hid s hr
    have hinv := removeServerW_inv hw hid s
    rw [heq] at hinv
    simp only [removeAllLoop, heq]
    simp only [List.nodup_cons] at hnd
    obtain ⟨w1, hw1⟩ : ∃ w1, w1 = updW w m s (purge id (w.store s)) ⟨none, none, none⟩ ((w.servers m).erase s) :=
      ⟨_, rfl⟩
    rw [← hw1] at hinv ⊢
    have hid1 : w1.ids m = some id := by rw [hw1]; exact hid
    have hsrv1 : w1.servers m = (w.servers m).erase s := by simp [hw1, updW]
    have hsub1 : ∀ x ∈ rest, x ∈ w1.servers m := by
      intro x hx
      rw [hsrv1, (hw.snodup m).mem_erase_iff]
      exact ⟨fun e => hnd.1 (e ▸ hx), hsub x (by simp [hx])⟩
    obtain ⟨h1, h2, h3, h4, h5⟩ := ih w1 hinv hid1 hnd.2 hsub1
    refine ⟨h1, ?_, ?_, ?_, ?_⟩
    · intro x
      rw [h2 x]
      by_cases ex : x = s
      · subst ex
        have : x ∉ rest := hnd.1
        simp [this, hw1, updW, World.put]
      · have hst : w1.store x = w.store x := by simp [hw1, updW, World.put, ex]
        simp [ex, hst]
    · intro x
      rw [h3 x, hsrv1, (hw.snodup m).mem_erase_iff]
      simp only [List.mem_cons, not_or]
      constructor
      · rintro ⟨⟨a, b⟩, c⟩; exact ⟨b, a, c⟩
      · rintro ⟨b, a, c⟩; exact ⟨⟨a, b⟩, c⟩
    · intro m' hm'
      rw [h4 m' hm']
      simp [hw1, updW, hm']
    · rw [h5, hw1]; rfl

theorem removeAll_exact {w : World} (hw : WInv w) {m : Nat} {id : Str} (hid : w.ids m = some id) :
    (step w (.removeAll m)).2 = .done ∧
    (∀ s, (step w (.removeAll m)).1.store s =
        if s ∈ w.servers m then purge id (w.store s) else w.store s) ∧
    (step w (.removeAll m)).1.servers m = [] ∧
    (∀ m', m' ≠ m → (step w (.removeAll m)).1.servers m' = w.servers m') := by
  simp only [step, hid]
  obtain ⟨h1, h2, h3, h4, _⟩ := removeAllLoop_exact (w.servers m) w hw hid (hw.snodup m) (fun _ h => h)
  refine ⟨h1, h2, ?_, h4⟩
  apply List.eq_nil_iff_forall_not_mem.mpr
  intro s hs
  exact ((h3 s).mp hs).2 ((h3 s).mp hs).1

end Proofs.SubMgr
