/-
C01 — the error side of the decoder: for EVERY tree and EVERY codec, `decode` answers `.ok _` or one of three
exception classes (CIMXMLParseError; XMLParseError from the text of an embedded object; RecursionError when the
embedded nesting exceeds the depth allowed).  Structural induction over the decoder, with the `Safe` predicate and
the `safe` tactic of Proofs/Lemmas/RespSafe.lean (which already covers the helper functions shared with C02).
-/
import Proofs.Lemmas.RespSafe2
import Proofs.Lemmas.CimXml18

set_option linter.unusedSimpArgs false
set_option linter.unusedVariables false
set_option linter.unusedSectionVars false

namespace Proofs.CimXml
open Pywbem.Model Pywbem.Model.XmlText Pywbem.Proto Proofs.C02

variable {P : PyExc → Prop}

theorem unpackNumeric_docSafe [Allows P] (C : DecCodec) (d : Str) (ty : Option Str) :
    Safe P (unpackNumeric C d ty) := by
  unfold unpackNumeric
  apply Safe.bind (parseNum_safe C d)
  intro n
  cases ty with
  | none => cases n <;> exact Safe.pure _
  | some ty =>
    dsimp only
    cases IntTy.ofName ty with
    | some t =>
      dsimp only
      apply Safe.bind
      · cases n with
        | int v => exact Safe.pure _
        | float b =>
          dsimp only
          cases C.truncFloat b with
          | ok v => exact Safe.pure _
          | error e => exact Safe.perr
      · intro v
        apply Safe.ite <;> intro _
        · exact Safe.pure _
        · exact Safe.perr
    | none =>
      dsimp only
      apply Safe.ite <;> intro _
      · cases n with
        | float b => exact Safe.pure _
        | int v =>
          dsimp only
          cases C.floatOfInt v with
          | some b => exact Safe.pure _
          | none => exact Safe.perr
      · exact Safe.perr
macro_rules | `(tactic| safe_leaf) => `(tactic| exact unpackNumeric_docSafe _ _ _)

theorem unpackSingle_docSafe [Allows P] (C : DecCodec) (d : Str) (ty : Option Str) :
    Safe P (unpackSingle C d ty) := by
  unfold unpackSingle; safe
macro_rules | `(tactic| safe_leaf) => `(tactic| exact unpackSingle_docSafe _ _ _)

theorem decKeyValue_docSafe [Allows P] (C : DecCodec) (t : Xml) : Safe P (Pywbem.Model.decKeyValue C t) := by
  unfold Pywbem.Model.decKeyValue; safe
macro_rules | `(tactic| safe_leaf) => `(tactic| exact decKeyValue_docSafe _ _)

theorem arraySizeOf_docSafe [Allows P] (as : List (Str × Str)) : Safe P (arraySizeOf as) := by
  unfold arraySizeOf; safe
macro_rules | `(tactic| safe_leaf) => `(tactic| exact arraySizeOf_docSafe _)

theorem mkInstanceName_docSafe [Allows P] (c : Str) (l : List Key) : Safe P (mkInstanceName c l) := by
  unfold mkInstanceName; safe
macro_rules | `(tactic| safe_leaf) => `(tactic| exact mkInstanceName_docSafe _ _)

set_option maxHeartbeats 1000000 in
theorem paths_docSafe [Allows P] (C : DecCodec) :
    (∀ t, Safe P (Pywbem.Model.decValueReference C t)) ∧ (∀ a, Safe P (Pywbem.Model.decPathKids C a)) ∧
    (∀ t, Safe P (Pywbem.Model.decPathAny C t)) ∧ (∀ a, Safe P (Pywbem.Model.decInstNameKids C a)) ∧
    (∀ t, Safe P (Pywbem.Model.decInstanceName C t)) ∧ (∀ a, Safe P (Pywbem.Model.decKeybindings C a)) ∧
    (∀ t, Safe P (Pywbem.Model.decKeybinding C t)) ∧ (∀ a, Safe P (Pywbem.Model.decValueRefKids C a)) := by
  apply Pywbem.Model.decValueReference.mutual_induct
    (motive1 := fun t => Safe P (Pywbem.Model.decValueReference C t))
    (motive2 := fun a => Safe P (Pywbem.Model.decPathKids C a))
    (motive3 := fun t => Safe P (Pywbem.Model.decPathAny C t))
    (motive4 := fun a => Safe P (Pywbem.Model.decInstNameKids C a))
    (motive5 := fun t => Safe P (Pywbem.Model.decInstanceName C t))
    (motive6 := fun a => Safe P (Pywbem.Model.decKeybindings C a))
    (motive7 := fun t => Safe P (Pywbem.Model.decKeybinding C t))
    (motive8 := fun a => Safe P (Pywbem.Model.decValueRefKids C a))
  all_goals (intros; first | unfold Pywbem.Model.decValueReference | unfold Pywbem.Model.decPathKids | unfold Pywbem.Model.decValueRefKids | unfold Pywbem.Model.decKeybinding | unfold Pywbem.Model.decKeybindings | unfold Pywbem.Model.decInstanceName | unfold Pywbem.Model.decInstNameKids | unfold Pywbem.Model.decPathAny)
  all_goals safe

theorem decValueReference_docSafe [Allows P] (C : DecCodec) (t : Xml) :
    Safe P (Pywbem.Model.decValueReference C t) := (paths_docSafe C).1 t
theorem decInstanceName_docSafe [Allows P] (C : DecCodec) (t : Xml) :
    Safe P (Pywbem.Model.decInstanceName C t) := (paths_docSafe C).2.2.2.2.1 t
theorem decPathAny_docSafe [Allows P] (C : DecCodec) (t : Xml) :
    Safe P (Pywbem.Model.decPathAny C t) := (paths_docSafe C).2.2.1 t
macro_rules | `(tactic| safe_leaf) => `(tactic| exact decValueReference_docSafe _ _)
macro_rules | `(tactic| safe_leaf) => `(tactic| exact decInstanceName_docSafe _ _)
macro_rules | `(tactic| safe_leaf) => `(tactic| exact decPathAny_docSafe _ _)

end Proofs.CimXml
