/-
C13: specification vocabulary (definitions used in the statements of `Proofs/Props/C13.lean`) and the
helper lemmas that mention it.
-/
import Proofs.Lemmas.AssocClass

namespace C13
open Pywbem.Proto Pywbem.Model.Assoc

/-- "stored association instance `a` links `x` to `y` through two different reference properties that
    satisfy Role (source end), ResultRole (far end), AssocClass (class of `a`, incl. subclasses) and
    ResultClass (class named by the far end, incl. subclasses)" -/
def Linked (cs : List Cls) (a : Inst) (x y : Path) (f : AFilter) : Prop :=
  ∃ p ∈ a.props, ∃ q ∈ a.props, p ≠ q ∧ p.isRef = true ∧ q.isRef = true ∧
    (∃ v, p.value = some v ∧ v.eqv x = true) ∧ q.value = some y ∧
    classAdmits cs f.assocClass a.cls = true ∧ classAdmits cs f.resultClass y.cls = true ∧
    roleAdmits f.role p.name = true ∧ roleAdmits f.resultRole q.name = true

/-- "`a` references `x` through a reference property satisfying Role, and its class satisfies
    ResultClass" (References / ReferenceNames) -/
def Refers (cs : List Cls) (a : Inst) (x : Path) (rc role : Option Name) : Prop :=
  ∃ p ∈ a.props, p.isRef = true ∧ (∃ v, p.value = some v ∧ v.eqv x = true) ∧
    classAdmits cs rc a.cls = true ∧ roleAdmits role p.name = true

/-- `f'` has at least the filters of `f`: every component of `f` is inactive (None or '') or equal -/
def optLe (a b : Option Name) : Prop := truthy a = false ∨ a = b

def FLe (f f' : AFilter) : Prop :=
  optLe f.assocClass f'.assocClass ∧ optLe f.resultClass f'.resultClass ∧
  optLe f.role f'.role ∧ optLe f.resultRole f'.resultRole

/-- the filter for the reverse traversal: same AssocClass, roles swapped, no ResultClass -/
def swapRoles (f : AFilter) : AFilter :=
  { assocClass := f.assocClass, resultClass := none, role := f.resultRole, resultRole := f.role }

/-- repository invariants of an instance store: it is a dict keyed by instance path (no two stored
    instances have equal paths) and stored paths carry no host (`add_cimobjects` removes it,
    `CreateInstance` builds paths without one) -/
structure StoreOk (is : List Inst) : Prop where
  nohost : ∀ a ∈ is, a.path.host = none
  unique : ∀ a ∈ is, ∀ b ∈ is, a.path.eqv b.path = true → a = b

/-- two filter tuples the code cannot tell apart: componentwise both inactive (None or '') or both
    active with the same lower-cased name -/
def FIeq (f f' : AFilter) : Prop :=
  optIeq f.assocClass f'.assocClass ∧ optIeq f.resultClass f'.resultClass ∧
  optIeq f.role f'.role ∧ optIeq f.resultRole f'.resultRole

/-- every reference declaration names a class of the same class store (what CreateClass and
    add_cimobjects check with `_validate_dependencies_exist`) -/
def RefClassesExist (cs : List Cls) : Prop :=
  ∀ c ∈ cs, ∀ p ∈ c.props, p.isRef = true → classExists cs p.refCls = true

theorem optLe_lists {cs : List Cls} {a b : Option Name} (h : optLe a b) :
    subclassesLc cs a = [] ∨ subclassesLc cs a = subclassesLc cs b := by
  rcases h with h | h
  · exact Or.inl (subclassesLc_of_not_truthy h)
  · exact Or.inr (by rw [h])

theorem optLe_lcOpt {a b : Option Name} (h : optLe a b) : lcOpt a = none ∨ lcOpt a = lcOpt b := by
  rcases h with h | h
  · exact Or.inl (lcOpt_none_of_not_truthy h)
  · exact Or.inr (by rw [h])

theorem classTuple_of_exists {cs : List Cls} {n : Name} (h : classExists cs n = true) :
    ∃ m, classTuple cs n = .ok (n, m) := by
  obtain ⟨c, hc, _, _⟩ := findClass_of_exists h
  exact ⟨c.name, by simp [classTuple, hc]⟩

theorem classAdmits_mono {cs : List Cls} {a b : Option Name} (h : optLe a b) {c : Name}
    (hb : classAdmits cs b c = true) : classAdmits cs a c = true := by
  rcases h with h | h
  · exact truthy_false_classAdmits h c
  · rw [h]; exact hb

theorem roleAdmits_mono {a b : Option Name} (h : optLe a b) {p : Name}
    (hb : roleAdmits b p = true) : roleAdmits a p = true := by
  rcases h with h | h
  · exact truthy_false_roleAdmits h p
  · rw [h]; exact hb

theorem filterClassOk_mono {cs : List Cls} {a b : Option Name} (h : optLe a b)
    (hb : filterClassOk cs b = true) : filterClassOk cs a = true := by
  rcases h with h | h
  · exact filterClassOk_of_not_truthy h
  · rw [h]; exact hb

theorem findInst_self {is : List Inst} (hok : StoreOk is) {a : Inst} (ha : a ∈ is) :
    findInst is a.path = some a := by
  unfold findInst
  cases hf : is.find? (fun i => i.path.eqv a.path) with
  | none =>
    rw [List.find?_eq_none] at hf
    have := hf a ha
    simp [eqv_refl] at this
  | some b =>
    have hb := List.mem_of_find?_eq_some hf
    have hbe : b.path.eqv a.path = true := by
      have := List.find?_some hf; exact this
    rw [hok.unique b hb a ha hbe]

/-! ### storing: addInst / createAssoc -/

theorem findNs_addInst (r : Repo) (m : Name) (a : Inst) (n : Name) :
    findNs (addInst r m a) n =
      (findNs r n).map (fun S => if ieq S.name m then { S with insts := S.insts ++ [rebase a m] } else S) := by
  unfold findNs addInst
  rw [List.find?_map]
  have : ((fun s : NsStore => ieq s.name n) ∘ fun S : NsStore =>
      if ieq S.name m then { S with insts := S.insts ++ [rebase a m] } else S) = (fun s => ieq s.name n) := by
    funext S
    simp only [Function.comp]
    split <;> rfl
  rw [this]

theorem addInst_self {r : Repo} {n : Name} {a : Inst} {S : NsStore} (h : findNs r n = some S) :
    ∃ T, findNs (addInst r n a) n = some T ∧ rebase a n ∈ T.insts ∧ T.classes = S.classes := by
  have hn : ieq S.name n = true := by
    have := List.find?_some h; exact this
  rw [findNs_addInst, h]
  exact ⟨_, rfl, by simp [hn], by simp [hn]⟩

theorem addInst_keeps {r : Repo} {m n : Name} {a : Inst} {S : NsStore} (h : findNs r n = some S) :
    ∃ T, findNs (addInst r m a) n = some T ∧ (∀ i ∈ S.insts, i ∈ T.insts) ∧ T.classes = S.classes := by
  rw [findNs_addInst, h]
  refine ⟨_, rfl, ?_, ?_⟩
  · intro i hi; by_cases hm : ieq S.name m = true <;> simp [hm, hi]
  · by_cases hm : ieq S.name m = true <;> simp [hm]

theorem foldl_addInst_keeps {a : Inst} : ∀ (nss : List Name) (r : Repo) {n : Name} {S : NsStore},
    findNs r n = some S →
    ∃ T, findNs (nss.foldl (fun r n => addInst r n a) r) n = some T ∧ (∀ i ∈ S.insts, i ∈ T.insts) ∧
      T.classes = S.classes
  | [], r, n, S, h => ⟨S, h, fun _ hi => hi, rfl⟩
  | m :: nss, r, n, S, h => by
    obtain ⟨T1, hT1, hsub1, hc1⟩ := addInst_keeps (m := m) (a := a) h
    obtain ⟨T2, hT2, hsub2, hc2⟩ := foldl_addInst_keeps nss (addInst r m a) hT1
    exact ⟨T2, hT2, fun i hi => hsub2 i (hsub1 i hi), hc2.trans hc1⟩

theorem foldl_addInst_mem {a : Inst} : ∀ (nss : List Name) (r : Repo),
    (∀ n ∈ nss, ∃ S, findNs r n = some S) →
    ∀ n ∈ nss, ∃ T, findNs (nss.foldl (fun r n => addInst r n a) r) n = some T ∧ rebase a n ∈ T.insts
  | [], _, _, n, hn => by cases hn
  | m :: nss, r, hall, n, hn => by
    simp only [List.foldl_cons]
    have hall' : ∀ n ∈ nss, ∃ S, findNs (addInst r m a) n = some S := by
      intro k hk
      obtain ⟨S, hS⟩ := hall k (List.mem_cons_of_mem _ hk)
      obtain ⟨T, hT, _, _⟩ := addInst_keeps (m := m) (a := a) hS
      exact ⟨T, hT⟩
    rcases List.mem_cons.mp hn with rfl | hn'
    · obtain ⟨S, hS⟩ := hall n (List.mem_cons_self ..)
      obtain ⟨T1, hT1, hmem, _⟩ := addInst_self (a := a) hS
      obtain ⟨T2, hT2, hsub, _⟩ := foldl_addInst_keeps nss (addInst r n a) hT1
      exact ⟨T2, hT2, hsub _ hmem⟩
    · exact foldl_addInst_mem nss (addInst r m a) hall' n hn'

end C13
