/-
C01 — from clean objects to well-formed, wire-stable trees, part 1: strings and trees.
`textOk` / `attrOk` (what a string must satisfy to travel as character data / as an attribute value),
`Good t` (= `WfTree t ∧ SoftStable t`), building blocks for the encoder's elements, and
`ser_textOk`: the serialisation of a good tree is itself a good text (embedded objects).
-/
import Proofs.Lemmas.CimXml15
import Pywbem.Model.XmlCdata

set_option linter.unusedSimpArgs false
set_option linter.unusedVariables false
set_option linter.unusedSectionVars false

namespace Proofs.CimXml
open Pywbem.Model Pywbem.Model.XmlText Pywbem.Proto Pywbem.Model.XmlParse Proofs.XmlText Proofs.XmlParse

/-! ### strings -/

/-- a character that survives as character data: XML Char, not CR (CR arrives as LF, finding C01-KF1) -/
def textChar (c : Char) : Bool := isXmlChar c && c != '\r'
/-- a character that survives in an attribute value: XML Char, not TAB / LF / CR (they arrive as blanks) -/
def attrChar (c : Char) : Bool := isXmlChar c && c != '\t' && c != '\n' && c != '\r'

/-- a string that survives as character data -/
def textOk (s : Str) : Bool := s.all textChar
/-- a string that survives as an attribute value -/
def attrOk (s : Str) : Bool := s.all attrChar

theorem attrChar_textChar {c : Char} (h : attrChar c = true) : textChar c = true := by
  simp only [attrChar, textChar, Bool.and_eq_true] at h ⊢
  exact ⟨h.1.1.1, h.2⟩

theorem attrOk_textOk {s : Str} (h : attrOk s = true) : textOk s = true := by
  simp only [attrOk, textOk, List.all_eq_true] at h ⊢
  exact fun c hc => attrChar_textChar (h c hc)

theorem textOk_nil : textOk [] = true := rfl
theorem textOk_append {a b : Str} (ha : textOk a = true) (hb : textOk b = true) : textOk (a ++ b) = true := by
  simp only [textOk, List.all_append, Bool.and_eq_true]; exact ⟨ha, hb⟩
theorem textOk_cons {c : Char} {s : Str} (hc : textChar c = true) (hs : textOk s = true) : textOk (c :: s) = true := by
  simp only [textOk, List.all_cons, Bool.and_eq_true]; exact ⟨hc, hs⟩

theorem textOk_append_eq (a b : Str) : textOk (a ++ b) = (textOk a && textOk b) := by
  simp only [textOk, List.all_append]
theorem textOk_cons_eq (c : Char) (s : Str) : textOk (c :: s) = (textChar c && textOk s) := by
  simp only [textOk, List.all_cons]

theorem textOk_xml {s : Str} (h : textOk s = true) : s.all isXmlChar = true := by
  simp only [textOk, List.all_eq_true, textChar, Bool.and_eq_true] at h ⊢
  exact fun c hc => (h c hc).1

theorem textOk_noCR {s : Str} (h : textOk s = true) : (!s.contains '\r') = true := by
  simp only [textOk, List.all_eq_true, textChar, Bool.and_eq_true, bne_iff_ne, ne_eq] at h
  simp only [Bool.not_eq_true', List.contains_eq_mem, decide_eq_false_iff_not]
  exact fun hm => (h _ hm).2 rfl

theorem textOk_of {s : Str} (h1 : s.all isXmlChar = true) (h2 : (!s.contains '\r') = true) : textOk s = true := by
  simp only [List.all_eq_true] at h1
  simp only [Bool.not_eq_true', List.contains_eq_mem, decide_eq_false_iff_not] at h2
  simp only [textOk, List.all_eq_true, textChar, Bool.and_eq_true, bne_iff_ne, ne_eq]
  exact fun c hc => ⟨h1 c hc, fun e => h2 (e ▸ hc)⟩

theorem attrOk_xml {s : Str} (h : attrOk s = true) : s.all isXmlChar = true := textOk_xml (attrOk_textOk h)

theorem attrOk_stable {s : Str} (h : attrOk s = true) :
    s.all (fun c => c != '\t' && c != '\n' && c != '\r') = true := by
  simp only [attrOk, List.all_eq_true, attrChar, Bool.and_eq_true] at h ⊢
  exact fun c hc => ⟨⟨(h c hc).1.1.2, (h c hc).1.2⟩, (h c hc).2⟩

theorem attrOk_of {s : Str} (h1 : s.all isXmlChar = true)
    (h2 : s.all (fun c => c != '\t' && c != '\n' && c != '\r') = true) : attrOk s = true := by
  simp only [List.all_eq_true, Bool.and_eq_true] at h1 h2
  simp only [attrOk, List.all_eq_true, attrChar, Bool.and_eq_true]
  exact fun c hc => ⟨⟨⟨h1 c hc, (h2 c hc).1.1⟩, (h2 c hc).1.2⟩, (h2 c hc).2⟩

/-- printable ASCII (what Python's number formatting produces) survives everywhere -/
theorem attrChar_of_printable {c : Char} (h : 0x20 ≤ c.toNat ∧ c.toNat ≤ 0x7E) : attrChar c = true := by
  have h1 : isXmlChar c = true := by
    simp only [isXmlChar, Bool.or_eq_true, Bool.and_eq_true, decide_eq_true_eq, beq_iff_eq]
    omega
  have h2 : c ≠ '\t' := by intro e; subst e; simp at h
  have h3 : c ≠ '\n' := by intro e; subst e; simp at h
  have h4 : c ≠ '\r' := by intro e; subst e; simp at h
  simp [attrChar, h1, h2, h3, h4]

theorem attrOk_of_printable {s : Str} (h : ∀ c ∈ s, 0x20 ≤ c.toNat ∧ c.toNat ≤ 0x7E) : attrOk s = true := by
  simp only [attrOk, List.all_eq_true]
  exact fun c hc => attrChar_of_printable (h c hc)

theorem printable_of_isDigit {c : Char} (h : c.isDigit = true) : 0x20 ≤ c.toNat ∧ c.toNat ≤ 0x7E := by
  have := isDigit_range h; omega

theorem attrOk_natToStr (n : Nat) : attrOk (natToStr n) = true :=
  attrOk_of_printable (fun c hc => printable_of_isDigit (natToStr_digits n c hc))

theorem textOk_intToStr (v : Int) : textOk (intToStr v) = true := by
  apply attrOk_textOk
  apply attrOk_of_printable
  intro c hc
  unfold intToStr at hc
  split at hc
  · simp only [List.mem_cons] at hc
    rcases hc with rfl | hc
    · decide
    · exact printable_of_isDigit (natToStr_digits _ c hc)
  · exact printable_of_isDigit (natToStr_digits _ c hc)

theorem attrOk_boolAttr (b : Bool) : attrOk (boolAttr b) = true := by cases b <;> decide

theorem attrOk_intTy (t : IntTy) : attrOk t.name = true := by cases t <;> decide

/-! ### names -/

theorem textChar_of_nameChar {c : Char} (h : isNameChar c = true) : textChar c = true := by
  apply attrChar_textChar
  apply attrChar_of_printable
  simp only [isNameChar, isNameStart, Bool.or_eq_true, Bool.and_eq_true, decide_eq_true_eq, beq_iff_eq] at h
  omega

theorem nameStart_nameChar {c : Char} (h : isNameStart c = true) : isNameChar c = true := by
  simp only [isNameChar, h, Bool.true_or]

theorem textOk_of_isName {n : Str} (h : isName n = true) : textOk n = true := by
  cases n with
  | nil => simp [isName] at h
  | cons c cs =>
    simp only [isName, Bool.and_eq_true, List.all_eq_true] at h
    apply textOk_cons (textChar_of_nameChar (nameStart_nameChar h.1))
    simp only [textOk, List.all_eq_true]
    exact fun x hx => textChar_of_nameChar (h.2 x hx)

/-! ### attribute lists -/

/-- names are XML Names, values survive as attribute values -/
def GoodAttrs (as : List (Str × Str)) : Prop := wfAttrs as = true ∧ stableAttrs as = true

theorem goodAttrs_nil : GoodAttrs [] := ⟨rfl, rfl⟩

theorem goodAttrs_cons {k v : Str} {as : List (Str × Str)} (hk : isName k = true) (hv : attrOk v = true)
    (h : GoodAttrs as) : GoodAttrs ((k, v) :: as) := by
  refine ⟨?_, ?_⟩
  · simp only [wfAttrs, Bool.and_eq_true]; exact ⟨⟨hk, attrOk_xml hv⟩, h.1⟩
  · simp only [stableAttrs, Bool.and_eq_true]; exact ⟨attrOk_stable hv, h.2⟩

theorem goodAttrs_append {a b : List (Str × Str)} (ha : GoodAttrs a) (hb : GoodAttrs b) : GoodAttrs (a ++ b) := by
  induction a with
  | nil => exact hb
  | cons p a ih =>
    obtain ⟨k, v⟩ := p
    obtain ⟨h1, h2⟩ := ha
    simp only [wfAttrs, Bool.and_eq_true] at h1
    simp only [stableAttrs, Bool.and_eq_true] at h2
    have := ih ⟨h1.2, h2.2⟩
    refine ⟨?_, ?_⟩
    · simp only [List.cons_append, wfAttrs, Bool.and_eq_true]; exact ⟨h1.1, this.1⟩
    · simp only [List.cons_append, stableAttrs, Bool.and_eq_true]; exact ⟨h2.1, this.2⟩

theorem goodAttrs_optAttr (k : String) (v : Option Str) (hk : isName k.toList = true)
    (hv : ∀ s, v = some s → attrOk s = true) : GoodAttrs (optAttr k v) := by
  cases v with
  | none => exact goodAttrs_nil
  | some s => exact goodAttrs_cons hk (hv s rfl) goodAttrs_nil

theorem goodAttrs_optBoolAttr (k : String) (v : Option Bool) (hk : isName k.toList = true) :
    GoodAttrs (optBoolAttr k v) := by
  cases v with
  | none => exact goodAttrs_nil
  | some b => exact goodAttrs_cons hk (attrOk_boolAttr b) goodAttrs_nil

/-- the attribute names, in order, are a sub-list of `L` (a literal list without repetitions) -/
def KeysSub (as : List (Str × Str)) (L : List Str) : Prop := (as.map (·.1)).Sublist L

theorem keysSub_nil (L : List Str) : KeysSub [] L := List.nil_sublist _

theorem keysSub_cons {k v : Str} {as : List (Str × Str)} {L : List Str} (h : KeysSub as L) :
    KeysSub ((k, v) :: as) (k :: L) := by
  unfold KeysSub; simp only [List.map_cons]; exact List.Sublist.cons_cons k h

theorem keysSub_append {a b : List (Str × Str)} {L1 L2 : List Str} (ha : KeysSub a L1) (hb : KeysSub b L2) :
    KeysSub (a ++ b) (L1 ++ L2) := by
  unfold KeysSub at *; rw [List.map_append]; exact List.Sublist.append ha hb

theorem keysSub_optAttr (k : String) (v : Option Str) : KeysSub (optAttr k v) [k.toList] := by
  cases v with
  | none => exact keysSub_nil _
  | some s => exact keysSub_cons (keysSub_nil _)

theorem keysSub_optBoolAttr (k : String) (v : Option Bool) : KeysSub (optBoolAttr k v) [k.toList] := by
  cases v with
  | none => exact keysSub_nil _
  | some s => exact keysSub_cons (keysSub_nil _)

theorem noDup_of_keysSub {as : List (Str × Str)} {L : List Str} (h : KeysSub as L) (hL : L.Nodup) :
    hasDup (as.map (·.1)) = false :=
  (hasDup_eq_false_iff _).mpr (List.Sublist.nodup h hL)

/-! ### trees -/

/-- well formed and wire-stable -/
def Good (t : Xml) : Prop := wfTree t = true ∧ softTree t = true
def GoodKids (ks : List Xml) : Prop := wfKids ks = true ∧ softKids ks = true

theorem goodKids_nil : GoodKids [] := ⟨by simp only [wfKids], by simp only [softKids]⟩

theorem goodKids_cons {k : Xml} {ks : List Xml} (hk : Good k) (h : GoodKids ks) : GoodKids (k :: ks) := by
  refine ⟨?_, ?_⟩
  · simp only [wfKids, Bool.and_eq_true]; exact ⟨hk.1, h.1⟩
  · simp only [softKids, Bool.and_eq_true]; exact ⟨hk.2, h.2⟩

theorem goodKids_append {a b : List Xml} (ha : GoodKids a) (hb : GoodKids b) : GoodKids (a ++ b) := by
  induction a with
  | nil => exact hb
  | cons k a ih =>
    obtain ⟨h1, h2⟩ := ha
    simp only [wfKids, Bool.and_eq_true] at h1
    simp only [softKids, Bool.and_eq_true] at h2
    exact goodKids_cons ⟨h1.1, h2.1⟩ (ih ⟨h1.2, h2.2⟩)

theorem good_text {s : Str} (h : textOk s = true) : Good (.text s) := by
  refine ⟨?_, ?_⟩
  · simp only [wfTree]; exact textOk_xml h
  · simp only [softTree]; exact textOk_noCR h

theorem good_elem {n : Str} {as : List (Str × Str)} {ks : List Xml} (hn : isName n = true) (ha : GoodAttrs as)
    (hd : hasDup (as.map (·.1)) = false) (hk : GoodKids ks) : Good (.elem n as ks) := by
  refine ⟨?_, ?_⟩
  · simp only [wfTree, Bool.and_eq_true, Bool.not_eq_true']; exact ⟨⟨⟨hn, ha.1⟩, hd⟩, hk.1⟩
  · simp only [softTree, Bool.and_eq_true]; exact ⟨ha.2, hk.2⟩

theorem good_E {n : String} {as : List (Str × Str)} {ks : List Xml} (hn : isName n.toList = true) (ha : GoodAttrs as)
    (hd : hasDup (as.map (·.1)) = false) (hk : GoodKids ks) : Good (E n as ks) := good_elem hn ha hd hk

/-- an element without attributes -/
theorem good_E0 {n : String} {ks : List Xml} (hn : isName n.toList = true) (hk : GoodKids ks) : Good (E n [] ks) :=
  good_E hn goodAttrs_nil rfl hk

theorem good_valueElem {s : Str} (h : textOk s = true) : Good (valueElem s) :=
  good_E0 (by decide) (goodKids_cons (good_text h) goodKids_nil)

/-! ### the serialisation of a good tree is a good text -/

theorem textOk_escChar {c : Char} (h : textChar c = true) : textOk (escChar c) = true := by
  unfold escChar
  split
  · decide
  · split
    · decide
    · split
      · decide
      · split
        · decide
        · exact textOk_cons h textOk_nil

theorem textOk_esc {s : Str} (h : textOk s = true) : textOk (esc s) = true := by
  induction s with
  | nil => rfl
  | cons c cs ih =>
    simp only [textOk, List.all_cons, Bool.and_eq_true] at h
    simp only [esc]
    exact textOk_append (textOk_escChar h.1) (ih h.2)

theorem tc_sp : textChar ' ' = true := by decide
theorem tc_eq : textChar '=' = true := by decide
theorem tc_quot : textChar '"' = true := by decide
theorem tc_lt : textChar '<' = true := by decide
theorem tc_gt : textChar '>' = true := by decide
theorem tc_slash : textChar '/' = true := by decide

theorem textOk_serAttrs {as : List (Str × Str)} (h : GoodAttrs as) : textOk (Xml.serAttrs as) = true := by
  induction as with
  | nil => rfl
  | cons p as ih =>
    obtain ⟨k, v⟩ := p
    obtain ⟨h1, h2⟩ := h
    simp only [wfAttrs, Bool.and_eq_true] at h1
    simp only [stableAttrs, Bool.and_eq_true] at h2
    have hv : textOk (esc v) = true := textOk_esc (attrOk_textOk (attrOk_of h1.1.2 h2.1))
    have hk : textOk k = true := textOk_of_isName h1.1.1
    have ih' := ih ⟨h1.2, h2.2⟩
    simp only [Xml.serAttrs, List.append_eq, textOk_append_eq, textOk_cons_eq, hv, hk, ih', tc_sp, tc_eq, tc_quot,
      Bool.and_self]

mutual
/-- **embedded objects**: `toxml()` of a well-formed, wire-stable tree is a string of XML Chars without CR -/
theorem ser_textOk : (t : Xml) → wfTree t = true → softTree t = true → textOk (Xml.ser t) = true
  | .text s, hw, hs => by
    simp only [wfTree] at hw
    simp only [softTree] at hs
    simp only [Xml.ser]
    exact textOk_esc (textOk_of hw hs)
  | .elem n as [], hw, hs => by
    simp only [wfTree, Bool.and_eq_true] at hw
    simp only [softTree, Bool.and_eq_true] at hs
    have hn := textOk_of_isName hw.1.1.1
    have ha := textOk_serAttrs ⟨hw.1.1.2, hs.1⟩
    have he : textOk "/>".toList = true := by decide
    simp only [Xml.ser, List.append_eq, textOk_append_eq, textOk_cons_eq, hn, ha, he, tc_lt, Bool.and_self]
  | .elem n as (k :: ks), hw, hs => by
    simp only [wfTree, Bool.and_eq_true] at hw
    simp only [softTree, Bool.and_eq_true] at hs
    have hn := textOk_of_isName hw.1.1.1
    have ha := textOk_serAttrs ⟨hw.1.1.2, hs.1⟩
    have hl := serList_textOk (k :: ks) hw.2 hs.2
    have hnil : textOk [] = true := rfl
    simp only [Xml.ser, List.append_eq, textOk_append_eq, textOk_cons_eq, hn, ha, hl, hnil, tc_lt, tc_gt, tc_slash,
      Bool.and_self]
theorem serList_textOk : (ks : List Xml) → wfKids ks = true → softKids ks = true → textOk (Xml.serList ks) = true
  | [], _, _ => by simp only [Xml.serList]; rfl
  | k :: ks, hw, hs => by
    simp only [wfKids, Bool.and_eq_true] at hw
    simp only [softKids, Bool.and_eq_true] at hs
    simp only [Xml.serList]
    exact textOk_append (ser_textOk k hw.1 hs.1) (serList_textOk ks hw.2 hs.2)
end

theorem good_ser {t : Xml} (h : Good t) : textOk (Xml.ser t) = true := ser_textOk t h.1 h.2

/-! ### namespaces -/

theorem mem_splitSlash (s : Str) : ∀ seg ∈ splitSlash s, ∀ c ∈ seg, c ∈ s := by
  induction s with
  | nil => intro seg hseg c hc; simp [splitSlash] at hseg; subst hseg; simp at hc
  | cons x xs ih =>
    intro seg hseg c hc
    simp only [splitSlash] at hseg
    split at hseg
    · simp only [List.mem_cons] at hseg
      rcases hseg with rfl | hseg
      · simp at hc
      · exact List.mem_cons_of_mem _ (ih seg hseg c hc)
    · split at hseg
      · simp only [List.mem_cons, List.not_mem_nil, or_false] at hseg
        subst hseg
        simp only [List.mem_cons, List.not_mem_nil, or_false] at hc
        subst hc; simp
      · rename_i p ps hsp
        simp only [List.mem_cons] at hseg
        rcases hseg with rfl | hseg
        · simp only [List.mem_cons] at hc
          rcases hc with rfl | hc
          · simp
          · exact List.mem_cons_of_mem _ (ih p (by rw [hsp]; simp) c hc)
        · exact List.mem_cons_of_mem _ (ih seg (by rw [hsp]; simp [hseg]) c hc)

theorem attrOk_splitSlash {s : Str} (h : attrOk s = true) : ∀ seg ∈ splitSlash s, attrOk seg = true := by
  intro seg hseg
  simp only [attrOk, List.all_eq_true] at h ⊢
  exact fun c hc => h c (mem_splitSlash s seg hseg c hc)

theorem good_nsElem {n : Str} (h : attrOk n = true) : Good (nsElem n) :=
  good_E (by decide) (goodAttrs_cons (by decide) h goodAttrs_nil) (by simp [hasDup]) goodKids_nil

theorem goodKids_nsElems (l : List Str) (h : ∀ n ∈ l, attrOk n = true) : GoodKids (l.map nsElem) := by
  induction l with
  | nil => exact goodKids_nil
  | cons n l ih =>
    exact goodKids_cons (good_nsElem (h n (by simp))) (ih (fun x hx => h x (by simp [hx])))

/-- a namespace travels as NAME attributes of NAMESPACE elements, one per `/`-separated component -/
theorem good_localNsPath {ns : Str} (h : attrOk ns = true) : Good (localNsPath ns) := by
  rw [localNsPath_eq]
  exact good_E0 (by decide) (goodKids_nsElems _ (attrOk_splitSlash h))

theorem good_nsPath {host ns : Str} (hh : textOk host = true) (hn : attrOk ns = true) : Good (nsPath host ns) := by
  unfold nsPath
  exact good_E0 (by decide)
    (goodKids_cons (good_E0 (by decide) (goodKids_cons (good_text hh) goodKids_nil))
      (goodKids_cons (good_localNsPath hn) goodKids_nil))

/-! ### CDATA mode: a wire-stable tree is `CdSafe` -/

theorem endsCR_mem {s : Str} (h : Pywbem.Model.XmlCdata.endsCR s = true) : '\r' ∈ s := by
  induction s with
  | nil => simp [Pywbem.Model.XmlCdata.endsCR] at h
  | cons c cs ih =>
    cases cs with
    | nil => simp [Pywbem.Model.XmlCdata.endsCR] at h; simp [h]
    | cons d t =>
      simp only [Pywbem.Model.XmlCdata.endsCR] at h
      exact List.mem_cons_of_mem _ (ih h)

mutual
theorem cdSafe_of_soft : (t : Xml) → softTree t = true → Pywbem.Model.XmlCdata.cdSafe t = true
  | .text s, _ => by simp only [Pywbem.Model.XmlCdata.cdSafe]
  | .elem n as ks, h => by
    simp only [softTree, Bool.and_eq_true] at h
    simp only [Pywbem.Model.XmlCdata.cdSafe]
    exact cdSafeKids_of_soft ks h.2
theorem cdSafeKids_of_soft : (ks : List Xml) → softKids ks = true → Pywbem.Model.XmlCdata.cdSafeKids ks = true
  | [], _ => by simp only [Pywbem.Model.XmlCdata.cdSafeKids]
  | .text s :: ks, h => by
    simp only [softKids, softTree, Bool.and_eq_true, Bool.not_eq_true', List.contains_eq_mem,
      decide_eq_false_iff_not] at h
    have : Pywbem.Model.XmlCdata.endsCR s = false := by
      cases he : Pywbem.Model.XmlCdata.endsCR s
      · rfl
      · exact absurd (endsCR_mem he) h.1
    simp only [Pywbem.Model.XmlCdata.cdSafeKids, this, Bool.false_and, Bool.not_false, Bool.true_and]
    exact cdSafeKids_of_soft ks h.2
  | .elem n as kk :: ks, h => by
    simp only [softKids, Bool.and_eq_true] at h
    simp only [Pywbem.Model.XmlCdata.cdSafeKids, Bool.and_eq_true]
    exact ⟨cdSafe_of_soft (.elem n as kk) h.1, cdSafeKids_of_soft ks h.2⟩
end

end Proofs.CimXml
