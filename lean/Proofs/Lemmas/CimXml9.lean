/-
C01 — second trip: `wd…` (object after one trip) is idempotent, so a second trip changes nothing;
child names and their order are preserved; the toy codec satisfies `CodecOk`.
-/
import Proofs.Lemmas.CimXml8

set_option linter.unusedSimpArgs false
set_option linter.unusedVariables false
set_option linter.unusedSectionVars false

namespace Proofs.CimXml
open Pywbem.Model Pywbem.Model.XmlText Pywbem.Proto

theorem dBool_idem (d : Bool) (x : Option Bool) : dBool d (dBool d x) = dBool d x := by
  cases x <;> rfl

section
variable (C : DecCodec) (S : Spec) (hC : CodecOk C S)

include hC in
theorem reparse_idem (w : Bool) (b : UInt64) : C.reparse w (C.reparse w b) = C.reparse w b := by
  have h := (hC.real_parses w b).2.2
  unfold Codec.reparse
  rw [show C.fmtReal w ((C.parseFloat (strip (C.fmtReal w b))).getD b) = C.fmtReal w b from hC.real_idem w b]
  exact getD_of_isSome h _ _

include hC in
theorem reparseKey_idem (b : UInt64) : C.reparseKey (C.reparseKey b) = C.reparseKey b := by
  have h := (hC.key_parses b).2.2
  unfold Codec.reparseKey
  rw [show C.strFloat ((C.parseFloat (strip (C.strFloat b))).getD b) = C.strFloat b from hC.key_idem b]
  exact getD_of_isSome h _ _

include hC in
mutual
theorem idem_atom : (a : Atom) → wdAtom C.toCodec (wdAtom C.toCodec a) = wdAtom C.toCodec a
  | .null => by simp only [wdAtom]
  | .str _ => by simp only [wdAtom]
  | .char16 _ => by simp only [wdAtom]
  | .bool _ => by simp only [wdAtom]
  | .int _ _ => by simp only [wdAtom]
  | .dt _ => by simp only [wdAtom]
  | .pyint _ => by simp only [wdAtom]
  | .real w b => by simp only [wdAtom, reparse_idem C S hC]
  | .pyfloat b => by simp only [wdAtom, reparse_idem C S hC]
  | .ref p => by simp only [wdAtom, idem_path p]
  | .einst i => by simp only [wdAtom, idem_instnp i]
  | .ecls c => by simp only [wdAtom, idem_cls c]
theorem idem_atoms : (l : List Atom) → wdAtoms C.toCodec (wdAtoms C.toCodec l) = wdAtoms C.toCodec l
  | [] => by simp only [wdAtoms]
  | a :: l => by simp only [wdAtoms, idem_atom a, idem_atoms l]
theorem idem_key : (k : Key) → wdKey C.toCodec (wdKey C.toCodec k) = wdKey C.toCodec k
  | .mk n (.real w b) => by simp only [wdKey, reparseKey_idem C S hC]
  | .mk n (.pyfloat b) => by simp only [wdKey, reparseKey_idem C S hC]
  | .mk n (.ref p) => by simp only [wdKey, idem_path p]
  | .mk n .null => by simp only [wdKey]
  | .mk n (.str _) => by simp only [wdKey]
  | .mk n (.char16 _) => by simp only [wdKey]
  | .mk n (.bool _) => by simp only [wdKey]
  | .mk n (.int _ _) => by simp only [wdKey]
  | .mk n (.dt _) => by simp only [wdKey]
  | .mk n (.pyint _) => by simp only [wdKey]
  | .mk n (.einst _) => by simp only [wdKey]
  | .mk n (.ecls _) => by simp only [wdKey]
theorem idem_keys : (l : List Key) → wdKeys C.toCodec (wdKeys C.toCodec l) = wdKeys C.toCodec l
  | [] => by simp only [wdKeys]
  | k :: l => by simp only [wdKeys, idem_key k, idem_keys l]
theorem idem_path : (p : Path) → wdPath C.toCodec (wdPath C.toCodec p) = wdPath C.toCodec p
  | .inst c host ns keys => by
    cases ns <;> simp only [wdPath, idem_keys keys]
  | .cls c host ns => by
    cases ns <;> simp only [wdPath]
theorem idem_val : (v : Val) → wdVal C.toCodec (wdVal C.toCodec v) = wdVal C.toCodec v
  | .null => by simp only [wdVal]
  | .scalar a => by simp only [wdVal, idem_atom a]
  | .array l => by simp only [wdVal, idem_atoms l]
theorem idem_qual : (q : Qual) → wdQual C.toCodec (wdQual C.toCodec q) = wdQual C.toCodec q
  | .mk n ty v p o ts ti tr => by simp only [wdQual, idem_val v, dBool_idem]
theorem idem_quals : (l : List Qual) → wdQuals C.toCodec (wdQuals C.toCodec l) = wdQuals C.toCodec l
  | [] => by simp only [wdQuals]
  | q :: l => by simp only [wdQuals, idem_qual q, idem_quals l]
theorem idem_prop : (p : Prop_) → wdProp C.toCodec (wdProp C.toCodec p) = wdProp C.toCodec p
  | .mk n ty v isArr asz refCls origin prop emb quals => by
    simp only [wdProp, idem_val v, idem_quals quals, dBool_idem]
theorem idem_props : (l : List Prop_) → wdProps C.toCodec (wdProps C.toCodec l) = wdProps C.toCodec l
  | [] => by simp only [wdProps]
  | p :: l => by simp only [wdProps, idem_prop p, idem_props l]
theorem idem_instnp : (i : Inst) → wdInstNoPath C.toCodec (wdInstNoPath C.toCodec i) = wdInstNoPath C.toCodec i
  | .mk c path props quals => by simp only [wdInstNoPath, idem_props props, idem_quals quals]
theorem idem_param : (p : Param) → wdParam C.toCodec (wdParam C.toCodec p) = wdParam C.toCodec p
  | .mk n ty refCls isArr asz quals v e => by simp only [wdParam, idem_quals quals]
theorem idem_params : (l : List Param) → wdParams C.toCodec (wdParams C.toCodec l) = wdParams C.toCodec l
  | [] => by simp only [wdParams]
  | p :: l => by simp only [wdParams, idem_param p, idem_params l]
theorem idem_meth : (m : Meth) → wdMeth C.toCodec (wdMeth C.toCodec m) = wdMeth C.toCodec m
  | .mk n rt params origin prop quals => by
    simp only [wdMeth, idem_params params, idem_quals quals, dBool_idem]
theorem idem_meths : (l : List Meth) → wdMeths C.toCodec (wdMeths C.toCodec l) = wdMeths C.toCodec l
  | [] => by simp only [wdMeths]
  | m :: l => by simp only [wdMeths, idem_meth m, idem_meths l]
theorem idem_cls : (c : Cls) → wdCls C.toCodec (wdCls C.toCodec c) = wdCls C.toCodec c
  | .mk n sup path props meths quals => by
    simp only [wdCls, idem_props props, idem_meths meths, idem_quals quals]
end

include hC in
theorem idem_inst (i : Inst) : wdInst C.toCodec (wdInst C.toCodec i) = wdInst C.toCodec i := by
  obtain ⟨c, path, props, quals⟩ := i
  cases path with
  | none => simp only [wdInst, idem_props C S hC, idem_quals C S hC]
  | some p => simp only [wdInst, idem_props C S hC, idem_quals C S hC, idem_path C S hC]

end

end Proofs.CimXml
