/-
Helper lemmas for C18, part 5: what an operation leaves alone (world level), list forms of the refusal lemmas.
-/
import Proofs.Lemmas.SubMgr4

namespace Proofs.SubMgr
open Pywbem.Model.SubMgr Pywbem.Proto

/-- the manager object that performs an operation -/
def actor : Op → Option Nat
  | .newMgr _ => none
  | .dropMgr _ => none
  | .addServer m _ => some m
  | .removeServer m _ => some m
  | .removeAll m => some m
  | .exitCtx m _ => some m
  | .addDest m _ _ => some m
  | .addFilter m _ _ _ _ => some m
  | .addSubs m _ _ _ _ => some m
  | .removeDests m _ _ => some m
  | .removeFilter m _ _ => some m
  | .removeSubs m _ _ => some m
  | .getOwned m _ _ => some m
  | .getAll m _ _ => some m

theorem put_frame {w : World} {m s : Nat} {id : Str} (r : R)
    (h : Frame id (w.store s) r.st) (s' : Nat) : Frame id (w.store s') ((w.put m s r.st r.o).store s') := by
  by_cases e : s' = s
  · subst e; rw [put_store_same]; exact h
  · rw [put_store_other _ _ _ _ _ _ e]; exact Frame.refl id _

/-- **No operation of a manager touches what another manager id owns**: in every server, the sets of
    destinations / filters / subscriptions owned by any OTHER colon-free id are the same before and after. -/
theorem step_frame {w : World} (hw : WInv w) (op : Op) (wb : WB w op) (m : Nat) (id : Str)
    (ha : actor op = some m) (hid : w.ids m = some id) (s' : Nat) :
    Frame id (w.store s') ((step w op).1.store s') := by
  have hc := hw.idok m id hid
  -- local steps: Good when registered, no change otherwise
  have local_ : ∀ (s : Nat) (r : R), (w.reg m s = true → Good id (w.store s) r) →
      (w.reg m s = false → r.st = w.store s) →
      Frame id (w.store s') ((w.put m s r.st r.o).store s') := by
    intro s r h1 h2
    apply put_frame
    cases hr : w.reg m s with
    | true => exact (h1 hr).frame
    | false => rw [h2 hr]; exact Frame.refl id _
  cases op with
  | newMgr i => simp [actor] at ha
  | dropMgr i => simp [actor] at ha
  | addServer m0 s =>
    simp only [actor, Option.some.injEq] at ha; subst ha
    simp only [step, hid]
    cases hr : w.reg m0 s with
    | true => simp only [if_true]; exact Frame.refl id _
    | false =>
      simp only [Bool.false_eq_true, if_false]
      exact put_frame ⟨w.store s, discover id (w.store s), .done⟩ (Frame.refl id _) s'
  | removeServer m0 s =>
    simp only [actor, Option.some.injEq] at ha; subst ha
    simp only [step, hid]
    cases hr : w.reg m0 s with
    | true =>
      rw [removeServerW_eq hw hid s hr]
      by_cases e : s' = s
      · subst e; simp only [updW, World.put, if_true]; exact purge_frame hc
      · simp only [updW, World.put, e, if_false]; exact Frame.refl id _
    | false =>
      simp only [stepRemoveServerW, hr, stepRemoveServer, Bool.not_false, if_true, Bool.or_true]
      exact put_frame ⟨w.store s, w.owned m0 s, Res.err PyExc.valueError⟩ (Frame.refl id _) s'
  | removeAll m0 =>
    simp only [actor, Option.some.injEq] at ha; subst ha
    rw [(removeAll_exact hw hid).2.1 s']
    by_cases e : s' ∈ w.servers m0
    · simp only [e, if_true]; exact purge_frame hc
    · simp only [e, if_false]; exact Frame.refl id _
  | exitCtx m0 exc =>
    simp only [actor, Option.some.injEq] at ha; subst ha
    have hst : (step w (.exitCtx m0 exc)).1.store s' = (step w (.removeAll m0)).1.store s' := by
      simp only [step, hid]
      generalize removeAllLoop m0 w (w.servers m0) = r
      obtain ⟨w1, out1⟩ := r
      cases out1 <;> rfl
    rw [hst, (removeAll_exact hw hid).2.1 s']
    by_cases e : s' ∈ w.servers m0
    · simp only [e, if_true]; exact purge_frame hc
    · simp only [e, if_false]; exact Frame.refl id _
  | addDest m0 s a =>
    simp only [actor, Option.some.injEq] at ha; subst ha
    simp only [step, hid, World.applyR]
    exact local_ s _ (fun hr => good_addDest (hw.stores s) (hw.agree m0 s id hid hr) hc _ a wb)
      (fun hr => by rw [hr]; exact (addDest_unreg id _ _ a).1)
  | addFilter m0 s owned fid name =>
    simp only [actor, Option.some.injEq] at ha; subst ha
    simp only [step, hid, World.applyR]
    exact local_ s _ (fun hr => good_addFilter (hw.stores s) (hw.agree m0 s id hid hr) hc _ owned fid name wb)
      (fun hr => by rw [hr]; exact (addFilter_unreg id _ _ owned fid name).1)
  | addSubs m0 s f sel owned =>
    simp only [actor, Option.some.injEq] at ha; subst ha
    simp only [step, hid, World.applyR]
    obtain ⟨wf, wd⟩ := wb id hid
    exact local_ s _ (fun hr => good_addSubs (hw.stores s) (hw.agree m0 s id hid hr) hc _ f sel owned wf wd)
      (fun hr => (addSubs_unreg _ id _ _ f sel owned (hw.unreg m0 s hr)).1)
  | removeDests m0 s sel =>
    simp only [actor, Option.some.injEq] at ha; subst ha
    simp only [step, hid, World.applyR]
    exact local_ s _ (fun hr => good_removeDests (hw.stores s) (hw.agree m0 s id hid hr) _ sel (wb id hid))
      (fun hr => by rw [hr]; exact (removeDests_unreg _ _ sel).1)
  | removeFilter m0 s p =>
    simp only [actor, Option.some.injEq] at ha; subst ha
    simp only [step, hid, World.applyR]
    exact local_ s _ (fun hr => good_removeFilter (hw.stores s) (hw.agree m0 s id hid hr) _ p (wb id hid))
      (fun hr => by rw [hr]; exact (removeFilter_unreg _ _ p).1)
  | removeSubs m0 s sel =>
    simp only [actor, Option.some.injEq] at ha; subst ha
    simp only [step, hid, World.applyR]
    exact local_ s _ (fun hr => good_removeSubs (hw.stores s) (hw.agree m0 s id hid hr) _ sel (wb id hid))
      (fun hr => by rw [hr]; exact (removeSubs_unreg _ _ sel).1)
  | getOwned m0 s which =>
    simp only [actor, Option.some.injEq] at ha; subst ha
    simp only [step, hid]; exact Frame.refl id _
  | getAll m0 s which =>
    simp only [actor, Option.some.injEq] at ha; subst ha
    simp only [step, hid]; exact Frame.refl id _

/-- permanent subscriptions on an owned FILTER: whatever the destination selector, nothing is created -/
theorem addSubs_perm_owned_filter (reg : Bool) (id : Str) (st : Store) (o : Owned) (f : Path) (sel : DestSel)
    (od : List Dest) (ofl : List Filt) (hod : o.od = some od) (hof : o.of = some ofl)
    (h : ∃ x ∈ ofl, x.path = f) :
    (stepAddSubs reg id st o f sel false).st = st ∧ (stepAddSubs reg id st o f sel false).o = o := by
  have h1 : ∀ d, stepAddSub1 reg id st o f d false = ⟨st, o, .err .valueError⟩ := by
    intro d
    obtain ⟨x, hx, e⟩ := h
    have hany : ofl.any (fun y => y.path == f) = true := List.any_eq_true.mpr ⟨x, hx, by simp [e]⟩
    simp [stepAddSub1, hod, hof, hany]
  have hl : ∀ (ds : List Path) (acc : List Sub),
      (stepAddSubList reg id f false st o ds acc).st = st ∧ (stepAddSubList reg id f false st o ds acc).o = o := by
    intro ds acc
    cases ds with
    | nil => simp [stepAddSubList]
    | cons d rest => simp [stepAddSubList, h1 d]
  unfold stepAddSubs
  simp only [hod]
  cases sel with
  | all => exact hl _ _
  | many ps => exact hl _ _
  | one p => simp [h1 p]

/-- removal of destinations, any selector: subscriptions are never touched and every destination that is
    referenced by a subscription survives -/
theorem removeDests_keeps_referenced (reg : Bool) (st : Store) (o : Owned) (sel : PathSel) :
    (stepRemoveDests reg st o sel).st.subs = st.subs ∧
    (stepRemoveDests reg st o sel).st.filts = st.filts ∧
    ∀ d ∈ st.dests, st.destReferenced d.path = true → d ∈ (stepRemoveDests reg st o sel).st.dests := by
  have h1 : ∀ (st : Store) (o : Owned) (p : Path),
      (stepRemoveDest1 reg st o p).st.subs = st.subs ∧ (stepRemoveDest1 reg st o p).st.filts = st.filts ∧
      ∀ d ∈ st.dests, st.destReferenced d.path = true → d ∈ (stepRemoveDest1 reg st o p).st.dests := by
    intro st o p
    unfold stepRemoveDest1
    cases reg with
    | false => simp; exact fun d hd _ => hd
    | true =>
      simp only [Bool.not_true, Bool.false_eq_true, if_false]
      by_cases hr : st.destReferenced p = true
      · simp [hr]; exact fun d hd _ => hd
      · simp only [hr, Bool.false_eq_true, if_false]
        cases hd : delDest st p with
        | error e => simp; exact fun d hd _ => hd
        | ok st' =>
          obtain ⟨_, _, rfl⟩ := delDest_ok hd
          have key : ∀ d ∈ st.dests, st.destReferenced d.path = true →
              d ∈ st.dests.filter (fun x => x.path != p) := by
            intro d hd hrd
            simp only [List.mem_filter, hd, true_and, bne_iff_ne, ne_eq]
            intro e; rw [e] at hrd; exact hr hrd
          cases ho : o.od <;> exact ⟨rfl, rfl, key⟩
  have hl : ∀ (ps : List Path) (st : Store) (o : Owned),
      (stepRemoveDestList reg st o ps).st.subs = st.subs ∧ (stepRemoveDestList reg st o ps).st.filts = st.filts ∧
      ∀ d ∈ st.dests, st.destReferenced d.path = true → d ∈ (stepRemoveDestList reg st o ps).st.dests := by
    intro ps
    induction ps with
    | nil => intro st o; simp [stepRemoveDestList]; exact fun d hd _ => hd
    | cons p rest ih =>
      intro st o
      obtain ⟨a1, a2, a3⟩ := h1 st o p
      unfold stepRemoveDestList
      generalize stepRemoveDest1 reg st o p = r1 at a1 a2 a3
      obtain ⟨st1, o1, out1⟩ := r1
      cases out1 with
      | done =>
        simp only [] at a1 a2 a3 ⊢
        obtain ⟨b1, b2, b3⟩ := ih st1 o1
        refine ⟨b1.trans a1, b2.trans a2, fun d hd hr => b3 d (a3 d hd hr) ?_⟩
        simpa [Store.destReferenced, a1] using hr
      | _ => exact ⟨a1, a2, a3⟩
  unfold stepRemoveDests
  cases reg with
  | false => simp; exact fun d hd _ => hd
  | true =>
    simp only [Bool.not_true, Bool.false_eq_true, if_false]
    cases sel with
    | one p => exact h1 st o p
    | many ps => exact hl ps st o

end Proofs.SubMgr
