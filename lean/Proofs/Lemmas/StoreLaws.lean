/-
C10 — the map laws of the reference map (Model/StoreSpec.lean) for any number of target namespaces, and their
transfer to the model through the one-step refinement: get after create, create twice, get after delete, delete
frame, get after modify.
-/
import Proofs.Lemmas.StoreClient

set_option linter.unusedSimpArgs false
set_option linter.unusedVariables false

namespace Proofs.Store
open Pywbem.Proto Pywbem.Model.Store Pywbem.Model.StoreSpec Pywbem.Generated.Store

/-! ### the reference map after an update of several target namespaces -/

/-- apply `g n` to the map of namespace `n`, for every `n` of the list -/
def sFoldNs (g : Name → List (Path × Inst) → List (Path × Inst)) (s : SRepo) : List Name → SRepo
  | [] => s
  | n :: rest => sFoldNs g (sSetMap s n (g n)) rest

theorem sInsertAll_eq (p : Path) (i : Inst) (tg : List Name) : ∀ s,
    sInsertAll s p i tg = sFoldNs (fun n m => m ++ [(keyIn p n, i)]) s tg := by
  induction tg with
  | nil => intro s; rfl
  | cons n t ih => intro s; simp only [sInsertAll, sFoldNs]; exact ih _

theorem sReplaceAll_eq (p : Path) (i : Inst) (tg : List Name) : ∀ s,
    sReplaceAll s p i tg = sFoldNs (fun n m => m.map (fun e => if e.1 == keyIn p n then (e.1, i) else e)) s tg := by
  induction tg with
  | nil => intro s; rfl
  | cons n t ih => intro s; simp only [sReplaceAll, sFoldNs]; exact ih _

theorem sDeleteAll_eq (p : Path) (tg : List Name) : ∀ s,
    sDeleteAll s p tg = sFoldNs (fun n m => m.filter (fun e => !(e.1 == keyIn p n))) s tg := by
  induction tg with
  | nil => intro s; rfl
  | cons n t ih => intro s; simp only [sDeleteAll, sFoldNs]; exact ih _

theorem sFindNs_sSetMap (s : SRepo) (t n : Name) (f : List (Path × Inst) → List (Path × Inst)) :
    sFindNs (sSetMap s t f) n =
      (sFindNs s n).map (fun e => if e.name == lower t then { e with map := f e.map } else e) := by
  unfold sFindNs sSetMap
  simp only [List.find?_map]
  congr 1
  congr 1
  funext e
  simp only [Function.comp]
  by_cases h : (e.name == lower t) = true <;> simp [h]

/-- the entry of namespace `n` after the fold: updated once, by the (unique up to case) target naming it -/
theorem sFindNs_sFoldNs (g : Name → List (Path × Inst) → List (Path × Inst))
    (hg : ∀ a b, lower a = lower b → g a = g b) (tg : List Name) (hd : NamesDistinct tg) : ∀ s n,
    sFindNs (sFoldNs g s tg) n =
      (sFindNs s n).map (fun e => if tg.any (fun t => lower t == e.name) then { e with map := g e.name e.map } else e) := by
  induction tg with
  | nil => intro s n; simp [sFoldNs]
  | cons t rest ih =>
    intro s n
    unfold NamesDistinct at hd
    rw [List.pairwise_cons] at hd
    simp only [sFoldNs]
    rw [ih hd.2, sFindNs_sSetMap]
    cases sFindNs s n with
    | none => rfl
    | some e =>
      simp only [Option.map_some, List.any_cons]
      by_cases ht : (e.name == lower t) = true
      · have het : e.name = lower t := by simpa using ht
        have hnot : rest.any (fun x => lower x == e.name) = false := by
          cases hq : rest.any (fun x => lower x == e.name) with
          | false => rfl
          | true =>
            obtain ⟨x, hx, hxe⟩ := List.any_eq_true.mp hq
            have : lower x = e.name := by simpa using hxe
            exact absurd (het.symm.trans this.symm) (hd.1 x hx)
        have hgt : g t = g e.name := hg t e.name (by rw [het, lower_idem])
        have h1 : (lower t == e.name) = true := by simp [het]
        simp only [ht, ↓reduceIte, hnot, h1, Bool.true_or, Bool.false_eq_true, hgt]
      · have hne : (lower t == e.name) = false := by
          cases hq : (lower t == e.name) with
          | false => rfl
          | true => exact absurd (by simpa using hq : lower t = e.name) (fun h => ht (by simp [h]))
        simp [ht, hne]

theorem sFoldNs_dflt (g : Name → List (Path × Inst) → List (Path × Inst)) (tg : List Name) : ∀ s,
    (sFoldNs g s tg).dflt = s.dflt := by
  induction tg with
  | nil => intro s; rfl
  | cons n t ih => intro s; simp only [sFoldNs]; rw [ih]; rfl

theorem namesDistinct_targets' (a : Bool) (ps : List PropV) (t : Name) : NamesDistinct (targets a ps t) := by
  unfold targets
  cases a
  · simp [NamesDistinct]
  · exact namesDistinct_targets ps t

theorem mem_targets_self (a : Bool) (ps : List PropV) (t : Name) : t ∈ targets a ps t := by
  unfold targets; simp

theorem sFindNs_some {s : SRepo} {n : Name} {e : SNs} (h : sFindNs s n = some e) : e ∈ s.nss ∧ e.name = lower n := by
  unfold sFindNs at h
  exact ⟨List.mem_of_find?_eq_some h, by simpa using List.find?_some h⟩

/-- what a successful creation in the reference map is -/
theorem specCreate_ok {s s' : SRepo} {nsArg : Option Name} {inst : Inst} {k : Path}
    (h : specCreate s nsArg inst = (s', .path k)) :
    ∃ e c path, sFindNs s (nsArg.getD s.dflt) = some e ∧ findCls e.classes inst.cls = some c ∧
      newInstancePath c (adjustNames c inst.props) (nsArg.getD s.dflt) = .ok path ∧ k = normPath path ∧
      (targets c.isAssoc (adjustNames c inst.props) (nsArg.getD s.dflt)).any
        (fun n => sExists s n (keyIn path n)) = false ∧
      s' = sInsertAll s path { cls := inst.cls, props := adjustNames c inst.props, quals := inst.quals }
        (targets c.isAssoc (adjustNames c inst.props) (nsArg.getD s.dflt)) := by
  unfold specCreate at h
  simp only [] at h
  split at h
  · simp [errNs] at h
  · rename_i e he
    split at h
    · simp [errClass] at h
    · rename_i c hc
      split at h
      · simp [errParam] at h
      · split at h
        · simp [errParam] at h
        · split at h
          · simp [errClass] at h
          · split at h
            · simp at h
            · rename_i path hp
              split at h
              · simp [errExists] at h
              · rename_i hany
                simp only [Prod.mk.injEq, Out.path.injEq] at h
                exact ⟨e, c, path, he, hc, hp, h.2.symm, by simpa using hany, h.1.symm⟩

theorem sLookup_append_fresh {m : List (Path × Inst)} {k : Path} (h : sLookup m k = none) (i : Inst) :
    sLookup (m ++ [(k, i)]) k = some i := by
  unfold sLookup at h ⊢
  rw [List.find?_append]
  cases hf : m.find? (fun e => e.1 == k) with
  | some x => simp [hf] at h
  | none => simp

/-- **Get after Create in the reference map** (any schema, any number of target namespaces) -/
theorem spec_create_then_get {s s' : SRepo} {nsArg : Option Name} {inst : Inst} {k : Path}
    (h : specCreate s nsArg inst = (s', .path k)) (p : Path) (pl : Option (List Name)) (o : RetOpts)
    (hk : keyIn p (p.ns.getD s.dflt) = k) :
    ∃ c, (specGet s' p pl o).2 = .inst ⟨inst.cls, k,
      removeClassOrigin (removeQualifiers (filterProps pl (adjustNames c inst.props))), false⟩ := by
  obtain ⟨e, c, path, he, hc, hp, rfl, hany, rfl⟩ := specCreate_ok h
  obtain ⟨hh, hn, hpc, _⟩ := newInstancePath_ok hp
  refine ⟨c, ?_⟩
  have hnp : normPath path = keyIn path (nsArg.getD s.dflt) := by
    unfold keyIn; rw [path_eta_of hh hn]
  -- the namespaces agree up to case
  have hns : lower (p.ns.getD s.dflt) = lower (nsArg.getD s.dflt) := by
    have := congrArg Path.ns hk
    rw [hnp] at this
    simpa [keyIn, normPath] using this
  have hcls : lower p.cls = lower c.name := by
    have := congrArg Path.cls hk
    simp only [keyIn, normPath] at this
    rw [this, hpc]
  unfold specGet
  rw [sInsertAll_eq, sFoldNs_dflt]
  simp only []
  rw [sFindNs_congr _ hns, sFindNs_sFoldNs _ (fun a b hab => by funext m; rw [keyIn_congr path hab]) _
    (namesDistinct_targets' _ _ _), he]
  have hen := (sFindNs_some he).2
  have hany' : (targets c.isAssoc (adjustNames c inst.props) (nsArg.getD s.dflt)).any (fun t => lower t == e.name) = true :=
    List.any_eq_true.mpr ⟨_, mem_targets_self _ _ _, by simp [hen]⟩
  simp only [Option.map_some, hany', ↓reduceIte]
  rw [findCls_congr e.classes hcls, findCls_self hc]
  simp only [Option.isNone_some, Bool.false_eq_true, ↓reduceIte]
  have hkey : keyIn path e.name = normPath path := by
    rw [hnp]; exact keyIn_congr path (by rw [hen, lower_idem])
  have hfresh : sLookup e.map (normPath path) = none := by
    have := List.any_eq_false.mp hany _ (mem_targets_self _ _ _)
    unfold sExists at this
    rw [he, ← hnp] at this
    cases hl : sLookup e.map (normPath path) with
    | none => rfl
    | some _ => simp [hl] at this
  rw [hk, hkey, sLookup_append_fresh hfresh]
  simp [retrieveSimple]

/-- what a successful deletion in the reference map is -/
theorem specDelete_ok {s s' : SRepo} {path : Path} (h : specDelete s path = (s', .unit)) :
    ∃ e c old, sFindNs s (path.ns.getD s.dflt) = some e ∧ findCls e.classes path.cls = some c ∧
      sLookup e.map (keyIn path (path.ns.getD s.dflt)) = some old ∧
      s' = sDeleteAll s path (targets c.isAssoc old.props (path.ns.getD s.dflt)) := by
  unfold specDelete at h
  simp only [] at h
  split at h
  · simp [errNs] at h
  · rename_i e he
    split at h
    · simp [errClass] at h
    · rename_i c hc
      split at h
      · simp [errNotFound] at h
      · rename_i old ho
        simp only [Prod.mk.injEq, and_true] at h
        exact ⟨e, c, old, he, hc, ho, h.symm⟩

theorem sLookup_filter_self (m : List (Path × Inst)) (k : Path) :
    sLookup (m.filter (fun e => !(e.1 == k))) k = none := by
  unfold sLookup
  have : (m.filter (fun e => !(e.1 == k))).find? (fun e => e.1 == k) = none := by
    apply List.find?_eq_none.mpr
    intro x hx
    have := (List.mem_filter.mp hx).2
    simpa using this
  rw [this]; rfl

theorem sLookup_filter_other (m : List (Path × Inst)) {k q : Path} (h : q ≠ k) :
    sLookup (m.filter (fun e => !(e.1 == k))) q = sLookup m q := by
  unfold sLookup
  rw [List.find?_filter]
  congr 2
  funext x
  by_cases hq : (x.1 == q) = true
  · have : x.1 = q := by simpa using hq
    have hk : (x.1 == k) = false := by
      cases hh : (x.1 == k) with
      | false => rfl
      | true => exact absurd (this.symm.trans (by simpa using hh)) h
    simp [hq, hk]
  · simp [hq]

/-- **Get after Delete in the reference map** -/
theorem spec_delete_then_get {s s' : SRepo} {path : Path} (h : specDelete s path = (s', .unit))
    (pl : Option (List Name)) (o : RetOpts) : (specGet s' path pl o).2 = errNotFound := by
  obtain ⟨e, c, old, he, hc, ho, rfl⟩ := specDelete_ok h
  unfold specGet
  rw [sDeleteAll_eq, sFoldNs_dflt]
  simp only []
  rw [sFindNs_sFoldNs _ (fun a b hab => by funext m; rw [keyIn_congr path hab]) _ (namesDistinct_targets' _ _ _), he]
  have hen := (sFindNs_some he).2
  have hany' : (targets c.isAssoc old.props (path.ns.getD s.dflt)).any (fun t => lower t == e.name) = true :=
    List.any_eq_true.mpr ⟨_, mem_targets_self _ _ _, by simp [hen]⟩
  simp only [Option.map_some, hany', ↓reduceIte, hc, Option.isNone_some, Bool.false_eq_true]
  have hkey : keyIn path e.name = keyIn path (path.ns.getD s.dflt) := keyIn_congr path (by rw [hen, lower_idem])
  rw [hkey, sLookup_filter_self]

/-- the outcome of GetInstance in the reference map as a function of the namespace entry found -/
def sGetOut (eo : Option SNs) (cls : Name) (k : Path) (pl : Option (List Name)) : Out :=
  match eo with
  | none => errNs
  | some e =>
    if (findCls e.classes cls).isNone then errClass
    else match sLookup e.map k with
      | none => errNotFound
      | some i => .inst { cls := i.cls, path := k, props := (retrieveSimple pl i).1, quals := false }

theorem specGet_snd (s : SRepo) (p : Path) (pl : Option (List Name)) (o : RetOpts) :
    (specGet s p pl o).2 = sGetOut (sFindNs s (p.ns.getD s.dflt)) p.cls (keyIn p (p.ns.getD s.dflt)) pl := by
  unfold specGet sGetOut
  simp only []
  cases sFindNs s (p.ns.getD s.dflt) with
  | none => rfl
  | some e =>
    simp only []
    by_cases hc : (findCls e.classes p.cls).isNone = true
    · simp [hc]
    · simp only [hc]
      cases sLookup e.map (keyIn p (p.ns.getD s.dflt)) <;> rfl

/-- a key without its namespace: class name and keybindings -/
def bareKey (k : Path) : Path := { k with ns := none }

/-- **Delete touches no other (class, keybindings)**: in every namespace, GetInstance for a path whose class name or
    keybindings differ (in normal form) from those of the deleted path answers what it answered before -/
theorem spec_delete_frame {s s' : SRepo} {path : Path} (h : specDelete s path = (s', .unit)) (q : Path)
    (pl : Option (List Name)) (o : RetOpts)
    (hne : bareKey (keyIn q (q.ns.getD s.dflt)) ≠ bareKey (keyIn path (path.ns.getD s.dflt))) :
    (specGet s' q pl o).2 = (specGet s q pl o).2 := by
  obtain ⟨e, c, old, he, hc, ho, rfl⟩ := specDelete_ok h
  rw [specGet_snd, specGet_snd, sDeleteAll_eq, sFoldNs_dflt]
  rw [sFindNs_sFoldNs _ (fun a b hab => by funext m; rw [keyIn_congr path hab]) _ (namesDistinct_targets' _ _ _)]
  cases hq : sFindNs s (q.ns.getD s.dflt) with
  | none => rfl
  | some eq =>
    simp only [Option.map_some]
    by_cases hany : (targets c.isAssoc old.props (path.ns.getD s.dflt)).any (fun t => lower t == eq.name) = true
    · simp only [hany, ↓reduceIte, sGetOut]
      have hk : keyIn q (q.ns.getD s.dflt) ≠ keyIn path eq.name := by
        intro heq
        apply hne
        unfold bareKey
        rw [heq]
        simp [keyIn, normPath]
      rw [sLookup_filter_other _ hk]
    · simp only [hany]
      rfl

/-- what a successful modification in the reference map is -/
theorem specModify_ok {s s' : SRepo} {path : Path} {inst : Inst} {pl : Option (List Name)}
    (h : specModify s path inst pl = (s', .unit)) :
    ∃ e c old, sFindNs s (path.ns.getD s.dflt) = some e ∧ findCls e.classes inst.cls = some c ∧
      nameEq inst.cls path.cls = true ∧
      sLookup e.map (keyIn path (path.ns.getD s.dflt)) = some old ∧
      s' = sReplaceAll s path
        { cls := old.cls, props := updateProps old.props (adjustNames c (reduceByPl c inst.props pl)), quals := old.quals }
        (targets c.isAssoc (updateProps old.props (adjustNames c (reduceByPl c inst.props pl))) (path.ns.getD s.dflt)) := by
  unfold specModify at h
  simp only [] at h
  split at h
  · simp [errParam] at h
  · rename_i hne
    split at h
    · simp [errNs] at h
    · rename_i e he
      split at h
      · simp [errClass] at h
      · rename_i c hc
        split at h
        · simp [errNotFound] at h
        · rename_i old ho
          split at h
          · simp [errParam] at h
          · split at h
            · simp [errParam] at h
            · split at h
              · simp [errParam] at h
              · split at h
                · simp [errParam] at h
                · split at h
                  · simp [errClass] at h
                  · split at h
                    · simp [errNotFound] at h
                    · simp only [Prod.mk.injEq, and_true] at h
                      exact ⟨e, c, old, he, hc, by simpa using hne, ho, h.symm⟩

theorem sLookup_map_replace {m : List (Path × Inst)} {k : Path} {old : Inst} (h : sLookup m k = some old) (ni : Inst) :
    sLookup (m.map (fun x => if x.1 == k then (x.1, ni) else x)) k = some ni := by
  unfold sLookup at h ⊢
  rw [List.find?_map]
  have hf : ((fun e : Path × Inst => e.1 == k) ∘ fun x => if x.1 == k then (x.1, ni) else x) = fun e => e.1 == k := by
    funext x
    simp only [Function.comp]
    by_cases hx : (x.1 == k) = true <;> simp [hx]
  rw [hf]
  cases hfind : m.find? (fun e => e.1 == k) with
  | none => simp [hfind] at h
  | some x =>
    have h2 := List.find?_some hfind
    have hx : x.1 = k := by simpa using h2
    simp [hx]

/-- **Get after Modify in the reference map**: the stored properties updated by the supplied ones (those named by the
    PropertyList, missing ones with their class default), everything else kept -/
theorem spec_modify_then_get {s s' : SRepo} {path : Path} {inst : Inst} {pl : Option (List Name)}
    (h : specModify s path inst pl = (s', .unit)) (pl' : Option (List Name)) (o : RetOpts) :
    ∃ c oldCls oldProps,
      (specGet s path none o).2 = .inst ⟨oldCls, keyIn path (path.ns.getD s.dflt),
        removeClassOrigin (removeQualifiers oldProps), false⟩ ∧
      (specGet s' path pl' o).2 = .inst ⟨oldCls, keyIn path (path.ns.getD s.dflt),
        removeClassOrigin (removeQualifiers (filterProps pl'
          (updateProps oldProps (adjustNames c (reduceByPl c inst.props pl))))), false⟩ := by
  obtain ⟨e, c, old, he, hc, hne, ho, rfl⟩ := specModify_ok h
  refine ⟨c, old.cls, old.props, ?_, ?_⟩
  · rw [specGet_snd]
    have hcp : findCls e.classes path.cls = some c := by
      rw [← findCls_congr e.classes (nameEq_iff.mp hne)]; exact hc
    simp [sGetOut, he, hcp, ho, retrieveSimple, filterProps]
  · rw [specGet_snd, sReplaceAll_eq, sFoldNs_dflt]
    rw [sFindNs_sFoldNs _ (fun a b hab => by funext m; rw [keyIn_congr path hab]) _ (namesDistinct_targets' _ _ _), he]
    have hen := (sFindNs_some he).2
    have hany' : (targets c.isAssoc (updateProps old.props (adjustNames c (reduceByPl c inst.props pl)))
        (path.ns.getD s.dflt)).any (fun t => lower t == e.name) = true :=
      List.any_eq_true.mpr ⟨_, mem_targets_self _ _ _, by simp [hen]⟩
    have hcp : findCls e.classes path.cls = some c := by
      rw [← findCls_congr e.classes (nameEq_iff.mp hne)]; exact hc
    have hkey : keyIn path e.name = keyIn path (path.ns.getD s.dflt) := keyIn_congr path (by rw [hen, lower_idem])
    simp only [Option.map_some, hany', ↓reduceIte, sGetOut, hcp, Option.isNone_some, Bool.false_eq_true, hkey]
    rw [sLookup_map_replace ho]
    simp [retrieveSimple]

theorem sLookup_append_mono {m : List (Path × Inst)} {k : Path} (x : Path × Inst)
    (h : (sLookup m k).isSome = true) : (sLookup (m ++ [x]) k).isSome = true := by
  unfold sLookup at h ⊢
  rw [List.find?_append]
  cases hf : m.find? (fun e => e.1 == k) with
  | none => simp [hf] at h
  | some y => simp

theorem sExists_mono_insert (p : Path) (i : Inst) (tg : List Name) (hd : NamesDistinct tg) (s : SRepo) (n : Name) (k : Path)
    (h : sExists s n k = true) : sExists (sInsertAll s p i tg) n k = true := by
  unfold sExists at h ⊢
  rw [sInsertAll_eq, sFindNs_sFoldNs _ (fun a b hab => by funext m; rw [keyIn_congr p hab]) _ hd]
  cases hq : sFindNs s n with
  | none => simp [hq] at h
  | some e =>
    simp only [hq] at h
    simp only [Option.map_some]
    by_cases hany : tg.any (fun t => lower t == e.name) = true
    · simp only [hany, ↓reduceIte]; exact sLookup_append_mono _ h
    · simp only [hany]; exact h

theorem sClassIn_insert (p : Path) (i : Inst) (tg : List Name) (hd : NamesDistinct tg) (s : SRepo) (cls n : Name) :
    sClassIn (sInsertAll s p i tg) cls n = sClassIn s cls n := by
  unfold sClassIn
  rw [sInsertAll_eq, sFindNs_sFoldNs _ (fun a b hab => by funext m; rw [keyIn_congr p hab]) _ hd]
  cases sFindNs s n with
  | none => rfl
  | some e =>
    simp only [Option.map_some]
    by_cases hany : tg.any (fun t => lower t == e.name) = true <;> simp [hany]

theorem sEndpointOk_mono_insert (p : Path) (i : Inst) (tg : List Name) (hd : NamesDistinct tg) (s : SRepo) (v : Val)
    (h : sEndpointOk s v = true) : sEndpointOk (sInsertAll s p i tg) v = true := by
  unfold sEndpointOk at h ⊢
  cases v with
  | null => rfl
  | arr _ => simp at h
  | emb _ _ _ => simp at h
  | one kv =>
    cases kv with
    | sc _ => simp at h
    | ref q =>
      simp only [Bool.and_eq_true] at h ⊢
      refine ⟨h.1, ?_⟩
      cases hn : q.ns with
      | none => simp [hn] at h
      | some n =>
        simp only [hn] at h ⊢
        exact sExists_mono_insert p i tg hd s n _ h.2

theorem specCreate_ok2 {s s' : SRepo} {nsArg : Option Name} {inst : Inst} {k : Path}
    (h : specCreate s nsArg inst = (s', .path k)) :
    ∃ e c, sFindNs s (nsArg.getD s.dflt) = some e ∧ findCls e.classes inst.cls = some c ∧
      (inst.props.all (validProp e.classes c)) = true ∧
      (c.isAssoc && !(((adjustNames c inst.props).filter isRef).all (fun p => sEndpointOk s p.val))) = false ∧
      ((targets c.isAssoc (adjustNames c inst.props) (nsArg.getD s.dflt)).all (sClassIn s inst.cls)) = true := by
  unfold specCreate at h
  simp only [] at h
  split at h
  · simp [errNs] at h
  · rename_i e he
    split at h
    · simp [errClass] at h
    · rename_i c hc
      split at h
      · simp [errParam] at h
      · rename_i hv
        split at h
        · simp [errParam] at h
        · rename_i hep
          split at h
          · simp [errClass] at h
          · rename_i hcl
            refine ⟨e, c, he, hc, ?_, ?_, ?_⟩
            · cases hq : inst.props.all (validProp e.classes c) with
              | true => rfl
              | false => simp [hq] at hv
            · cases hq : (c.isAssoc && !(((adjustNames c inst.props).filter isRef).all (fun p => sEndpointOk s p.val))) with
              | false => rfl
              | true => exact absurd hq hep
            · cases hq : ((targets c.isAssoc (adjustNames c inst.props) (nsArg.getD s.dflt)).all (sClassIn s inst.cls)) with
              | true => rfl
              | false => simp [hq] at hcl

/-- **Create twice in the reference map**: repeating a successful CreateInstance answers ALREADY_EXISTS and changes
    nothing (any schema, any number of target namespaces) -/
theorem spec_create_twice {s s' : SRepo} {nsArg : Option Name} {inst : Inst} {k : Path}
    (h : specCreate s nsArg inst = (s', .path k)) : specCreate s' nsArg inst = (s', errExists) := by
  obtain ⟨e, c, path, he, hc, hp, rfl, hany, rfl⟩ := specCreate_ok h
  obtain ⟨hh, hn, hpc, _⟩ := newInstancePath_ok hp
  have hd := namesDistinct_targets' c.isAssoc (adjustNames c inst.props) (nsArg.getD s.dflt)
  -- the checks of the first run
  obtain ⟨e2, c2, he2, hc2, hv, hep, hcl⟩ := specCreate_ok2 h
  rw [he] at he2; cases he2
  rw [hc] at hc2; cases hc2
  -- the second run
  have hen := (sFindNs_some he).2
  have hmem : (targets c.isAssoc (adjustNames c inst.props) (nsArg.getD s.dflt)).any (fun t => lower t == e.name) = true :=
    List.any_eq_true.mpr ⟨_, mem_targets_self _ _ _, by simp [hen]⟩
  unfold specCreate
  have hdf : (sInsertAll s path { cls := inst.cls, props := adjustNames c inst.props, quals := inst.quals }
      (targets c.isAssoc (adjustNames c inst.props) (nsArg.getD s.dflt))).dflt = s.dflt := by
    rw [sInsertAll_eq, sFoldNs_dflt]
  simp only [hdf]
  have hfind : sFindNs (sInsertAll s path { cls := inst.cls, props := adjustNames c inst.props, quals := inst.quals }
      (targets c.isAssoc (adjustNames c inst.props) (nsArg.getD s.dflt))) (nsArg.getD s.dflt) =
      some { e with map := e.map ++ [(keyIn path e.name, { cls := inst.cls, props := adjustNames c inst.props, quals := inst.quals })] } := by
    rw [sInsertAll_eq, sFindNs_sFoldNs _ (fun a b hab => by funext m; rw [keyIn_congr path hab]) _ hd, he]
    simp only [Option.map_some, hmem, ↓reduceIte]
  rw [hfind]
  simp only [hc, hv, Bool.not_true, Bool.false_eq_true, ↓reduceIte]
  have hep2 : (c.isAssoc && !(((adjustNames c inst.props).filter isRef).all (fun p => sEndpointOk
      (sInsertAll s path { cls := inst.cls, props := adjustNames c inst.props, quals := inst.quals }
        (targets c.isAssoc (adjustNames c inst.props) (nsArg.getD s.dflt))) p.val))) = false := by
    by_cases hca : c.isAssoc = true
    · simp only [hca, Bool.true_and, Bool.not_eq_false'] at hep ⊢
      apply List.all_eq_true.mpr
      intro p hp'
      have hd' := hd
      rw [hca] at hd'
      exact sEndpointOk_mono_insert _ _ _ hd' s _ (List.all_eq_true.mp hep p hp')
    · simp [hca]
  simp only [hep2, Bool.false_eq_true, ↓reduceIte]
  have hcl2 : ((targets c.isAssoc (adjustNames c inst.props) (nsArg.getD s.dflt)).all (sClassIn
      (sInsertAll s path { cls := inst.cls, props := adjustNames c inst.props, quals := inst.quals }
        (targets c.isAssoc (adjustNames c inst.props) (nsArg.getD s.dflt))) inst.cls)) = true := by
    rw [← hcl]
    congr 1
    funext n
    exact sClassIn_insert _ _ _ hd s _ n
  simp only [hcl2, Bool.not_true, Bool.false_eq_true, ↓reduceIte, hp]
  have hex : ((targets c.isAssoc (adjustNames c inst.props) (nsArg.getD s.dflt)).any (fun n => sExists
      (sInsertAll s path { cls := inst.cls, props := adjustNames c inst.props, quals := inst.quals }
        (targets c.isAssoc (adjustNames c inst.props) (nsArg.getD s.dflt))) n (keyIn path n))) = true := by
    apply List.any_eq_true.mpr
    refine ⟨nsArg.getD s.dflt, mem_targets_self _ _ _, ?_⟩
    unfold sExists
    rw [hfind]
    simp only []
    have hkey : keyIn path e.name = keyIn path (nsArg.getD s.dflt) := keyIn_congr path (by rw [hen, lower_idem])
    rw [hkey]
    have hfresh : sLookup e.map (keyIn path (nsArg.getD s.dflt)) = none := by
      have := List.any_eq_false.mp hany _ (mem_targets_self _ _ _)
      unfold sExists at this
      rw [he] at this
      cases hl : sLookup e.map (keyIn path (nsArg.getD s.dflt)) with
      | none => rfl
      | some _ => simp [hl] at this
    rw [sLookup_append_fresh hfresh]; rfl
  simp only [hex, ↓reduceIte]

/-! ### the laws for the model, through the refinement -/

theorem normOut_eq_err {o : Out} {e : PyExc} (h : normOut o = .err e) : o = .err e := by
  cases o <;> simp_all [normOut]

theorem normOut_eq_unit {o : Out} (h : normOut o = .unit) : o = .unit := by
  cases o <;> simp_all [normOut]

theorem tame_of_sameSchema {r r' : Repo} (hs : SameSchema r r') {op : Op} (ht : Tame r op) : Tame r' op := by
  rcases ht with h | ⟨h1, h2, h3⟩
  · exact Or.inl (noAssoc_of_sameSchema hs h)
  · exact Or.inr ⟨refDefaults_of_sameSchema hs h1, coherent_of_sameSchema hs h2, h3⟩

theorem spec_of_create {r r' : Repo} {nsArg : Option Name} {inst : Inst} {p : Path}
    (ht : Tame r (.create nsArg inst)) (hinv : Inv r) (h : stepCreate r nsArg inst = (r', .path p)) :
    specCreate (abs r) nsArg inst = (abs r', .path (normPath p)) ∧ Inv r' ∧ SameSchema r r' := by
  have hs := sim_create'' r nsArg inst ht hinv
  have hss := step_sameSchema r (.create nsArg inst)
  simp only [step] at hss
  rw [h] at hs hss
  simp only [normOut] at hs
  exact ⟨Prod.ext hs.2.1.symm hs.1.symm, hs.2.2, hss⟩

theorem created_path_shape {r r' : Repo} {nsArg : Option Name} {inst : Inst} {p : Path}
    (ht : Tame r (.create nsArg inst)) (hinv : Inv r) (h : stepCreate r nsArg inst = (r', .path p)) :
    keyIn p (p.ns.getD r.dflt) = normPath p := by
  obtain ⟨hsp, _, _⟩ := spec_of_create ht hinv h
  obtain ⟨e, c, path, _, _, hp, hk, _, _⟩ := specCreate_ok hsp
  obtain ⟨hh, hn, _, _⟩ := newInstancePath_ok hp
  have h1 := congrArg Path.host hk
  have h2 := congrArg Path.ns hk
  simp only [normPath, hh, hn, Option.map_none, Option.map_some] at h1 h2
  have hph : p.host = none := by cases hq : p.host <;> simp_all
  cases hq : p.ns with
  | none => simp [hq] at h2
  | some n' =>
    simp only [Option.getD_some]
    unfold keyIn
    rw [path_eta_of hph hq]

/-- Get after Create, any schema admitted by `Tame` -/
theorem create_then_get_full {r r' : Repo} {nsArg : Option Name} {inst : Inst} {p : Path}
    (ht : Tame r (.create nsArg inst)) (hinv : Inv r) (h : stepCreate r nsArg inst = (r', .path p))
    (pl : Option (List Name)) (o : RetOpts) :
    ∃ c, normOut (stepGet r' p pl o).2 = .inst ⟨inst.cls, normPath p,
      removeClassOrigin (removeQualifiers (filterProps pl (adjustNames c inst.props))), false⟩ := by
  obtain ⟨hsp, _, hss⟩ := spec_of_create ht hinv h
  have hk := created_path_shape ht hinv h
  have hd : (abs r).dflt = r.dflt := rfl
  obtain ⟨c, hc⟩ := spec_create_then_get hsp p pl o (by rw [hd]; exact hk)
  exact ⟨c, by rw [(sim_get r' p pl o).1]; exact hc⟩

theorem stepCreate_err_state (r : Repo) (nsArg : Option Name) (inst : Inst) (e : PyExc)
    (h : (stepCreate r nsArg inst).2 = .err e) : (stepCreate r nsArg inst).1 = r := by
  unfold stepCreate createSingle createMulti at *
  simp only [] at *
  repeat' split
  all_goals first
    | rfl
    | (simp_all; done)
    | skip
  all_goals (rename_i hx; revert h; simp_all)

/-- Create twice -/
theorem create_twice_full {r r' : Repo} {nsArg : Option Name} {inst : Inst} {p : Path}
    (ht : Tame r (.create nsArg inst)) (hinv : Inv r) (h : stepCreate r nsArg inst = (r', .path p)) :
    stepCreate r' nsArg inst = (r', errExists) := by
  obtain ⟨hsp, hinv', hss⟩ := spec_of_create ht hinv h
  have h2 := spec_create_twice hsp
  have hs := sim_create'' r' nsArg inst (tame_of_sameSchema hss ht) hinv'
  rw [h2] at hs
  have ho : (stepCreate r' nsArg inst).2 = errExists := normOut_eq_err hs.1
  exact Prod.ext (stepCreate_err_state r' nsArg inst _ ho) ho

theorem spec_of_delete {r r' : Repo} {path : Path} (hinv : Inv r) (h : stepDelete r path = (r', .unit)) :
    specDelete (abs r) path = (abs r', .unit) ∧ Inv r' := by
  have hs := sim_delete'' r path hinv
  rw [h] at hs
  simp only [normOut] at hs
  exact ⟨Prod.ext hs.2.1.symm hs.1.symm, hs.2.2⟩

/-- Get after Delete -/
theorem delete_then_get_full {r r' : Repo} {path : Path} (hinv : Inv r) (h : stepDelete r path = (r', .unit))
    (pl : Option (List Name)) (o : RetOpts) : (stepGet r' path pl o).2 = errNotFound := by
  obtain ⟨hsp, _⟩ := spec_of_delete hinv h
  have := spec_delete_then_get hsp pl o
  rw [← (sim_get r' path pl o).1] at this
  exact normOut_eq_err this

/-- Delete touches no other (class, keybindings) -/
theorem delete_frame_full {r r' : Repo} {path : Path} (hinv : Inv r) (h : stepDelete r path = (r', .unit)) (q : Path)
    (pl : Option (List Name)) (o : RetOpts)
    (hne : bareKey (keyIn q (q.ns.getD r.dflt)) ≠ bareKey (keyIn path (path.ns.getD r.dflt))) :
    normOut (stepGet r' q pl o).2 = normOut (stepGet r q pl o).2 := by
  obtain ⟨hsp, _⟩ := spec_of_delete hinv h
  rw [(sim_get r' q pl o).1, (sim_get r q pl o).1]
  exact spec_delete_frame hsp q pl o hne

theorem spec_of_modify {r r' : Repo} {path : Path} {inst : Inst} {pl : Option (List Name)}
    (ht : Tame r (.modify path inst pl)) (hinv : Inv r) (h : stepModify r path inst pl = (r', .unit)) :
    specModify (abs r) path inst pl = (abs r', .unit) ∧ Inv r' := by
  have hs := sim_modify'' r path inst pl ht hinv
  rw [h] at hs
  simp only [normOut] at hs
  exact ⟨Prod.ext hs.2.1.symm hs.1.symm, hs.2.2⟩

/-- Get after Modify: the answer before, updated by the supplied properties -/
theorem modify_then_get_full {r r' : Repo} {path : Path} {inst : Inst} {pl : Option (List Name)}
    (ht : Tame r (.modify path inst pl)) (hinv : Inv r) (h : stepModify r path inst pl = (r', .unit))
    (pl' : Option (List Name)) (o : RetOpts) :
    ∃ c oldCls oldProps,
      normOut (stepGet r path none o).2 = .inst ⟨oldCls, keyIn path (path.ns.getD r.dflt),
        removeClassOrigin (removeQualifiers oldProps), false⟩ ∧
      normOut (stepGet r' path pl' o).2 = .inst ⟨oldCls, keyIn path (path.ns.getD r.dflt),
        removeClassOrigin (removeQualifiers (filterProps pl'
          (updateProps oldProps (adjustNames c (reduceByPl c inst.props pl))))), false⟩ := by
  obtain ⟨hsp, _⟩ := spec_of_modify ht hinv h
  obtain ⟨c, oc, op, h1, h2⟩ := spec_modify_then_get hsp pl' o
  refine ⟨c, oc, op, ?_, ?_⟩
  · rw [(sim_get r path none o).1]; exact h1
  · rw [(sim_get r' path pl' o).1]; exact h2

/-! ### names only up to case: delete and the enumerations -/

theorem descends_congr_target (cs : List Cls) (fuel : Nat) (c : Name) {t t' : Name} (h : lower t = lower t') :
    descends cs fuel c t = descends cs fuel c t' := by
  induction fuel generalizing c with
  | zero => simp [descends, nameEq_congr_right h]
  | succ n ih =>
    simp only [descends, nameEq_congr_right h]
    cases findCls cs c with
    | none => rfl
    | some cl =>
      cases hs : cl.super with
      | none => simp [hs]
      | some s => simp [hs, ih s]

theorem sSelect_congr (e : SNs) {t t' : Name} (h : lower t = lower t') : sSelect e t = sSelect e t' := by
  unfold sSelect
  congr 1
  funext x
  exact descends_congr_target _ _ _ h

/-- EnumerateInstanceNames / EnumerateInstances of the reference map look at class and namespace names up to case -/
theorem specEnumNames_congr (s : SRepo) {ns ns' : Option Name} {cls cls' : Name}
    (hn : lower (ns.getD s.dflt) = lower (ns'.getD s.dflt)) (hc : lower cls = lower cls') :
    specEnumNames s ns cls = specEnumNames s ns' cls' := by
  unfold specEnumNames
  simp only [sFindNs_congr s hn, hn]
  cases sFindNs s (ns'.getD s.dflt) with
  | none => rfl
  | some e => simp only [findCls_congr e.classes hc, sSelect_congr e hc]

theorem specEnumInsts_congr (s : SRepo) {ns ns' : Option Name} {cls cls' : Name} (di : Option Bool)
    (pl : Option (List Name)) (o o' : RetOpts)
    (hn : lower (ns.getD s.dflt) = lower (ns'.getD s.dflt)) (hc : lower cls = lower cls') :
    specEnumInsts s ns cls di pl o = specEnumInsts s ns' cls' di pl o' := by
  unfold specEnumInsts
  simp only [sFindNs_congr s hn, hn]
  cases sFindNs s (ns'.getD s.dflt) with
  | none => rfl
  | some e => simp only [findCls_congr e.classes hc, sSelect_congr e hc]

theorem keyIn_any_ns {p q : Path} {a b : Name} (h : keyIn p a = keyIn q b) (n : Name) : keyIn p n = keyIn q n := by
  have h1 := congrArg Path.cls h
  have h2 := congrArg Path.keys h
  simp only [keyIn, normPath] at h1 h2 ⊢
  simp [h1, h2]

theorem sDeleteAll_congr_last (p : Path) {a b : Name} (h : lower a = lower b) (l : List Name) : ∀ s,
    sDeleteAll s p (l ++ [a]) = sDeleteAll s p (l ++ [b]) := by
  induction l with
  | nil => intro s; simp only [List.nil_append, sDeleteAll, keyIn_congr p h, sSetMap_congr s h]
  | cons n t ih => intro s; simp only [List.cons_append, sDeleteAll]; exact ih _

theorem sDeleteAll_congr_path {p q : Path} (h : ∀ n, keyIn p n = keyIn q n) (l : List Name) : ∀ s,
    sDeleteAll s p l = sDeleteAll s q l := by
  induction l with
  | nil => intro s; rfl
  | cons n t ih => intro s; simp only [sDeleteAll, h n]; exact ih _

theorem targets_congr (a : Bool) (ps : List PropV) {t t' : Name} (h : lower t = lower t') :
    ∃ l, targets a ps t = l ++ [t] ∧ targets a ps t' = l ++ [t'] := by
  unfold targets
  cases a
  · exact ⟨[], rfl, rfl⟩
  · exact ⟨multiNs ps t, rfl, by simp [multiNs_congr h]⟩

/-- DeleteInstance of the reference map looks at the path up to normal form -/
theorem specDelete_congr (s : SRepo) {p q : Path}
    (h : keyIn p (p.ns.getD s.dflt) = keyIn q (q.ns.getD s.dflt)) : specDelete s p = specDelete s q := by
  have hns : lower (p.ns.getD s.dflt) = lower (q.ns.getD s.dflt) := by
    have := congrArg Path.ns h; simpa [keyIn, normPath] using this
  have hcls : lower p.cls = lower q.cls := by
    have := congrArg Path.cls h; simpa [keyIn, normPath] using this
  unfold specDelete
  simp only [sFindNs_congr s hns, h]
  cases sFindNs s (q.ns.getD s.dflt) with
  | none => rfl
  | some e =>
    simp only [findCls_congr e.classes hcls]
    cases findCls e.classes q.cls with
    | none => rfl
    | some c =>
      simp only []
      cases sLookup e.map (keyIn q (q.ns.getD s.dflt)) with
      | none => rfl
      | some old =>
        simp only []
        obtain ⟨l, h1, h2⟩ := targets_congr c.isAssoc old.props hns
        rw [h1, h2, sDeleteAll_congr_last p hns, sDeleteAll_congr_path (keyIn_any_ns h)]

end Proofs.Store
