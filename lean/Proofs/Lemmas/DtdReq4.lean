/-
C03 — InvokeMethod: the METHODCALL request is valid whenever `_methodcall` gets as far as sending
(this is where the rejection of nested / mixed arrays in `paramvalue` is needed), and its headers agree with the body.
-/
import Proofs.Lemmas.DtdReq3

set_option linter.unusedSimpArgs false
set_option linter.unusedVariables false

namespace Proofs.DtdReq
open Pywbem.Model Pywbem.Model.Dtd Pywbem.Model.XmlText Pywbem.Model.Sendable Proofs.Dtd Proofs.DtdEnc
open Pywbem.Model.Req Pywbem.Proto
open Pywbem.Generated

def pitemShape : PItem → Bool
  | .atom (.ref p) => shapePath p
  | _ => true

def pvalShape : PVal → Bool
  | .scalar (.ref p) => shapePath p
  | .array l => l.all pitemShape
  | _ => true

/-- constructor invariants of a method parameter: a CIMParameter has a valid type name and embedded_object;
    references have a CIM-XML representation -/
def mparamShape : MParam → Bool
  | .cimparam _ ty v emb => paramTypes.contains ty && embOk emb && pvalShape v
  | .tuple _ v => pvalShape v

/-- the element name `paramvalue` produces for a scalar -/
def atomKidName (a : Atom) : Name := if isRef a then "VALUE.REFERENCE".toList else "VALUE".toList

theorem atomParamXml_ok (C : Codec) {a : Atom} {r : Option Xml} (hs : ∀ p, a = .ref p → shapePath p = true)
    (h : atomParamXml C a = .ok r) :
    r = none ∨ ∃ k as ks, r = some k ∧ k = .elem (atomKidName a) as ks ∧ structNode D k = true := by
  have hv : ∀ (a' : Atom) (x : Xml), isRef a' = false → checked (valueElem (atomText C a')) = .ok x →
      ∃ k as ks, some x = some k ∧ k = .elem (atomKidName a') as ks ∧ structNode D k = true := by
    intro a' x hr hx
    obtain ⟨rfl, _⟩ := checked_ok hx
    exact ⟨_, _, _, rfl, by simp only [atomKidName, hr, valueElem, E]; rfl, struct_valueElem _⟩
  cases a with
  | null => simp only [atomParamXml] at h; cases h; exact .inl rfl
  | ref p =>
    simp only [atomParamXml] at h
    obtain ⟨x, hx, h⟩ := bind_ok h
    cases h
    obtain ⟨rfl, _⟩ := checked_ok hx
    exact .inr ⟨_, _, _, rfl, by simp only [atomKidName, isRef, E]; rfl,
      struct_valueReference (struct_encPath C p (hs p rfl)) (encPath_name C p)⟩
  | pyint v => simp [atomParamXml] at h
  | pyfloat b => simp [atomParamXml] at h
  | str s => simp only [atomParamXml] at h; obtain ⟨x, hx, h⟩ := bind_ok h; cases h; exact .inr (hv _ x rfl hx)
  | char16 s => simp only [atomParamXml] at h; obtain ⟨x, hx, h⟩ := bind_ok h; cases h; exact .inr (hv _ x rfl hx)
  | bool b => simp only [atomParamXml] at h; obtain ⟨x, hx, h⟩ := bind_ok h; cases h; exact .inr (hv _ x rfl hx)
  | int t v => simp only [atomParamXml] at h; obtain ⟨x, hx, h⟩ := bind_ok h; cases h; exact .inr (hv _ x rfl hx)
  | real w b => simp only [atomParamXml] at h; obtain ⟨x, hx, h⟩ := bind_ok h; cases h; exact .inr (hv _ x rfl hx)
  | dt s => simp only [atomParamXml] at h; obtain ⟨x, hx, h⟩ := bind_ok h; cases h; exact .inr (hv _ x rfl hx)
  | einst i => simp only [atomParamXml] at h; obtain ⟨x, hx, h⟩ := bind_ok h; cases h; exact .inr (hv _ x rfl hx)
  | ecls c => simp only [atomParamXml] at h; obtain ⟨x, hx, h⟩ := bind_ok h; cases h; exact .inr (hv _ x rfl hx)

def arrKidName (refArray : Bool) : Name := if refArray then "VALUE.REFERENCE".toList else "VALUE".toList

theorem nullItem_facts : structNode D nullItem = true ∧ ∃ as ks, nullItem = .elem "VALUE.NULL".toList as ks := by
  have hn : sendValueNull = true := by rfl
  refine ⟨by unfold nullItem; exact struct_nullItem, ?_⟩
  unfold nullItem
  simp only [hn, if_true]
  exact ⟨_, _, by simp only [E]; rfl⟩

/-- one item of an array the `itemMismatch` test lets through: VALUE (VALUE.REFERENCE in a reference array) or the
    NULL item -/
theorem itemParamXml_ok (C : Codec) (refArray : Bool) {i : PItem} {x : Xml} (hs : pitemShape i = true)
    (hm : itemMismatch refArray i = false) (h : itemParamXml C i = .ok x) :
    structNode D x = true ∧ ∃ as ks n, x = .elem n as ks ∧ (n = arrKidName refArray ∨ n = "VALUE.NULL".toList) := by
  have hnull : ∀ y, (Except.ok nullItem : Except PyExc Xml) = Except.ok y → (structNode D y = true ∧
      ∃ as ks n, y = .elem n as ks ∧ (n = arrKidName refArray ∨ n = "VALUE.NULL".toList)) := by
    intro y hy; cases hy
    obtain ⟨h1, as, ks, h2⟩ := nullItem_facts
    exact ⟨h1, as, ks, _, h2, .inr rfl⟩
  have hval : ∀ (a : Atom) y, refArray = false → checked (valueElem (atomText C a)) = .ok y →
      (structNode D y = true ∧ ∃ as ks n, y = .elem n as ks ∧ (n = arrKidName refArray ∨ n = "VALUE.NULL".toList)) := by
    intro a y hr hy
    obtain ⟨rfl, _⟩ := checked_ok hy
    exact ⟨struct_valueElem _, _, _, _, by simp only [valueElem, E]; rfl, .inl (by simp [arrKidName, hr])⟩
  cases i with
  | null => simp only [itemParamXml] at h; exact hnull x h
  | list => simp [itemMismatch] at hm
  | atom a =>
    cases a with
    | null => simp only [itemParamXml] at h; exact hnull x h
    | ref p =>
      simp only [itemParamXml] at h
      obtain ⟨y, hy, h⟩ := bind_ok h
      cases h
      obtain ⟨rfl, _⟩ := checked_ok hy
      have hr : refArray = true := by cases refArray <;> simp [itemMismatch] at hm ⊢
      exact ⟨struct_valueReference (struct_encPath C p (by simpa [pitemShape] using hs)) (encPath_name C p),
        _, _, _, by simp only [E]; rfl, .inl (by simp [arrKidName, hr])⟩
    | pyint v => simp [itemParamXml] at h
    | pyfloat b => simp [itemParamXml] at h
    | str s => simp only [itemParamXml] at h; exact hval _ x (by cases refArray <;> simp [itemMismatch] at hm ⊢) h
    | char16 s => simp only [itemParamXml] at h; exact hval _ x (by cases refArray <;> simp [itemMismatch] at hm ⊢) h
    | bool b => simp only [itemParamXml] at h; exact hval _ x (by cases refArray <;> simp [itemMismatch] at hm ⊢) h
    | int t v => simp only [itemParamXml] at h; exact hval _ x (by cases refArray <;> simp [itemMismatch] at hm ⊢) h
    | real w b => simp only [itemParamXml] at h; exact hval _ x (by cases refArray <;> simp [itemMismatch] at hm ⊢) h
    | dt s => simp only [itemParamXml] at h; exact hval _ x (by cases refArray <;> simp [itemMismatch] at hm ⊢) h
    | einst i => simp only [itemParamXml] at h; exact hval _ x (by cases refArray <;> simp [itemMismatch] at hm ⊢) h
    | ecls c => simp only [itemParamXml] at h; exact hval _ x (by cases refArray <;> simp [itemMismatch] at hm ⊢) h

theorem itemsParamXml_ok (C : Codec) (refArray : Bool) : ∀ {l : List PItem} {xs : List Xml},
    l.all pitemShape = true → l.any (itemMismatch refArray) = false → itemsParamXml C l = .ok xs →
    structNodes D xs = true ∧ allElems xs = true ∧
    ∀ n ∈ kidNames xs, n = arrKidName refArray ∨ n = "VALUE.NULL".toList
  | [], xs, _, _, h => by simp only [itemsParamXml] at h; cases h; simp [structNodes, allElems, kidNames]
  | i :: l, xs, hs, hm, h => by
    simp only [itemsParamXml] at h
    obtain ⟨x, hx, h⟩ := bind_ok h
    obtain ⟨xs', hxs, h⟩ := bind_ok h
    cases h
    simp only [List.all_cons, Bool.and_eq_true] at hs
    simp only [List.any_cons, Bool.or_eq_false_iff] at hm
    obtain ⟨r1, r2, r3⟩ := itemsParamXml_ok C refArray hs.2 hm.2 hxs
    obtain ⟨hstruct, as, ks, n, rfl, hn⟩ := itemParamXml_ok C refArray hs.1 hm.1 hx
    rw [structNodes_cons, hstruct, r1]
    refine ⟨rfl, by simpa [allElems] using r2, ?_⟩
    intro m hm'
    simp only [kidNames, List.mem_cons] at hm'
    rcases hm' with rfl | hm'
    · exact hn
    · exact r3 m hm'

theorem paramValueXml_ok (C : Codec) {v : PVal} {r : Option Xml} (hs : pvalShape v = true)
    (h : paramValueXml C v = .ok r) :
    r = none ∨ ∃ k n as ks, r = some k ∧ k = .elem n as ks ∧ n ∈ paramValueKidNames ∧ structNode D k = true := by
  cases v with
  | null => simp only [paramValueXml] at h; cases h; exact .inl rfl
  | other => simp [paramValueXml] at h
  | scalar a =>
    simp only [paramValueXml] at h
    have hsa : ∀ p, a = .ref p → shapePath p = true := by
      intro p hp; subst hp; simpa [pvalShape] using hs
    rcases atomParamXml_ok C hsa h with rfl | ⟨k, as, ks, rfl, hk, hstruct⟩
    · exact .inl rfl
    · refine .inr ⟨k, _, as, ks, rfl, hk, ?_, hstruct⟩
      unfold atomKidName; split <;> simp [paramValueKidNames]
  | array l =>
    simp only [paramValueXml, arrayParamXml] at h
    split at h
    · cases h
    · rename_i hmm
      obtain ⟨xs, hxs, h⟩ := bind_ok h
      cases h
      have hm' : l.any (itemMismatch (isRefArray l)) = false := Bool.eq_false_iff.mpr hmm
      obtain ⟨r1, r2, r3⟩ := itemsParamXml_ok C _ (by simpa [pvalShape] using hs) hm' hxs
      right
      cases hra : isRefArray l with
      | true =>
        rw [hra] at r3
        refine ⟨_, "VALUE.REFARRAY".toList, [], xs, rfl, by simp [E], by simp [paramValueKidNames], ?_⟩
        apply struct_elem dtdDecl_VALUE_REFARRAY (by rfl) (by decide) _ r1
        apply content_children r2
        apply lang_star_letters
        intro x hx
        rcases r3 x hx with rfl | rfl
        · have : arrKidName true = "VALUE.REFERENCE".toList := rfl
          rw [this]
          exact lang_alts_mem (r := .sym "VALUE.REFERENCE".toList) (by simp) (Lang.sym _)
        · exact lang_alts_mem (r := .sym "VALUE.NULL".toList) (by simp) (Lang.sym _)
      | false =>
        rw [hra] at r3
        refine ⟨_, "VALUE.ARRAY".toList, [], xs, rfl, by simp [E], by simp [paramValueKidNames], ?_⟩
        apply struct_elem dtdDecl_VALUE_ARRAY (by rfl) (by decide) _ r1
        apply content_children r2
        apply lang_star_valueNames
        intro x hx
        rcases r3 x hx with rfl | rfl <;> simp [valueNames, arrKidName]

theorem inferAtom_ok {a : Atom} {t : Option Str} (h : inferAtom a = .ok t) :
    ∀ s, t = some s → paramTypes.contains s = true := by
  intro s hs
  cases a <;> simp only [inferAtom] at h <;> (try cases h) <;> (try cases hs) <;> (try decide)
  case int.refl ty v => cases ty <;> decide
  case real.refl w b => cases w <;> decide

theorem inferType_ok {v : PVal} {t : Option Str} (h : inferType v = .ok t) :
    ∀ s, t = some s → paramTypes.contains s = true := by
  unfold inferType at h
  split at h
  all_goals first
    | (cases h; intro s hs; cases hs)
    | exact inferAtom_ok h
    | cases h

theorem inferEmb_ok (v : PVal) : embOk (inferEmb v) = true := by
  have he : ∀ a, embOk (embOfAtom a) = true := by intro a; cases a <;> first | rfl | decide
  unfold inferEmb
  split
  · exact he _
  · exact he _
  · rfl

/-- a (name, value, type, embedded_object) tuple of `_methodcall` -/
def ptOk (pt : Str × PVal × Option Str × Option Str) : Prop :=
  (∀ s, pt.2.2.1 = some s → paramTypes.contains s = true) ∧ embOk pt.2.2.2 = true ∧ pvalShape pt.2.1 = true

theorem ptuple_ok {p : MParam} {pt : Str × PVal × Option Str × Option Str} (hs : mparamShape p = true)
    (h : ptuple p = .ok pt) : ptOk pt := by
  cases p with
  | cimparam n t v e =>
    simp only [ptuple] at h; cases h
    simp only [mparamShape, Bool.and_eq_true] at hs
    exact ⟨fun s hs' => by cases hs'; exact hs.1.1, hs.1.2, hs.2⟩
  | tuple n v =>
    simp only [ptuple] at h
    obtain ⟨t, ht, h⟩ := bind_ok h
    cases h
    exact ⟨inferType_ok ht, inferEmb_ok v, by simpa [mparamShape] using hs⟩

theorem ptuples_ok : ∀ {ps : List MParam} {pts : List (Str × PVal × Option Str × Option Str)},
    (∀ p ∈ ps, mparamShape p = true) → ptuples ps = .ok pts → ∀ pt ∈ pts, ptOk pt
  | [], pts, _, h => by simp only [ptuples] at h; cases h; intro pt hpt; cases hpt
  | p :: ps, pts, hs, h => by
    simp only [ptuples] at h
    obtain ⟨t, ht, h⟩ := bind_ok h
    obtain ⟨ts, hts, h⟩ := bind_ok h
    cases h
    intro pt hpt
    rcases List.mem_cons.mp hpt with rfl | hpt
    · exact ptuple_ok (hs p (by simp)) ht
    · exact ptuples_ok (fun q hq => hs q (by simp [hq])) hts pt hpt

theorem paramValues_ok (C : Codec) : ∀ {pts : List (Str × PVal × Option Str × Option Str)} {xs : List Xml},
    (∀ pt ∈ pts, ptOk pt) → paramValues C pts = .ok xs →
    structNodes D xs = true ∧ allElems xs = true ∧ kidNames xs = List.replicate xs.length "PARAMVALUE".toList
  | [], xs, _, h => by simp only [paramValues] at h; cases h; simp [structNodes, allElems, kidNames]
  | (n, v, t, eo) :: rest, xs, hp, h => by
    simp only [paramValues] at h
    obtain ⟨r, hr, h⟩ := bind_ok h
    obtain ⟨pv, hpv, h⟩ := bind_ok h
    obtain ⟨xs', hxs, h⟩ := bind_ok h
    cases h
    obtain ⟨r1, r2, r3⟩ := paramValues_ok C (fun pt hpt => hp pt (by simp [hpt])) hxs
    obtain ⟨hty, hemb, hsh⟩ := hp (n, v, t, eo) (by simp)
    rcases paramValueXml_ok C hsh hr with rfl | ⟨k, nm, as, ks, rfl, rfl, hmem, hk⟩
    · simp only at hpv
      obtain ⟨rfl, _⟩ := checked_ok hpv
      have hstruct := struct_paramvalue n t eo [] hty hemb rfl rfl (.inl rfl)
      rw [structNodes_cons, hstruct, r1]
      simp only [E, allElems, kidNames, r2, r3, List.length_cons, List.replicate_succ]
      simp
    · simp only at hpv
      obtain ⟨rfl, _⟩ := checked_ok hpv
      have hstruct := struct_paramvalue n t eo [.elem nm as ks] hty hemb (structNodes_one hk) (by simp [allElems])
        (.inr ⟨nm, by simp [kidNames], hmem⟩)
      rw [structNodes_cons, hstruct, r1]
      simp only [E, allElems, kidNames, r2, r3, List.length_cons, List.replicate_succ]
      simp

/-- the target of an extrinsic call: the object name with the default namespace filled in and the host removed -/
theorem localobject_facts (C : Codec) (p : Path) (n : Str) (hs : shapePath p = true) :
    structNode D (encPath C (pathSetHost none (pathSetNs (some n) p))) = true ∧
    ∃ as ks nm, encPath C (pathSetHost none (pathSetNs (some n) p)) = .elem nm as ks ∧
      (nm = "LOCALINSTANCEPATH".toList ∨ nm = "LOCALCLASSPATH".toList) := by
  refine ⟨struct_encPath C _ (by rw [pathSetHost_shape, pathSetNs_shape]; exact hs), ?_⟩
  cases p with
  | inst c h ns ks => exact ⟨_, _, _, by simp only [pathSetNs, pathSetHost, encPath, E]; rfl, .inl rfl⟩
  | cls c h ns => exact ⟨_, _, _, by simp only [pathSetNs, pathSetHost, encPath, E]; rfl, .inr rfl⟩

/-- **request_valid for InvokeMethod** -/
theorem methodcall_valid (C : Codec) (K : KeyCodec) (dn : Str) (m obj : Arg) (params : List MParam) (h : Headers) (x : Xml)
    (hobj : argShape obj = true) (hparams : ∀ p ∈ params, mparamShape p = true)
    (hr : methodcall C K dn m obj params = .ok (h, x)) :
    validTree D x = true ∧ header h "CIMMethod" = bodyMethodName x := by
  simp only [methodcall] at hr
  obtain ⟨mname, hm, hr⟩ := bind_ok hr
  obtain ⟨lo, hlo, hr⟩ := bind_ok hr
  obtain ⟨hdr, hh, hr⟩ := bind_ok hr
  obtain ⟨pragma, hpr, hr⟩ := bind_ok hr
  obtain ⟨pts, hpts, hr⟩ := bind_ok hr
  obtain ⟨plist, hpl, hr⟩ := bind_ok hr
  obtain ⟨lox, hlox, hr⟩ := bind_ok hr
  obtain ⟨doc, hd, hr⟩ := bind_ok hr
  cases hr
  obtain ⟨rfl, _⟩ := checked_ok hlox
  obtain ⟨rfl, hchars⟩ := checked_ok hd
  obtain ⟨p1, p2, p3⟩ := paramValues_ok C (ptuples_ok hparams hpts) hpl
  have hlof : structNode D (encPath C lo) = true ∧ ∃ as ks nm, encPath C lo = .elem nm as ks ∧
      (nm = "LOCALINSTANCEPATH".toList ∨ nm = "LOCALCLASSPATH".toList) := by
    cases obj with
    | className p => simp only [localObject] at hlo; cases hlo; exact localobject_facts C p _ hobj
    | instName p => simp only [localObject] at hlo; cases hlo; exact localobject_facts C p _ hobj
    | str s =>
      simp only [localObject] at hlo; cases hlo
      exact ⟨struct_encPath C _ rfl, _, _, _, by simp only [encPath, E]; rfl, .inr rfl⟩
    | _ => simp [localObject] at hlo
  obtain ⟨hlos, as, ks, nm, hloe, hnm⟩ := hlof
  have hmc : structNode D (E "METHODCALL" [("NAME".toList, mname)] (encPath C lo :: plist)) = true := by
    apply struct_elem dtdDecl_METHODCALL (by rfl) (attrs_name_only "NAME" mname (by rfl) (by rfl))
    · apply content_children (by rw [hloe]; simpa [allElems] using p2)
      have : kidNames (encPath C lo :: plist) = nm :: kidNames plist := by rw [hloe]; simp [kidNames]
      rw [this, p3]
      have hfirst : Lang (Re.alts [.sym "LOCALINSTANCEPATH".toList, .sym "LOCALCLASSPATH".toList]) [nm] := by
        rcases hnm with rfl | rfl <;> exact lang_alts_mem (r := .sym _) (by simp) (Lang.sym _)
      have := lang_seq2 hfirst (lang_star_replicate "PARAMVALUE".toList plist.length)
      simpa using this
    · rw [structNodes_cons, hlos, p1]; rfl
  have hsr : structNode D (E "SIMPLEREQ" [] [E "METHODCALL" [("NAME".toList, mname)] (encPath C lo :: plist)]) = true :=
    struct_single dtdDecl_SIMPLEREQ (by simp only [E]; rfl) (by rfl) (by decide)
      (r := Re.alts [.sym "IMETHODCALL".toList, .sym "METHODCALL".toList]) (by rfl)
      (lang_alts_mem (r := .sym _) (by simp) (Lang.sym _)) hmc
  have hdoc := struct_envelope reqCimVersion.toList reqDtdVersion.toList reqMessageId.toList reqProtocolVersion.toList
    (by simp only [E]; rfl) (by simp [simpleNames]) hsr
  refine ⟨?_, ?_⟩
  · simp only [validTree, Bool.and_eq_true]; exact ⟨⟨rfl, hdoc⟩, hchars⟩
  · simp [header, Xml.attr, bodyMethodName, bodyCall, cimElem, E]

theorem renderPath_prefix (K : KeyCodec) (rec : Path → Option Str) (c : Str) (ns : Option Str)
    (keys : Option (List Key)) (u : Str)
    (h : renderPath K rec (match keys with | some ks => Path.inst c none ns ks | none => Path.cls c none ns) = some u) :
    ((ns.getD []) ++ ':' :: c) <+: u := by
  cases keys with
  | none =>
    simp only [renderPath, uriHead, hostSlash, List.nil_append] at h
    cases h
    cases ns <;> exact List.prefix_refl _
  | some ks =>
    simp only [renderPath, uriHead, hostSlash, List.nil_append] at h
    split at h
    · cases h
    · split at h
      · cases h
      · cases h
        split
        · cases ns <;> exact List.prefix_refl _
        · cases ns <;> exact List.prefix_append _ _

/-- a path without host: its CIMObject form starts with `namespace:classname` -/
theorem pathUri_prefix (K : KeyCodec) (fuel : Nat) (c : Str) (ns : Option Str) (keys : Option (List Key)) (u : Str)
    (h : pathUri K fuel (match keys with | some ks => Path.inst c none ns ks | none => Path.cls c none ns) = some u) :
    ((ns.getD []) ++ ':' :: c) <+: u := by
  cases fuel with
  | zero => exact renderPath_prefix K _ c ns keys u (by simpa only [pathUri] using h)
  | succ f => exact renderPath_prefix K _ c ns keys u (by simpa only [pathUri] using h)

/-- InvokeMethod: the CIMObject header starts with `namespace:classname` of the body's target (the keybinding
    part of the header is produced from the same keybindings by `pathUri`; it is compared by the oracle) -/
theorem methodcall_cimobject (C : Codec) (K : KeyCodec) (dn : Str) (m obj : Arg) (params : List MParam) (h : Headers)
    (x : Xml) (hr : methodcall C K dn m obj params = .ok (h, x)) :
    ∃ hdr n c, header h "CIMObject" = some hdr ∧ bodyNamespace x = some n ∧ bodyClassName x = some c ∧
      (n ++ ':' :: c) <+: hdr := by
  simp only [methodcall] at hr
  obtain ⟨mname, hm, hr⟩ := bind_ok hr
  obtain ⟨lo, hlo, hr⟩ := bind_ok hr
  obtain ⟨hdr, hh, hr⟩ := bind_ok hr
  obtain ⟨pragma, hpr, hr⟩ := bind_ok hr
  obtain ⟨pts, hpts, hr⟩ := bind_ok hr
  obtain ⟨plist, hpl, hr⟩ := bind_ok hr
  obtain ⟨lox, hlox, hr⟩ := bind_ok hr
  obtain ⟨doc, hd, hr⟩ := bind_ok hr
  cases hr
  obtain ⟨rfl, _⟩ := checked_ok hlox
  obtain ⟨rfl, _⟩ := checked_ok hd
  have hhdr : header ([("CIMOperation".toList, "MethodCall".toList), ("CIMMethod".toList, mname),
      ("CIMObject".toList, hdr)] ++ pragma) "CIMObject" = some hdr := by simp [header, Xml.attr]
  -- the local object always has a namespace and no host
  have hform : ∃ c n keys, lo = (match keys with | some ks => Path.inst c none (some n) ks | none => Path.cls c none (some n)) := by
    cases obj with
    | className p =>
      simp only [localObject] at hlo; cases hlo
      cases p with
      | inst c hst ns ks => exact ⟨c, (pathNs (Path.inst c hst ns ks)).getD dn, some ks, rfl⟩
      | cls c hst ns => exact ⟨c, (pathNs (Path.cls c hst ns)).getD dn, none, rfl⟩
    | instName p =>
      simp only [localObject] at hlo; cases hlo
      cases p with
      | inst c hst ns ks => exact ⟨c, (pathNs (Path.inst c hst ns ks)).getD dn, some ks, rfl⟩
      | cls c hst ns => exact ⟨c, (pathNs (Path.cls c hst ns)).getD dn, none, rfl⟩
    | str s => simp only [localObject] at hlo; cases hlo; exact ⟨s, dn, none, rfl⟩
    | _ => simp [localObject] at hlo
  have hu : pathUri K (pathDepth lo) lo = some hdr := by
    unfold cimObjectHeader at hh
    cases hp : pathUri K (pathDepth lo) lo with
    | none => rw [hp] at hh; cases hh
    | some u => rw [hp] at hh; cases hh; rfl
  obtain ⟨c, n, keys, rfl⟩ := hform
  have hpre := pathUri_prefix K _ c (some n) keys hdr hu
  refine ⟨hdr, n, c, hhdr, ?_, ?_, by simpa using hpre⟩
  · cases keys with
    | none =>
      have := lnpNamespace_localNsPath n
      simp only [bodyNamespace, bodyCall, cimElem, E, encPath]
      simp [this]
    | some ks =>
      have := lnpNamespace_localNsPath n
      simp only [bodyNamespace, bodyCall, cimElem, E, encPath]
      simp [this]
  · cases keys with
    | none => simp [bodyClassName, bodyCall, cimElem, E, encPath, Xml.attr]
    | some ks => simp [bodyClassName, bodyCall, cimElem, E, encPath, Xml.attr]

/-- headers of an intrinsic operation, from its extracted specification -/
theorem runOp_headers (C : Codec) (dn : Str) (spec : Req.OpSpec) (ns : Arg) (args : List (String × Arg))
    (h : Headers) (x : Xml) (hr : runOp C dn spec ns args = .ok (h, x)) :
    header h "CIMOperation" = some "MethodCall".toList ∧
    header h "CIMMethod" = some spec.name.toList ∧ bodyMethodName x = some spec.name.toList ∧
    ∃ n, header h "CIMObject" = some n ∧ bodyNamespace x = some n := by
  unfold runOp at hr
  obtain ⟨s, _, hr⟩ := bind_ok hr
  obtain ⟨h1, h2, h3, n, _, h4, h5⟩ := imethodcall_headers C spec.name _ _ h x hr
  exact ⟨h1, h2, h3, n, h4, h5⟩

end Proofs.DtdReq
