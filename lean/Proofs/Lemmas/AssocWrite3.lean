/-
C13: preservation of the shadow-copy discipline by ModifyInstance.
-/
import Proofs.Lemmas.AssocWrite2

namespace C13
open Pywbem.Proto Pywbem.Model.Assoc

/-- the instance after `original_instance.update(modified_instance.properties)` -/
def merged (orig : Inst) (chg : List IProp) : Inst := { orig with props := mergeProps orig.props chg }

/-- namespaces whose copy ModifyInstance removes: named by the old ends, not by the new ones -/
def modStale (orig m : Inst) (ns : Name) : List Name :=
  (otherNamespaces orig ns).filter (fun n => !inNss (otherNamespaces m ns) n)

theorem mapInsts_comp (r : Repo) (F G : NsStore → List Inst) :
    mapInsts (mapInsts r F) G = mapInsts r (fun S => G { S with insts := F S }) := by
  simp [mapInsts, List.map_map, Function.comp_def]

theorem modifyAssoc_ok {sv sv' : Server} {ns : Name} {p : Path} {chg : List IProp}
    (h : modifyAssoc sv ns p chg = .ok sv') :
    ∃ S0 orig, findNs sv.repo ns = some S0 ∧ findInst S0.insts (srcPath ns p) = some orig ∧ orig ∈ S0.insts ∧
      instInAll sv (otherNamespaces (merged orig chg) ns ++ [ns]) orig.path = true ∧
      sv'.repo = delInsts (setInsts sv.repo (otherNamespaces (merged orig chg) ns ++ [ns]) (merged orig chg))
                  (modStale orig (merged orig chg) ns) orig.path := by
  unfold modifyAssoc at h
  cases hS : findNs sv.repo ns with
  | none => simp [hS] at h
  | some S =>
    simp only [hS] at h
    split at h
    · cases h
    · cases hf : findInst S.insts (srcPath ns p) with
      | none => simp [hf] at h
      | some orig =>
        simp only [hf] at h
        have horig := (findInst_mem hf).1
        split at h
        · cases h
        · split at h
          · cases h
          · split at h
            · cases h
            · split at h
              · rename_i hempty
                cases h
                have hnil : otherNamespaces (merged orig chg) ns = [] := by
                  simpa [merged] using hempty
                refine ⟨S, orig, rfl, hf, horig, ?_, ?_⟩
                · rw [hnil]
                  simp only [List.nil_append, instInAll, List.all_cons, List.all_nil, Bool.and_true, hS]
                  simp only [List.any_eq_true]
                  exact ⟨orig, horig, pkEq_refl _⟩
                · rw [hnil]; rfl
              · split at h
                · cases h
                · split at h
                  · cases h
                  · rename_i hall
                    cases h
                    refine ⟨S, orig, rfl, hf, horig, ?_, rfl⟩
                    simpa [merged] using hall

/-- the instance lists after ModifyInstance -/
def modF (nss stale : List Name) (m : Inst) (S : NsStore) : List Inst :=
  let I1 := if inNss nss S.name then S.insts.map (fun i => if pkEq i.path m.path then rebase m S.name else i)
            else S.insts
  if inNss stale S.name then I1.filter (fun i => !pkEq i.path m.path) else I1

theorem modify_repo_eq (r : Repo) (nss stale : List Name) (m : Inst) :
    delInsts (setInsts r nss m) stale m.path = mapInsts r (modF nss stale m) := by
  rw [setInsts_eq, delInsts_eq, mapInsts_comp]
  rfl

/-- the request condition under which ModifyInstance keeps the discipline: the instance is an association
    instance (has a reference property) and the merged instance still names the request namespace by one
    of its ends (or has no end) -/
def ModifyOk (sv : Server) (ns : Name) (p : Path) (chg : List IProp) : Prop :=
  ∀ S, findNs sv.repo ns = some S → ∀ orig, findInst S.insts (srcPath ns p) = some orig →
    hasRef orig = true ∧ (endNss (merged orig chg) = [] ∨ inNss (endNss (merged orig chg)) ns = true)

theorem stale_disjoint {orig m : Inst} {ns n : Name} (h : inNss (modStale orig m ns) n = true) :
    inNss (otherNamespaces m ns ++ [ns]) n = false := by
  obtain ⟨k, hk, hkn⟩ := inNss_iff.mp h
  unfold modStale at hk
  obtain ⟨hkold, hknew⟩ := List.mem_filter.mp hk
  have hknew' : inNss (otherNamespaces m ns) k = false := by simpa using hknew
  have hkt := (mem_otherNamespaces hkold).2
  cases hc : inNss (otherNamespaces m ns ++ [ns]) n with
  | false => rfl
  | true =>
    exfalso
    obtain ⟨j, hj, hjn⟩ := inNss_iff.mp hc
    rcases List.mem_append.mp hj with hj | hj
    · have : inNss (otherNamespaces m ns) k = true :=
        inNss_iff.mpr ⟨j, hj, ieq_trans hjn (ieq_symm hkn)⟩
      rw [hknew'] at this; cases this
    · simp at hj; subst hj
      have : ieq k j = true := ieq_trans hkn (ieq_symm hjn)
      rw [hkt] at this; cases this

/-- membership in the new instance lists: an untouched instance that is no namesake of the modified
    one, or the updated copy in a namespace of the update list -/
theorem modF_mem {r : Repo} (hinv : WInv r) {S0 : NsStore} (hS0 : S0 ∈ r) {ns : Name} (hS0n : ieq S0.name ns = true)
    {orig m : Inst} (horig : orig ∈ S0.insts) (hpath : m.path = orig.path) (hro : hasRef orig = true)
    {S : NsStore} (hS : S ∈ r) {b : Inst}
    (hb : b ∈ modF (otherNamespaces m ns ++ [ns]) (modStale orig m ns) m S) :
    (b ∈ S.insts ∧ pkEq b.path m.path = false) ∨
    (b = rebase m S.name ∧ inNss (otherNamespaces m ns ++ [ns]) S.name = true) := by
  unfold modF at hb
  by_cases hst : inNss (modStale orig m ns) S.name = true
  · have hnot := stale_disjoint hst
    simp only [hst, hnot, if_true, Bool.false_eq_true, if_false] at hb
    obtain ⟨hbS, hnp⟩ := List.mem_filter.mp hb
    exact Or.inl ⟨hbS, by simpa using hnp⟩
  · simp only [hst, Bool.false_eq_true, if_false] at hb
    by_cases hin : inNss (otherNamespaces m ns ++ [ns]) S.name = true
    · simp only [hin, if_true] at hb
      obtain ⟨i, hi, hbi⟩ := List.mem_map.mp hb
      by_cases hpk : pkEq i.path m.path = true
      · simp only [hpk, if_true] at hbi
        exact Or.inr ⟨hbi.symm, hin⟩
      · simp only [hpk] at hbi
        subst hbi
        exact Or.inl ⟨hi, by simpa using hpk⟩
    · simp only [hin] at hb
      -- not in the update list and not stale: `b` cannot be a namesake (namesakes are confined)
      cases hpk : pkEq b.path m.path with
      | false => exact Or.inl ⟨hb, rfl⟩
      | true =>
        exfalso
        rw [hpath] at hpk
        have hconf := namesake_confined hinv hS0 hS horig hb hpk hro
        have hold : inNss (otherNamespaces orig ns ++ [ns]) S.name = true := by
          rcases hconf with rfl | hE
          · exact inNss_iff.mpr ⟨ns, by simp, ieq_symm hS0n⟩
          · obtain ⟨k, hk, hkS⟩ := inNss_iff.mp hE
            rw [← inNss_congr hkS]; exact inNss_other_of_endNss hk
        obtain ⟨k, hk, hkS⟩ := inNss_iff.mp hold
        rcases List.mem_append.mp hk with hk | hk
        · by_cases hknew : inNss (otherNamespaces m ns) k = true
          · apply hin
            obtain ⟨j, hj, hjk⟩ := inNss_iff.mp hknew
            exact inNss_iff.mpr ⟨j, List.mem_append.mpr (Or.inl hj), ieq_trans hjk hkS⟩
          · apply hst
            exact inNss_iff.mpr ⟨k, List.mem_filter.mpr ⟨hk, by simpa using hknew⟩, hkS⟩
        · simp at hk; subst hk
          apply hin
          exact inNss_iff.mpr ⟨k, by simp, hkS⟩

theorem modF_old {nss stale : List Name} {m : Inst} {S : NsStore} {b : Inst} (hb : b ∈ S.insts)
    (hpk : pkEq b.path m.path = false) : b ∈ modF nss stale m S := by
  unfold modF
  have h1 : b ∈ (if inNss nss S.name then S.insts.map (fun i => if pkEq i.path m.path then rebase m S.name else i)
            else S.insts) := by
    by_cases hin : inNss nss S.name = true
    · simp only [hin, if_true]
      exact List.mem_map.mpr ⟨b, hb, by simp [hpk]⟩
    · simp only [hin]; exact hb
  by_cases hst : inNss stale S.name = true
  · simp only [hst, if_true]
    exact List.mem_filter.mpr ⟨h1, by simp [hpk]⟩
  · simp only [hst]; exact h1

theorem modF_new {orig m : Inst} {ns : Name} {S : NsStore}
    (hin : inNss (otherNamespaces m ns ++ [ns]) S.name = true) {i : Inst} (hi : i ∈ S.insts)
    (hpk : pkEq i.path m.path = true) :
    rebase m S.name ∈ modF (otherNamespaces m ns ++ [ns]) (modStale orig m ns) m S := by
  unfold modF
  have hst : inNss (modStale orig m ns) S.name = false := by
    cases hc : inNss (modStale orig m ns) S.name with
    | false => rfl
    | true => have := stale_disjoint hc; rw [hin] at this; cases this
  simp only [hst, hin, if_true, Bool.false_eq_true, if_false]
  exact List.mem_map.mpr ⟨i, hi, by simp [hpk]⟩

theorem modify_preserves {sv sv' : Server} {ns : Name} {p : Path} {chg : List IProp}
    (hinv : WInv sv.repo) (hreq : ModifyOk sv ns p chg) (h : modifyAssoc sv ns p chg = .ok sv') :
    WInv sv'.repo := by
  obtain ⟨S0, orig, hS0, hfind, horig, hall, hrepo⟩ := modifyAssoc_ok h
  obtain ⟨hS0r, hS0n⟩ := findNs_mem hS0
  obtain ⟨hro, hhome⟩ := hreq S0 hS0 orig hfind
  have hpath : (merged orig chg).path = orig.path := rfl
  have hcls : (merged orig chg).cls = orig.cls := rfl
  rw [hrepo, ← hpath, modify_repo_eq]
  generalize hm : merged orig chg = m at *
  have hmem := fun (S : NsStore) (hS : S ∈ sv.repo) (b : Inst) hb =>
    modF_mem hinv hS0r hS0n horig hpath hro hS (b := b) hb
  apply winv_mapInsts hinv
  · intro S hS b hb
    rcases hmem S hS b hb with ⟨hbS, _⟩ | ⟨rfl, _⟩
    · exact hinv.keyed S hS b hbS
    · exact ⟨rfl, S.name, rfl, ieq_refl _⟩
  · intro S hS b hb c hc hpk
    rcases hmem S hS b hb with ⟨hbS, hbn⟩ | ⟨rfl, _⟩ <;> rcases hmem S hS c hc with ⟨hcS, hcn⟩ | ⟨rfl, _⟩
    · exact hinv.nodup S hS b hbS c hcS hpk
    · rw [pkEq_rebase_right, hbn] at hpk; cases hpk
    · rw [pkEq_rebase_left, pkEq_symm_eq, hcn] at hpk; cases hpk
    · rfl
  · intro S hS b hb
    rcases hmem S hS b hb with ⟨hbS, _⟩ | ⟨rfl, hin⟩
    · exact hinv.loc S hS b hbS
    · rw [endNss_rebase]
      obtain ⟨k, hk, hkS⟩ := inNss_iff.mp hin
      rcases List.mem_append.mp hk with hk | hk
      · exact Or.inr (inNss_iff.mpr ⟨k, (mem_otherNamespaces hk).1, hkS⟩)
      · simp at hk; subst hk
        rcases hhome with h0 | h1
        · exact Or.inl h0
        · exact Or.inr (by rw [← inNss_congr hkS]; exact h1)
  · intro S hS T hT b hb c hc hpk hr he
    rcases hmem S hS b hb with ⟨hbS, hbn⟩ | ⟨rfl, hinS⟩ <;> rcases hmem T hT c hc with ⟨hcT, hcn⟩ | ⟨rfl, hinT⟩
    · exact hinv.conf S hS T hT b hbS c hcT hpk hr he
    · rw [pkEq_rebase_right, hbn] at hpk; cases hpk
    · rw [pkEq_rebase_left, pkEq_symm_eq, hcn] at hpk; cases hpk
    · rw [endNss_rebase] at he
      have hoth : otherNamespaces m ns = [] := by
        cases ho : otherNamespaces m ns with
        | nil => rfl
        | cons k ks =>
          have := (mem_otherNamespaces (a := m) (target := ns) (m := k) (by rw [ho]; exact List.mem_cons_self ..)).1
          rw [he] at this; cases this
      rw [hoth] at hinS hinT
      simp [inNss] at hinS hinT
      exact hinv.uniq S hS T hT (ieq_trans (ieq_symm hinS) hinT)
  · intro S hS b hb n hn
    rcases hmem S hS b hb with ⟨hbS, hbn⟩ | ⟨rfl, _⟩
    · obtain ⟨T, hT, hTn, b', hb', hpk⟩ := hinv.shadow S hS b hbS n hn
      refine ⟨T, hT, hTn, b', modF_old hb' ?_, hpk⟩
      cases hc : pkEq b'.path m.path with
      | false => rfl
      | true =>
        have := pkEq_trans (pkEq_symm hpk) hc
        rw [hbn] at this; cases this
    · rw [endNss_rebase] at hn
      have hin := inNss_other_of_endNss (target := ns) hn
      obtain ⟨k, hk, hkn⟩ := inNss_iff.mp hin
      -- the update loop found a namesake in every namespace of its list
      have hk' : (match findNs sv.repo k with
                  | none => false
                  | some T => T.insts.any (fun i => pkEq i.path orig.path)) = true := by
        have := List.all_eq_true.mp hall k hk; exact this
      cases hT : findNs sv.repo k with
      | none => simp [hT] at hk'
      | some T =>
        simp only [hT, List.any_eq_true] at hk'
        obtain ⟨i, hi, hipk⟩ := hk'
        obtain ⟨hTr, hTk⟩ := findNs_mem hT
        have hTn : ieq T.name n = true := ieq_trans hTk hkn
        have hinT : inNss (otherNamespaces m ns ++ [ns]) T.name = true := by
          rw [inNss_congr hTn]; exact hin
        refine ⟨T, hTr, hTn, rebase m T.name, modF_new hinT hi (by rw [hpath]; exact hipk), ?_⟩
        simp [pkEq_rebase_left, pkEq_rebase_right, pkEq_refl]
  · intro S hS T hT b hb c hc hpk
    rcases hmem S hS b hb with ⟨hbS, hbn⟩ | ⟨rfl, _⟩ <;> rcases hmem T hT c hc with ⟨hcT, hcn⟩ | ⟨rfl, _⟩
    · exact hinv.coh S hS T hT b hbS c hcT hpk
    · rw [pkEq_rebase_right, hbn] at hpk; cases hpk
    · rw [pkEq_rebase_left, pkEq_symm_eq, hcn] at hpk; cases hpk
    · exact fun _ => ⟨rfl, rfl⟩

/-- the request conditions along a history (each evaluated in the state the request meets) -/
def HistOk : Server → List WOp → Prop
  | _, [] => True
  | sv, op :: ops =>
    (match op with
     | .create ns a => CreateOk sv.repo ns a
     | .modify ns p chg => ModifyOk sv ns p chg
     | .delete _ _ => True
     | .deleteClass _ _ => True) ∧ HistOk (stepW sv op) ops

end C13
