/-
Helper lemmas for C20, part 2: soundness/completeness of `_values_tuple` against the spec.
-/
import Proofs.Lemmas.ValueMap

namespace Proofs.ValueMap
open Pywbem.Proto Pywbem.Model.IntLit Pywbem.Model.ValueMap Pywbem.Model.ValueMap.Spec Proofs.IntLit
theorem dots_endsDots : endsDots ['.', '.'] = true := by decide
theorem dots_startsDots : startsDots ['.', '.'] = true := by decide

theorem parseEntry_dots : parseEntry ['.', '.'] = some .unclaimed := by simp [parseEntry]

theorem parseEntry_unclaimed_iff {s : Str} {r : Raw} (h : parseEntry s = some r) :
    r = .unclaimed ↔ s = ['.', '.'] := by
  rcases parseEntry_cases h with ⟨h1, h2⟩ | ⟨h1, n, h2, _⟩ | ⟨h1, a, b, l, hh, h2, _⟩
  · simp [h1, h2]
  · simp [h1, h2]
  · simp [h1, h2]

/-- a successful `_values_tuple` on an entry whose upper end is not open returns the entry's own closed upper end -/
theorem tuple_hi_closed (T : IntType) (vmap : List Str) (f j : Nat) (p : Str) (rp : Raw) (pl ph : Int)
    (ht : valuesTuple T vmap f j = .ok (pl, ph)) (hp : vmap[j]? = some p) (he : endsDots p = false)
    (hr : parseEntry p = some rp) : closedHi rp = some ph := by
  cases f with
  | zero => simp [valuesTuple] at ht
  | succ f' =>
    simp only [valuesTuple] at ht
    have hne : p ≠ ['.', '.'] := by intro e; rw [e, dots_endsDots] at he; cases he
    obtain ⟨r', hr', hs⟩ := (tupleBody_ok_iff T vmap _ j p hp hne pl ph).mp ht
    rw [hr] at hr'; simp at hr'; subst hr'
    have hc : closedHi rp ≠ none := by
      intro hc; have := (endsDots_iff_closedHi hr).mpr hc; rw [he] at this; cases this
    cases rp with
    | unclaimed => simp [Shape] at hs
    | single n => simp [Shape] at hs; simp [closedHi, hs.2]
    | range l h =>
      cases h with
      | none => simp [closedHi] at hc
      | some x => simp [Shape, HiShape] at hs; simp [closedHi, hs.2]

theorem tuple_lo_closed (T : IntType) (vmap : List Str) (f j : Nat) (p : Str) (rp : Raw) (pl ph : Int)
    (ht : valuesTuple T vmap f j = .ok (pl, ph)) (hp : vmap[j]? = some p) (he : startsDots p = false)
    (hr : parseEntry p = some rp) : closedLo rp = some pl := by
  cases f with
  | zero => simp [valuesTuple] at ht
  | succ f' =>
    simp only [valuesTuple] at ht
    have hne : p ≠ ['.', '.'] := by intro e; rw [e, dots_startsDots] at he; cases he
    obtain ⟨r', hr', hs⟩ := (tupleBody_ok_iff T vmap _ j p hp hne pl ph).mp ht
    rw [hr] at hr'; simp at hr'; subst hr'
    have hc : closedLo rp ≠ none := by
      intro hc; have := (startsDots_iff_closedLo hr).mpr hc; rw [he] at this; cases this
    cases rp with
    | unclaimed => simp [Shape] at hs
    | single n => simp [Shape] at hs; simp [closedLo, hs.1]
    | range l h =>
      cases l with
      | none => simp [closedLo] at hc
      | some x => simp [Shape, LoShape] at hs; simp [closedLo, hs.1]

/-- pointwise facts about a ValueMap array whose entries all parse (`raws`) -/
structure Parsed (vmap : List Str) (raws : List Raw) : Prop where
  len : raws.length = vmap.length
  pt : ∀ (i : Nat) s, vmap[i]? = some s → ∃ r, raws[i]? = some r ∧ parseEntry s = some r

theorem Parsed.raw {vmap : List Str} {raws : List Raw} (P : Parsed vmap raws) {i : Nat} {s : Str} {r : Raw}
    (hs : vmap[i]? = some s) (hr : raws[i]? = some r) : parseEntry s = some r := by
  obtain ⟨r', h1, h2⟩ := P.pt i s hs
  rw [hr] at h1; simp at h1; subst h1; exact h2

/-- **soundness of one resolved entry**: what `_values_tuple` returns is what the spec resolves -/
theorem tuple_sound (T : IntType) (vmap : List Str) (raws : List Raw) (P : Parsed vmap raws)
    (f i : Nat) (s : Str) (r : Raw) (lo hi : Int)
    (hs : vmap[i]? = some s) (hr : raws[i]? = some r) (hne : s ≠ ['.', '.'])
    (ht : valuesTuple T vmap (f + 1) i = .ok (lo, hi)) :
    specLo T raws i r = some lo ∧ specHi T raws i r = some hi := by
  simp only [valuesTuple] at ht
  obtain ⟨r', hr', hshape⟩ := (tupleBody_ok_iff T vmap _ i s hs hne lo hi).mp ht
  rw [P.raw hs hr] at hr'; simp at hr'; subst hr'
  cases r with
  | unclaimed => simp [Shape] at hshape
  | single n => simp [Shape] at hshape; simp [specLo, specHi, hshape]
  | range l h =>
    obtain ⟨h1, h2⟩ := hshape
    constructor
    · cases l with
      | some x => simp [LoShape] at h1; simp [specLo, h1]
      | none =>
        simp only [LoShape] at h1
        rcases h1 with ⟨h0, hlo⟩ | ⟨h0, p, pl, ph, hp, hep, hrec, hlo⟩
        · simp [specLo, h0, hlo]
        · obtain ⟨rp, hrp, hpp⟩ := P.pt (i - 1) p hp
          have := tuple_hi_closed T vmap f (i - 1) p rp pl ph hrec hp hep hpp
          simp [specLo, h0, hrp, this, hlo]
    · cases h with
      | some x => simp [HiShape] at h2; simp [specHi, h2]
      | none =>
        simp only [HiShape] at h2
        rcases h2 with ⟨h0, hhi⟩ | ⟨h0, p, nl, nh, hp, hsp, hrec, hhi⟩
        · simp [specHi, P.len, h0, hhi]
        · obtain ⟨rp, hrp, hpp⟩ := P.pt (i + 1) p hp
          have := tuple_lo_closed T vmap f (i + 1) p rp nl nh hrec hp hsp hpp
          simp [specHi, P.len, h0, hrp, this, hhi]

/-- **completeness of one step**: when the spec resolves entry `i` and the recursive calls towards the
    neighbours deliver the neighbours' closed ends, one step of `_values_tuple` succeeds with the spec's values -/
theorem tuple_step_complete (T : IntType) (vmap : List Str) (raws : List Raw) (P : Parsed vmap raws)
    (rec : Rec) (i : Nat) (s : Str) (r : Raw) (lo hi : Int)
    (hs : vmap[i]? = some s) (hr : raws[i]? = some r) (hne : s ≠ ['.', '.'])
    (hlo : specLo T raws i r = some lo) (hhi : specHi T raws i r = some hi)
    (hl : closedLo r = none → i ≠ 0 → ∀ p rp ph, vmap[i - 1]? = some p → raws[i - 1]? = some rp → closedHi rp = some ph →
            ∃ pl, rec (i - 1) = .ok (pl, ph))
    (hh : closedHi r = none → i + 1 ≠ vmap.length → ∀ p rp nl, vmap[i + 1]? = some p → raws[i + 1]? = some rp → closedLo rp = some nl →
            ∃ nh, rec (i + 1) = .ok (nl, nh)) :
    tupleBody T vmap rec i = .ok (lo, hi) := by
  apply (tupleBody_ok_iff T vmap rec i s hs hne lo hi).mpr
  have hpr := P.raw hs hr
  refine ⟨r, hpr, ?_⟩
  cases r with
  | unclaimed => exact absurd ((parseEntry_unclaimed_iff hpr).mp rfl) hne
  | single n =>
    simp [specLo] at hlo; simp [specHi] at hhi
    subst hlo; subst hhi
    simp [Shape]
  | range l h =>
    constructor
    · cases l with
      | some x => simp [specLo] at hlo; simp [LoShape, hlo]
      | none =>
        simp only [LoShape]
        by_cases h0 : i = 0
        · left; simp [specLo, h0] at hlo; exact ⟨h0, hlo.symm⟩
        · right
          refine ⟨h0, ?_⟩
          simp only [specLo, h0, if_false] at hlo
          cases hrp : raws[i - 1]? with
          | none => simp [hrp] at hlo
          | some rp =>
            simp [hrp] at hlo
            obtain ⟨ph, hph, hlo'⟩ := hlo
            have hlt : i - 1 < vmap.length := by
              have := (List.getElem?_eq_some_iff.mp hrp).1; rw [P.len] at this; exact this
            have hp : vmap[i - 1]? = some vmap[i - 1] := List.getElem?_eq_getElem hlt
            have hpp := P.raw hp hrp
            have hep : endsDots vmap[i - 1] = false := by
              cases he : endsDots vmap[i - 1] with
              | false => rfl
              | true => have := (endsDots_iff_closedHi hpp).mp he; rw [hph] at this; cases this
            obtain ⟨pl, hrec⟩ := hl (by simp [closedLo]) h0 _ rp ph hp hrp hph
            exact ⟨_, pl, ph, hp, hep, hrec, hlo'.symm⟩
    · cases h with
      | some x => simp [specHi] at hhi; simp [HiShape, hhi]
      | none =>
        simp only [HiShape]
        by_cases h0 : i + 1 = vmap.length
        · left; simp [specHi, P.len, h0] at hhi; exact ⟨h0, hhi.symm⟩
        · right
          refine ⟨h0, ?_⟩
          simp only [specHi, P.len, h0, if_false] at hhi
          cases hrp : raws[i + 1]? with
          | none => simp [hrp] at hhi
          | some rp =>
            simp [hrp] at hhi
            obtain ⟨nl, hnl, hhi'⟩ := hhi
            have hlt : i + 1 < vmap.length := by
              have := (List.getElem?_eq_some_iff.mp hrp).1; rw [P.len] at this; exact this
            have hp : vmap[i + 1]? = some vmap[i + 1] := List.getElem?_eq_getElem hlt
            have hpp := P.raw hp hrp
            have hsp : startsDots vmap[i + 1] = false := by
              cases he : startsDots vmap[i + 1] with
              | false => rfl
              | true => have := (startsDots_iff_closedLo hpp).mp he; rw [hnl] at this; cases this
            obtain ⟨nh, hrec⟩ := hh (by simp [closedHi]) h0 _ rp nl hp hrp hnl
            exact ⟨_, nl, nh, hp, hsp, hrec, hhi'.symm⟩

/-- pointwise facts about parsed entries that all resolve (`ents`) -/
structure Resolved (T : IntType) (raws : List Raw) (ents : List Ent) : Prop where
  len : ents.length = raws.length
  pt : ∀ (i : Nat) r, raws[i]? = some r → ∃ e, ents[i]? = some e ∧ resolveAt T raws i r = some e

theorem resolveAt_some {T : IntType} {raws : List Raw} {i : Nat} {r : Raw} {e : Ent}
    (h : resolveAt T raws i r = some e) (hne : r ≠ .unclaimed) :
    ∃ lo hi, e = some (lo, hi) ∧ specLo T raws i r = some lo ∧ specHi T raws i r = some hi := by
  cases r with
  | unclaimed => exact absurd rfl hne
  | single n => simp [resolveAt, specLo, specHi] at h; exact ⟨n, n, h.symm, by simp [specLo], by simp [specHi]⟩
  | range l hh =>
    simp only [resolveAt] at h
    cases h1 : specLo T raws i (.range l hh) with
    | none => simp [h1] at h
    | some lo =>
      cases h2 : specHi T raws i (.range l hh) with
      | none => simp [h1, h2] at h
      | some hi => simp [h1, h2] at h; exact ⟨lo, hi, h.symm, rfl, rfl⟩

theorem closedHi_ne_unclaimed {r : Raw} {h : Int} (hc : closedHi r = some h) : r ≠ .unclaimed := by
  intro e; subst e; simp [closedHi] at hc
theorem closedLo_ne_unclaimed {r : Raw} {h : Int} (hc : closedLo r = some h) : r ≠ .unclaimed := by
  intro e; subst e; simp [closedLo] at hc

/-- left chain, completeness -/
theorem tuple_left_complete (T : IntType) (vmap : List Str) (raws : List Raw) (ents : List Ent)
    (P : Parsed vmap raws) (R : Resolved T raws ents) :
    ∀ (i f : Nat) (s : Str) (r : Raw) (lo hi : Int), vmap[i]? = some s → raws[i]? = some r →
      endsDots s = false → i < f → specLo T raws i r = some lo → specHi T raws i r = some hi →
      valuesTuple T vmap f i = .ok (lo, hi) := by
  intro i
  induction i with
  | zero =>
    intro f s r lo hi hs hr he hf hlo hhi
    cases f with
    | zero => omega
    | succ f' =>
      simp only [valuesTuple]
      have hne : s ≠ ['.', '.'] := by intro e; rw [e, dots_endsDots] at he; cases he
      apply tuple_step_complete T vmap raws P _ 0 s r lo hi hs hr hne hlo hhi
      · intro _ h0; exact absurd rfl h0
      · intro hc
        have := (endsDots_iff_closedHi (P.raw hs hr)).mpr hc
        rw [he] at this; cases this
  | succ j ih =>
    intro f s r lo hi hs hr he hf hlo hhi
    cases f with
    | zero => omega
    | succ f' =>
      simp only [valuesTuple]
      have hne : s ≠ ['.', '.'] := by intro e; rw [e, dots_endsDots] at he; cases he
      apply tuple_step_complete T vmap raws P _ (j + 1) s r lo hi hs hr hne hlo hhi
      · intro _ _ p rp ph hp hrp hph
        simp only [Nat.add_sub_cancel] at hp hrp ⊢
        have hpp := P.raw hp hrp
        have hep : endsDots p = false := by
          cases he' : endsDots p with
          | false => rfl
          | true => have := (endsDots_iff_closedHi hpp).mp he'; rw [hph] at this; cases this
        obtain ⟨e, _, hres⟩ := R.pt j rp hrp
        obtain ⟨pl, ph', _, h1, h2⟩ := resolveAt_some hres (closedHi_ne_unclaimed hph)
        have h3 := specHi_of_closedHi T raws j hph
        rw [h3] at h2; simp at h2; subst h2
        exact ⟨pl, ih f' p rp pl ph hp hrp hep (by omega) h1 h3⟩
      · intro hc
        have := (endsDots_iff_closedHi (P.raw hs hr)).mpr hc
        rw [he] at this; cases this

/-- right chain, completeness -/
theorem tuple_right_complete (T : IntType) (vmap : List Str) (raws : List Raw) (ents : List Ent)
    (P : Parsed vmap raws) (R : Resolved T raws ents) :
    ∀ (f i : Nat) (s : Str) (r : Raw) (lo hi : Int), vmap[i]? = some s → raws[i]? = some r →
      startsDots s = false → vmap.length - i ≤ f → specLo T raws i r = some lo → specHi T raws i r = some hi →
      valuesTuple T vmap f i = .ok (lo, hi) := by
  intro f
  induction f with
  | zero =>
    intro i s r lo hi hs _ _ hf _ _
    have := (List.getElem?_eq_some_iff.mp hs).1
    omega
  | succ f' ih =>
    intro i s r lo hi hs hr he hf hlo hhi
    simp only [valuesTuple]
    have hne : s ≠ ['.', '.'] := by intro e; rw [e, dots_startsDots] at he; cases he
    apply tuple_step_complete T vmap raws P _ i s r lo hi hs hr hne hlo hhi
    · intro hc
      have := (startsDots_iff_closedLo (P.raw hs hr)).mpr hc
      rw [he] at this; cases this
    · intro _ hn p rp nl hp hrp hnl
      have hpp := P.raw hp hrp
      have hsp : startsDots p = false := by
        cases he' : startsDots p with
        | false => rfl
        | true => have := (startsDots_iff_closedLo hpp).mp he'; rw [hnl] at this; cases this
      obtain ⟨e, _, hres⟩ := R.pt (i + 1) rp hrp
      obtain ⟨nl', nh, _, h1, h2⟩ := resolveAt_some hres (closedLo_ne_unclaimed hnl)
      have h3 := specLo_of_closedLo T raws (i + 1) hnl
      rw [h3] at h1; simp at h1; subst h1
      have hlt := (List.getElem?_eq_some_iff.mp hp).1
      exact ⟨nh, ih (i + 1) p rp nl nh hp hrp hsp (by omega) h3 h2⟩

/-- **completeness**: whenever the spec resolves entry `i`, `_values_tuple` (budget length+1) returns exactly that -/
theorem tuple_complete (T : IntType) (vmap : List Str) (raws : List Raw) (ents : List Ent)
    (P : Parsed vmap raws) (R : Resolved T raws ents)
    (i f : Nat) (s : Str) (r : Raw) (lo hi : Int) (hs : vmap[i]? = some s) (hr : raws[i]? = some r)
    (hne : s ≠ ['.', '.']) (hf : vmap.length + 1 ≤ f)
    (hlo : specLo T raws i r = some lo) (hhi : specHi T raws i r = some hi) :
    valuesTuple T vmap f i = .ok (lo, hi) := by
  cases f with
  | zero => omega
  | succ f' =>
    simp only [valuesTuple]
    have hi' := (List.getElem?_eq_some_iff.mp hs).1
    apply tuple_step_complete T vmap raws P _ i s r lo hi hs hr hne hlo hhi
    · intro _ h0 p rp ph hp hrp hph
      have hpp := P.raw hp hrp
      have hep : endsDots p = false := by
        cases he' : endsDots p with
        | false => rfl
        | true => have := (endsDots_iff_closedHi hpp).mp he'; rw [hph] at this; cases this
      obtain ⟨e, _, hres⟩ := R.pt (i - 1) rp hrp
      obtain ⟨pl, ph', _, h1, h2⟩ := resolveAt_some hres (closedHi_ne_unclaimed hph)
      have h3 := specHi_of_closedHi T raws (i - 1) hph
      rw [h3] at h2; simp at h2; subst h2
      exact ⟨pl, tuple_left_complete T vmap raws ents P R (i - 1) f' p rp pl ph hp hrp hep (by omega) h1 h3⟩
    · intro _ hn p rp nl hp hrp hnl
      have hpp := P.raw hp hrp
      have hsp : startsDots p = false := by
        cases he' : startsDots p with
        | false => rfl
        | true => have := (startsDots_iff_closedLo hpp).mp he'; rw [hnl] at this; cases this
      obtain ⟨e, _, hres⟩ := R.pt (i + 1) rp hrp
      obtain ⟨nl', nh, _, h1, h2⟩ := resolveAt_some hres (closedLo_ne_unclaimed hnl)
      have h3 := specLo_of_closedLo T raws (i + 1) hnl
      rw [h3] at h1; simp at h1; subst h1
      exact ⟨nh, tuple_right_complete T vmap raws ents P R f' (i + 1) p rp nl nh hp hrp hsp (by omega) h3 h2⟩

/-! ### the loop = the spec -/


/-- the resolved entries as the spec computes them; any failure is ModelError -/
def specEnts (T : IntType) (vmap : List Str) : Except PyExc (List Ent) :=
  match parseAll vmap with
  | none => .error .modelError
  | some raws =>
    match resolve T raws with
    | none => .error .modelError
    | some ents => .ok ents

theorem entAt_okOrModel (T : IntType) (vmap : List Str) (k : Nat) (s : Str) (hs : vmap[k]? = some s) :
    OkOrModel (entAt T vmap k s) := by
  intro e h
  unfold entAt at h
  by_cases hd : s = ['.', '.']
  · simp [hd] at h
  · simp only [hd, if_false] at h
    have hk := (List.getElem?_eq_some_iff.mp hs).1
    cases ht : valuesTuple T vmap (fuelFor vmap) k with
    | error x =>
      rw [ht] at h; simp at h; subst h
      exact tuple_okOrModel T vmap k (fuelFor vmap) hk (by simp [fuelFor]) x ht
    | ok p => rw [ht] at h; simp at h

theorem parseAll_exists (vmap : List Str) (h : ∀ (i : Nat) s, vmap[i]? = some s → ∃ r, parseEntry s = some r) :
    ∃ raws, parseAll vmap = some raws := by
  induction vmap with
  | nil => exact ⟨[], rfl⟩
  | cons s rest ih =>
    obtain ⟨r, hr⟩ := h 0 s (by simp)
    obtain ⟨rs, hrs⟩ := ih (fun i s' hs' => h (i + 1) s' (by simpa using hs'))
    exact ⟨r :: rs, by simp [parseAll, hr, hrs]⟩

theorem resolveAt_of_spec {T : IntType} {raws : List Raw} {i : Nat} {r : Raw} {lo hi : Int}
    (hne : r ≠ .unclaimed) (h1 : specLo T raws i r = some lo) (h2 : specHi T raws i r = some hi) :
    resolveAt T raws i r = some (some (lo, hi)) := by
  cases r with
  | unclaimed => exact absurd rfl hne
  | single n => simp [resolveAt, h1, h2]
  | range l h => simp [resolveAt, h1, h2]

theorem entsFrom_sound (T : IntType) (vmap : List Str) (ents : List Ent)
    (h : entsFrom T vmap 0 vmap = .ok ents) :
    ∃ raws, parseAll vmap = some raws ∧ resolve T raws = some ents := by
  obtain ⟨hlen, hpt⟩ := (entsFrom_ok_iff T vmap vmap 0 ents).mp h
  have hparse : ∀ (i : Nat) s, vmap[i]? = some s → ∃ r, parseEntry s = some r := by
    intro i s hs
    obtain ⟨e, _, he⟩ := hpt i s hs
    by_cases hd : s = ['.', '.']
    · exact ⟨.unclaimed, by rw [hd]; exact parseEntry_dots⟩
    · unfold entAt at he
      simp only [hd, if_false, Nat.zero_add] at he
      cases ht : valuesTuple T vmap (fuelFor vmap) i with
      | error x => rw [ht] at he; simp at he
      | ok p =>
        obtain ⟨lo, hi⟩ := p
        simp only [fuelFor, valuesTuple] at ht
        obtain ⟨r, hr, _⟩ := (tupleBody_ok_iff T vmap _ i s hs hd lo hi).mp ht
        exact ⟨r, hr⟩
  obtain ⟨raws, hraws⟩ := parseAll_exists vmap hparse
  refine ⟨raws, hraws, ?_⟩
  obtain ⟨plen, ppt⟩ := (parseAll_some_iff vmap raws).mp hraws
  have P : Parsed vmap raws := ⟨plen, ppt⟩
  unfold resolve
  apply (resolveFrom_some_iff T raws raws 0 ents).mpr
  refine ⟨by rw [hlen, plen], ?_⟩
  intro k r hr
  have hk : k < vmap.length := by
    have := (List.getElem?_eq_some_iff.mp hr).1; rw [plen] at this; exact this
  have hs : vmap[k]? = some vmap[k] := List.getElem?_eq_getElem hk
  obtain ⟨e, he1, he2⟩ := hpt k _ hs
  refine ⟨e, he1, ?_⟩
  simp only [Nat.zero_add] at he2 ⊢
  have hpr := P.raw hs hr
  by_cases hd : vmap[k] = ['.', '.']
  · have : r = .unclaimed := (parseEntry_unclaimed_iff hpr).mpr hd
    subst this
    unfold entAt at he2
    simp [hd] at he2
    subst he2
    simp [resolveAt]
  · unfold entAt at he2
    simp only [hd, if_false] at he2
    cases ht : valuesTuple T vmap (fuelFor vmap) k with
    | error x => rw [ht] at he2; simp at he2
    | ok p =>
      obtain ⟨lo, hi⟩ := p
      rw [ht] at he2; simp at he2; subst he2
      simp only [fuelFor] at ht
      obtain ⟨h1, h2⟩ := tuple_sound T vmap raws P vmap.length k _ r lo hi hs hr hd ht
      have hne : r ≠ .unclaimed := fun e => hd ((parseEntry_unclaimed_iff hpr).mp e)
      exact resolveAt_of_spec hne h1 h2

theorem entsFrom_complete (T : IntType) (vmap : List Str) (raws : List Raw) (ents : List Ent)
    (h1 : parseAll vmap = some raws) (h2 : resolve T raws = some ents) :
    entsFrom T vmap 0 vmap = .ok ents := by
  obtain ⟨plen, ppt⟩ := (parseAll_some_iff vmap raws).mp h1
  have P : Parsed vmap raws := ⟨plen, ppt⟩
  obtain ⟨rlen, rpt⟩ := (resolveFrom_some_iff T raws raws 0 ents).mp h2
  have R : Resolved T raws ents := ⟨rlen, fun i r hr => by simpa using rpt i r hr⟩
  apply (entsFrom_ok_iff T vmap vmap 0 ents).mpr
  refine ⟨by rw [rlen, plen], ?_⟩
  intro k s hs
  obtain ⟨r, hr, hpr⟩ := P.pt k s hs
  obtain ⟨e, he, hres⟩ := R.pt k r hr
  refine ⟨e, he, ?_⟩
  simp only [Nat.zero_add]
  by_cases hd : s = ['.', '.']
  · have : r = .unclaimed := (parseEntry_unclaimed_iff hpr).mpr hd
    subst this
    simp [resolveAt] at hres
    subst hres
    simp [entAt, hd]
  · have hne : r ≠ .unclaimed := fun e => hd ((parseEntry_unclaimed_iff hpr).mp e)
    obtain ⟨lo, hi, rfl, hlo, hhi⟩ := resolveAt_some hres hne
    have := tuple_complete T vmap raws ents P R k (fuelFor vmap) s r lo hi hs hr hd (by simp [fuelFor]) hlo hhi
    simp [entAt, hd, this]

/-- **the loop resolves entries exactly as the spec does** (including when it fails, and then with ModelError) -/
theorem entsFrom_eq_spec (T : IntType) (vmap : List Str) : entsFrom T vmap 0 vmap = specEnts T vmap := by
  cases h : entsFrom T vmap 0 vmap with
  | ok ents =>
    obtain ⟨raws, h1, h2⟩ := entsFrom_sound T vmap ents h
    simp [specEnts, h1, h2]
  | error x =>
    obtain ⟨k, s, hs, he⟩ := entsFrom_error T vmap vmap 0 x h
    simp only [Nat.zero_add] at he
    have hx : x = .modelError := entAt_okOrModel T vmap k s hs x he
    subst hx
    unfold specEnts
    cases h1 : parseAll vmap with
    | none => rfl
    | some raws =>
      simp only
      cases h2 : resolve T raws with
      | none => rfl
      | some ents =>
        have := entsFrom_complete T vmap raws ents h1 h2
        rw [this] at h; cases h

theorem reconcile_length {values0 vmap values : List Str} {vd : Option Str}
    (h : reconcile values0 vmap vd = .ok values) : values.length = vmap.length := by
  unfold reconcile at h
  split at h
  · rename_i hgt
    cases vd with
    | none => simp at h
    | some d => simp at h; subst h; simp; omega
  · split at h
    · rename_i hlt
      cases vd with
      | none => simp at h
      | some d => simp at h; subst h; simp; omega
    · simp at h; subst h; omega

/-- **model = spec**: `_create_for_element` succeeds exactly when the spec reading of the qualifier pair
    does, fails with the same exception class, and builds its tables from the spec's resolved entries -/
theorem create_eq_spec (e : Elem) (vd : Option Str) :
    create e vd =
      match specCreate e vd with
      | .error x => .error x
      | .ok (ents, values) => .ok (addAll {} (ents.zip values)) := by
  unfold create specCreate
  cases hT : intTypeOf e.typ with
  | none => rfl
  | some T =>
    simp only
    cases hv : e.values with
    | none => rfl
    | some values0 =>
      simp only
      generalize effMap e.valuemap values0.length = vmap
      cases hrec : reconcile values0 vmap vd with
      | error x => rfl
      | ok values =>
        simp only
        have hl := reconcile_length hrec
        rw [loop_eq T vmap values vmap 0 {} (by omega), entsFrom_eq_spec]
        unfold specEnts
        cases h1 : parseAll vmap with
        | none => rfl
        | some raws =>
          simp only
          cases h2 : resolve T raws with
          | none => rfl
          | some ents => simp

end Proofs.ValueMap
