/-
C19 — the coarse statistics of the operation model (Observer.Stats) are a refinement image of the detailed model
(Model/Statistics.lean): a simulation relation preserved by start_timer / stop_timer.
-/
import Pywbem.Model.Observer
import Pywbem.Model.Statistics
import Proofs.Lemmas.Statistics

namespace Proofs.Lemmas.StatsRefine
open Pywbem.Model

abbrev DStat := Statistics.OpStat
abbrev CStat := Observer.OpStat
abbrev DStats := Statistics.Stats
abbrev CStats := Observer.Stats

/-- the coarse statistic shows the same counters as the detailed one -/
def R (o : DStat) (co : CStat) : Prop :=
  co.count = o.count ∧ co.excCount = o.excCount ∧ (co.reqLenSum : Int) = o.reqSum ∧
  (co.replyLenSum : Int) = o.replySum ∧ co.srvSuspended = o.srvSuspended ∧ co.started = o.startTime.isSome

def RL : List (List Char × DStat) → List (List Char × CStat) → Prop
  | [], [] => True
  | p :: ps, q :: qs => p.1 = q.1 ∧ R p.2 q.2 ∧ RL ps qs
  | _, _ => False

def Rel (s : DStats) (cs : CStats) : Prop := s.enabled = cs.enabled ∧ RL s.ops cs.ops

theorem R_init : R {} {} := ⟨rfl, rfl, rfl, rfl, rfl, rfl⟩

theorem RL_find : ∀ (ops : List (List Char × DStat)) (cops : List (List Char × CStat)) (n : List Char), RL ops cops →
    R ((Statistics.find ops n).getD {}) (Observer.Stats.get { enabled := true, ops := cops } n)
  | [], [], _, _ => by simp [Statistics.find, Observer.Stats.get]; exact R_init
  | [], _ :: _, _, h => by simp [RL] at h
  | _ :: _, [], _, h => by simp [RL] at h
  | p :: ps, q :: qs, n, h => by
    obtain ⟨h1, h2, h3⟩ := h
    by_cases hp : p.1 = n
    · have hq : q.1 = n := h1 ▸ hp
      simp [Statistics.find, Observer.Stats.get, hp, hq]
      exact h2
    · have hq : ¬ q.1 = n := h1 ▸ hp
      have ih := RL_find ps qs n h3
      simp only [Observer.Stats.get] at ih
      simp [Statistics.find, Observer.Stats.get, hp, hq]
      exact ih

theorem RL_setOp (n : List Char) (o : DStat) (co : CStat) (hr : R o co) :
    ∀ (ops : List (List Char × DStat)) (cops : List (List Char × CStat)), RL ops cops →
      RL (Statistics.setOp n o ops) (Observer.setOp n co cops)
  | [], [], _ => by simp [Statistics.setOp, Observer.setOp, RL]; exact hr
  | [], _ :: _, h => by simp [RL] at h
  | _ :: _, [], h => by simp [RL] at h
  | p :: ps, q :: qs, h => by
    obtain ⟨h1, h2, h3⟩ := h
    by_cases hp : p.1 = n
    · have hq : q.1 = n := h1 ▸ hp
      simp only [Statistics.setOp, Observer.setOp, hp, hq, if_true]
      exact ⟨rfl, hr, h3⟩
    · have hq : ¬ q.1 = n := h1 ▸ hp
      simp only [Statistics.setOp, Observer.setOp, hp, hq, if_false]
      exact ⟨h1, h2, RL_setOp n o co hr ps qs h3⟩

theorem get_irrelevant_enabled (cs : CStats) (n : List Char) :
    Observer.Stats.get cs n = Observer.Stats.get { enabled := true, ops := cs.ops } n := rfl

/-- start_timer: the coarse model follows the detailed one -/
theorem start_sim (s : DStats) (cs : CStats) (n : List Char) (now : Int) (h : Rel s cs) :
    Rel (s.startTimer n now).1 (cs.startTimer n) := by
  obtain ⟨he, hl⟩ := h
  simp only [Statistics.Stats.startTimer, Observer.Stats.startTimer]
  by_cases hen : s.enabled = true
  · have hce : cs.enabled = true := he ▸ hen
    simp only [hen, hce, Bool.not_true, Bool.false_eq_true, if_false, if_true]
    refine ⟨rfl, ?_⟩
    have hf := RL_find s.ops cs.ops n hl
    rw [← get_irrelevant_enabled] at hf
    apply RL_setOp
    · obtain ⟨a, b, c, d, e, _⟩ := hf
      exact ⟨a, b, c, d, e, rfl⟩
    · exact hl
  · simp only [Bool.not_eq_true] at hen
    have hce : cs.enabled = false := he ▸ hen
    simp only [hen, hce, Bool.not_false, if_true, Bool.false_eq_true, if_false]
    exact ⟨by rw [hen, hce], hl⟩

def srvOf : Option Int → Observer.SrvTime
  | none => .none
  | some _ => .num []

theorem stop_fields2 (o : DStat) (t0 now : Int) (a b : Int) (c : Option Int) (e : Bool) :
    (o.stop t0 now (some a) (some b) c e).reqSum = o.reqSum + a ∧
    (o.stop t0 now (some a) (some b) c e).replySum = o.replySum + b ∧
    (o.stop t0 now (some a) (some b) c e).srvSuspended = (o.srvSuspended || c.isNone) := by
  simp only [Statistics.OpStat.stop]
  cases o.srvSuspended <;> cases c <;> simp

/-- stop_timer on the statistic of a name: the coarse model raises RuntimeError exactly when the detailed one does
    (and nothing changes then); otherwise it follows it -/
theorem stop_sim (s : DStats) (cs : CStats) (n : List Char) (now : Int) (a b : Nat) (srv : Option Int) (f : Bool)
    (h : Rel s cs) :
    match cs.stopTimer n a b (srvOf srv) f with
    | .ok cs' => Rel (s.stopTimer (.named n s.gen) now (some (a : Int)) (some (b : Int)) srv f).1 cs'
    | .error _ => (s.stopTimer (.named n s.gen) now (some (a : Int)) (some (b : Int)) srv f).2 = .runtimeError ∧
                  (s.stopTimer (.named n s.gen) now (some (a : Int)) (some (b : Int)) srv f).1 = s := by
  obtain ⟨he, hl⟩ := h
  have hf := RL_find s.ops cs.ops n hl
  rw [← get_irrelevant_enabled] at hf
  simp only [Statistics.Stats.stopTimer, Observer.Stats.stopTimer]
  by_cases hen : s.enabled = true
  · have hce : cs.enabled = true := he ▸ hen
    simp only [hen, hce, Bool.not_true, Bool.false_eq_true, if_false, ne_eq, not_true_eq_false]
    cases hfind : Statistics.find s.ops n with
    | none =>
      rw [hfind] at hf
      simp only [Option.getD_none] at hf
      have hst : (Observer.Stats.get cs n).started = false := by rw [hf.2.2.2.2.2]; rfl
      simp [hst, throw, throwThe, MonadExceptOf.throw]
    | some o =>
      rw [hfind] at hf
      simp only [Option.getD_some] at hf
      obtain ⟨r1, r2, r3, r4, r5, r6⟩ := hf
      cases hstart : o.startTime with
      | none =>
        have hst : (Observer.Stats.get cs n).started = false := by rw [r6, hstart]; rfl
        simp [hst, hstart, throw, throwThe, MonadExceptOf.throw]
      | some t0 =>
        have hst : (Observer.Stats.get cs n).started = true := by rw [r6, hstart]; rfl
        obtain ⟨f1, f2, _, _, _, f6⟩ := Proofs.Lemmas.Statistics.stop_fields o t0 now (some (a : Int)) (some (b : Int)) srv f
        obtain ⟨g1, g2, g3⟩ := stop_fields2 o t0 now a b srv f
        simp only [hst, hstart, Bool.not_true, Bool.false_eq_true, if_false]
        cases hsus : (Observer.Stats.get cs n).srvSuspended with
        | true =>
          simp only [if_true, pure, Except.pure]
          refine ⟨by first | rfl | exact hen.trans hce.symm, ?_⟩
          apply RL_setOp _ _ _ _ _ _ hl
          refine ⟨by rw [f1, r1], by rw [f2, r2], ?_, ?_, ?_, by rw [f6]; rfl⟩
          · rw [g1, ← r3]; simp
          · rw [g2, ← r4]; simp
          · rw [g3, ← r5, hsus]; rfl
        | false =>
          simp only [Bool.false_eq_true, if_false]
          cases srv with
          | none =>
            simp only [srvOf, pure, Except.pure]
            refine ⟨by first | rfl | exact hen.trans hce.symm, ?_⟩
            apply RL_setOp _ _ _ _ _ _ hl
            refine ⟨by rw [f1, r1], by rw [f2, r2], ?_, ?_, ?_, by rw [f6]; rfl⟩
            · rw [g1, ← r3]; simp
            · rw [g2, ← r4]; simp
            · rw [g3]; simp
          | some t =>
            simp only [srvOf, pure, Except.pure]
            refine ⟨by first | rfl | exact hen.trans hce.symm, ?_⟩
            apply RL_setOp _ _ _ _ _ _ hl
            refine ⟨by rw [f1, r1], by rw [f2, r2], ?_, ?_, ?_, by rw [f6]; rfl⟩
            · rw [g1, ← r3]; simp
            · rw [g2, ← r4]; simp
            · rw [g3, ← r5, hsus]; rfl
  · simp only [Bool.not_eq_true] at hen
    have hce : cs.enabled = false := he ▸ hen
    simp only [hen, hce, Bool.not_false, if_true, pure, Except.pure]
    exact ⟨by rw [hen, hce], hl⟩

end Proofs.Lemmas.StatsRefine
