/-
C02 helper lemmas, part 2: paths (mutual induction over the tree), values, qualifiers, properties,
instances, classes, qualifier declarations, embedded objects.
-/
import Proofs.Lemmas.RespSafe

namespace Proofs.C02
open Pywbem.Model Pywbem.Model.Resp Pywbem.Proto Pywbem.Model.XmlText
variable {P : PyExc → Prop}

set_option maxHeartbeats 1000000 in
theorem paths_safe [Allows P] (C : DecCodec) (hC : CodecOk C) :
    (∀ t, Safe P (Resp.decValueReference C t)) ∧ (∀ a, Safe P (Resp.decPathKids C a)) ∧
    (∀ t, Safe P (Resp.decPathAny C t)) ∧ (∀ a, Safe P (Resp.decInstNameKids C a)) ∧
    (∀ t, Safe P (Resp.decInstanceName C t)) ∧ (∀ a, Safe P (Resp.decKeybindings C a)) ∧
    (∀ t, Safe P (Resp.decKeybinding C t)) ∧ (∀ a, Safe P (Resp.decValueRefKids C a)) := by
  apply Resp.decValueReference.mutual_induct
    (motive1 := fun t => Safe P (Resp.decValueReference C t)) (motive2 := fun a => Safe P (Resp.decPathKids C a))
    (motive3 := fun t => Safe P (Resp.decPathAny C t)) (motive4 := fun a => Safe P (Resp.decInstNameKids C a))
    (motive5 := fun t => Safe P (Resp.decInstanceName C t)) (motive6 := fun a => Safe P (Resp.decKeybindings C a))
    (motive7 := fun t => Safe P (Resp.decKeybinding C t)) (motive8 := fun a => Safe P (Resp.decValueRefKids C a))
  all_goals (intros; first | unfold Resp.decValueReference | unfold Resp.decPathKids | unfold Resp.decPathAny | unfold Resp.decInstNameKids | unfold Resp.decInstanceName | unfold Resp.decKeybindings | unfold Resp.decKeybinding | unfold Resp.decValueRefKids)
  all_goals safe

theorem decValueReference_safe [Allows P] (C : DecCodec) (hC : CodecOk C) (t : Xml) :
    Safe P (Resp.decValueReference C t) := (paths_safe C hC).1 t
theorem decPathAny_safe [Allows P] (C : DecCodec) (hC : CodecOk C) (t : Xml) :
    Safe P (Resp.decPathAny C t) := (paths_safe C hC).2.2.1 t
theorem decInstanceName_safe [Allows P] (C : DecCodec) (hC : CodecOk C) (t : Xml) :
    Safe P (Resp.decInstanceName C t) := (paths_safe C hC).2.2.2.2.1 t
macro_rules | `(tactic| safe_leaf) => `(tactic| exact decValueReference_safe _ ‹_› _)
macro_rules | `(tactic| safe_leaf) => `(tactic| exact decPathAny_safe _ ‹_› _)
macro_rules | `(tactic| safe_leaf) => `(tactic| exact decInstanceName_safe _ ‹_› _)

/-! ### values -/

theorem unpackItems_safe [Allows P] (C : DecCodec) (hC : CodecOk C) (ty : Str) (l : List (Option Str)) :
    Safe P (Resp.unpackItems C ty l) := by
  fun_induction Resp.unpackItems C ty l <;> safe
macro_rules | `(tactic| safe_leaf) => `(tactic| exact unpackItems_safe _ ‹_› _ _)

theorem unpackValue_safe [Allows P] (C : DecCodec) (hC : CodecOk C) (ty : Str) (ks : List Xml) :
    Safe P (Resp.unpackValue C ty ks) := by
  unfold Resp.unpackValue; safe
macro_rules | `(tactic| safe_leaf) => `(tactic| exact unpackValue_safe _ ‹_› _ _)

section
variable (emb : Str → R Atom)

theorem embAtom_safe [Allows P] (hemb : ∀ s, Safe P (emb s)) (a : Atom) : Safe P (Resp.embAtom emb a) := by
  unfold Resp.embAtom; safe <;> exact hemb _
macro_rules | `(tactic| safe_leaf) => `(tactic| exact embAtom_safe _ ‹_› _)

theorem embItems_safe [Allows P] (hemb : ∀ s, Safe P (emb s)) (l : List Atom) : Safe P (Resp.embItems emb l) := by
  fun_induction Resp.embItems emb l <;> safe
macro_rules | `(tactic| safe_leaf) => `(tactic| exact embItems_safe _ ‹_› _)

theorem embVal_safe [Allows P] (hemb : ∀ s, Safe P (emb s)) (v : Val) : Safe P (Resp.embVal emb v) := by
  unfold Resp.embVal; safe
macro_rules | `(tactic| safe_leaf) => `(tactic| exact embVal_safe _ ‹_› _)

/-! ### constructors: ValueError / TypeError only -/

theorem ctorQualifier_safe [AllowsV P] (n ty : Str) (v : Val) (a b c d e : Option Bool) :
    Safe P (ctorQualifier n ty v a b c d e) := by
  unfold ctorQualifier; safe
macro_rules | `(tactic| safe_leaf) => `(tactic| exact ctorQualifier_safe _ _ _ _ _ _ _ _)

theorem checkEmbeddedObject_safe [AllowsV P] (e ty : Str) (v : Val) : Safe P (checkEmbeddedObject e ty v) := by
  unfold checkEmbeddedObject; safe
macro_rules | `(tactic| safe_leaf) => `(tactic| exact checkEmbeddedObject_safe _ _ _)

theorem checkArrayParms_safe [AllowsV P] (b : Bool) (v : Val) : Safe P (checkArrayParms b v) := by
  unfold checkArrayParms; safe
macro_rules | `(tactic| safe_leaf) => `(tactic| exact checkArrayParms_safe _ _)

theorem ctorProperty_safe [AllowsV P] (n ty : Str) (v : Val) (ia : Bool) (asz : Option Int) (rc o : Option Str)
    (p : Option Bool) (e : Option Str) (q : List Qual) : Safe P (ctorProperty n ty v ia asz rc o p e q) := by
  unfold ctorProperty; safe
macro_rules | `(tactic| safe_leaf) => `(tactic| exact ctorProperty_safe _ _ _ _ _ _ _ _ _ _)

theorem ctorParameter_safe [AllowsV P] (n ty : Str) (rc : Option Str) (ia : Bool) (asz : Option Int) (q : List Qual) :
    Safe P (ctorParameter n ty rc ia asz q) := by
  unfold ctorParameter; safe
macro_rules | `(tactic| safe_leaf) => `(tactic| exact ctorParameter_safe _ _ _ _ _ _)

theorem ctorMethod_safe [AllowsV P] (n rt : Str) (ps : List Param) (o : Option Str) (p : Option Bool) (q : List Qual) :
    Safe P (ctorMethod n rt ps o p q) := by
  unfold ctorMethod; safe
macro_rules | `(tactic| safe_leaf) => `(tactic| exact ctorMethod_safe _ _ _ _ _ _)

theorem ctorQualDecl_safe [AllowsV P] (n ty : Str) (v : Val) (ia : Option Bool) (asz : Option Int)
    (sc : List (Str × Bool)) (a b c d : Option Bool) : Safe P (ctorQualDecl n ty v ia asz sc a b c d) := by
  unfold ctorQualDecl; safe
macro_rules | `(tactic| safe_leaf) => `(tactic| exact ctorQualDecl_safe _ _ _ _ _ _ _ _ _ _)

theorem isCimType_reference : isCimType "reference".toList = true := by decide

/-- the constructor calls that are NOT inside a try block cannot fail for the arguments the parser
    passes: a reference property with a scalar reference (or no) value, not an array -/
theorem ctorProperty_reference_ok (n : Str) (v : Val) (hv : v = .null ∨ ∃ a, v = .scalar a) (rc o : Option Str)
    (p : Option Bool) (q : List Qual) :
    ∃ r, ctorProperty n "reference".toList v false none rc o p none q = .ok r := by
  unfold ctorProperty
  rw [isCimType_reference]
  rcases hv with h | ⟨a, h⟩ <;> subst h <;>
    simp only [checkArrayParms, bind, Except.bind, pure, Except.pure, Bool.false_eq_true, and_false, if_false,
      Bool.not_true] <;> exact ⟨_, rfl⟩

theorem ctorParameter_reference_ok (n : Str) (rc : Option Str) (ia : Bool) (asz : Option Int) (q : List Qual) :
    ∃ r, ctorParameter n "reference".toList rc ia asz q = .ok r := by
  unfold ctorParameter
  rw [isCimType_reference]
  exact ⟨_, rfl⟩

end

/-! ### qualifiers, properties, instances, classes -/

section
variable (C : DecCodec) (hC : CodecOk C) (emb : Str → R Atom)
include hC

theorem decQualifier_safe [Allows P] (t : Xml) : Safe P (Resp.decQualifier C t) := by
  unfold Resp.decQualifier; safe
macro_rules | `(tactic| safe_leaf) => `(tactic| exact decQualifier_safe _ ‹_› _)

theorem decQualifiers_safe [Allows P] (ks : List Xml) : Safe P (Resp.decQualifiers C ks) := by
  fun_induction Resp.decQualifiers C ks <;> safe
macro_rules | `(tactic| safe_leaf) => `(tactic| exact decQualifiers_safe _ ‹_› _)

theorem decProperty_safe [Allows P] (hemb : ∀ s, Safe P (emb s)) (t : Xml) : Safe P (Resp.decProperty C emb t) := by
  unfold Resp.decProperty; safe
macro_rules | `(tactic| safe_leaf) => `(tactic| exact decProperty_safe _ ‹_› _ ‹_› _)

theorem decPropertyArray_safe [Allows P] (hemb : ∀ s, Safe P (emb s)) (t : Xml) :
    Safe P (Resp.decPropertyArray C emb t) := by
  unfold Resp.decPropertyArray; safe
macro_rules | `(tactic| safe_leaf) => `(tactic| exact decPropertyArray_safe _ ‹_› _ ‹_› _)

theorem decValueRefs_safe [Allows P] (ks : List Xml) : Safe P (Resp.decValueRefs C ks) := by
  fun_induction Resp.decValueRefs C ks <;> safe
macro_rules | `(tactic| safe_leaf) => `(tactic| exact decValueRefs_safe _ ‹_› _)


omit hC in
theorem refValOf_safe [Allows P] (l : List Path) : Safe P (refValOf l) := by
  unfold refValOf; safe

omit hC in
theorem refValOf_shape (l : List Path) (v : Val) (h : refValOf l = .ok v) : v = .null ∨ ∃ a, v = .scalar a := by
  unfold refValOf at h
  split at h
  · cases h; exact Or.inl rfl
  · cases h; exact Or.inr ⟨_, rfl⟩
  · cases h

/-- parse_property_reference: its CIMProperty(...) call is not inside a try block; it is safe because
    the constructor cannot fail for what the parser passes -/
theorem decPropertyReference_safe [Allows P] (t : Xml) : Safe P (Resp.decPropertyReference C t) := by
  unfold Resp.decPropertyReference
  apply Safe.bind (by safe); intro a
  dsimp only
  apply Safe.bind (by safe); intro refs
  apply Safe.bind' (refValOf_safe _); intro v hv
  apply Safe.bind (by safe); intro pr
  apply Safe.bind (by safe); intro q
  obtain ⟨r, hr⟩ := ctorProperty_reference_ok (getAttrD a.1 "NAME" "") v (refValOf_shape _ _ hv)
    (Xml.attr a.1 "REFERENCECLASS".toList) (Xml.attr a.1 "CLASSORIGIN".toList) pr q
  rw [hr]; exact Safe.ok _
macro_rules | `(tactic| safe_leaf) => `(tactic| exact decPropertyReference_safe _ ‹_› _)


theorem decProperties_safe [Allows P] (hemb : ∀ s, Safe P (emb s)) (ks : List Xml) :
    Safe P (Resp.decProperties C emb ks) := by
  fun_induction Resp.decProperties C emb ks <;> safe
macro_rules | `(tactic| safe_leaf) => `(tactic| exact decProperties_safe _ ‹_› _ ‹_› _)

theorem decInstance_safe [Allows P] (hemb : ∀ s, Safe P (emb s)) (t : Xml) : Safe P (Resp.decInstance C emb t) := by
  unfold Resp.decInstance; safe
macro_rules | `(tactic| safe_leaf) => `(tactic| exact decInstance_safe _ ‹_› _ ‹_› _)

omit hC in
theorem ctorParameter_reference_safe (n : Str) (rc : Option Str) (ia : Bool) (asz : Option Int) (q : List Qual) :
    Safe P (ctorParameter n "reference".toList rc ia asz q) := by
  obtain ⟨r, hr⟩ := ctorParameter_reference_ok n rc ia asz q
  rw [hr]; exact Safe.ok _
macro_rules | `(tactic| safe_leaf) => `(tactic| exact ctorParameter_reference_safe _ _ _ _ _)

/-- parse_parameter_reference / parse_parameter_refarray call CIMParameter(...) outside a try block:
    safe because type='reference' is a CIM type -/
theorem decParameter_safe [Allows P] (t : Xml) : Safe P (Resp.decParameter C t) := by
  unfold Resp.decParameter
  safe
macro_rules | `(tactic| safe_leaf) => `(tactic| exact decParameter_safe _ ‹_› _)

theorem decParameters_safe [Allows P] (ks : List Xml) : Safe P (Resp.decParameters C ks) := by
  fun_induction Resp.decParameters C ks <;> safe
macro_rules | `(tactic| safe_leaf) => `(tactic| exact decParameters_safe _ ‹_› _)

theorem decMethod_safe [Allows P] (t : Xml) : Safe P (Resp.decMethod C t) := by
  unfold Resp.decMethod; safe
macro_rules | `(tactic| safe_leaf) => `(tactic| exact decMethod_safe _ ‹_› _)

theorem decMethods_safe [Allows P] (ks : List Xml) : Safe P (Resp.decMethods C ks) := by
  fun_induction Resp.decMethods C ks <;> safe
macro_rules | `(tactic| safe_leaf) => `(tactic| exact decMethods_safe _ ‹_› _)

theorem decClass_safe [Allows P] (hemb : ∀ s, Safe P (emb s)) (t : Xml) : Safe P (Resp.decClass C emb t) := by
  unfold Resp.decClass; safe
macro_rules | `(tactic| safe_leaf) => `(tactic| exact decClass_safe _ ‹_› _ ‹_› _)

theorem qdLoop_safe [Allows P] (ty : Str) (all ks : List Xml) (sc : Option (List (Str × Bool))) (v : Option Val) :
    Safe P (Resp.decQualDecl.qdLoop C ty all ks sc v) := by
  fun_induction Resp.decQualDecl.qdLoop C ty all ks sc v <;> safe
macro_rules | `(tactic| safe_leaf) => `(tactic| exact qdLoop_safe _ ‹_› _ _ _ _ _)

theorem decQualDecl_safe [Allows P] (t : Xml) : Safe P (Resp.decQualDecl C t) := by
  unfold Resp.decQualDecl; safe
macro_rules | `(tactic| safe_leaf) => `(tactic| exact decQualDecl_safe _ ‹_› _)

end

/-- errors of the object decoders: CIMXMLParseError, XMLParseError (embedded object text) and
    RecursionError (embedded nesting beyond the fuel = interpreter recursion limit) -/
def DE : PyExc → Prop := fun e => e = .cimXmlParseError ∨ e = .xmlParseError ∨ e = .recursionError
instance : Allows DE := ⟨Or.inl rfl⟩

theorem embAt_safe (C : DecCodec) (hC : CodecOk C) (n : Nat) (s : Str) : Safe DE (Resp.embAt C n s) := by
  induction n generalizing s with
  | zero => unfold Resp.embAt; exact Safe.error (Or.inr (Or.inr rfl))
  | succ n ih =>
    unfold Resp.embAt
    safe
    exact Safe.error (Or.inr (Or.inl rfl))

end Proofs.C02
