/-
C01 — second trip for qualifier declarations (SCOPE attributes stay upper-cased and sorted), the
object-level idempotence `wdObj (wdObj o) = wdObj o`, child-name order, and the toy codec.
-/
import Proofs.Lemmas.CimXml9

set_option linter.unusedSimpArgs false
set_option linter.unusedVariables false
set_option linter.unusedSectionVars false

namespace Proofs.CimXml
open Pywbem.Model Pywbem.Model.XmlText Pywbem.Proto

/-! ### ASCII case mapping -/

theorem toUpper_val (c : Char) : c.toUpper.val.toNat = if 97 ≤ c.val.toNat ∧ c.val.toNat ≤ 122 then c.val.toNat - 32 else c.val.toNat := by
  unfold Char.toUpper
  split
  · rename_i h
    have h1 := h.1; have h2 := h.2
    rw [UInt32.le_iff_toNat_le] at h1 h2
    have e1 : 'a'.val.toNat = 97 := by decide
    have e2 : 'z'.val.toNat = 122 := by decide
    rw [e1] at h1; rw [e2] at h2
    rw [if_pos ⟨h1, h2⟩]
    show (c.val + ('A'.val - 'a'.val)).toNat = _
    rw [UInt32.toNat_add]
    have e3 : ('A'.val - 'a'.val).toNat = 4294967264 := by decide
    rw [e3]
    omega
  · rename_i h
    have e1 : 'a'.val.toNat = 97 := by decide
    have e2 : 'z'.val.toNat = 122 := by decide
    rw [UInt32.le_iff_toNat_le, UInt32.le_iff_toNat_le, e1, e2] at h
    rw [if_neg h]

theorem toLower_val (c : Char) : c.toLower.val.toNat = if 65 ≤ c.val.toNat ∧ c.val.toNat ≤ 90 then c.val.toNat + 32 else c.val.toNat := by
  unfold Char.toLower
  split
  · rename_i h
    have h1 := h.1; have h2 := h.2
    rw [ge_iff_le, UInt32.le_iff_toNat_le] at h1
    rw [UInt32.le_iff_toNat_le] at h2
    have e1 : 'A'.val.toNat = 65 := by decide
    have e2 : 'Z'.val.toNat = 90 := by decide
    rw [e1] at h1; rw [e2] at h2
    rw [if_pos ⟨h1, h2⟩]
    show (c.val + ('a'.val - 'A'.val)).toNat = _
    rw [UInt32.toNat_add]
    have e3 : ('a'.val - 'A'.val).toNat = 32 := by decide
    rw [e3]
    omega
  · rename_i h
    have e1 : 'A'.val.toNat = 65 := by decide
    have e2 : 'Z'.val.toNat = 90 := by decide
    rw [ge_iff_le, UInt32.le_iff_toNat_le, UInt32.le_iff_toNat_le, e1, e2] at h
    rw [if_neg h]

theorem char_ext_nat {a b : Char} (h : a.val.toNat = b.val.toNat) : a = b := by
  apply Char.ext
  exact UInt32.toNat_inj.mp h

theorem toUpper_toUpper (c : Char) : c.toUpper.toUpper = c.toUpper := by
  apply char_ext_nat
  rw [toUpper_val c.toUpper, toUpper_val c]
  repeat' split
  all_goals omega

theorem toLower_toUpper (c : Char) : c.toUpper.toLower = c.toLower := by
  apply char_ext_nat
  rw [toLower_val c.toUpper, toUpper_val c, toLower_val c]
  repeat' split
  all_goals omega


theorem upperAscii_idem (s : Str) : upperAscii (upperAscii s) = upperAscii s := by
  unfold upperAscii
  rw [List.map_map]
  apply List.map_congr_left
  intro c _
  exact toUpper_toUpper c

theorem lower_upperAscii (s : Str) : (upperAscii s).map Char.toLower = s.map Char.toLower := by
  unfold upperAscii
  rw [List.map_map]
  apply List.map_congr_left
  intro c _
  exact toLower_toUpper c

/-! ### insertion sort of the SCOPE attributes -/

def sle (p q : Str × Str) : Prop := String.ofList p.1 ≤ String.ofList q.1

def SSorted : List (Str × Str) → Prop
  | [] => True
  | x :: l => (∀ y, l.head? = some y → sle x y) ∧ SSorted l

theorem head_insertSorted (p : Str × Str) (l : List (Str × Str)) (y : Str × Str)
    (h : (insertSorted p l).head? = some y) : y = p ∨ l.head? = some y := by
  cases l with
  | nil => simp [insertSorted] at h; exact Or.inl h.symm
  | cons q qs =>
    simp only [insertSorted] at h
    split at h
    · simp at h; exact Or.inl h.symm
    · simp at h; exact Or.inr (by simp [h])

theorem sorted_insertSorted (p : Str × Str) (l : List (Str × Str)) (h : SSorted l) :
    SSorted (insertSorted p l) := by
  induction l with
  | nil => exact ⟨by intro y hy; simp at hy, trivial⟩
  | cons q qs ih =>
    simp only [insertSorted]
    split
    · rename_i hle
      exact ⟨by intro y hy; simp at hy; subst hy; exact hle, h⟩
    · rename_i hle
      refine ⟨?_, ih h.2⟩
      intro y hy
      rcases head_insertSorted p qs y hy with rfl | hy'
      · rcases String.le_total (String.ofList y.1) (String.ofList q.1) with h1 | h1
        · exact absurd h1 hle
        · exact h1
      · exact h.1 y hy'

theorem sorted_foldr (l : List (Str × Str)) : SSorted (l.foldr insertSorted []) := by
  induction l with
  | nil => trivial
  | cons p l ih => exact sorted_insertSorted p _ ih

theorem insertSorted_of_sorted (p : Str × Str) (l : List (Str × Str)) (h : SSorted (p :: l)) :
    insertSorted p l = p :: l := by
  cases l with
  | nil => rfl
  | cons q qs =>
    have : sle p q := h.1 q rfl
    simp only [insertSorted]
    rw [if_pos (show String.ofList p.1 ≤ String.ofList q.1 from this)]

theorem foldr_of_sorted (l : List (Str × Str)) (h : SSorted l) : l.foldr insertSorted [] = l := by
  induction l with
  | nil => rfl
  | cons p l ih =>
    simp only [List.foldr_cons]
    rw [ih h.2]
    exact insertSorted_of_sorted p l h

theorem length_insertSorted (p : Str × Str) (l : List (Str × Str)) : (insertSorted p l).length = l.length + 1 := by
  induction l with
  | nil => rfl
  | cons q qs ih =>
    simp only [insertSorted]
    split
    · simp
    · simp [ih]

theorem length_foldr_insertSorted (l : List (Str × Str)) : (l.foldr insertSorted []).length = l.length := by
  induction l with
  | nil => rfl
  | cons p l ih => simp [length_insertSorted, ih]

/-! ### wdScopes is idempotent -/

def anyTrue (scopes : List (Str × Bool)) : Bool :=
  scopes.any (fun p => p.1.map Char.toLower == "any".toList && p.2)

def sf (p : Str × Str) : Str × Bool := (p.1, p.2 == "true".toList)
def sg (p : Str × Bool) : Str × Str := (upperAscii p.1, boolAttr p.2)

theorem boolAttr_beq (b : Bool) : (boolAttr b == "true".toList) = b := by cases b <;> decide

theorem scopeAttrList_eq (s : List (Str × Bool)) :
    scopeAttrList s = if anyTrue s = true then scopeNames.map (fun n => (n.toList, "true".toList))
      else (s.map sg).foldr insertSorted [] := rfl

theorem wdScopes_eq (s : List (Str × Bool)) :
    wdScopes s = if s.isEmpty = true then [] else (scopeAttrList s).map sf := rfl

/-- the attribute list is a fixed point of "decode then re-encode" -/
theorem scopeAttrList_fix (s : List (Str × Bool)) :
    (∀ x ∈ scopeAttrList s, sg (sf x) = x) ∧ anyTrue ((scopeAttrList s).map sf) = false ∧
    SSorted (scopeAttrList s) := by
  rw [scopeAttrList_eq]
  by_cases ha : anyTrue s = true
  · rw [if_pos ha]
    refine ⟨by decide, by decide, ?_⟩
    have : (scopeNames.map (fun n => (n.toList, "true".toList))).foldr insertSorted [] =
        scopeNames.map (fun n => (n.toList, "true".toList)) := by decide
    rw [← this]
    exact sorted_foldr _
  · rw [if_neg ha]
    have hmem : ∀ x ∈ (s.map sg).foldr insertSorted [], ∃ p ∈ s, x = sg p := by
      intro x hx
      have := mem_foldr_insertSorted hx
      simp only [List.mem_map] at this
      obtain ⟨p, hp, e⟩ := this
      exact ⟨p, hp, e.symm⟩
    refine ⟨?_, ?_, sorted_foldr _⟩
    · intro x hx
      obtain ⟨p, _, rfl⟩ := hmem x hx
      simp only [sg, sf, boolAttr_beq, upperAscii_idem]
    · unfold anyTrue
      rw [List.any_eq_false]
      intro y hy
      simp only [List.mem_map] at hy
      obtain ⟨x, hx, rfl⟩ := hy
      obtain ⟨p, hp, rfl⟩ := hmem x hx
      have hp' : ¬ ((p.1.map Char.toLower == "any".toList && p.2) = true) := by
        intro h
        apply ha
        unfold anyTrue
        rw [List.any_eq_true]
        exact ⟨p, hp, h⟩
      simp only [sg, sf, boolAttr_beq, lower_upperAscii]
      exact hp'

theorem wdScopes_idem (s : List (Str × Bool)) : wdScopes (wdScopes s) = wdScopes s := by
  by_cases he : s.isEmpty = true
  · have : wdScopes s = [] := by rw [wdScopes_eq, if_pos he]
    rw [this]; rfl
  · obtain ⟨hfix, hany, hsorted⟩ := scopeAttrList_fix s
    have hw : wdScopes s = (scopeAttrList s).map sf := by rw [wdScopes_eq, if_neg he]
    have hne : (scopeAttrList s) ≠ [] := by
      rw [scopeAttrList_eq]
      by_cases ha : anyTrue s = true
      · rw [if_pos ha]; decide
      · rw [if_neg ha]
        intro e
        have := length_foldr_insertSorted (s.map sg)
        rw [e] at this
        simp at this
        have hs : s = [] := List.length_eq_zero_iff.mp this.symm
        subst hs
        exact he rfl
    have hne' : ((scopeAttrList s).map sf).isEmpty = false := by
      cases h : scopeAttrList s with
      | nil => exact absurd h hne
      | cons a l => rfl
    have hback : ((scopeAttrList s).map sf).map sg = scopeAttrList s := by
      rw [List.map_map]
      conv => rhs; rw [← List.map_id (scopeAttrList s)]
      apply List.map_congr_left
      intro x hx
      exact hfix x hx
    rw [hw, wdScopes_eq, hne']
    simp only [Bool.false_eq_true, if_false]
    rw [scopeAttrList_eq, hany]
    simp only [Bool.false_eq_true, if_false]
    rw [hback, foldr_of_sorted _ hsorted]

/-! ### object-level idempotence -/

section
variable (C : DecCodec) (S : Spec) (hC : CodecOk C S)

include hC in
theorem idem_qualdecl (q : QualDecl) : wdQualDecl C.toCodec (wdQualDecl C.toCodec q) = wdQualDecl C.toCodec q := by
  simp only [wdQualDecl, idem_val C S hC, wdScopes_idem, dBool_idem]

include hC in
/-- **second trip**: the object after one trip is a fixed point of "with defaults" -/
theorem idem_obj (o : Obj) : wdObj C.toCodec (wdObj C.toCodec o) = wdObj C.toCodec o := by
  cases o with
  | path p => simp only [wdObj, idem_path C S hC]
  | inst i => simp only [wdObj, idem_inst C S hC]
  | cls c => simp only [wdObj, idem_cls C S hC]
  | prop p => simp only [wdObj, idem_prop C S hC]
  | meth m => simp only [wdObj, idem_meth C S hC]
  | param p => simp only [wdObj, idem_param C S hC]
  | qual q => simp only [wdObj, idem_qual C S hC]
  | qdecl q => simp only [wdObj, idem_qualdecl C S hC]

end

/-! ### child names, in order -/

def instPropNames : Inst → List Str | .mk _ _ ps _ => ps.map Prop_.name
def instQualNames : Inst → List Str | .mk _ _ _ qs => qs.map Qual.name
def clsPropNames : Cls → List Str | .mk _ _ _ ps _ _ => ps.map Prop_.name
def clsMethNames : Cls → List Str | .mk _ _ _ _ ms _ => ms.map Meth.name
def clsQualNames : Cls → List Str | .mk _ _ _ _ _ qs => qs.map Qual.name
def propQualNames : Prop_ → List Str | .mk _ _ _ _ _ _ _ _ _ qs => qs.map Qual.name
def methParamNames : Meth → List Str | .mk _ _ ps _ _ _ => ps.map Param.name
def methQualNames : Meth → List Str | .mk _ _ _ _ _ qs => qs.map Qual.name
def paramQualNames : Param → List Str | .mk _ _ _ _ _ qs _ _ => qs.map Qual.name
def pathKeyNames : Path → List (Option Str)
  | .inst _ _ _ ks => ks.map Key.name
  | .cls .. => []
def instKeyNames : Inst → List (Option Str)
  | .mk _ (some p) _ _ => pathKeyNames p
  | .mk _ none _ _ => []

/-- the names of the children of an object, kind by kind, each list in the object's order:
    [properties, methods, parameters, qualifiers, keybindings] -/
def childNames : Obj → List (List (Option Str))
  | .path p => [[], [], [], [], pathKeyNames p]
  | .inst i => [(instPropNames i).map some, [], [], (instQualNames i).map some, instKeyNames i]
  | .cls c => [(clsPropNames c).map some, (clsMethNames c).map some, [], (clsQualNames c).map some, []]
  | .prop p => [[], [], [], (propQualNames p).map some, []]
  | .meth m => [[], [], (methParamNames m).map some, (methQualNames m).map some, []]
  | .param p => [[], [], [], (paramQualNames p).map some, []]
  | .qual _ => [[], [], [], [], []]
  | .qdecl _ => [[], [], [], [], []]

theorem wdKeys_keyNames (C : Codec) (ks : List Key) : (wdKeys C ks).map Key.name = ks.map Key.name := by
  induction ks with
  | nil => rfl
  | cons k ks ih => simp [wdKeys, wdKey_name, ih]

theorem wdPath_keyNames (C : Codec) (p : Path) : pathKeyNames (wdPath C p) = pathKeyNames p := by
  cases p with
  | inst c h n ks => simp only [wdPath, pathKeyNames, wdKeys_keyNames]
  | cls c h n => simp only [wdPath, pathKeyNames]

theorem childNames_wdObj (C : DecCodec) (o : Obj) : childNames (wdObj C.toCodec o) = childNames o := by
  cases o with
  | path p => simp only [wdObj, childNames, wdPath_keyNames]
  | inst i =>
    obtain ⟨c, path, props, quals⟩ := i
    cases path <;>
      simp only [wdObj, wdInst, childNames, instPropNames, instQualNames, instKeyNames, wdProps_names,
        wdQuals_names, wdPath_keyNames]
  | cls c =>
    obtain ⟨n, sup, path, props, meths, quals⟩ := c
    simp only [wdObj, wdCls, childNames, clsPropNames, clsMethNames, clsQualNames, wdProps_names,
      wdMeths_names, wdQuals_names]
  | prop p =>
    obtain ⟨n, ty, v, isArr, asz, refCls, origin, prop, emb, quals⟩ := p
    simp only [wdObj, wdProp, childNames, propQualNames, wdQuals_names]
  | meth m =>
    obtain ⟨n, rt, params, origin, prop, quals⟩ := m
    simp only [wdObj, wdMeth, childNames, methParamNames, methQualNames, wdParams_names, wdQuals_names]
  | param p =>
    obtain ⟨n, ty, refCls, isArr, asz, quals, v, e⟩ := p
    simp only [wdObj, wdParam, childNames, paramQualNames, wdQuals_names]
  | qual q => simp only [wdObj, childNames]
  | qdecl q => simp only [wdObj, childNames]

/-! ### the toy codec satisfies the hypotheses -/

theorem toy_enc : encInstElem toyCodec.toCodec toyInst = encInstElem toyCodecBase toyInst := by
  simp only [toyInst, encInstElem, encProps, encProp, encQuals, encVal, atomText]

theorem toyCodecOk : CodecOk toyCodec toySpec where
  real_parses := by
    intro w b
    exact ⟨(by decide : cimxmlHex (strip "0.5".toList) = none), (by decide : pyInt (strip "0.5".toList) = none), rfl⟩
  key_parses := by
    intro b
    exact ⟨(by decide : cimxmlHex (strip "0.5".toList) = none), (by decide : pyInt (strip "0.5".toList) = none), rfl⟩
  real_idem := by intro w b; rfl
  key_idem := by intro b; rfl
  dt_ok := by intro s _; rfl
  par_inst := by
    intro i hi
    have : i = toyInst := hi
    subst this
    refine ⟨encInstElem toyCodec.toCodec toyInst, ?_, rfl⟩
    rw [toy_enc]
    show (if _ = _ then _ else _) = _
    rw [if_pos rfl]
  par_cls := by intro c hc; exact absurd hc id

end Proofs.CimXml
