/-
Helper lemmas for C18, part 8: remove_server with any outcome, seen through filters and destinations.
-/
import Proofs.Lemmas.SubMgr7

namespace Proofs.SubMgr
open Pywbem.Model.SubMgr Pywbem.Proto

/-! ### remove_server in any state: what the three loops do to filters and destinations -/

theorem filter_true_eq {α} (l : List α) : l.filter (fun _ => true) = l :=
  List.filter_eq_self.mpr (by simp)

/-- the filter loop without any precondition: a prefix `done` of the work list was deleted, the loop
    either finished (`rest = []`, no exception) or stopped at the head of `rest` -/
theorem delLoop_filts_split (l : List Filt) (st : Store) :
    ∃ done rest e, l = done ++ rest ∧ (e = none → rest = []) ∧
      delLoop (fun st (f : Filt) => delFilt st f.path) st l =
        ({ st with filts := st.filts.filter (fun f => !decide (f.path ∈ done.map (·.path))) }, rest, e) := by
  induction l generalizing st with
  | nil =>
    refine ⟨[], [], none, rfl, fun _ => rfl, ?_⟩
    cases st; simp [delLoop, filter_true_eq]
  | cons x xs ih =>
    cases hd : delFilt st x.path with
    | error e =>
      refine ⟨[], x :: xs, some e, rfl, fun h => by simp at h, ?_⟩
      cases st; simp [delLoop, hd, filter_true_eq]
    | ok st1 =>
      obtain ⟨_, _, rfl⟩ := delFilt_ok hd
      obtain ⟨done, rest, e, hl, he, hloop⟩ := ih { st with filts := st.filts.filter (fun f => f.path != x.path) }
      refine ⟨x :: done, rest, e, by simp [hl], he, ?_⟩
      simp only [delLoop, hd, hloop]
      have e' : ∀ l : List Filt, List.filter (fun f => !decide (f.path ∈ List.map (·.path) done))
            (List.filter (fun f => f.path != x.path) l) =
          List.filter (fun f => !decide (f.path ∈ List.map (·.path) (x :: done))) l := by
        intro l
        rw [List.filter_filter]
        apply List.filter_congr
        intro f _
        by_cases e : f.path = x.path <;> simp [e]
      simp only [e']

theorem delLoop_dests_split (l : List Dest) (st : Store) :
    ∃ done rest e, l = done ++ rest ∧ (e = none → rest = []) ∧
      delLoop (fun st (d : Dest) => delDest st d.path) st l =
        ({ st with dests := st.dests.filter (fun d => !decide (d.path ∈ done.map (·.path))) }, rest, e) := by
  induction l generalizing st with
  | nil =>
    refine ⟨[], [], none, rfl, fun _ => rfl, ?_⟩
    cases st; simp [delLoop, filter_true_eq]
  | cons x xs ih =>
    cases hd : delDest st x.path with
    | error e =>
      refine ⟨[], x :: xs, some e, rfl, fun h => by simp at h, ?_⟩
      cases st; simp [delLoop, hd, filter_true_eq]
    | ok st1 =>
      obtain ⟨_, _, rfl⟩ := delDest_ok hd
      obtain ⟨done, rest, e, hl, he, hloop⟩ := ih { st with dests := st.dests.filter (fun d => d.path != x.path) }
      refine ⟨x :: done, rest, e, by simp [hl], he, ?_⟩
      simp only [delLoop, hd, hloop]
      have e' : ∀ l : List Dest, List.filter (fun d => !decide (d.path ∈ List.map (·.path) done))
            (List.filter (fun d => d.path != x.path) l) =
          List.filter (fun d => !decide (d.path ∈ List.map (·.path) (x :: done))) l := by
        intro l
        rw [List.filter_filter]
        apply List.filter_congr
        intro d _
        by_cases e : d.path = x.path <;> simp [e]
      simp only [e']

/-- the subscription loop never touches filters or destinations -/
theorem delLoop_subs_fd (l : List Sub) (st : Store) :
    (delLoop (fun st (s : Sub) => delSub st s.filter s.handler) st l).1.filts = st.filts ∧
    (delLoop (fun st (s : Sub) => delSub st s.filter s.handler) st l).1.dests = st.dests := by
  induction l generalizing st with
  | nil => simp [delLoop]
  | cons x xs ih =>
    cases hd : delSub st x.filter x.handler with
    | error e => simp [delLoop, hd]
    | ok st1 =>
      obtain ⟨_, rfl⟩ := delSub_ok hd
      simp only [delLoop, hd]
      exact ih _

theorem rmSubs_fd (st : Store) (o : Owned) :
    (rmSubs st o).1.filts = st.filts ∧ (rmSubs st o).1.dests = st.dests ∧
    (rmSubs st o).2.1.of = o.of ∧ (rmSubs st o).2.1.od = o.od := by
  unfold rmSubs
  cases hos : o.os with
  | none => simp
  | some l =>
    simp only [delBackwards]
    have h := delLoop_subs_fd l.reverse st
    generalize delLoop (fun st (s : Sub) => delSub st s.filter s.handler) st l.reverse = r at h
    obtain ⟨st', rem, e⟩ := r
    cases e <;> exact ⟨h.1, h.2, rfl, rfl⟩

theorem rmFilts_fd {id : Str} {st : Store} {o : Owned} (hi : FDInv st) (ha : AgreeFD id st o) (hc : ':' ∉ id) :
    FDInv (rmFilts st o).1 ∧ AgreeFD id (rmFilts st o).1 (rmFilts st o).2.1 ∧ FrameFD id st (rmFilts st o).1 := by
  unfold rmFilts
  cases hof : o.of with
  | none => exact ⟨hi, ha, FrameFD.refl id st⟩
  | some l =>
    obtain ⟨hnd, hmem⟩ := ha.of l hof
    simp only [delBackwards]
    obtain ⟨done, rest, e, hl, he, hloop⟩ := delLoop_filts_split l.reverse st
    rw [hloop]
    have hdone_l : ∀ y ∈ done, y ∈ l := fun y hy => by
      have : y ∈ l.reverse := by rw [hl]; simp [hy]
      simpa using this
    have hrest_l : ∀ y ∈ rest, y ∈ l := fun y hy => by
      have : y ∈ l.reverse := by rw [hl]; simp [hy]
      simpa using this
    have hnd' : (done ++ rest).Nodup := by rw [← hl]; exact hnd.perm (List.reverse_perm _).symm
    have hdisj : ∀ y ∈ done, y ∉ rest := fun y hy hy' => (List.nodup_append.mp hnd').2.2 y hy y hy' rfl
    -- for members of the store: path among the deleted ones ↔ deleted
    have hpath : ∀ x ∈ st.filts, (x.path ∈ done.map (·.path) ↔ x ∈ done) := by
      intro x hx
      constructor
      · intro h
        simp only [List.mem_map] at h
        obtain ⟨y, hy, e⟩ := h
        have := eq_of_key (·.path) hi.fnd ((hmem y).mp (hdone_l y hy)).1 hx e
        exact this ▸ hy
      · intro h; exact List.mem_map.mpr ⟨x, h, rfl⟩
    have hinv : FDInv { st with filts := st.filts.filter (fun f => !decide (f.path ∈ done.map (·.path))) } :=
      ⟨List.Nodup.sublist (List.Sublist.map _ List.filter_sublist) hi.fnd, hi.dnd⟩
    have hframe : FrameFD id st { st with filts := st.filts.filter (fun f => !decide (f.path ∈ done.map (·.path))) } := by
      refine ⟨fun _ _ _ _ => Iff.rfl, ?_⟩
      intro j hj hcj x
      simp only [List.mem_filter, Bool.not_eq_true', decide_eq_false_iff_not]
      constructor
      · rintro ⟨⟨hx, _⟩, ho⟩; exact ⟨hx, ho⟩
      · rintro ⟨hx, ho⟩
        refine ⟨⟨hx, fun hp => ?_⟩, ho⟩
        have hxd := (hpath x hx).mp hp
        have := ((hmem x).mp (hdone_l x hxd)).2
        exact hj (ownsSpec_unique hcj hc ho this)
    cases e with
    | none =>
      exact ⟨hinv, ⟨fun l' hl' => by simp at hl', fun l' hl' => ha.od l' hl'⟩, hframe⟩
    | some err =>
      refine ⟨hinv, ⟨fun l' hl' => ?_, fun l' hl' => ha.od l' hl'⟩, hframe⟩
      have : rest.reverse = l' := by simpa using hl'
      subst this
      refine ⟨((List.nodup_append.mp hnd').2.1).perm (List.reverse_perm _).symm, fun x => ?_⟩
      simp only [List.mem_reverse, List.mem_filter, Bool.not_eq_true', decide_eq_false_iff_not]
      constructor
      · intro hx
        have hxl := hrest_l x hx
        obtain ⟨hxs, ho⟩ := (hmem x).mp hxl
        exact ⟨⟨hxs, fun hp => hdisj x ((hpath x hxs).mp hp) hx⟩, ho⟩
      · rintro ⟨⟨hxs, hnp⟩, ho⟩
        have hxl : x ∈ l := (hmem x).mpr ⟨hxs, ho⟩
        have : x ∈ done ++ rest := by rw [← hl]; simpa using hxl
        rcases List.mem_append.mp this with h | h
        · exact absurd ((hpath x hxs).mpr h) hnp
        · exact h

theorem rmDests_fd {id : Str} {st : Store} {o : Owned} (hi : FDInv st) (ha : AgreeFD id st o) (hc : ':' ∉ id) :
    FDInv (rmDests st o).1 ∧ AgreeFD id (rmDests st o).1 (rmDests st o).2.1 ∧ FrameFD id st (rmDests st o).1 := by
  unfold rmDests
  cases hod : o.od with
  | none => exact ⟨hi, ha, FrameFD.refl id st⟩
  | some l =>
    obtain ⟨hnd, hmem⟩ := ha.od l hod
    simp only [delBackwards]
    obtain ⟨done, rest, e, hl, he, hloop⟩ := delLoop_dests_split l.reverse st
    rw [hloop]
    have hdone_l : ∀ y ∈ done, y ∈ l := fun y hy => by
      have : y ∈ l.reverse := by rw [hl]; simp [hy]
      simpa using this
    have hrest_l : ∀ y ∈ rest, y ∈ l := fun y hy => by
      have : y ∈ l.reverse := by rw [hl]; simp [hy]
      simpa using this
    have hnd' : (done ++ rest).Nodup := by rw [← hl]; exact hnd.perm (List.reverse_perm _).symm
    have hdisj : ∀ y ∈ done, y ∉ rest := fun y hy hy' => (List.nodup_append.mp hnd').2.2 y hy y hy' rfl
    have hpath : ∀ x ∈ st.dests, (x.path ∈ done.map (·.path) ↔ x ∈ done) := by
      intro x hx
      constructor
      · intro h
        simp only [List.mem_map] at h
        obtain ⟨y, hy, e⟩ := h
        have := eq_of_key (·.path) hi.dnd ((hmem y).mp (hdone_l y hy)).1 hx e
        exact this ▸ hy
      · intro h; exact List.mem_map.mpr ⟨x, h, rfl⟩
    have hinv : FDInv { st with dests := st.dests.filter (fun d => !decide (d.path ∈ done.map (·.path))) } :=
      ⟨hi.fnd, List.Nodup.sublist (List.Sublist.map _ List.filter_sublist) hi.dnd⟩
    have hframe : FrameFD id st { st with dests := st.dests.filter (fun d => !decide (d.path ∈ done.map (·.path))) } := by
      refine ⟨?_, fun _ _ _ _ => Iff.rfl⟩
      intro j hj hcj x
      simp only [List.mem_filter, Bool.not_eq_true', decide_eq_false_iff_not]
      constructor
      · rintro ⟨⟨hx, _⟩, ho⟩; exact ⟨hx, ho⟩
      · rintro ⟨hx, ho⟩
        refine ⟨⟨hx, fun hp => ?_⟩, ho⟩
        have hxd := (hpath x hx).mp hp
        have := ((hmem x).mp (hdone_l x hxd)).2
        exact hj (ownsSpec_unique hcj hc ho this)
    cases e with
    | none =>
      exact ⟨hinv, ⟨fun l' hl' => ha.of l' hl', fun l' hl' => by simp at hl'⟩, hframe⟩
    | some err =>
      refine ⟨hinv, ⟨fun l' hl' => ha.of l' hl', fun l' hl' => ?_⟩, hframe⟩
      have : rest.reverse = l' := by simpa using hl'
      subst this
      refine ⟨((List.nodup_append.mp hnd').2.1).perm (List.reverse_perm _).symm, fun x => ?_⟩
      simp only [List.mem_reverse, List.mem_filter, Bool.not_eq_true', decide_eq_false_iff_not]
      constructor
      · intro hx
        have hxl := hrest_l x hx
        obtain ⟨hxs, ho⟩ := (hmem x).mp hxl
        exact ⟨⟨hxs, fun hp => hdisj x ((hpath x hxs).mp hp) hx⟩, ho⟩
      · rintro ⟨⟨hxs, hnp⟩, ho⟩
        have hxl : x ∈ l := (hmem x).mpr ⟨hxs, ho⟩
        have : x ∈ done ++ rest := by rw [← hl]; simpa using hxl
        rcases List.mem_append.mp this with h | h
        · exact absurd ((hpath x hxs).mpr h) hnp
        · exact h

/-- remove_server in ANY state and with ANY outcome (success, half-way failure in any of the three loops,
    deleted dict entries from an earlier failure): filters and destinations stay consistent -/
theorem goodFD_removeServer {id : Str} {st : Store} {o : Owned} (hi : FDInv st) (ha : AgreeFD id st o)
    (hc : ':' ∉ id) (reg : Bool) : GoodFD id st (stepRemoveServer reg st o).1 := by
  unfold stepRemoveServer
  cases reg with
  | false => exact GoodFD.same hi ha _
  | true =>
    simp only [Bool.not_true, Bool.false_eq_true, if_false]
    obtain ⟨f1, d1, lf1, ld1⟩ := rmSubs_fd st o
    generalize rmSubs st o = r1 at f1 d1 lf1 ld1
    obtain ⟨st1, o1, e1⟩ := r1
    have hi1 : FDInv st1 := ⟨by rw [f1]; exact hi.fnd, by rw [d1]; exact hi.dnd⟩
    have ha1 : AgreeFD id st1 o1 :=
      ⟨fun l hl => by rw [lf1] at hl; rw [f1]; exact ha.of l hl, fun l hl => by rw [ld1] at hl; rw [d1]; exact ha.od l hl⟩
    have hf1 : FrameFD id st st1 := FrameFD.of_eq f1 d1
    cases e1 with
    | some e => exact ⟨hi1, ha1, hf1⟩
    | none =>
      simp only []
      obtain ⟨hi2, ha2, hf2⟩ := rmFilts_fd hi1 ha1 hc
      generalize rmFilts st1 o1 = r2 at hi2 ha2 hf2
      obtain ⟨st2, o2, e2⟩ := r2
      cases e2 with
      | some e => exact ⟨hi2, ha2, hf1.trans hf2⟩
      | none =>
        simp only []
        obtain ⟨hi3, ha3, hf3⟩ := rmDests_fd hi2 ha2 hc
        generalize rmDests st2 o2 = r3 at hi3 ha3 hf3
        obtain ⟨st3, o3, e3⟩ := r3
        cases e3 with
        | some e => exact ⟨hi3, ha3, (hf1.trans hf2).trans hf3⟩
        | none => exact ⟨hi3, ha3, (hf1.trans hf2).trans hf3⟩

theorem discover_agreeFD (id : Str) (st : Store) (hi : FDInv st) : AgreeFD id st (discover id st) := by
  refine ⟨fun l hl => ?_, fun l hl => ?_⟩
  · have : st.filts.filter (fun f => ownsCode .filt id f.path.name) = l := by simpa [discover] using hl
    subst this
    exact ⟨List.Nodup.sublist List.filter_sublist (nodup_of_map _ hi.fnd), fun f => by simp [List.mem_filter, ownsCode_iff]⟩
  · have : st.dests.filter (fun d => ownsCode .dest id d.path.name) = l := by simpa [discover] using hl
    subst this
    exact ⟨List.Nodup.sublist List.filter_sublist (nodup_of_map _ hi.dnd), fun d => by simp [List.mem_filter, ownsCode_iff]⟩

end Proofs.SubMgr
