/-
Helper lemmas for C18, part 7: the filter/destination invariant that needs no assumption about subscriptions
(cross-manager subscriptions, owned subscriptions on unowned ends, deleted dict entries are all allowed).
-/
import Proofs.Lemmas.SubMgr6

namespace Proofs.SubMgr
open Pywbem.Model.SubMgr Pywbem.Proto

/-! ### filters and destinations only: an invariant that survives cross-manager subscriptions,
    half-way failures of remove_server and deleted dict entries -/

structure FDInv (st : Store) : Prop where
  fnd : (st.filts.map (·.path)).Nodup
  dnd : (st.dests.map (·.path)).Nodup

/-- whenever the dict entry exists, the list is duplicate-free and holds exactly the marked instances -/
structure AgreeFD (id : Str) (st : Store) (o : Owned) : Prop where
  of : ∀ l, o.of = some l → l.Nodup ∧ ∀ f, f ∈ l ↔ (f ∈ st.filts ∧ ownsSpec .filt id f.path.name)
  od : ∀ l, o.od = some l → l.Nodup ∧ ∀ d, d ∈ l ↔ (d ∈ st.dests ∧ ownsSpec .dest id d.path.name)

structure FrameFD (id : Str) (st st' : Store) : Prop where
  d : ∀ j, j ≠ id → ':' ∉ j → ∀ x : Dest, (x ∈ st'.dests ∧ ownsSpec .dest j x.path.name) ↔ (x ∈ st.dests ∧ ownsSpec .dest j x.path.name)
  f : ∀ j, j ≠ id → ':' ∉ j → ∀ x : Filt, (x ∈ st'.filts ∧ ownsSpec .filt j x.path.name) ↔ (x ∈ st.filts ∧ ownsSpec .filt j x.path.name)

theorem StoreInv.fd {st : Store} (h : StoreInv st) : FDInv st := ⟨h.fnd, h.dnd⟩
theorem Agree.fd {id : Str} {st : Store} {o : Owned} (h : Agree id st o) : AgreeFD id st o := by
  obtain ⟨⟨ld, h1, h2, h3⟩, ⟨lf, h4, h5, h6⟩, _⟩ := h
  refine ⟨fun l hl => ?_, fun l hl => ?_⟩
  · rw [h4] at hl; have := Option.some.inj hl; subst this; exact ⟨h5, h6⟩
  · rw [h1] at hl; have := Option.some.inj hl; subst this; exact ⟨h2, h3⟩

theorem FrameFD.refl (id : Str) (st : Store) : FrameFD id st st :=
  ⟨fun _ _ _ _ => Iff.rfl, fun _ _ _ _ => Iff.rfl⟩
theorem FrameFD.trans {id : Str} {a b c : Store} (h1 : FrameFD id a b) (h2 : FrameFD id b c) : FrameFD id a c :=
  ⟨fun j hj hc x => (h2.d j hj hc x).trans (h1.d j hj hc x),
   fun j hj hc x => (h2.f j hj hc x).trans (h1.f j hj hc x)⟩
theorem FrameFD.of_eq {id : Str} {a b : Store} (hf : b.filts = a.filts) (hd : b.dests = a.dests) : FrameFD id a b :=
  ⟨fun _ _ _ _ => by rw [hd], fun _ _ _ _ => by rw [hf]⟩

theorem AgreeFD.frame {id j : Str} {st st' : Store} {o : Owned} (h : AgreeFD j st o) (hf : FrameFD id st st')
    (hj : j ≠ id) (hc : ':' ∉ j) : AgreeFD j st' o :=
  ⟨fun l hl => ⟨(h.of l hl).1, fun f => ((h.of l hl).2 f).trans (hf.f j hj hc f).symm⟩,
   fun l hl => ⟨(h.od l hl).1, fun d => ((h.od l hl).2 d).trans (hf.d j hj hc d).symm⟩⟩

/-- the filter/destination view of a result -/
structure GoodFD (id : Str) (st : Store) (r : R) : Prop where
  inv : FDInv r.st
  agree : AgreeFD id r.st r.o
  frame : FrameFD id st r.st

theorem GoodFD.same {id : Str} {st : Store} {o : Owned} (hi : FDInv st) (ha : AgreeFD id st o) (out : Res) :
    GoodFD id st ⟨st, o, out⟩ := ⟨hi, ha, FrameFD.refl id st⟩

theorem GoodFD.trans {id : Str} {st : Store} {r1 r2 : R} (h1 : GoodFD id st r1) (h2 : GoodFD id r1.st r2) :
    GoodFD id st r2 := ⟨h2.inv, h2.agree, h1.frame.trans h2.frame⟩

/-- an operation that touches subscriptions only -/
theorem GoodFD.of_subs_only {id : Str} {st : Store} {o : Owned} (hi : FDInv st) (ha : AgreeFD id st o) (r : R)
    (hf : r.st.filts = st.filts) (hd : r.st.dests = st.dests) (h1 : r.o.of = o.of) (h2 : r.o.od = o.od) :
    GoodFD id st r :=
  ⟨⟨by rw [hf]; exact hi.fnd, by rw [hd]; exact hi.dnd⟩,
   ⟨fun l hl => by rw [h1] at hl; rw [hf]; exact ha.of l hl, fun l hl => by rw [h2] at hl; rw [hd]; exact ha.od l hl⟩,
   FrameFD.of_eq hf hd⟩

/-! #### subscriptions-only operations -/

structure SubsOnly (st : Store) (o : Owned) (r : R) : Prop where
  f : r.st.filts = st.filts
  d : r.st.dests = st.dests
  lf : r.o.of = o.of
  ld : r.o.od = o.od

theorem SubsOnly.refl (st : Store) (o : Owned) (out : Res) : SubsOnly st o ⟨st, o, out⟩ := ⟨rfl, rfl, rfl, rfl⟩
theorem SubsOnly.trans {st : Store} {o : Owned} {r1 r2 : R} (h1 : SubsOnly st o r1) (h2 : SubsOnly r1.st r1.o r2) :
    SubsOnly st o r2 := ⟨h2.f.trans h1.f, h2.d.trans h1.d, h2.lf.trans h1.lf, h2.ld.trans h1.ld⟩

theorem subsOnly_addSub1 (reg : Bool) (id : Str) (st : Store) (o : Owned) (f d : Path) (owned : Bool) :
    SubsOnly st o (stepAddSub1 reg id st o f d owned) := by
  unfold stepAddSub1
  cases hod : o.od with
  | none => exact SubsOnly.refl _ _ _
  | some od =>
    cases hof : o.of with
    | none => exact SubsOnly.refl _ _ _
    | some ofl =>
      simp only []
      split
      · exact SubsOnly.refl _ _ _
      split
      · exact SubsOnly.refl _ _ _
      split
      · exact SubsOnly.refl _ _ _
      split
      · cases hos : o.os with
        | none => exact SubsOnly.refl _ _ _
        | some os =>
          simp only []
          cases os.find? (fun s => s.filter == f && s.handler == d) with
          | some s => exact SubsOnly.refl _ _ _
          | none =>
            simp only []
            cases hcr : createSub st f d (some id) with
            | error e => exact SubsOnly.refl _ _ _
            | ok p =>
              obtain ⟨st', s⟩ := p
              obtain ⟨_, _, _, _, rfl⟩ := createSub_ok hcr
              exact ⟨rfl, rfl, hof.symm, hod.symm⟩
      · cases hcr : createSub st f d none with
        | error e => exact SubsOnly.refl _ _ _
        | ok p =>
          obtain ⟨st', s⟩ := p
          obtain ⟨_, _, _, _, rfl⟩ := createSub_ok hcr
          exact ⟨rfl, rfl, rfl, rfl⟩

theorem subsOnly_addSubList (reg : Bool) (id : Str) (f : Path) (owned : Bool) :
    ∀ (ds : List Path) (st : Store) (o : Owned) (acc : List Sub),
      SubsOnly st o (stepAddSubList reg id f owned st o ds acc) := by
  intro ds
  induction ds with
  | nil => intro st o acc; exact SubsOnly.refl _ _ _
  | cons d rest ih =>
    intro st o acc
    have h1 := subsOnly_addSub1 reg id st o f d owned
    unfold stepAddSubList
    generalize stepAddSub1 reg id st o f d owned = r1 at h1
    obtain ⟨st1, o1, out1⟩ := r1
    cases out1 with
    | subs l => simp only []; exact h1.trans (ih st1 o1 (acc ++ l))
    | _ => exact h1

theorem subsOnly_addSubs (reg : Bool) (id : Str) (st : Store) (o : Owned) (f : Path) (sel : DestSel) (owned : Bool) :
    SubsOnly st o (stepAddSubs reg id st o f sel owned) := by
  unfold stepAddSubs
  cases hod : o.od with
  | none => exact SubsOnly.refl _ _ _
  | some od =>
    simp only []
    cases sel with
    | all => exact subsOnly_addSubList reg id f owned _ st o []
    | many ps => exact subsOnly_addSubList reg id f owned ps st o []
    | one p => exact subsOnly_addSub1 reg id st o f p owned

theorem subsOnly_removeSub1 (reg : Bool) (st : Store) (o : Owned) (f h : Path) :
    SubsOnly st o (stepRemoveSub1 reg st o f h) := by
  unfold stepRemoveSub1
  cases reg with
  | false => exact SubsOnly.refl _ _ _
  | true =>
    simp only [Bool.not_true, Bool.false_eq_true, if_false]
    cases hd : delSub st f h with
    | error e => exact SubsOnly.refl _ _ _
    | ok st' =>
      obtain ⟨_, rfl⟩ := delSub_ok hd
      cases o.os <;> exact ⟨rfl, rfl, rfl, rfl⟩

theorem subsOnly_removeSubList (reg : Bool) :
    ∀ (ps : List (Path × Path)) (st : Store) (o : Owned), SubsOnly st o (stepRemoveSubList reg st o ps) := by
  intro ps
  induction ps with
  | nil => intro st o; exact SubsOnly.refl _ _ _
  | cons p rest ih =>
    intro st o
    have h1 := subsOnly_removeSub1 reg st o p.1 p.2
    unfold stepRemoveSubList
    generalize stepRemoveSub1 reg st o p.1 p.2 = r1 at h1
    obtain ⟨st1, o1, out1⟩ := r1
    cases out1 with
    | done => simp only []; exact h1.trans (ih st1 o1)
    | _ => exact h1

theorem subsOnly_removeSubs (reg : Bool) (st : Store) (o : Owned) (sel : SubSel) :
    SubsOnly st o (stepRemoveSubs reg st o sel) := by
  unfold stepRemoveSubs
  cases reg with
  | false => exact SubsOnly.refl _ _ _
  | true =>
    simp only [Bool.not_true, Bool.false_eq_true, if_false]
    cases sel with
    | one f h => exact subsOnly_removeSub1 true st o f h
    | many ps => exact subsOnly_removeSubList true ps st o

theorem GoodFD.of_subsOnly {id : Str} {st : Store} {o : Owned} (hi : FDInv st) (ha : AgreeFD id st o) {r : R}
    (h : SubsOnly st o r) : GoodFD id st r :=
  GoodFD.of_subs_only hi ha r h.f h.d h.lf h.ld

/-! #### add_filter / add_destination (any state of the dict entries) -/

theorem goodFD_addFilter {id : Str} {st : Store} {o : Owned} (hi : FDInv st) (ha : AgreeFD id st o)
    (hc : ':' ∉ id) (reg owned : Bool) (fid name : Option Str)
    (wb : owned = false → NoMarker .filt (name.getD [])) :
    GoodFD id st (stepAddFilter reg id st o owned fid name) := by
  unfold stepAddFilter
  by_cases h1 : argErr owned fid name = true
  · simp only [h1, if_true]; exact GoodFD.same hi ha _
  by_cases h2 : filterIdBad fid = true
  · simp only [h1, h2, if_true]; exact GoodFD.same hi ha _
  cases reg with
  | false => simp only [h1, h2, Bool.not_false, if_true, if_false]; exact GoodFD.same hi ha _
  | true =>
    by_cases h4 : st.filts.any (fun f => f.path.name == filterName id fid name) = true
    · simp only [h1, h2, h4, Bool.not_true, Bool.false_eq_true, if_true, if_false]; exact GoodFD.same hi ha _
    simp only [h1, h2, h4, Bool.not_true, Bool.false_eq_true, if_false]
    cases hcr : createFilt st (filterName id fid name) with
    | error e => exact GoodFD.same hi ha _
    | ok p =>
      obtain ⟨st', f⟩ := p
      obtain ⟨hf, hnew, rfl⟩ := createFilt_ok hcr
      have hfn : f.path.name = filterName id fid name := by rw [hf]
      have hnotin : f ∉ st.filts := fun hm => by
        have : st.hasFilt f.path = true := hasFilt_iff.mpr ⟨f, hm, rfl⟩
        simp [hnew] at this
      have hpn : f.path ∉ st.filts.map (·.path) := by
        intro hm
        simp only [List.mem_map] at hm
        obtain ⟨x, hx, e⟩ := hm
        have : st.hasFilt f.path = true := hasFilt_iff.mpr ⟨x, hx, e⟩
        simp [hnew] at this
      have hown : ∀ j, ':' ∉ j → (ownsSpec .filt j f.path.name ↔ (fid.isSome = true ∧ j = id)) := by
        intro j hj
        rw [hfn]
        cases fid with
        | none =>
          have hown' : owned = false := by cases owned <;> simp_all [argErr]
          simp only [filterName, Option.isSome_none, Bool.false_eq_true, if_false, false_and, iff_false]
          exact wb hown' j hj
        | some x =>
          have hx : ':' ∉ x := by
            simpa [filterIdBad, Pywbem.Generated.SubMgr.filterIdColonRejected] using h2
          simp only [filterName, Option.isSome_some, if_true, Option.getD_some, true_and]
          exact ownsSpec_mkName_iff .filt id j x hc hj hx
      have hinv : FDInv { st with filts := st.filts ++ [f] } :=
        ⟨by simp only [List.map_append, List.map_cons, List.map_nil]; exact nodup_snoc hi.fnd hpn, hi.dnd⟩
      have hframe : FrameFD id st { st with filts := st.filts ++ [f] } := by
        refine ⟨fun _ _ _ _ => Iff.rfl, ?_⟩
        intro j hj hcj x
        simp only [List.mem_append, List.mem_singleton]
        constructor
        · rintro ⟨hx | rfl, ho⟩
          · exact ⟨hx, ho⟩
          · exact absurd ((hown j hcj).mp ho).2 hj
        · rintro ⟨hx, ho⟩; exact ⟨Or.inl hx, ho⟩
      -- the list (when the entry exists) after appending / not appending
      have hnew_unlisted : (fid.isSome = false) → AgreeFD id { st with filts := st.filts ++ [f] } o := by
        intro hs
        refine ⟨fun l hl => ⟨(ha.of l hl).1, fun x => ?_⟩, ha.od⟩
        rw [(ha.of l hl).2 x]
        simp only [List.mem_append, List.mem_singleton]
        constructor
        · rintro ⟨hx, ho⟩; exact ⟨Or.inl hx, ho⟩
        · rintro ⟨hx | rfl, ho⟩
          · exact ⟨hx, ho⟩
          · have := ((hown id hc).mp ho).1; simp [hs] at this
      by_cases hs : fid.isSome = true
      · simp only [hs, if_true]
        cases hof : o.of with
        | none =>
          -- degraded: the instance is created, then KeyError; there is no list to keep exact
          refine ⟨hinv, ⟨fun l hl => by simp [hof] at hl, ?_⟩, hframe⟩
          exact ha.od
        | some lf =>
          simp only []
          obtain ⟨hnd, hmem⟩ := ha.of lf hof
          refine ⟨hinv, ⟨fun l hl => ?_, fun l hl => ha.od l hl⟩, hframe⟩
          have : lf ++ [f] = l := by simpa using hl
          subst this
          refine ⟨nodup_snoc hnd (fun hm => hnotin ((hmem f).mp hm).1), fun x => ?_⟩
          simp only [List.mem_append, List.mem_singleton, hmem]
          constructor
          · rintro (⟨hx, ho⟩ | rfl)
            · exact ⟨Or.inl hx, ho⟩
            · exact ⟨Or.inr rfl, (hown id hc).mpr ⟨hs, rfl⟩⟩
          · rintro ⟨hx | rfl, ho⟩
            · exact Or.inl ⟨hx, ho⟩
            · exact Or.inr rfl
      · have hs' : fid.isSome = false := by simpa using hs
        simp only [hs', Bool.false_eq_true, if_false]
        exact ⟨hinv, hnew_unlisted hs', hframe⟩

theorem goodFD_addDest {id : Str} {st : Store} {o : Owned} (hi : FDInv st) (ha : AgreeFD id st o)
    (hc : ':' ∉ id) (reg : Bool) (a : DestArgs)
    (wb : a.owned = false → NoMarker .dest (a.name.getD [])) :
    GoodFD id st (stepAddDest reg id st o a) := by
  unfold stepAddDest
  by_cases h1 : argErr a.owned a.destId a.name = true
  · simp only [h1, if_true]; exact GoodFD.same hi ha _
  by_cases h2 : destIdBad a.destId = true
  · simp only [h1, h2, if_true]; exact GoodFD.same hi ha _
  simp only [h1, h2, Bool.false_eq_true, if_false]
  cases hv : validatePT a.pt with
  | error e => exact GoodFD.same hi ha _
  | ok ptv0 =>
    simp only []
    cases reg with
    | false => simp only [Bool.not_false, if_true]; exact GoodFD.same hi ha _
    | true =>
      simp only [Bool.not_true, Bool.false_eq_true, if_false]
      cases hu : a.url with
      | none => exact GoodFD.same hi ha _
      | some url =>
        simp only []
        by_cases h4 : st.dests.any (fun d => d.path.name == destName id a) = true
        · simp only [h4, if_true]; exact GoodFD.same hi ha _
        simp only [h4, Bool.false_eq_true, if_false]
        have hcreate : ∀ st' d, createDest st (destName id a) url (effPT a ptv0) = .ok (st', d) →
            (FDInv st' ∧ FrameFD id st st' ∧ d ∉ st.dests ∧ st' = { st with dests := st.dests ++ [d] } ∧
             (ownsSpec .dest id d.path.name ↔ a.owned = true)) := by
          intro st' d hcr
          obtain ⟨hp, hnew, rfl⟩ := createDest_ok hcr
          have hnotin : d ∉ st.dests := fun hm => by
            have : st.hasDest d.path = true := hasDest_iff.mpr ⟨d, hm, rfl⟩
            simp [hnew] at this
          have hpn : d.path ∉ st.dests.map (·.path) := by
            intro hm
            simp only [List.mem_map] at hm
            obtain ⟨x, hx, e⟩ := hm
            have : st.hasDest d.path = true := hasDest_iff.mpr ⟨x, hx, e⟩
            simp [hnew] at this
          have hown : ∀ j, ':' ∉ j → (ownsSpec .dest j d.path.name ↔ (a.owned = true ∧ j = id)) := by
            intro j hj
            rw [hp]
            show ownsSpec .dest j (destName id a) ↔ _
            cases hown' : a.owned with
            | false =>
              simp only [destName, hown', Bool.false_eq_true, if_false, false_and, iff_false]
              exact wb hown' j hj
            | true =>
              have hsome : a.destId.isSome = true := by
                cases hd : a.destId <;> simp_all [argErr]
              obtain ⟨x, hx⟩ := Option.isSome_iff_exists.mp hsome
              have hxc : ':' ∉ x := by
                simpa [destIdBad, hx, Pywbem.Generated.SubMgr.destIdColonRejected] using h2
              simp only [destName, hown', if_true, hx, Option.getD_some, true_and]
              exact ownsSpec_mkName_iff .dest id j x hc hj hxc
          refine ⟨⟨hi.fnd, by simp only [List.map_append, List.map_cons, List.map_nil]; exact nodup_snoc hi.dnd hpn⟩,
            ?_, hnotin, rfl, ?_⟩
          · refine ⟨?_, fun _ _ _ _ => Iff.rfl⟩
            intro j hj hcj x
            simp only [List.mem_append, List.mem_singleton]
            constructor
            · rintro ⟨hx | rfl, ho⟩
              · exact ⟨hx, ho⟩
              · exact absurd ((hown j hcj).mp ho).2 hj
            · rintro ⟨hx, ho⟩; exact ⟨Or.inl hx, ho⟩
          · rw [hown id hc]; simp
        cases how : a.owned with
        | true =>
          simp only [if_true]
          cases hod : o.od with
          | none => exact GoodFD.same hi ha _
          | some ld =>
            simp only []
            obtain ⟨hnd, hmem⟩ := ha.od ld hod
            cases hfd : findDup url (effPT a ptv0) ld with
            | error e => exact GoodFD.same hi ha _
            | ok r =>
              cases r with
              | some d => exact GoodFD.same hi ha _
              | none =>
                simp only []
                cases hcr : createDest st (destName id a) url (effPT a ptv0) with
                | error e => exact GoodFD.same hi ha _
                | ok p =>
                  obtain ⟨st', d⟩ := p
                  obtain ⟨hi', hfr, hnotin, rfl, hown⟩ := hcreate st' d hcr
                  refine ⟨hi', ⟨fun l hl => ha.of l hl, fun l hl => ?_⟩, hfr⟩
                  have : ld ++ [d] = l := by simpa using hl
                  subst this
                  refine ⟨nodup_snoc hnd (fun hm => hnotin ((hmem d).mp hm).1), fun x => ?_⟩
                  simp only [List.mem_append, List.mem_singleton, hmem]
                  constructor
                  · rintro (⟨hx, ho⟩ | rfl)
                    · exact ⟨Or.inl hx, ho⟩
                    · exact ⟨Or.inr rfl, hown.mpr how⟩
                  · rintro ⟨hx | rfl, ho⟩
                    · exact Or.inl ⟨hx, ho⟩
                    · exact Or.inr rfl
        | false =>
          simp only [Bool.false_eq_true, if_false]
          cases hcr : createDest st (destName id a) url (effPT a ptv0) with
          | error e => exact GoodFD.same hi ha _
          | ok p =>
            obtain ⟨st', d⟩ := p
            obtain ⟨hi', hfr, hnotin, rfl, hown⟩ := hcreate st' d hcr
            refine ⟨hi', ⟨fun l hl => ha.of l hl, fun l hl => ⟨(ha.od l hl).1, fun x => ?_⟩⟩, hfr⟩
            rw [(ha.od l hl).2 x]
            simp only [List.mem_append, List.mem_singleton]
            constructor
            · rintro ⟨hx, ho⟩; exact ⟨Or.inl hx, ho⟩
            · rintro ⟨hx | rfl, ho⟩
              · exact ⟨hx, ho⟩
              · have := hown.mp ho; simp [how] at this

/-! #### remove_filter / remove_destinations -/

theorem goodFD_removeFilter {id : Str} {st : Store} {o : Owned} (hi : FDInv st) (ha : AgreeFD id st o)
    (reg : Bool) (p : Path) (wp : NotOthers .filt id p.name) :
    GoodFD id st (stepRemoveFilter reg st o p) := by
  unfold stepRemoveFilter
  cases reg with
  | false => exact GoodFD.same hi ha _
  | true =>
    simp only [Bool.not_true, Bool.false_eq_true, if_false]
    by_cases h1 : st.filtReferenced p = true
    · simp only [h1, if_true]; exact GoodFD.same hi ha _
    simp only [h1, Bool.false_eq_true, if_false]
    cases hd : delFilt st p with
    | error e => exact GoodFD.same hi ha _
    | ok st' =>
      obtain ⟨_, _, rfl⟩ := delFilt_ok hd
      have hinv : FDInv { st with filts := st.filts.filter (fun f => f.path != p) } :=
        ⟨List.Nodup.sublist (List.Sublist.map _ List.filter_sublist) hi.fnd, hi.dnd⟩
      have hframe : FrameFD id st { st with filts := st.filts.filter (fun f => f.path != p) } := by
        refine ⟨fun _ _ _ _ => Iff.rfl, ?_⟩
        intro j hj hcj x
        simp only [List.mem_filter, bne_iff_ne, ne_eq]
        constructor
        · rintro ⟨⟨hx, _⟩, ho⟩; exact ⟨hx, ho⟩
        · rintro ⟨hx, ho⟩; exact ⟨⟨hx, fun e => wp j hj hcj (e ▸ ho)⟩, ho⟩
      cases hof : o.of with
      | none => exact ⟨hinv, ⟨fun l hl => by simp [hof] at hl, ha.od⟩, hframe⟩
      | some lf =>
        simp only []
        obtain ⟨hnd, hmem⟩ := ha.of lf hof
        refine ⟨hinv, ⟨fun l hl => ?_, fun l hl => ha.od l hl⟩, hframe⟩
        have : lf.filter (fun f => f.path != p) = l := by simpa using hl
        subst this
        refine ⟨hnd.sublist List.filter_sublist, fun x => ?_⟩
        simp only [List.mem_filter, hmem]
        constructor
        · rintro ⟨⟨hx, ho⟩, hp⟩; exact ⟨⟨hx, hp⟩, ho⟩
        · rintro ⟨⟨hx, hp⟩, ho⟩; exact ⟨⟨hx, ho⟩, hp⟩

theorem goodFD_removeDest1 {id : Str} {st : Store} {o : Owned} (hi : FDInv st) (ha : AgreeFD id st o)
    (reg : Bool) (p : Path) (wp : NotOthers .dest id p.name) :
    GoodFD id st (stepRemoveDest1 reg st o p) := by
  unfold stepRemoveDest1
  cases reg with
  | false => exact GoodFD.same hi ha _
  | true =>
    simp only [Bool.not_true, Bool.false_eq_true, if_false]
    by_cases h1 : st.destReferenced p = true
    · simp only [h1, if_true]; exact GoodFD.same hi ha _
    simp only [h1, Bool.false_eq_true, if_false]
    cases hd : delDest st p with
    | error e => exact GoodFD.same hi ha _
    | ok st' =>
      obtain ⟨_, _, rfl⟩ := delDest_ok hd
      have hinv : FDInv { st with dests := st.dests.filter (fun d => d.path != p) } :=
        ⟨hi.fnd, List.Nodup.sublist (List.Sublist.map _ List.filter_sublist) hi.dnd⟩
      have hframe : FrameFD id st { st with dests := st.dests.filter (fun d => d.path != p) } := by
        refine ⟨?_, fun _ _ _ _ => Iff.rfl⟩
        intro j hj hcj x
        simp only [List.mem_filter, bne_iff_ne, ne_eq]
        constructor
        · rintro ⟨⟨hx, _⟩, ho⟩; exact ⟨hx, ho⟩
        · rintro ⟨hx, ho⟩; exact ⟨⟨hx, fun e => wp j hj hcj (e ▸ ho)⟩, ho⟩
      cases hod : o.od with
      | none => exact ⟨hinv, ⟨ha.of, fun l hl => by simp [hod] at hl⟩, hframe⟩
      | some ld =>
        simp only []
        obtain ⟨hnd, hmem⟩ := ha.od ld hod
        refine ⟨hinv, ⟨fun l hl => ha.of l hl, fun l hl => ?_⟩, hframe⟩
        have : ld.filter (fun d => d.path != p) = l := by simpa using hl
        subst this
        refine ⟨hnd.sublist List.filter_sublist, fun x => ?_⟩
        simp only [List.mem_filter, hmem]
        constructor
        · rintro ⟨⟨hx, ho⟩, hp⟩; exact ⟨⟨hx, hp⟩, ho⟩
        · rintro ⟨⟨hx, hp⟩, ho⟩; exact ⟨⟨hx, ho⟩, hp⟩

theorem goodFD_removeDestList {id : Str} (reg : Bool) :
    ∀ (ps : List Path) (st : Store) (o : Owned), FDInv st → AgreeFD id st o →
      (∀ p ∈ ps, NotOthers .dest id p.name) → GoodFD id st (stepRemoveDestList reg st o ps) := by
  intro ps
  induction ps with
  | nil => intro st o hi ha _; exact GoodFD.same hi ha _
  | cons p rest ih =>
    intro st o hi ha hw
    have h1 := goodFD_removeDest1 hi ha reg p (hw p (by simp))
    unfold stepRemoveDestList
    generalize stepRemoveDest1 reg st o p = r1 at h1
    obtain ⟨st1, o1, out1⟩ := r1
    cases out1 with
    | done =>
      simp only []
      exact h1.trans (ih st1 o1 h1.inv h1.agree (fun x hx => hw x (by simp [hx])))
    | _ => exact h1

theorem goodFD_removeDests {id : Str} {st : Store} {o : Owned} (hi : FDInv st) (ha : AgreeFD id st o)
    (reg : Bool) (sel : PathSel)
    (wp : ∀ p, (sel = .one p ∨ ∃ ps, sel = .many ps ∧ p ∈ ps) → NotOthers .dest id p.name) :
    GoodFD id st (stepRemoveDests reg st o sel) := by
  unfold stepRemoveDests
  cases reg with
  | false => exact GoodFD.same hi ha _
  | true =>
    simp only [Bool.not_true, Bool.false_eq_true, if_false]
    cases sel with
    | one p => exact goodFD_removeDest1 hi ha true p (wp p (Or.inl rfl))
    | many ps => exact goodFD_removeDestList true ps st o hi ha (fun p hp => wp p (Or.inr ⟨ps, rfl, hp⟩))

end Proofs.SubMgr
