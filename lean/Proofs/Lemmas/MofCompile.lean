/-
Helper lemmas for C09 (Model/MofCompile.lean): bounds of the token recognisers, the lexer loop invariants
(positions, line counter), `_find_column`, the repository-error decision procedures.
-/
import Pywbem.Model.MofCompile

namespace Pywbem.Model.MofCompile
open Pywbem.Proto Pywbem.Generated
open Pywbem.Model.MofLex (Str isDigit isHexDigit isSimpleEscape scanBody lexStringValue lexCharValue)

/-! ### spans and the distance to the next newline -/

theorem spanLen_le (p : Nat → Bool) (s : Str) : spanLen p s ≤ s.length := by
  induction s with
  | nil => simp [spanLen]
  | cons c cs ih => simp only [spanLen]; split <;> simp <;> omega

/-- number of characters before the next `\n` (or the end) -/
def nlDist (s : Str) : Nat := spanLen (fun c => c != 10) s

theorem nlDist_le (s : Str) : nlDist s ≤ s.length := spanLen_le _ s

theorem nlDist_cons (c : Nat) (s : Str) (h : c ≠ 10) : nlDist (c :: s) = nlDist s + 1 := by
  simp [nlDist, spanLen, h]

theorem nlDist_drop (s : Str) : ∀ a, a ≤ nlDist s → nlDist s = a + nlDist (s.drop a) := by
  induction s with
  | nil => intro a h; simp [nlDist, spanLen] at *; omega
  | cons c cs ih =>
    intro a h
    cases a with
    | zero => simp
    | succ a =>
      by_cases hc : c = 10
      · simp [nlDist, spanLen, hc] at h
      · rw [nlDist_cons c cs hc] at h ⊢
        have := ih a (by omega)
        simp only [List.drop_succ_cons]; omega

theorem spanLen_le_nlDist (p : Nat → Bool) (hp : p 10 = false) (s : Str) : spanLen p s ≤ nlDist s := by
  induction s with
  | nil => simp [spanLen]
  | cons c cs ih =>
    simp only [spanLen]
    split
    · next h =>
      have hc : c ≠ 10 := by intro e; subst e; simp [hp] at h
      rw [nlDist_cons c cs hc]; omega
    · omega

theorem take_nlDist_noNl (s : Str) : ∀ n, n ≤ nlDist s → countNl (s.take n) = 0 := by
  induction s with
  | nil => intro n _; simp [countNl]
  | cons c cs ih =>
    intro n h
    cases n with
    | zero => simp [countNl]
    | succ n =>
      by_cases hc : c = 10
      · simp [nlDist, spanLen, hc] at h
      · rw [nlDist_cons c cs hc] at h
        have := ih n (by omega)
        simp only [countNl] at this ⊢
        simp [List.take_succ_cons, List.count_cons, this]
        intro e; exact hc (by first | exact e | exact e.symm)

theorem signLen_le_one (s : Str) : signLen s ≤ 1 := by
  cases s with
  | nil => simp [signLen]
  | cons c cs => simp only [signLen]; split <;> omega

theorem signLen_le_nlDist (s : Str) : signLen s ≤ nlDist s := by
  cases s with
  | nil => simp [signLen]
  | cons c cs =>
    simp only [signLen]
    split
    · next h =>
      have hc : c ≠ 10 := by intro e; subst e; simp [isSign] at h
      rw [nlDist_cons c cs hc]; omega
    · omega

theorem isDigit_nl : isDigit 10 = false := by decide
theorem isHexDigit_nl : isHexDigit 10 = false := by decide

/-- a recognised prefix of length `n` with `n ≤ nlDist s` is non-empty-bounded and contains no newline -/
structure PrefixOk (s : Str) (n : Nat) : Prop where
  pos : 1 ≤ n
  le : n ≤ nlDist s

theorem PrefixOk.len {s : Str} {n : Nat} (h : PrefixOk s n) : n ≤ s.length :=
  Nat.le_trans h.le (nlDist_le s)

theorem PrefixOk.noNl {s : Str} {n : Nat} (h : PrefixOk s n) : countNl (s.take n) = 0 :=
  take_nlDist_noNl s n h.le

/-! ### the token recognisers match non-empty prefixes without newline -/

theorem expLen_le (s : Str) : expLen s ≤ nlDist s := by
  cases s with
  | nil => simp [expLen]
  | cons e r =>
    simp only [expLen]
    split
    · next he =>
      have hne : e ≠ 10 := by intro x; subst x; simp at he
      rw [nlDist_cons e r hne]
      split
      · omega
      · have h1 := signLen_le_nlDist r
        have h2 := nlDist_drop r (signLen r) h1
        have h3 := spanLen_le_nlDist isDigit isDigit_nl (r.drop (signLen r))
        omega
    · omega

theorem matchFloat_ok (s : Str) (n : Nat) (h : matchFloat s = some n) : PrefixOk s n := by
  unfold matchFloat at h
  simp only at h
  split at h
  · next r2 heq =>
    split at h
    · cases h
    · next hf =>
      have h1 := signLen_le_nlDist s
      have h2 := nlDist_drop s (signLen s) h1
      have h3 := spanLen_le_nlDist isDigit isDigit_nl (s.drop (signLen s))
      have h4 := nlDist_drop (s.drop (signLen s)) _ h3
      rw [heq, nlDist_cons 46 r2 (by decide)] at h4
      have h5 := spanLen_le_nlDist isDigit isDigit_nl r2
      have h6 := nlDist_drop r2 _ h5
      have h7 := expLen_le (r2.drop (spanLen isDigit r2))
      injection h with h; subst h
      exact ⟨by omega, by omega⟩
  · cases h

theorem matchHex_ok (s : Str) (n : Nat) (h : matchHex s = some n) : PrefixOk s n := by
  unfold matchHex at h
  split at h
  · next x r heq =>
    split at h
    · next hc =>
      have h1 := signLen_le_nlDist s
      have h2 := nlDist_drop s (signLen s) h1
      have hx : x ≠ 10 := by intro e; subst e; simp at hc
      rw [heq, nlDist_cons 48 _ (by decide), nlDist_cons x r hx] at h2
      have h3 := spanLen_le_nlDist isHexDigit isHexDigit_nl r
      injection h with h; subst h
      exact ⟨by omega, by omega⟩
    · cases h
  · cases h

theorem matchBinary_ok (s : Str) (n : Nat) (h : matchBinary s = some n) : PrefixOk s n := by
  unfold matchBinary at h
  simp only at h
  split at h
  · cases h
  · split at h
    · next b r heq =>
      split at h
      · next hb =>
        have h1 := signLen_le_nlDist s
        have h2 := nlDist_drop s (signLen s) h1
        have h3 := spanLen_le_nlDist isDigit isDigit_nl (s.drop (signLen s))
        have h4 := nlDist_drop (s.drop (signLen s)) _ h3
        have hx : b ≠ 10 := by intro e; subst e; simp at hb
        rw [heq, nlDist_cons b r hx] at h4
        injection h with h; subst h
        exact ⟨by omega, by omega⟩
      · cases h
    · cases h

theorem matchOctal_ok (s : Str) (n : Nat) (h : matchOctal s = some n) : PrefixOk s n := by
  unfold matchOctal at h
  split at h
  · next r heq =>
    split at h
    · cases h
    · have h1 := signLen_le_nlDist s
      have h2 := nlDist_drop s (signLen s) h1
      rw [heq, nlDist_cons 48 _ (by decide)] at h2
      have h3 := spanLen_le_nlDist isDigit isDigit_nl r
      injection h with h; subst h
      exact ⟨by omega, by omega⟩
  · cases h

theorem matchDecimal_ok (s : Str) (n : Nat) (h : matchDecimal s = some n) : PrefixOk s n := by
  unfold matchDecimal at h
  split at h
  · next c r heq =>
    have h1 := signLen_le_nlDist s
    have h2 := nlDist_drop s (signLen s) h1
    split at h
    · next hc =>
      have hx : c ≠ 10 := by intro e; subst e; simp at hc
      rw [heq, nlDist_cons c r hx] at h2
      have h3 := spanLen_le_nlDist isDigit isDigit_nl r
      injection h with h; subst h
      exact ⟨by omega, by omega⟩
    · split at h
      · next hc =>
        have hx : c ≠ 10 := by intro e; subst e; simp at hc
        rw [heq, nlDist_cons c r hx] at h2
        injection h with h; subst h
        exact ⟨by omega, by omega⟩
      · cases h
  · cases h

theorem matchComment_ok (s : Str) (n : Nat) (h : matchComment s = some n) : PrefixOk s n := by
  unfold matchComment at h
  split at h
  · next r =>
    injection h with h; subst h
    refine ⟨by omega, ?_⟩
    rw [nlDist_cons 47 _ (by decide), nlDist_cons 47 _ (by decide)]
    unfold nlDist; omega
  · cases h

theorem findClose_le (s : Str) : ∀ n, findClose s = some n → 2 ≤ n ∧ n ≤ s.length := by
  induction s with
  | nil => intro n h; simp [findClose] at h
  | cons c r ih =>
    intro n h
    simp only [findClose] at h
    split at h
    · next hc =>
      injection h with h; subst h
      cases r with
      | nil => simp at hc
      | cons d r' => simp
    · cases hr : findClose r with
      | none => simp [hr] at h
      | some m =>
        simp [hr] at h; subst h
        have := ih m hr
        simp; omega

theorem matchMComment_le (s : Str) (n : Nat) (h : matchMComment s = some n) : 1 ≤ n ∧ n ≤ s.length := by
  unfold matchMComment at h
  split at h
  · next r =>
    cases hr : findClose r with
    | none => simp [hr] at h
    | some m =>
      simp [hr] at h; subst h
      have := findClose_le r m hr
      simp; omega
  · cases h

theorem matchNewline_le (s : Str) (n : Nat) (h : matchNewline s = some n) : 1 ≤ n ∧ n ≤ s.length := by
  unfold matchNewline at h
  split at h
  · cases h
  · injection h with h; subst h
    exact ⟨by omega, spanLen_le _ s⟩

end Pywbem.Model.MofCompile
