/-
Helper lemmas for C09 (Model/MofCompile.lean): bounds of the token recognisers, the lexer loop invariants
(positions, line counter), `_find_column`, the repository-error decision procedures.
-/
import Pywbem.Model.MofCompile

set_option linter.unusedSimpArgs false

namespace Pywbem.Model.MofCompile
open Pywbem.Proto Pywbem.Generated
open Pywbem.Model.MofLex (Str isDigit isHexDigit isSimpleEscape scanBody lexStringValue lexCharValue)

/-! ### spans and the distance to the next newline -/

theorem spanLen_le (p : Nat → Bool) (s : Str) : spanLen p s ≤ s.length := by
  induction s with
  | nil => simp [spanLen]
  | cons c cs ih => simp only [spanLen]; split <;> simp <;> omega

/-- number of characters before the next `\n` (or the end) -/
def nlDist (s : Str) : Nat := spanLen (fun c => c != 10) s

theorem nlDist_le (s : Str) : nlDist s ≤ s.length := spanLen_le _ s

theorem nlDist_cons (c : Nat) (s : Str) (h : c ≠ 10) : nlDist (c :: s) = nlDist s + 1 := by
  simp [nlDist, spanLen, h]

theorem nlDist_drop (s : Str) : ∀ a, a ≤ nlDist s → nlDist s = a + nlDist (s.drop a) := by
  induction s with
  | nil => intro a h; simp [nlDist, spanLen] at *; omega
  | cons c cs ih =>
    intro a h
    cases a with
    | zero => simp
    | succ a =>
      by_cases hc : c = 10
      · simp [nlDist, spanLen, hc] at h
      · rw [nlDist_cons c cs hc] at h ⊢
        have := ih a (by omega)
        simp only [List.drop_succ_cons]; omega

theorem spanLen_le_nlDist (p : Nat → Bool) (hp : p 10 = false) (s : Str) : spanLen p s ≤ nlDist s := by
  induction s with
  | nil => simp [spanLen]
  | cons c cs ih =>
    simp only [spanLen]
    split
    · next h =>
      have hc : c ≠ 10 := by intro e; subst e; simp [hp] at h
      rw [nlDist_cons c cs hc]; omega
    · omega

theorem take_nlDist_noNl (s : Str) : ∀ n, n ≤ nlDist s → countNl (s.take n) = 0 := by
  induction s with
  | nil => intro n _; simp [countNl]
  | cons c cs ih =>
    intro n h
    cases n with
    | zero => simp [countNl]
    | succ n =>
      by_cases hc : c = 10
      · simp [nlDist, spanLen, hc] at h
      · rw [nlDist_cons c cs hc] at h
        have := ih n (by omega)
        simp only [countNl] at this ⊢
        simp [List.take_succ_cons, List.count_cons, this]
        intro e; exact hc (by first | exact e | exact e.symm)

theorem signLen_le_one (s : Str) : signLen s ≤ 1 := by
  cases s with
  | nil => simp [signLen]
  | cons c cs => simp only [signLen]; split <;> omega

theorem signLen_le_nlDist (s : Str) : signLen s ≤ nlDist s := by
  cases s with
  | nil => simp [signLen]
  | cons c cs =>
    simp only [signLen]
    split
    · next h =>
      have hc : c ≠ 10 := by intro e; subst e; simp [isSign] at h
      rw [nlDist_cons c cs hc]; omega
    · omega

theorem isDigit_nl : isDigit 10 = false := by decide
theorem isHexDigit_nl : isHexDigit 10 = false := by decide

/-- a recognised prefix of length `n` with `n ≤ nlDist s` is non-empty-bounded and contains no newline -/
structure PrefixOk (s : Str) (n : Nat) : Prop where
  pos : 1 ≤ n
  le : n ≤ nlDist s

theorem PrefixOk.len {s : Str} {n : Nat} (h : PrefixOk s n) : n ≤ s.length :=
  Nat.le_trans h.le (nlDist_le s)

theorem PrefixOk.noNl {s : Str} {n : Nat} (h : PrefixOk s n) : countNl (s.take n) = 0 :=
  take_nlDist_noNl s n h.le

/-! ### the token recognisers match non-empty prefixes without newline -/

theorem expLen_le (s : Str) : expLen s ≤ nlDist s := by
  cases s with
  | nil => simp [expLen]
  | cons e r =>
    simp only [expLen]
    split
    · next he =>
      have hne : e ≠ 10 := by intro x; subst x; simp at he
      rw [nlDist_cons e r hne]
      split
      · omega
      · have h1 := signLen_le_nlDist r
        have h2 := nlDist_drop r (signLen r) h1
        have h3 := spanLen_le_nlDist isDigit isDigit_nl (r.drop (signLen r))
        omega
    · omega

theorem matchFloat_ok (s : Str) (n : Nat) (h : matchFloat s = some n) : PrefixOk s n := by
  unfold matchFloat at h
  simp only at h
  split at h
  · next r2 heq =>
    split at h
    · cases h
    · next hf =>
      have h1 := signLen_le_nlDist s
      have h2 := nlDist_drop s (signLen s) h1
      have h3 := spanLen_le_nlDist isDigit isDigit_nl (s.drop (signLen s))
      have h4 := nlDist_drop (s.drop (signLen s)) _ h3
      rw [heq, nlDist_cons 46 r2 (by decide)] at h4
      have h5 := spanLen_le_nlDist isDigit isDigit_nl r2
      have h6 := nlDist_drop r2 _ h5
      have h7 := expLen_le (r2.drop (spanLen isDigit r2))
      injection h with h; subst h
      exact ⟨by omega, by omega⟩
  · cases h

theorem matchHex_ok (s : Str) (n : Nat) (h : matchHex s = some n) : PrefixOk s n := by
  unfold matchHex at h
  split at h
  · next x r heq =>
    split at h
    · next hc =>
      have h1 := signLen_le_nlDist s
      have h2 := nlDist_drop s (signLen s) h1
      have hx : x ≠ 10 := by intro e; subst e; simp at hc
      rw [heq, nlDist_cons 48 _ (by decide), nlDist_cons x r hx] at h2
      have h3 := spanLen_le_nlDist isHexDigit isHexDigit_nl r
      injection h with h; subst h
      exact ⟨by omega, by omega⟩
    · cases h
  · cases h

theorem matchBinary_ok (s : Str) (n : Nat) (h : matchBinary s = some n) : PrefixOk s n := by
  unfold matchBinary at h
  simp only at h
  split at h
  · cases h
  · split at h
    · next b r heq =>
      split at h
      · next hb =>
        have h1 := signLen_le_nlDist s
        have h2 := nlDist_drop s (signLen s) h1
        have h3 := spanLen_le_nlDist isDigit isDigit_nl (s.drop (signLen s))
        have h4 := nlDist_drop (s.drop (signLen s)) _ h3
        have hx : b ≠ 10 := by intro e; subst e; simp at hb
        rw [heq, nlDist_cons b r hx] at h4
        injection h with h; subst h
        exact ⟨by omega, by omega⟩
      · cases h
    · cases h

theorem matchOctal_ok (s : Str) (n : Nat) (h : matchOctal s = some n) : PrefixOk s n := by
  unfold matchOctal at h
  split at h
  · next r heq =>
    split at h
    · cases h
    · have h1 := signLen_le_nlDist s
      have h2 := nlDist_drop s (signLen s) h1
      rw [heq, nlDist_cons 48 _ (by decide)] at h2
      have h3 := spanLen_le_nlDist isDigit isDigit_nl r
      injection h with h; subst h
      exact ⟨by omega, by omega⟩
  · cases h

theorem matchDecimal_ok (s : Str) (n : Nat) (h : matchDecimal s = some n) : PrefixOk s n := by
  unfold matchDecimal at h
  split at h
  · next c r heq =>
    have h1 := signLen_le_nlDist s
    have h2 := nlDist_drop s (signLen s) h1
    split at h
    · next hc =>
      have hx : c ≠ 10 := by intro e; subst e; simp at hc
      rw [heq, nlDist_cons c r hx] at h2
      have h3 := spanLen_le_nlDist isDigit isDigit_nl r
      injection h with h; subst h
      exact ⟨by omega, by omega⟩
    · split at h
      · next hc =>
        have hx : c ≠ 10 := by intro e; subst e; simp at hc
        rw [heq, nlDist_cons c r hx] at h2
        injection h with h; subst h
        exact ⟨by omega, by omega⟩
      · cases h
  · cases h

theorem matchComment_ok (s : Str) (n : Nat) (h : matchComment s = some n) : PrefixOk s n := by
  unfold matchComment at h
  split at h
  · next r =>
    injection h with h; subst h
    refine ⟨by omega, ?_⟩
    rw [nlDist_cons 47 _ (by decide), nlDist_cons 47 _ (by decide)]
    unfold nlDist; omega
  · cases h

theorem findClose_le (s : Str) : ∀ n, findClose s = some n → 2 ≤ n ∧ n ≤ s.length := by
  induction s with
  | nil => intro n h; simp [findClose] at h
  | cons c r ih =>
    intro n h
    simp only [findClose] at h
    split at h
    · next hc =>
      injection h with h; subst h
      cases r with
      | nil => simp at hc
      | cons d r' => simp
    · cases hr : findClose r with
      | none => simp [hr] at h
      | some m =>
        simp [hr] at h; subst h
        have := ih m hr
        simp; omega

theorem matchMComment_le (s : Str) (n : Nat) (h : matchMComment s = some n) : 1 ≤ n ∧ n ≤ s.length := by
  unfold matchMComment at h
  split at h
  · next r =>
    cases hr : findClose r with
    | none => simp [hr] at h
    | some m =>
      simp [hr] at h; subst h
      have := findClose_le r m hr
      simp; omega
  · cases h

theorem matchNewline_le (s : Str) (n : Nat) (h : matchNewline s = some n) : 1 ≤ n ∧ n ≤ s.length := by
  unfold matchNewline at h
  split at h
  · cases h
  · injection h with h; subst h
    exact ⟨by omega, spanLen_le _ s⟩

theorem nlDist_ge2 (c a : Nat) (r : Str) (hc : c ≠ 10) (ha : a ≠ 10) : 2 ≤ nlDist (c :: a :: r) := by
  rw [nlDist_cons c _ hc, nlDist_cons a _ ha]; omega
theorem nlDist_ge3 (c a b : Nat) (r : Str) (hc : c ≠ 10) (ha : a ≠ 10) (hb : b ≠ 10) : 3 ≤ nlDist (c :: a :: b :: r) := by
  rw [nlDist_cons c _ hc, nlDist_cons a _ ha, nlDist_cons b _ hb]; omega
theorem nlDist_ge4 (c a b d : Nat) (r : Str) (hc : c ≠ 10) (ha : a ≠ 10) (hb : b ≠ 10) (hd : d ≠ 10) :
    4 ≤ nlDist (c :: a :: b :: d :: r) := by
  rw [nlDist_cons c _ hc, nlDist_cons a _ ha, nlDist_cons b _ hb, nlDist_cons d _ hd]; omega

theorem utf8Len_le (s : Str) : utf8Len s ≤ nlDist s := by
  unfold utf8Len
  split
  · simp
  · repeat' split
    all_goals first
      | omega
      | (apply nlDist_ge2 <;> simp_all [inR, isCont] <;> omega)
      | (apply nlDist_ge3 <;> simp_all [inR, isCont] <;> omega)
      | (apply nlDist_ge4 <;> simp_all [inR, isCont] <;> omega)

theorem isIdChar_ne_nl (c : Nat) (h : isIdChar c = true) : c ≠ 10 := by
  intro e; subst e; revert h; decide

theorem isIdStart_ne_nl (c : Nat) (h : isIdStart c = true) : c ≠ 10 := by
  intro e; subst e; revert h; decide

theorem identRest_le : ∀ (f : Nat) (s : Str), identRest f s ≤ nlDist s := by
  intro f
  induction f with
  | zero => intro s; simp [identRest]
  | succ f ih =>
    intro s
    cases s with
    | nil => simp [identRest]
    | cons c r =>
      simp only [identRest]
      split
      · next hc =>
        rw [nlDist_cons c r (isIdChar_ne_nl c hc)]
        have := ih r; omega
      · split
        · omega
        · have h1 := utf8Len_le (c :: r)
          have h2 := nlDist_drop (c :: r) _ h1
          have h3 := ih ((c :: r).drop (utf8Len (c :: r)))
          omega

theorem matchIdent_ok (s : Str) (n : Nat) (h : matchIdent s = some n) : PrefixOk s n := by
  unfold matchIdent at h
  split at h
  · cases h
  · next c r =>
    split at h
    · next hc =>
      injection h with h; subst h
      have h0 := nlDist_cons c r (isIdStart_ne_nl c hc)
      have := identRest_le r.length r
      exact ⟨by omega, by omega⟩
    · split at h
      · cases h
      · next hu =>
        injection h with h; subst h
        have h1 := utf8Len_le (c :: r)
        have h2 := nlDist_drop (c :: r) _ h1
        have h3 := identRest_le r.length ((c :: r).drop (utf8Len (c :: r)))
        exact ⟨by omega, by omega⟩

theorem isSimpleEscape_ne_nl (d : Nat) (h : isSimpleEscape d = true) : d ≠ 10 := by
  intro e; subst e; revert h; decide

theorem isHexDigit_ne_nl (d : Nat) (h : isHexDigit d = true) : d ≠ 10 := by
  intro e; subst e; revert h; decide

/-- the body of a string/char literal plus its closing quote lie before the next newline -/
theorem scanBody_le (q : Nat) (hq : q ≠ 10) : ∀ (n : Nat) (s : Str), s.length ≤ n → ∀ (r : Str × Str),
    scanBody q s = some r → r.1.length + 1 ≤ nlDist s := by
  intro n
  induction n with
  | zero =>
    intro s hs r h
    cases s with
    | nil => simp [scanBody] at h
    | cons c cs => simp at hs
  | succ n ih =>
    intro s hs r h
    cases s with
    | nil => simp [scanBody] at h
    | cons c cs =>
      unfold scanBody at h
      split at h
      · next hc => injection h with h; subst h; subst hc; simp [nlDist_cons c cs hq]
      · next hcq =>
        split at h
        · next hc =>
          subst hc
          split at h
          · cases h
          · next d ds =>
            split at h
            · next hd =>
              cases hr : scanBody q ds with
              | none => simp [hr] at h
              | some r' =>
                simp [hr] at h; subst h
                have := ih ds (by simp at hs; omega) r' hr
                rw [nlDist_cons 92 _ (by decide), nlDist_cons d _ (isSimpleEscape_ne_nl d hd)]
                simp; omega
            · split at h
              · next hx =>
                split at h
                · cases h
                · next hh hs' =>
                  split at h
                  · next hhex =>
                    cases hr : scanBody q hs' with
                    | none => simp [hr] at h
                    | some r' =>
                      simp [hr] at h; subst h
                      have := ih hs' (by simp at hs; omega) r' hr
                      have hd : d ≠ 10 := by rcases hx with e | e <;> omega
                      rw [nlDist_cons 92 _ (by decide), nlDist_cons d _ hd, nlDist_cons hh _ (isHexDigit_ne_nl hh hhex)]
                      simp; omega
                  · cases h
              · cases h
        · split at h
          · cases h
          · next hnl =>
            cases hr : scanBody q cs with
            | none => simp [hr] at h
            | some r' =>
              simp [hr] at h; subst h
              have := ih cs (by simp at hs; omega) r' hr
              rw [nlDist_cons c _ (by omega)]
              simp; omega

theorem lexStringValue_ok (s : Str) (r : Str × Str) (h : lexStringValue s = some r) : PrefixOk s r.1.length := by
  unfold lexStringValue at h
  split at h
  · next cs =>
    cases hr : scanBody 34 cs with
    | none => simp [hr] at h
    | some r' =>
      simp [hr] at h; subst h
      have := scanBody_le 34 (by decide) cs.length cs (Nat.le_refl _) r' hr
      have h0 := nlDist_cons 34 cs (by decide)
      exact ⟨by simp, by simp; omega⟩
  · cases h

theorem nlDist_cons_ge (c : Nat) (s : Str) (k : Nat) (hc : c ≠ 10) (h : k ≤ nlDist s) : k + 1 ≤ nlDist (c :: s) := by
  rw [nlDist_cons c s hc]; omega

theorem lexCharValue_ok (s : Str) (r : Str × Str) (h : lexCharValue s = some r) : PrefixOk s r.1.length := by
  unfold lexCharValue at h
  repeat' split at h
  all_goals first
    | (cases h; done)
    | (cases h
       refine ⟨by simp, ?_⟩
       simp only [List.length_cons, List.length_nil]
       repeat' (first | (refine nlDist_cons_ge _ _ _ ?_ ?_) | exact Nat.zero_le _)
       all_goals first
         | decide
         | omega
         | (intro e; subst e; simp_all (config := {decide := true})))

/-! ### one step of the lexer -/

theorem matchNewline_none_head (c : Nat) (cs : Str) (h : matchNewline (c :: cs) = none) : c ≠ 10 := by
  intro e; subst e
  simp [matchNewline, spanLen] at h

/-- every token rule consumes at least one character, stays inside the input, and only `\n+` and `/* */` tokens
    contain newlines -/
theorem lexAt_spec (s : Str) (hs : s ≠ []) :
    1 ≤ (lexAt s).2 ∧ (lexAt s).2 ≤ s.length ∧
    ((lexAt s).1 ≠ .newline → (lexAt s).1 ≠ .mcomment → countNl (s.take (lexAt s).2) = 0) := by
  unfold lexAt
  split
  · next n h => have := matchComment_ok s n h; exact ⟨this.pos, this.len, fun _ _ => this.noNl⟩
  split
  · next n h => have := matchMComment_le s n h; exact ⟨this.1, this.2, fun _ h2 => absurd rfl h2⟩
  split
  · next n h => have := matchFloat_ok s n h; exact ⟨this.pos, this.len, fun _ _ => this.noNl⟩
  split
  · next n h => have := matchHex_ok s n h; exact ⟨this.pos, this.len, fun _ _ => this.noNl⟩
  split
  · next n h => have := matchBinary_ok s n h; exact ⟨this.pos, this.len, fun _ _ => this.noNl⟩
  split
  · next n h => have := matchOctal_ok s n h; exact ⟨this.pos, this.len, fun _ _ => this.noNl⟩
  split
  · next n h => have := matchDecimal_ok s n h; exact ⟨this.pos, this.len, fun _ _ => this.noNl⟩
  split
  · next r h => have := lexCharValue_ok s r h; exact ⟨this.pos, this.len, fun _ _ => this.noNl⟩
  split
  · next r h => have := lexStringValue_ok s r h; exact ⟨this.pos, this.len, fun _ _ => this.noNl⟩
  split
  · next n h => have := matchIdent_ok s n h; exact ⟨this.pos, this.len, fun _ _ => this.noNl⟩
  split
  · next n h => have := matchNewline_le s n h; exact ⟨this.1, this.2, fun h1 _ => absurd rfl h1⟩
  · next hnl =>
    cases s with
    | nil => exact absurd rfl hs
    | cons c cs =>
      have hc := matchNewline_none_head c cs hnl
      have h1 : countNl ((c :: cs).take 1) = 0 := by
        simp [countNl, List.count_cons]; intro e; exact hc (by first | exact e | exact e.symm)
      simp only []
      split <;> exact ⟨by omega, by simp, fun _ _ => h1⟩

/-! ### the lexer loop -/

theorem mofIgnore_ne_nl (c : Nat) (h : mofIgnore.contains c = true) : c ≠ 10 := by
  intro e; subst e; revert h; decide

theorem countNl_take_add (s : Str) (a b : Nat) :
    countNl (s.take (a + b)) = countNl (s.take a) + countNl ((s.drop a).take b) := by
  simp [countNl, List.take_add]

/-- the line bookkeeping of one lexer step: the new line counter always equals the old one plus the newlines
    of the consumed text (explicitly for `\n+` and comments, because no other token contains a newline) -/
theorem step_line (s : Str) (hs : s ≠ []) (line : Nat) :
    (if (lexAt s).1 == .newline || (lexAt s).1 == .mcomment then line + countNl (s.take (lexAt s).2) else line)
      = line + countNl (s.take (lexAt s).2) := by
  have h := (lexAt_spec s hs).2.2
  split
  · rfl
  · next hk =>
    simp at hk
    rw [h hk.1 hk.2]; rfl

theorem lexLoop_inv : ∀ (fuel pos line : Nat) (s : Str) (t : Tok), t ∈ lexLoop fuel pos line s →
    pos ≤ t.pos ∧ t.pos + t.len ≤ pos + s.length ∧ 1 ≤ t.len ∧
    t.line = line + countNl (s.take (t.pos - pos)) := by
  intro fuel
  induction fuel with
  | zero => intro pos line s t h; simp [lexLoop] at h
  | succ fuel ih =>
    intro pos line s t h
    cases s with
    | nil => simp [lexLoop] at h
    | cons c cs =>
      have hs : (c :: cs) ≠ [] := by simp
      have hspec := lexAt_spec (c :: cs) hs
      have hline := step_line (c :: cs) hs line
      have hlen : (c :: cs).length = cs.length + 1 := by simp
      simp only [lexLoop] at h
      split at h
      · next hig =>
        have := ih (pos + 1) line cs t h
        have hc := mofIgnore_ne_nl c hig
        refine ⟨by omega, by simp; omega, this.2.2.1, ?_⟩
        rw [this.2.2.2]
        have e : t.pos - pos = (t.pos - (pos + 1)) + 1 := by omega
        rw [e, List.take_succ_cons]
        simp [countNl, List.count_cons]
        intro x; exact absurd (by first | exact x | exact x.symm) hc
      · rw [hline] at h
        generalize hn : (lexAt (c :: cs)).2 = n at h hspec
        generalize hk : (lexAt (c :: cs)).1 = k at h hspec
        have key : ∀ t', t' ∈ lexLoop fuel (pos + n) (line + countNl ((c :: cs).take n)) ((c :: cs).drop n) →
            pos ≤ t'.pos ∧ t'.pos + t'.len ≤ pos + (c :: cs).length ∧ 1 ≤ t'.len ∧
            t'.line = line + countNl ((c :: cs).take (t'.pos - pos)) := by
          intro t' ht'
          have := ih (pos + n) _ _ t' ht'
          have hl : ((c :: cs).drop n).length = (c :: cs).length - n := by simp
          refine ⟨by omega, by omega, this.2.2.1, ?_⟩
          rw [this.2.2.2]
          have e : t'.pos - pos = n + (t'.pos - (pos + n)) := by omega
          rw [e, countNl_take_add]; omega
        split at h
        · simp at h; subst h
          refine ⟨by simp, by simp; omega, by simp; omega, by simp [countNl]⟩
        · split at h
          · exact key t h
          · next hnd =>
            simp only [List.mem_cons] at h
            rcases h with h | h
            · subst h
              have hz : countNl ((c :: cs).take n) = 0 := by
                apply hspec.2.2
                · intro e; subst e; simp [Kind.discarded] at hnd
                · intro e; subst e; simp [Kind.discarded] at hnd
              refine ⟨by simp, by simp; omega, by simp; omega, ?_⟩
              simp [countNl] at hz ⊢
              exact hz
            · exact key t h

theorem lexLoop_sorted : ∀ (fuel pos line : Nat) (s : Str),
    (lexLoop fuel pos line s).Pairwise (fun a b => a.pos + a.len ≤ b.pos) := by
  intro fuel
  induction fuel with
  | zero => intro pos line s; simp [lexLoop]
  | succ fuel ih =>
    intro pos line s
    cases s with
    | nil => simp [lexLoop]
    | cons c cs =>
      simp only [lexLoop]
      split
      · exact ih _ _ _
      · split
        · simp
        · split
          · exact ih _ _ _
          · refine List.Pairwise.cons ?_ (ih _ _ _)
            intro t' ht'
            have := lexLoop_inv _ _ _ _ t' ht'
            simp; omega

theorem lexLoop_fuel : ∀ (f1 f2 pos line : Nat) (s : Str), s.length < f1 → s.length < f2 →
    lexLoop f1 pos line s = lexLoop f2 pos line s := by
  intro f1
  induction f1 with
  | zero => intro f2 pos line s h; omega
  | succ f1 ih =>
    intro f2 pos line s h1 h2
    cases f2 with
    | zero => omega
    | succ f2 =>
      cases s with
      | nil => simp [lexLoop]
      | cons c cs =>
        have hs : (c :: cs) ≠ [] := by simp
        have hspec := lexAt_spec (c :: cs) hs
        have hd : ((c :: cs).drop (lexAt (c :: cs)).2).length < f1 ∧ ((c :: cs).drop (lexAt (c :: cs)).2).length < f2 := by
          simp only [List.length_drop]; simp at h1 h2 hspec ⊢; omega
        simp only [lexLoop]
        split
        · exact ih f2 _ _ cs (by simp at h1; omega) (by simp at h2; omega)
        · split
          · rfl
          · split
            · exact ih f2 _ _ _ hd.1 hd.2
            · rw [ih f2 _ _ _ hd.1 hd.2]

/-! ### `_find_column` -/

theorem scanBack_le (src : Str) : ∀ i, scanBack src i ≤ i := by
  intro i
  induction i with
  | zero => simp [scanBack]
  | succ i ih => simp only [scanBack]; split <;> omega

/-- every index above the stop index of the backward scan (up to the start index) holds no newline -/
theorem scanBack_spec (src : Str) : ∀ i j, scanBack src i < j → j ≤ i → src[j]? ≠ some 10 := by
  intro i
  induction i with
  | zero => intro j h1 h2; simp [scanBack] at h1; omega
  | succ i ih =>
    intro j h1 h2
    simp only [scanBack] at h1
    split at h1
    · omega
    · next hne =>
      by_cases hj : j = i + 1
      · subst hj; simpa using hne
      · exact ih j h1 (by omega)

theorem findColumn_le (src : Str) (pos : Nat) : findColumn src pos ≤ pos := by
  unfold findColumn; omega

/-- the `column` characters in front of the token position contain no newline: the column stays on the token's line -/
theorem findColumn_sameLine (src : Str) (pos : Nat) :
    countNl ((src.take pos).drop (pos - findColumn src pos)) = 0 := by
  unfold countNl
  rw [List.count_eq_zero]
  intro hmem
  rw [List.mem_iff_getElem?] at hmem
  obtain ⟨i, hi⟩ := hmem
  rw [List.getElem?_drop, List.getElem?_take] at hi
  split at hi
  · next hlt =>
    have hsb := scanBack_le src pos
    unfold findColumn at hi hlt
    exact scanBack_spec src pos _ (by omega) (by omega) hi
  · cases hi

/-! ### pragma namespace -/

theorem nsSegments_ne_nil (w : Nat → Bool) (s : Str) (h : nsSegments w false s = true) : s ≠ [] := by
  intro e; subst e; simp [nsSegments] at h

theorem nsName_spec (w : Nat → Bool) (s ns : Str) (h : nsName w s = some ns) :
    nsSegments w false ns = true := by
  unfold nsName at h
  split at h
  · next h1 => injection h with h; subst h; exact h1
  · split at h
    · next h2 =>
      injection h with h; subst h
      simp only [Bool.and_eq_true] at h2
      exact h2.2
    · cases h

theorem hostPart_spec (w : Nat → Bool) (s : Str) (m : Option Str × Str)
    (h : hostPart w s = some m) : nsSegments w false m.2 = true := by
  unfold hostPart at h
  split at h
  · split at h
    · simp only [Option.map_eq_some_iff] at h
      obtain ⟨a, ha, rfl⟩ := h
      exact nsName_spec w _ _ ha
    · cases h
  · cases h

theorem plainPart_spec (w : Nat → Bool) (b : Bool) (s : Str) (m : Option Str × Str)
    (h : plainPart w b s = some m) : nsSegments w false m.2 = true := by
  have bare : ∀ m', (if b then (nsName w s).map (fun n => ((none : Option Str), n)) else none) = some m' →
      nsSegments w false m'.2 = true := by
    intro m' h'
    split at h'
    · simp only [Option.map_eq_some_iff] at h'
      obtain ⟨a, ha, rfl⟩ := h'
      exact nsName_spec w _ _ ha
    · cases h'
  unfold plainPart at h
  simp only at h
  split at h
  · split at h
    · next n hn => injection h with h; subst h; exact nsName_spec w _ _ hn
    · exact bare m h
  · exact bare m h

theorem matchAuthorityAndName_spec (w : Nat → Bool) (b : Bool) (s : Str) (m : Option Str × Str)
    (h : matchAuthorityAndName w b s = some m) : nsSegments w false m.2 = true := by
  unfold matchAuthorityAndName at h
  split at h
  · next m' hm => injection h with h; subst h; exact hostPart_spec w s _ hm
  · exact plainPart_spec w b s m h

theorem typePart_spec (w : Nat → Bool) (p : Str) (m : Option Str × Option Str × Str)
    (h : typePart w p = some m) : nsSegments w false m.2.2 = true := by
  unfold typePart at h
  split at h
  · cases h
  · split at h
    · simp only [Option.map_eq_some_iff] at h
      obtain ⟨a, ha, rfl⟩ := h
      exact matchAuthorityAndName_spec w _ _ _ ha
    · cases h

theorem matchNamespacePath_spec (w : Nat → Bool) (p : Str) (m : Option Str × Option Str × Str)
    (h : matchNamespacePath w p = some m) : nsSegments w false m.2.2 = true := by
  unfold matchNamespacePath at h
  split at h
  · next m' hm => injection h with h; subst h; exact typePart_spec w p _ hm
  · simp only [Option.map_eq_some_iff] at h
    obtain ⟨a, ha, rfl⟩ := h
    exact matchAuthorityAndName_spec w _ _ _ ha

/-- p_compilerDirective / namespace: MOFParseError, or a namespace that is a non-empty `/`-separated sequence of
    non-empty `\w` segments -/
theorem pragmaNamespace_cases (w : Nat → Bool) (p : Str) :
    pragmaNamespace w p = .error .mofParseError ∨
    ∃ ns, pragmaNamespace w p = .ok ns ∧ ns ≠ [] ∧ nsSegments w false ns = true := by
  unfold pragmaNamespace
  split
  · exact Or.inl rfl
  · next nsType host ns hm =>
    have hs := matchNamespacePath_spec w p _ hm
    split
    · exact Or.inl rfl
    · split
      · exact Or.inl rfl
      · split
        · exact Or.inl rfl
        · exact Or.inr ⟨ns, rfl, nsSegments_ne_nil w ns hs, hs⟩

/-! ### repository error translation -/

def CcFlags.unfixed (fl : CcFlags) : Nat :=
  (if fl.fixedNS then 0 else 1) + (if fl.fixedRefs then 0 else 1) + (if fl.fixedSuper then 0 else 1)

/-- the retry loop of p_mp_createClass needs at most one iteration per repair flag plus one -/
theorem ccLoop_fuel (env : CcEnv) : ∀ (f1 f2 : Nat) (fl : CcFlags) (s : List Ans),
    fl.unfixed < f1 → fl.unfixed < f2 → ccLoop env f1 fl s = ccLoop env f2 fl s := by
  intro f1
  induction f1 with
  | zero => intro f2 fl s h; omega
  | succ f1 ih =>
    intro f2 fl s h1 h2
    cases f2 with
    | zero => omega
    | succ f2 =>
      simp only [ccLoop]
      split
      · rfl
      · next c rest _ =>
        split
        · split
          · rfl
          · next hns =>
            split
            · rfl
            · apply ih
              · simp [CcFlags.unfixed, hns] at h1 ⊢; omega
              · simp [CcFlags.unfixed, hns] at h2 ⊢; omega
        · split
          · split
            · rfl
            · next hsu =>
              split
              · rfl
              · split
                · rfl
                · rfl
                · apply ih
                  · simp [CcFlags.unfixed, hsu] at h1 ⊢; omega
                  · simp [CcFlags.unfixed, hsu] at h2 ⊢; omega
          · split
            · split
              · rfl
              · next hrf =>
                split
                · rfl
                · split
                  · rfl
                  · split
                    · rfl
                    · split
                      · rfl
                      · apply ih
                        · simp [CcFlags.unfixed, hrf] at h1 ⊢; omega
                        · simp [CcFlags.unfixed, hrf] at h2 ⊢; omega
            · rfl

/-- what may leave the retry loop of p_mp_createClass without being a leak: an allowed exception, or a CIMError
    (which the outer `except CIMError` translates) -/
def loopOk : Except PyExc Unit → Prop
  | .ok _ => True
  | .error e => allowed e = true ∨ ∃ c, e = .cimError c

theorem ccLoop_partial (env : CcEnv) (hq : env.nsInQualcache = true)
    (hqf : noLeak env.qualFiles = true) (hd : noLeak env.depsOutcome = true) :
    ∀ (fuel : Nat) (fl : CcFlags) (s : List Ans), (∀ a ∈ s, a ≠ some 3 ∧ a ≠ some 10) →
      loopOk (ccLoop env fuel fl s) := by
  intro fuel
  induction fuel with
  | zero => intro fl s _; simp [ccLoop, loopOk]
  | succ fuel ih =>
    intro fl s hs
    cases s with
    | nil => simp [ccLoop, nextAns, loopOk]
    | cons a rest =>
      have hrest : ∀ a ∈ rest, a ≠ some 3 ∧ a ≠ some 10 := fun x hx => hs x (List.mem_cons_of_mem _ hx)
      have ha := hs a (List.mem_cons_self)
      cases a with
      | none => simp [ccLoop, nextAns, loopOk]
      | some c =>
        have h3 : c ≠ 3 := fun e => ha.1 (by rw [e])
        have h10 : c ≠ 10 := fun e => ha.2 (by rw [e])
        have e3 : (c == mofCimErr_invalid_namespace) = false := by simp [mofCimErr_invalid_namespace, h3]
        have e10 : (c == mofCimErr_invalid_superclass) = false := by simp [mofCimErr_invalid_superclass, h10]
        simp only [ccLoop, nextAns, e3, e10]
        by_cases hcat : (c == mofCimErr_invalid_parameter || c == mofCimErr_not_found || c == mofCimErr_failed) = true
        · by_cases hfr : fl.fixedRefs = true
          · simp [hcat, hfr, loopOk, allowed]
          · cases hqk : env.qualsKnown with
            | false =>
              cases hqf' : env.qualFiles with
              | error e =>
                rw [hqf'] at hqf
                simp [noLeak] at hqf
                simp [hcat, hfr, hq, hqk, hqf', loopOk, hqf]
              | ok u => simp [hcat, hfr, hq, hqk, hqf', loopOk, allowed]
            | true =>
              cases hd' : env.depsOutcome with
              | error e =>
                rw [hd'] at hd
                simp [noLeak] at hd
                simp [hcat, hfr, hq, hqk, hd', loopOk, hd]
              | ok u =>
                simp only [hcat, hfr, hq, hqk, hd']
                simpa using ih _ rest hrest
        · simp [hcat, loopOk]

theorem mpCreateClass_partial (env : CcEnv) (hq : env.nsInQualcache = true)
    (hqf : noLeak env.qualFiles = true) (hd : noLeak env.depsOutcome = true)
    (hs : ∀ a ∈ env.createClass, a ≠ some 3 ∧ a ≠ some 10) : noLeak (mpCreateClass env) = true := by
  have := ccLoop_partial env hq hqf hd 4 {} env.createClass hs
  unfold mpCreateClass
  split
  · rfl
  · split <;> (try split) <;> simp [noLeak, allowed]
  · next e hne he =>
    rw [he] at this
    simp only [loopOk] at this
    rcases this with h | ⟨c, hc⟩
    · simp [noLeak, h]
    · exact absurd hc (hne c)

/-! ### line text -/

theorem lineText_one (src : Str) : lineText src 1 = src.takeWhile (· != 10) := by
  cases src <;> rfl

theorem lineText_succ_nl (xs : Str) (n : Nat) : lineText (10 :: xs) (n + 2) = lineText xs (n + 1) := by
  simp [lineText]

theorem lineText_succ_ne (x : Nat) (xs : Str) (n : Nat) (h : x ≠ 10) :
    lineText (x :: xs) (n + 2) = lineText xs (n + 2) := by
  have hb : (x != 10) = true := by simp [h]
  simp [lineText, List.dropWhile, hb]

theorem countNl_cons (x : Nat) (xs : Str) : countNl (x :: xs) = (if x = 10 then 1 else 0) + countNl xs := by
  simp only [countNl, List.count_cons]
  by_cases h : x = 10
  · subst h; simp; omega
  · simp [h]

/-- the witness form of "inside the text" implies the line-text form -/
theorem insideAt_lineText : ∀ (src : Str) (k c : Nat), k ≤ src.length → c ≤ k →
    countNl ((src.take k).drop (k - c)) = 0 → c ≤ (lineText src (1 + countNl (src.take k))).length := by
  intro src
  induction src with
  | nil => intro k c hk hc _; simp at hk; omega
  | cons x xs ih =>
    intro k c hk hc h0
    cases k with
    | zero => omega
    | succ k =>
      have hk' : k ≤ xs.length := by simpa using hk
      rw [List.take_succ_cons] at h0 ⊢
      by_cases hck : c ≤ k
      · -- the column range does not reach back to x
        have e : k + 1 - c = (k - c) + 1 := by omega
        rw [e, List.drop_succ_cons] at h0
        have := ih k c hk' hck h0
        rw [countNl_cons]
        by_cases hx : x = 10
        · subst hx
          have e2 : 1 + ((if (10:Nat) = 10 then 1 else 0) + countNl (xs.take k)) = countNl (xs.take k) + 2 := by simp; omega
          rw [e2, lineText_succ_nl]
          have e3 : countNl (xs.take k) + 1 = 1 + countNl (xs.take k) := by omega
          rw [e3]; exact this
        · simp only [hx, if_false, Nat.zero_add]
          cases hm : countNl (xs.take k) with
          | zero =>
            rw [hm] at this
            simp only [Nat.add_zero, lineText_one] at this ⊢
            have hb : (x != 10) = true := by simp [hx]
            simp only [List.takeWhile, hb, List.length_cons]; omega
          | succ m =>
            rw [hm] at this
            have e2 : 1 + (m + 1) = m + 2 := by omega
            rw [e2] at this ⊢
            rw [lineText_succ_ne x xs m hx]; exact this
      · -- c = k + 1: the whole prefix (x included) has no newline
        have hc' : c = k + 1 := by omega
        subst hc'
        simp only [Nat.sub_self, List.drop_zero] at h0
        rw [countNl_cons] at h0
        have hx : x ≠ 10 := by intro e; subst e; simp at h0
        simp only [hx, if_false, Nat.zero_add] at h0
        have := ih k k hk' (Nat.le_refl _) (by simpa using h0)
        rw [countNl_cons]
        simp only [hx, if_false, Nat.zero_add, h0] at this ⊢
        simp only [Nat.add_zero, lineText_one] at this ⊢
        have hb : (x != 10) = true := by simp [hx]
        simp only [List.takeWhile, hb, List.length_cons]; omega

/-! ### per-compiler state -/

theorem stepCall_embedded (s : PState) (c : Call) (h : s.embedded = none) : (stepCall s c).embedded = none := by
  cases c with
  | str m n f e ok =>
    simp only [stepCall, compileString]
    split
    · simpa [applyEffect, compilePrologue] using h
    · split <;> simpa [applyEffect, compilePrologue] using h
  | emb m n e ok => simp [stepCall, compileEmbedded]

theorem runCalls_embedded (cs : List Call) : ∀ (s : PState), s.embedded = none → (runCalls s cs).embedded = none := by
  induction cs with
  | nil => intro s h; simpa [runCalls] using h
  | cons c cs ih => intro s h; simp only [runCalls, List.foldl_cons]; exact ih _ (stepCall_embedded s c h)

theorem addKey_mem (ks : List Nat) (k x : Nat) (h : x ∈ ks) : x ∈ addKey ks k := by
  unfold addKey; split <;> simp [h]

theorem foldl_addKey_mem (ns : List Nat) : ∀ (ks : List Nat) (x : Nat), x ∈ ks → x ∈ ns.foldl addKey ks := by
  induction ns with
  | nil => intro ks x h; simpa using h
  | cons n ns ih => intro ks x h; simp only [List.foldl_cons]; exact ih _ x (addKey_mem ks n x h)


/-! ### include / dependency structure -/

theorem compileStmts_noLeak (cf : Nat → Except PyExc Unit) (hcf : ∀ g, noLeak (cf g) = true) :
    ∀ (stmts : List Stmt), (∀ r, Stmt.leaf r ∈ stmts → noLeak r = true) → noLeak (compileStmts cf stmts) = true := by
  intro stmts
  induction stmts with
  | nil => intro _; rfl
  | cons st rest ih =>
    intro hl
    have hrest : ∀ r, Stmt.leaf r ∈ rest → noLeak r = true := fun r hr => hl r (List.mem_cons_of_mem _ hr)
    cases st with
    | file g =>
      simp only [compileStmts]
      have := hcf g
      cases hg : cf g with
      | ok u => exact ih hrest
      | error e => rw [hg] at this; simpa [noLeak] using this
    | leaf r =>
      simp only [compileStmts]
      have := hl r (List.mem_cons_self)
      cases r with
      | ok u => exact ih hrest
      | error e => simpa [noLeak] using this

theorem compileFileG_noLeak (fs : Files)
    (hleaf : ∀ g stmts, fs g = some stmts → ∀ r, Stmt.leaf r ∈ stmts → noLeak r = true) :
    ∀ (budget f : Nat), noLeak (compileFileG fs budget f) = true := by
  intro budget
  induction budget with
  | zero => intro f; simp only [compileFileG]; split <;> rfl
  | succ b ih =>
    intro f
    simp only [compileFileG]
    split
    · rfl
    · next stmts hs => exact compileStmts_noLeak _ (ih) stmts (hleaf f stmts hs)

def selfIncluding : Files := fun _ => some [Stmt.file 0]

theorem selfIncluding_unguarded : ∀ fuel, compileFileU selfIncluding fuel 0 = none := by
  intro fuel
  induction fuel with
  | zero => simp [compileFileU]
  | succ n ih => simp [compileFileU, selfIncluding, compileFileU.go] at ih ⊢; simp [selfIncluding, ih]

theorem selfIncluding_guarded : ∀ b, compileFileG selfIncluding b 0 = .error .mofDependencyError := by
  intro b
  induction b with
  | zero => rfl
  | succ n ih =>
    have : compileFileG selfIncluding (n + 1) 0 = compileStmts (compileFileG selfIncluding n) [Stmt.file 0] := rfl
    rw [this]; simp [compileStmts, ih]

theorem go_agrees (fs : Files) (fuel : Nat) (cf : Nat → Except PyExc Unit)
    (hcf : ∀ g r, compileFileU fs fuel g = some r → cf g = r) :
    ∀ (stmts : List Stmt) (r : Except PyExc Unit), compileFileU.go fs fuel stmts = some r → compileStmts cf stmts = r := by
  intro stmts
  induction stmts with
  | nil => intro r h; simp [compileFileU.go] at h; simp [compileStmts, h]
  | cons st rest ih =>
    intro r h
    cases st with
    | file g =>
      simp only [compileFileU.go] at h
      cases hg : compileFileU fs fuel g with
      | none => simp [hg] at h
      | some rg =>
        have := hcf g rg hg
        cases rg with
        | ok u => simp [hg] at h; simp [compileStmts, this]; exact ih r h
        | error e => simp [hg] at h; subst h; simp [compileStmts, this]
    | leaf x =>
      cases x with
      | ok u => simp only [compileFileU.go] at h; simp only [compileStmts]; exact ih r h
      | error e =>
        simp only [compileFileU.go, Option.some.injEq] at h
        rw [← h]; rfl

theorem guard_conservative (fs : Files) : ∀ (fuel budget f : Nat) (r : Except PyExc Unit),
    compileFileU fs fuel f = some r → fuel ≤ budget → compileFileG fs budget f = r := by
  intro fuel
  induction fuel with
  | zero => intro budget f r h; simp [compileFileU] at h
  | succ n ih =>
    intro budget f r h hb
    cases budget with
    | zero => omega
    | succ b =>
      simp only [compileFileU] at h
      simp only [compileFileG]
      cases hf : fs f with
      | none => simp [hf] at h; simp [h]
      | some stmts =>
        simp only [hf] at h
        exact go_agrees fs n (compileFileG fs b) (fun g rg hg => ih b g rg hg (by omega)) stmts r h

end Pywbem.Model.MofCompile
