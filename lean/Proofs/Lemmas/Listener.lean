/-
C16 — helper lemmas for Proofs/Props/C16.lean: inductive invariants of the listener
step relation (Pywbem/Model/Listener.lean).  Three bundles:
  CtlInv  (fixed protocol): per-program-counter assertions of the main thread + global control facts
  DataInv (fixed protocol): conservation dlv ++ inflight ++ queue = enq and shape of the callback log
  UniqInv (both protocols): sequence-number bounds, freshness, per-sender order, ack bookkeeping
-/
import Pywbem.Model.Listener
open Pywbem.Model.Listener Pywbem.Proto

namespace Proofs.Listener

def cbQuiet (s : Sys) : Prop := s.cb = .off ∨ s.cb = .done false

/-- per-program-counter assertions of the main thread (fixed protocol) -/
def MainOK (s : Sys) : Prop :=
  match s.main with
  | .idle => (s.up = true → s.srv = true ∧ s.accepting = true) ∧
             (s.up = false → s.thrRef = false ∧ s.qref = false ∧ s.srv = false ∧ s.queue = [])
  | .sMkq => s.up = true ∧ s.thrRef = false ∧ s.qref = false ∧ s.srv = false ∧ s.queue = []
  | .sThr => s.up = true ∧ s.qref = true ∧ s.thrRef = false ∧ s.srv = false
  | .sSrv => s.up = true ∧ s.qref = true ∧ s.thrRef = true ∧ s.srv = false
  | .tShutdown => s.up = false ∧ s.srv = true
  | .tClose => s.up = false ∧ s.srv = true ∧ s.accepting = false
  | .tPoll => s.up = false ∧ s.srv = false ∧ s.qref = true ∧ s.thrRef = true
  | .tSetEv => s.up = false ∧ s.srv = false ∧ s.qref = true ∧ s.thrRef = true ∧ s.queue = []
  | .tJoin => s.up = false ∧ s.srv = false ∧ s.qref = true ∧ s.thrRef = true ∧ s.queue = [] ∧ s.stopEv = true

structure CtlInv (s : Sys) : Prop where
  mainOK : MainOK s
  noExc : s.cb ≠ .done true
  noErr : s.errs = []
  noIgn : s.ignored = []
  thr_q : s.thrRef = true → s.qref = true
  acc_srv : s.accepting = true → s.srv = true
  srv_q : s.srv = true → s.qref = true ∧ s.thrRef = true
  nosrv_idle : s.srv = false → allIdle s.senders = true
  nothr_cb : s.thrRef = false → cbQuiet s

theorem allIdle_get {l : List Sender} (h : allIdle l = true) {j : Nat} {sd : Sender}
    (hj : l[j]? = some sd) : sd.pc = .idle := by
  have hm : sd ∈ l := List.mem_of_getElem? hj
  simp [allIdle, List.all_eq_true] at h
  exact h sd hm

theorem ctl_init (n : Nat) : CtlInv (init n) := by
  refine ⟨?_, ?_, ?_, ?_, ?_, ?_, ?_, ?_, ?_⟩ <;> simp [init, MainOK, cbQuiet, allIdle]

theorem ctl_start {c : Cfg} {s s' : Sys} (_hc : c.proto = .fixed) (h : CtlInv s) (hs : stepStart s = some s') : CtlInv s' := by
  obtain ⟨m, a1, a2, a3, a4, a5, a6, a7, a8⟩ := h
  unfold stepStart at hs
  split at hs
  · rename_i hg
    obtain ⟨hm, hu⟩ := hg
    simp [MainOK, hm, hu] at m
    split at hs
    · simp_all
    · injection hs with hs; subst hs
      refine ⟨?_, ?_, ?_, ?_, ?_, ?_, ?_, ?_, ?_⟩ <;> simp_all [MainOK, cbQuiet]
  · simp at hs
end Proofs.Listener

namespace Proofs.Listener
theorem ctl_stop {c : Cfg} {s s' : Sys} (hc : c.proto = .fixed) (h : CtlInv s) (hs : stepStop c s = some s') : CtlInv s' := by
  obtain ⟨m, a1, a2, a3, a4, a5, a6, a7, a8⟩ := h
  unfold stepStop at hs
  split at hs
  · rename_i hm
    simp [MainOK, hm] at m
    split at hs
    · injection hs with hs; subst hs
      refine ⟨?_, ?_, ?_, ?_, ?_, ?_, ?_, ?_, ?_⟩ <;> simp_all [MainOK, cbQuiet]
    · injection hs with hs; subst hs
      rename_i hsrv
      simp at hsrv
      have hup : s.up = false := by
        cases hu : s.up
        · rfl
        · have := (m.1 hu).1; simp_all
      obtain ⟨h1, h2, h3, h4⟩ := m.2 hup
      refine ⟨?_, ?_, ?_, ?_, ?_, ?_, ?_, ?_, ?_⟩ <;> simp_all [MainOK, cbQuiet, afterServers, afterQ]
  · simp at hs

theorem ctl_main {c : Cfg} {s s' : Sys} (hc : c.proto = .fixed) (h : CtlInv s) (hs : stepMain c s = some s') : CtlInv s' := by
  obtain ⟨m, a1, a2, a3, a4, a5, a6, a7, a8⟩ := h
  unfold stepMain at hs
  split at hs <;> rename_i hm <;> simp [MainOK, hm] at m
  · simp at hs
  · injection hs with hs; subst hs
    refine ⟨?_, ?_, ?_, ?_, ?_, ?_, ?_, ?_, ?_⟩ <;> simp_all [MainOK, cbQuiet]
  · injection hs with hs; subst hs
    refine ⟨?_, ?_, ?_, ?_, ?_, ?_, ?_, ?_, ?_⟩ <;> simp_all [MainOK, cbQuiet]
  · injection hs with hs; subst hs
    refine ⟨?_, ?_, ?_, ?_, ?_, ?_, ?_, ?_, ?_⟩ <;> simp_all [MainOK, cbQuiet]
  · injection hs with hs; subst hs
    refine ⟨?_, ?_, ?_, ?_, ?_, ?_, ?_, ?_, ?_⟩ <;> simp_all [MainOK, cbQuiet]
  · split at hs
    · injection hs with hs; subst hs
      have := a6 m.2.1
      refine ⟨?_, ?_, ?_, ?_, ?_, ?_, ?_, ?_, ?_⟩ <;> simp_all [MainOK, cbQuiet, afterServers]
    · simp at hs
  · injection hs with hs; subst hs
    unfold pollStep
    split
    · refine ⟨?_, ?_, ?_, ?_, ?_, ?_, ?_, ?_, ?_⟩ <;> simp_all [MainOK, cbQuiet]
    · refine ⟨?_, ?_, ?_, ?_, ?_, ?_, ?_, ?_, ?_⟩ <;> simp_all [MainOK, cbQuiet, afterQ]
  · injection hs with hs; subst hs
    refine ⟨?_, ?_, ?_, ?_, ?_, ?_, ?_, ?_, ?_⟩ <;> simp_all [MainOK, cbQuiet]
  · split at hs
    · injection hs with hs; subst hs
      rename_i exc hcb
      have : exc = false := by cases exc <;> simp_all
      subst this
      refine ⟨?_, ?_, ?_, ?_, ?_, ?_, ?_, ?_, ?_⟩ <;> simp_all [MainOK, cbQuiet, joinStep]
    · simp at hs
end Proofs.Listener

namespace Proofs.Listener
theorem mainOK_congr {s s' : Sys} (h : MainOK s) (h1 : s'.main = s.main) (h2 : s'.up = s.up) (h3 : s'.srv = s.srv)
    (h4 : s'.accepting = s.accepting) (h5 : s'.thrRef = s.thrRef) (h6 : s'.qref = s.qref)
    (h7 : s.queue = [] → s'.queue = []) (h8 : s'.stopEv = s.stopEv) : MainOK s' := by
  unfold MainOK at h ⊢
  rw [h1, h2, h3, h4, h5, h6, h8]
  cases hm : s.main <;> simp [hm] at h ⊢ <;> simp_all

theorem ctl_cb {c : Cfg} {s s' : Sys} (hc : c.proto = .fixed) (h : CtlInv s) (hs : stepCb c s = some s') : CtlInv s' := by
  obtain ⟨m, a1, a2, a3, a4, a5, a6, a7, a8⟩ := h
  have ht : s.thrRef = true := by
    cases ht : s.thrRef
    · have := a8 ht; unfold stepCb at hs; rcases this with h | h <;> simp [h] at hs
    · rfl
  unfold stepCb at hs
  split at hs <;> rename_i hcb
  · simp at hs
  · injection hs with hs; subst hs
    refine ⟨mainOK_congr m ?_ ?_ ?_ ?_ ?_ ?_ ?_ ?_, ?_, ?_, ?_, ?_, ?_, ?_, ?_, ?_⟩ <;> simp_all [cbQuiet, loopTop]
  · split at hs <;> rename_i hq
    · injection hs with hs; subst hs
      refine ⟨mainOK_congr m ?_ ?_ ?_ ?_ ?_ ?_ ?_ ?_, ?_, ?_, ?_, ?_, ?_, ?_, ?_, ?_⟩ <;> simp_all [cbQuiet]
    · injection hs with hs; subst hs
      refine ⟨mainOK_congr m ?_ ?_ ?_ ?_ ?_ ?_ ?_ ?_, ?_, ?_, ?_, ?_, ?_, ?_, ?_, ?_⟩ <;>
        simp_all [cbQuiet, nextDeliver, afterCallbacks] <;> split <;> simp_all
  · injection hs with hs; subst hs
    refine ⟨mainOK_congr m ?_ ?_ ?_ ?_ ?_ ?_ ?_ ?_, ?_, ?_, ?_, ?_, ?_, ?_, ?_, ?_⟩ <;> simp_all [cbQuiet]
  · injection hs with hs; subst hs
    refine ⟨mainOK_congr m ?_ ?_ ?_ ?_ ?_ ?_ ?_ ?_, ?_, ?_, ?_, ?_, ?_, ?_, ?_, ?_⟩ <;>
        simp_all [cbQuiet, nextDeliver, afterCallbacks] <;> split <;> simp_all
  · injection hs with hs; subst hs
    refine ⟨mainOK_congr m ?_ ?_ ?_ ?_ ?_ ?_ ?_ ?_, ?_, ?_, ?_, ?_, ?_, ?_, ?_, ?_⟩ <;> simp_all [cbQuiet, loopTop]
  · split at hs <;> injection hs with hs <;> subst hs <;>
      refine ⟨mainOK_congr m ?_ ?_ ?_ ?_ ?_ ?_ ?_ ?_, ?_, ?_, ?_, ?_, ?_, ?_, ?_, ?_⟩ <;> simp_all [cbQuiet, loopTop]
  · simp at hs
end Proofs.Listener

namespace Proofs.Listener
theorem mainOK_congr_srv {s s' : Sys} (h : MainOK s) (hsrv : s.srv = true) (h1 : s'.main = s.main) (h2 : s'.up = s.up)
    (h3 : s'.srv = s.srv) (h4 : s'.accepting = s.accepting) (h5 : s'.thrRef = s.thrRef) (h6 : s'.qref = s.qref)
    (h8 : s'.stopEv = s.stopEv) : MainOK s' := by
  unfold MainOK at h ⊢
  rw [h1, h2, h3, h4, h5, h6, h8]
  cases hm : s.main <;> simp [hm] at h ⊢ <;> simp_all

theorem ctl_snd {c : Cfg} {s s' : Sys} (_hc : c.proto = .fixed) (h : CtlInv s) {j : Nat} (hs : stepSnd c s j = some s') : CtlInv s' := by
  obtain ⟨m, a1, a2, a3, a4, a5, a6, a7, a8⟩ := h
  unfold stepSnd at hs
  split at hs
  · simp at hs
  · rename_i sd hj
    have hsrv : s.srv = true := by
      cases hsrv : s.srv
      · have hi := allIdle_get (a7 hsrv) hj
        have hacc : s.accepting = false := by cases ha : s.accepting <;> simp_all
        simp [stepSndAt, hi, hacc] at hs
      · rfl
    obtain ⟨hq, ht⟩ := a6 hsrv
    unfold stepSndAt at hs
    split at hs <;> rename_i hpc
    · split at hs
      · simp [hq] at hs; subst hs
        refine ⟨mainOK_congr_srv m hsrv ?_ ?_ ?_ ?_ ?_ ?_ ?_, ?_, ?_, ?_, ?_, ?_, ?_, ?_, ?_⟩ <;> simp_all [cbQuiet]
      · simp at hs
    · split at hs <;> injection hs with hs <;> subst hs <;>
        refine ⟨mainOK_congr_srv m hsrv ?_ ?_ ?_ ?_ ?_ ?_ ?_, ?_, ?_, ?_, ?_, ?_, ?_, ?_, ?_⟩ <;> simp_all [cbQuiet]
    all_goals
      injection hs with hs; subst hs
      refine ⟨mainOK_congr_srv m hsrv ?_ ?_ ?_ ?_ ?_ ?_ ?_, ?_, ?_, ?_, ?_, ?_, ?_, ?_, ?_⟩ <;> simp_all [cbQuiet]
end Proofs.Listener

namespace Proofs.Listener

/-- the fields the history invariants talk about -/
def sameData (s s' : Sys) : Prop :=
  s'.queue = s.queue ∧ s'.cb = s.cb ∧ s'.senders = s.senders ∧ s'.enq = s.enq ∧ s'.dlv = s.dlv ∧
  s'.log = s.log ∧ s'.acked = s.acked ∧ s'.refused = s.refused ∧ s'.ignored = s.ignored

theorem sameData_afterQ (c : Cfg) (s : Sys) : sameData s (afterQ c s) := by
  unfold afterQ sameData; split
  · simp
  · split <;> simp

theorem sameData_afterServers (c : Cfg) (s : Sys) : sameData s (afterServers c s) := by
  unfold afterServers; split
  · simp [sameData]
  · exact sameData_afterQ c s

theorem sameData_pollStep (c : Cfg) (s : Sys) : sameData s (pollStep c s) := by
  unfold pollStep; split
  · simp [sameData]
  · split
    · have := sameData_afterQ c { s with qref := false }; simpa [sameData] using this
    · exact sameData_afterQ c s

theorem sameData_joinStep (c : Cfg) (s : Sys) (e : Bool) : sameData s (joinStep c s e) := by
  unfold joinStep; split
  · simp [sameData]
  · split <;> simp [sameData]

theorem calls_zero (x : Ind) : calls 0 x = [] := by simp [calls]
theorem calls_succ (k : Nat) (x : Ind) : calls (k + 1) x = calls k x ++ [(k, x)] := by
  simp [calls, List.range_succ]
theorem expand_snoc (n : Nat) (d : List Ind) (x : Ind) : expand n (d ++ [x]) = expand n d ++ calls n x := by
  simp [expand]

def KOk (c : Cfg) (s : Sys) : Prop :=
  match s.cb with
  | .enter _ k => k < c.ncb
  | .inCb _ k => k < c.ncb
  | _ => True

structure DataInv (c : Cfg) (s : Sys) : Prop where
  conserve : s.dlv ++ inflight s ++ s.queue = s.enq
  logOk : s.log = expand c.ncb s.dlv ++ partialLog c s
  kOk : KOk c s

theorem data_congr {c : Cfg} {s s' : Sys} (h : DataInv c s) (hd : sameData s s') : DataInv c s' := by
  obtain ⟨h1, h2, h3, h4, h5, h6, _, _, _⟩ := hd
  obtain ⟨a, b, k⟩ := h
  refine ⟨?_, ?_, ?_⟩
  · simpa [inflight, h1, h2, h4, h5] using a
  · simpa [partialLog, h2, h5, h6] using b
  · simpa [KOk, h2] using k

theorem data_init (c : Cfg) (n : Nat) : DataInv c (init n) := by
  refine ⟨?_, ?_, ?_⟩ <;> simp [init, inflight, partialLog, expand, KOk]

end Proofs.Listener

namespace Proofs.Listener

theorem data_start {c : Cfg} {s s' : Sys} (h : DataInv c s) (hs : stepStart s = some s') : DataInv c s' := by
  unfold stepStart at hs
  split at hs
  · split at hs <;> injection hs with hs <;> subst hs <;> exact data_congr h (by simp [sameData])
  · simp at hs

theorem data_stop {c : Cfg} {s s' : Sys} (h : DataInv c s) (hs : stepStop c s = some s') : DataInv c s' := by
  unfold stepStop at hs
  split at hs
  · split at hs <;> injection hs with hs <;> subst hs
    · exact data_congr h (by simp [sameData])
    · have := sameData_afterServers c { s with up := false }
      exact data_congr h (by simpa [sameData] using this)
  · simp at hs

theorem data_main {c : Cfg} {s s' : Sys} (_hc : c.proto = .fixed) (hctl : CtlInv s) (h : DataInv c s)
    (hs : stepMain c s = some s') : DataInv c s' := by
  have m := hctl.mainOK
  unfold stepMain at hs
  split at hs <;> rename_i hm <;> simp [MainOK, hm] at m
  · simp at hs
  · -- sMkq: the new queue is empty, so was the old one
    injection hs with hs; subst hs
    have hq : s.queue = [] := m.2.2.2.2
    exact data_congr h (by simp [sameData, hq])
  · -- sThr: the old thread object (if any) has ended
    injection hs with hs; subst hs
    obtain ⟨a, b, k⟩ := h
    have hquiet := hctl.nothr_cb m.2.2.1
    refine ⟨?_, ?_, ?_⟩
    · rcases hquiet with hq | hq <;> simpa [inflight, hq] using a
    · rcases hquiet with hq | hq <;> simpa [partialLog, hq] using b
    · simp [KOk]
  · injection hs with hs; subst hs; exact data_congr h (by simp [sameData])
  · injection hs with hs; subst hs; exact data_congr h (by simp [sameData])
  · split at hs
    · injection hs with hs; subst hs
      have := sameData_afterServers c { s with srv := false }
      exact data_congr h (by simpa [sameData] using this)
    · simp at hs
  · injection hs with hs; subst hs; exact data_congr h (sameData_pollStep c s)
  · injection hs with hs; subst hs; exact data_congr h (by simp [sameData])
  · split at hs
    · injection hs with hs; subst hs; exact data_congr h (sameData_joinStep c s _)
    · simp at hs

theorem data_cb {c : Cfg} {s s' : Sys} (hc : c.proto = .fixed) (h : DataInv c s)
    (hs : stepCb c s = some s') : DataInv c s' := by
  obtain ⟨a, b, k⟩ := h
  unfold stepCb at hs
  split at hs <;> rename_i hcb
  · simp at hs
  · injection hs with hs; subst hs
    refine ⟨?_, ?_, ?_⟩ <;> simp_all [loopTop, inflight, partialLog, KOk]
  · split at hs <;> rename_i hq
    · injection hs with hs; subst hs
      refine ⟨?_, ?_, ?_⟩ <;> simp_all [inflight, partialLog, KOk]
    · injection hs with hs; subst hs
      rename_i x q
      unfold nextDeliver
      split
      · refine ⟨?_, ?_, ?_⟩ <;> simp_all [inflight, partialLog, KOk, calls_zero]
      · rename_i hk
        have h0 : c.ncb = 0 := by omega
        refine ⟨?_, ?_, ?_⟩ <;> simp_all [afterCallbacks, inflight, partialLog, KOk, calls_zero]
  · injection hs with hs; subst hs
    refine ⟨?_, ?_, ?_⟩ <;> simp_all [inflight, partialLog, KOk, calls_succ]
  · injection hs with hs; subst hs
    rename_i x k0
    have hk : k0 < c.ncb := by simpa [KOk, hcb] using k
    unfold nextDeliver
    split
    · refine ⟨?_, ?_, ?_⟩ <;> simp_all [inflight, partialLog, KOk]
    · rename_i hk'
      have h0 : c.ncb = k0 + 1 := by omega
      refine ⟨?_, ?_, ?_⟩ <;> simp_all [afterCallbacks, inflight, partialLog, KOk]
  · injection hs with hs; subst hs
    refine ⟨?_, ?_, ?_⟩ <;> simp_all [loopTop, inflight, partialLog, KOk, expand_snoc]
  · split at hs <;> injection hs with hs <;> subst hs <;>
      refine ⟨?_, ?_, ?_⟩ <;> simp_all [loopTop, inflight, partialLog, KOk]
  · simp at hs

theorem data_snd {c : Cfg} {s s' : Sys} (h : DataInv c s) {j : Nat}
    (hs : stepSnd c s j = some s') : DataInv c s' := by
  obtain ⟨a, b, k⟩ := h
  unfold stepSnd at hs
  split at hs
  · simp at hs
  · rename_i sd hj
    unfold stepSndAt at hs
    split at hs
    · split at hs
      · split at hs <;> injection hs with hs <;> subst hs <;>
          refine ⟨?_, ?_, ?_⟩ <;> simp_all [inflight, partialLog, KOk]
      · simp at hs
    · split at hs <;> injection hs with hs <;> subst hs
      · refine ⟨?_, ?_, ?_⟩ <;> simp_all [inflight, partialLog, KOk]
      · refine ⟨?_, ?_, ?_⟩
        · simp [inflight] at a ⊢; rw [← a]; simp
        · simpa [partialLog] using b
        · simpa [KOk] using k
    all_goals
      injection hs with hs; subst hs
      refine ⟨?_, ?_, ?_⟩ <;> simp_all [inflight, partialLog, KOk]

end Proofs.Listener

namespace Proofs.Listener

def enqBound (sd : Sender) : Nat := match sd.pc with | .respOk => sd.next + 1 | _ => sd.next

theorem get_set {l : List Sender} {j : Nat} {sd : Sender} (sd' : Sender) (hj : l[j]? = some sd) (i : Nat) :
    (l.set j sd')[i]? = if i = j then some sd' else l[i]? := by
  have hlt : j < l.length := by
    rcases Nat.lt_or_ge j l.length with h | h
    · exact h
    · simp [List.getElem?_eq_none h] at hj
  by_cases h : i = j
  · subst h; simp [hlt]
  · have : j ≠ i := fun e => h e.symm
    simp [h, List.getElem?_set_ne this]

def perSender (a b : Ind) : Prop := a.1 = b.1 → a.2 < b.2

structure UniqInv (c : Cfg) (s : Sys) : Prop where
  enqB : ∀ x ∈ s.enq, ∃ sd, s.senders[x.1]? = some sd ∧ x.2 < enqBound sd
  refB : ∀ x ∈ s.refused, ∃ sd, s.senders[x.1]? = some sd ∧ x.2 < sd.next
  ackB : ∀ x ∈ s.acked, ∃ sd, s.senders[x.1]? = some sd ∧ x.2 < sd.next
  order : s.enq.Pairwise perSender
  ackOrder : s.acked.Pairwise perSender
  refOrder : s.refused.Pairwise perSender
  ref_not_enq : ∀ x ∈ s.refused, x ∉ s.enq
  respOk_enq : ∀ j sd, s.senders[j]? = some sd → sd.pc = .respOk → (j, sd.next) ∈ s.enq
  ack_enq : ∀ x ∈ s.acked, x ∈ s.enq ∨ x ∈ s.ignored
  enq_ack : ∀ x ∈ s.enq, x ∈ s.acked ∨ ∃ sd, s.senders[x.1]? = some sd ∧ sd.pc = .respOk ∧ x.2 = sd.next
  respIgn_ign : ∀ j sd, s.senders[j]? = some sd → sd.pc = .respIgn → (j, sd.next) ∈ s.ignored
  qbound : c.maxQ ≠ 0 → s.queue.length ≤ c.maxQ

theorem uniq_init (c : Cfg) (n : Nat) : UniqInv c (init n) := by
  refine ⟨?_, ?_, ?_, ?_, ?_, ?_, ?_, ?_, ?_, ?_, ?_, ?_⟩ <;> simp [init]
  all_goals
    intro j sd hj hpc
    have : sd ∈ List.replicate n ({} : Sender) := List.mem_of_getElem? hj
    simp [List.mem_replicate] at this
    simp [this.2] at hpc

/-- steps of the main and callback threads leave the sender-side history alone and never grow the queue -/
def sameHist (s s' : Sys) : Prop :=
  s'.senders = s.senders ∧ s'.enq = s.enq ∧ s'.acked = s.acked ∧ s'.refused = s.refused ∧
  s'.ignored = s.ignored ∧ s'.queue.length ≤ s.queue.length

theorem sameHist_of_sameData {s s' : Sys} (h : sameData s s') : sameHist s s' := by
  obtain ⟨h1, h2, h3, h4, h5, h6, h7, h8, h9⟩ := h
  simp [sameHist, *]

theorem uniq_congr {c : Cfg} {s s' : Sys} (h : UniqInv c s) (hd : sameHist s s') : UniqInv c s' := by
  obtain ⟨h1, h2, h3, h4, h5, h6⟩ := hd
  obtain ⟨a1, a2, a3, a4, a5, a6, a7, a8, a9, a10, a11, a12⟩ := h
  refine ⟨?_, ?_, ?_, ?_, ?_, ?_, ?_, ?_, ?_, ?_, ?_, ?_⟩ <;> simp_all
  intro hq; have := a12 hq; omega

theorem sameHist_start {s s' : Sys} (hs : stepStart s = some s') : sameHist s s' := by
  unfold stepStart at hs
  split at hs
  · split at hs <;> injection hs with hs <;> subst hs <;> simp [sameHist]
  · simp at hs

theorem sameHist_stop {c : Cfg} {s s' : Sys} (hs : stepStop c s = some s') : sameHist s s' := by
  unfold stepStop at hs
  split at hs
  · split at hs <;> injection hs with hs <;> subst hs
    · simp [sameHist]
    · have := sameHist_of_sameData (sameData_afterServers c { s with up := false })
      simpa [sameHist] using this
  · simp at hs

theorem sameHist_main {c : Cfg} {s s' : Sys} (hs : stepMain c s = some s') : sameHist s s' := by
  unfold stepMain at hs
  split at hs
  · simp at hs
  · injection hs with hs; subst hs; simp [sameHist]
  · injection hs with hs; subst hs; simp [sameHist]
  · injection hs with hs; subst hs; simp [sameHist]
  · injection hs with hs; subst hs; simp [sameHist]
  · split at hs
    · injection hs with hs; subst hs
      have := sameHist_of_sameData (sameData_afterServers c { s with srv := false })
      simpa [sameHist] using this
    · simp at hs
  · injection hs with hs; subst hs; exact sameHist_of_sameData (sameData_pollStep c s)
  · injection hs with hs; subst hs; simp [sameHist]
  · split at hs
    · injection hs with hs; subst hs; exact sameHist_of_sameData (sameData_joinStep c s _)
    · simp at hs

theorem sameHist_cb {c : Cfg} {s s' : Sys} (hs : stepCb c s = some s') : sameHist s s' := by
  unfold stepCb at hs
  split at hs
  · simp at hs
  · injection hs with hs; subst hs; unfold loopTop; split
    · split <;> simp [sameHist]
    · simp [sameHist]
  · split at hs
    · injection hs with hs; subst hs; simp [sameHist]
    · injection hs with hs; subst hs; unfold nextDeliver afterCallbacks; split
      · simp_all [sameHist]
      · split
        · split <;> simp_all [sameHist]
        · simp_all [sameHist]
  · injection hs with hs; subst hs; simp [sameHist]
  · injection hs with hs; subst hs; unfold nextDeliver afterCallbacks; split
    · simp [sameHist]
    · split
      · split <;> simp [sameHist]
      · simp [sameHist]
  · injection hs with hs; subst hs; unfold loopTop; split
    · split <;> simp [sameHist]
    · simp [sameHist]
  · split at hs <;> injection hs with hs <;> subst hs
    · simp [sameHist]
    · unfold loopTop; split
      · split <;> simp [sameHist]
      · simp [sameHist]
  · simp at hs


/-- what a sender step does to the sender table: only entry `j` changes -/
theorem uniq_snd {c : Cfg} {s s' : Sys} (h : UniqInv c s) {j : Nat}
    (hs : stepSnd c s j = some s') : UniqInv c s' := by
  obtain ⟨enqB, refB, ackB, order, ackOrder, refOrder, ref_not_enq, respOk_enq, ack_enq, enq_ack, respIgn_ign, qbound⟩ := h
  unfold stepSnd at hs
  split at hs
  · simp at hs
  · rename_i sd hj
    have gs := fun sd' i => get_set (l := s.senders) (j := j) sd' hj i
    unfold stepSndAt at hs
    split at hs <;> rename_i hpc
    · -- idle: accept the request
      split at hs
      · split at hs <;> injection hs with hs <;> subst hs <;>
          refine ⟨?_, ?_, ?_, ?_, ?_, ?_, ?_, ?_, ?_, ?_, ?_, ?_⟩ <;> simp only [setPc, gs] <;> (try assumption) <;>
          grind [enqBound]
      · simp at hs
    · -- put
      split at hs <;> rename_i hfull <;> injection hs with hs <;> subst hs
      · refine ⟨?_, ?_, ?_, ?_, ?_, ?_, ?_, ?_, ?_, ?_, ?_, ?_⟩ <;> simp only [setPc, gs] <;> (try assumption) <;>
          grind [enqBound]
      · refine ⟨?_, ?_, ?_, ?_, ?_, ?_, ?_, ?_, ?_, ?_, ?_, ?_⟩ <;> simp only [setPc, gs] <;> (try assumption)
        · grind [enqBound]
        · grind [enqBound]
        · grind [enqBound]
        · rw [List.pairwise_append]; refine ⟨order, by simp, ?_⟩; grind [enqBound, perSender]
        · grind [enqBound]
        · grind [enqBound]
        · grind [enqBound]
        · grind [enqBound]
        · grind [enqBound]
        · grind [enqBound, isFull]
    · -- respOk
      injection hs with hs; subst hs
      refine ⟨?_, ?_, ?_, ?_, ?_, ?_, ?_, ?_, ?_, ?_, ?_, ?_⟩ <;> simp only [finishReq, gs] <;> (try assumption)
      · grind [enqBound]
      · grind [enqBound]
      · grind [enqBound]
      · rw [List.pairwise_append]; refine ⟨ackOrder, by simp, ?_⟩; grind [enqBound, perSender]
      · grind [enqBound]
      · grind [enqBound]
      · grind [enqBound]
      · grind [enqBound]
    · -- respIgn
      injection hs with hs; subst hs
      refine ⟨?_, ?_, ?_, ?_, ?_, ?_, ?_, ?_, ?_, ?_, ?_, ?_⟩ <;> simp only [finishReq, gs] <;> (try assumption)
      · grind [enqBound]
      · grind [enqBound]
      · grind [enqBound]
      · rw [List.pairwise_append]; refine ⟨ackOrder, by simp, ?_⟩; grind [enqBound, perSender]
      · grind [enqBound]
      · grind [enqBound]
      · grind [enqBound]
      · grind [enqBound]
    · -- respErr
      injection hs with hs; subst hs
      refine ⟨?_, ?_, ?_, ?_, ?_, ?_, ?_, ?_, ?_, ?_, ?_, ?_⟩ <;> simp only [finishReq, gs] <;> (try assumption)
      · grind [enqBound]
      · grind [enqBound]
      · grind [enqBound]
      · rw [List.pairwise_append]; refine ⟨refOrder, by simp, ?_⟩; grind [enqBound, perSender]
      · grind [enqBound]
      · grind [enqBound]
      · grind [enqBound]
      · grind [enqBound]
end Proofs.Listener

namespace Proofs.Listener

/-- everything that is proved by induction over the step relation for the fixed protocol -/
structure Inv (c : Cfg) (s : Sys) : Prop where
  ctl : CtlInv s
  data : DataInv c s
  uniq : UniqInv c s

theorem uniq_step {c : Cfg} {s s' : Sys} (l : Label) (h : UniqInv c s) (hs : step c l s = some s') :
    UniqInv c s' := by
  cases l with
  | start => exact uniq_congr h (sameHist_start hs)
  | stop => exact uniq_congr h (sameHist_stop hs)
  | main => exact uniq_congr h (sameHist_main hs)
  | cb r => exact uniq_congr h (sameHist_cb hs)
  | snd j => exact uniq_snd h hs

theorem inv_step {c : Cfg} (hc : c.proto = .fixed) {s s' : Sys} (l : Label) (h : Inv c s)
    (hs : step c l s = some s') : Inv c s' := by
  refine ⟨?_, ?_, uniq_step l h.uniq hs⟩
  · cases l with
    | start => exact ctl_start hc h.ctl hs
    | stop => exact ctl_stop hc h.ctl hs
    | main => exact ctl_main hc h.ctl hs
    | cb r => exact ctl_cb hc h.ctl hs
    | snd j => exact ctl_snd hc h.ctl hs
  · cases l with
    | start => exact data_start h.data hs
    | stop => exact data_stop h.data hs
    | main => exact data_main hc h.ctl h.data hs
    | cb r => exact data_cb hc h.data hs
    | snd j => exact data_snd h.data hs

theorem uniq_reachable {c : Cfg} {n : Nat} {s : Sys} (h : Reachable c n s) : UniqInv c s := by
  induction h with
  | init => exact uniq_init c n
  | step l _ hs ih => exact uniq_step l ih hs

theorem inv_reachable {c : Cfg} (hc : c.proto = .fixed) {n : Nat} {s : Sys} (h : Reachable c n s) : Inv c s := by
  induction h with
  | init => exact ⟨ctl_init n, data_init c n, uniq_init c n⟩
  | step l _ hs ih => exact inv_step hc l ih hs

theorem reachable_runTrace {c : Cfg} {n : Nat} {s s' : Sys} (h : Reachable c n s) (ls : List Label)
    (hr : runTrace c ls s = some s') : Reachable c n s' := by
  induction ls generalizing s with
  | nil => simp [runTrace] at hr; subst hr; exact h
  | cons l ls ih =>
    simp only [runTrace] at hr
    split at hr
    · simp at hr
    · rename_i s1 hs1; exact ih (Reachable.step l h hs1) hr

end Proofs.Listener

namespace Proofs.Listener

theorem mem_calls {k m : Nat} {x y : Ind} : (k, x) ∈ calls m y ↔ k < m ∧ x = y := by
  simp only [calls, List.mem_map, List.mem_range, Prod.mk.injEq]
  constructor
  · rintro ⟨a, ha, rfl, rfl⟩; exact ⟨ha, rfl⟩
  · rintro ⟨hk, rfl⟩; exact ⟨k, hk, rfl, rfl⟩

theorem mem_expand {k n : Nat} {x : Ind} {d : List Ind} : (k, x) ∈ expand n d ↔ k < n ∧ x ∈ d := by
  simp only [expand, List.mem_flatMap, mem_calls]
  constructor
  · rintro ⟨y, hy, hk, rfl⟩; exact ⟨hk, hy⟩
  · rintro ⟨hk, hx⟩; exact ⟨x, hx, hk, rfl⟩

theorem partialLog_sub {c : Cfg} {s : Sys} {k : Nat} {x : Ind} (h : (k, x) ∈ partialLog c s) :
    x ∈ inflight s := by
  unfold partialLog at h; unfold inflight
  split at h <;> simp_all [mem_calls]

end Proofs.Listener
