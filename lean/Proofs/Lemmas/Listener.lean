/-
C16 — helper lemmas for Proofs/Props/C16.lean: inductive invariants of the listener
step relation (Pywbem/Model/Listener.lean).  Three bundles:
  CtlInv  (fixed protocol): per-program-counter assertions of the main thread + global control facts
  DataInv (fixed protocol): conservation dlv ++ inflight ++ queue = enq and shape of the callback log
  UniqInv (both protocols): sequence-number bounds, freshness, per-sender order, ack bookkeeping
  FullInv (both protocols): the _queue_full flag and its edge-triggered warnings
plus the progress measure for "stop() can always return".  The model has two servers (HTTP, HTTPS).
-/
import Pywbem.Model.Listener
open Pywbem.Model.Listener Pywbem.Proto

namespace Proofs.Listener

def cbQuiet (s : Sys) : Prop := s.cb = .off ∨ s.cb = .done false

/-- per-program-counter assertions of the main thread (fixed protocol) -/
def MainOK (c : Cfg) (s : Sys) : Prop :=
  match s.main with
  | .idle => (s.up = true → s.qref = true ∧ s.thrRef = true ∧ (c.http = true → s.srv = true ∧ s.accepting = true) ∧
                (c.https = true → s.srv2 = true ∧ s.accepting2 = true)) ∧
             (s.up = false → s.thrRef = false ∧ s.qref = false ∧ s.srv = false ∧ s.srv2 = false ∧ s.queue = [])
  | .sMkq => s.up = true ∧ s.thrRef = false ∧ s.qref = false ∧ s.srv = false ∧ s.srv2 = false ∧ s.queue = []
  | .sThr => s.up = true ∧ s.qref = true ∧ s.thrRef = false ∧ s.srv = false ∧ s.srv2 = false
  | .sSrv => s.up = true ∧ s.qref = true ∧ s.thrRef = true ∧ s.srv = false ∧ s.srv2 = false ∧ c.http = true
  | .sSrv2 => s.up = true ∧ s.qref = true ∧ s.thrRef = true ∧ s.srv2 = false ∧ c.https = true ∧
              (c.http = true → s.srv = true ∧ s.accepting = true)
  | .tShutdown => s.up = false ∧ s.srv = true
  | .tClose => s.up = false ∧ s.srv = true ∧ s.accepting = false
  | .tShutdown2 => s.up = false ∧ s.srv = false ∧ s.srv2 = true
  | .tClose2 => s.up = false ∧ s.srv = false ∧ s.srv2 = true ∧ s.accepting2 = false
  | .tPoll => s.up = false ∧ s.srv = false ∧ s.srv2 = false ∧ s.qref = true ∧ s.thrRef = true
  | .tSetEv => s.up = false ∧ s.srv = false ∧ s.srv2 = false ∧ s.qref = true ∧ s.thrRef = true ∧ s.queue = []
  | .tJoin => s.up = false ∧ s.srv = false ∧ s.srv2 = false ∧ s.qref = true ∧ s.thrRef = true ∧ s.queue = [] ∧
              s.stopEv = true

structure CtlInv (c : Cfg) (s : Sys) : Prop where
  mainOK : MainOK c s
  noExc : s.cb ≠ .done true
  noErr : s.errs = []
  noIgn : s.ignored = []
  thr_q : s.thrRef = true → s.qref = true
  acc_srv : s.accepting = true → s.srv = true
  acc_srv2 : s.accepting2 = true → s.srv2 = true
  srv_q : s.srv = true ∨ s.srv2 = true → s.qref = true ∧ s.thrRef = true
  nosrv_idle : s.srv = false → idleOn false s.senders = true
  nosrv2_idle : s.srv2 = false → idleOn true s.senders = true
  nothr_cb : s.thrRef = false → cbQuiet s
  evOff : s.stopEv = true → s.thrRef = false ∨ s.main = .tJoin
  thrAlive : s.thrRef = true → s.cb ≠ .off
  noDone : s.thrRef = true → s.stopEv = false → ∀ e, s.cb ≠ .done e

theorem allIdle_get {l : List Sender} (h : allIdle l = true) {j : Nat} {sd : Sender}
    (hj : l[j]? = some sd) : sd.pc = .idle := by
  have hm : sd ∈ l := List.mem_of_getElem? hj
  simp [allIdle, List.all_eq_true] at h
  exact h sd hm

theorem idleOn_get {t : Bool} {l : List Sender} (h : idleOn t l = true) {j : Nat} {sd : Sender}
    (hj : l[j]? = some sd) : sd.pc = .idle ∨ sd.tls ≠ t := by
  have hm : sd ∈ l := List.mem_of_getElem? hj
  simp [idleOn, List.all_eq_true] at h
  exact h sd hm

theorem allIdle_of_idleOn {l : List Sender} (h1 : idleOn false l = true) (h2 : idleOn true l = true) :
    allIdle l = true := by
  simp [allIdle, idleOn, List.all_eq_true] at *
  intro sd hsd
  rcases h1 sd hsd with h | h
  · exact h
  · rcases h2 sd hsd with h' | h'
    · exact h'
    · cases ht : sd.tls <;> simp_all

theorem idleOn_of_allIdle {t : Bool} {l : List Sender} (h : allIdle l = true) : idleOn t l = true := by
  simp [allIdle, idleOn, List.all_eq_true] at *
  intro sd hsd; exact Or.inl (h sd hsd)

/-- updating sender `j` keeps "no handler of server `t`" when the new entry is idle or belongs to the other server -/
theorem idleOn_set {t : Bool} {l : List Sender} (h : idleOn t l = true) (j : Nat) (sd' : Sender)
    (h' : sd'.pc = .idle ∨ sd'.tls ≠ t) : idleOn t (l.set j sd') = true := by
  simp [idleOn, List.all_eq_true] at *
  intro x hx
  rcases List.mem_or_eq_of_mem_set hx with hx | hx
  · exact h x hx
  · subst hx; exact h'

theorem ctl_init (c : Cfg) (n : Nat) : CtlInv c (init n) := by
  refine ⟨?_, ?_, ?_, ?_, ?_, ?_, ?_, ?_, ?_, ?_, ?_, ?_, ?_, ?_⟩ <;> simp [init, MainOK, cbQuiet, idleOn]

theorem ctl_start {c : Cfg} {s s' : Sys} (_hc : c.proto = .fixed) (h : CtlInv c s) (hs : stepStart s = some s') : CtlInv c s' := by
  obtain ⟨m, a1, a2, a3, a4, a5, a5', a6, a7, a7', a8, a9, a10, a11⟩ := h
  unfold stepStart at hs
  split at hs
  · rename_i hg
    obtain ⟨hm, hu⟩ := hg
    simp [MainOK, hm, hu] at m
    split at hs
    · simp_all
    · injection hs with hs; subst hs
      refine ⟨?_, ?_, ?_, ?_, ?_, ?_, ?_, ?_, ?_, ?_, ?_, ?_, ?_, ?_⟩ <;> simp_all [MainOK, cbQuiet]
  · simp at hs

theorem ctl_stop {c : Cfg} {s s' : Sys} (hc : c.proto = .fixed) (h : CtlInv c s) (hs : stepStop c s = some s') : CtlInv c s' := by
  obtain ⟨m, a1, a2, a3, a4, a5, a5', a6, a7, a7', a8, a9, a10, a11⟩ := h
  unfold stepStop at hs
  split at hs
  · rename_i hm
    simp [MainOK, hm] at m
    split at hs
    · injection hs with hs; subst hs
      refine ⟨?_, ?_, ?_, ?_, ?_, ?_, ?_, ?_, ?_, ?_, ?_, ?_, ?_, ?_⟩ <;> simp_all [MainOK, cbQuiet]
    · injection hs with hs; subst hs
      rename_i hsrv
      simp at hsrv
      cases hu : s.up
      · obtain ⟨h1, h2, h3, h4, h5⟩ := m.2 hu
        refine ⟨?_, ?_, ?_, ?_, ?_, ?_, ?_, ?_, ?_, ?_, ?_, ?_, ?_, ?_⟩ <;>
          simp_all [MainOK, cbQuiet, stopHttps, afterServers, afterQ]
      · obtain ⟨h1, h2, _, _⟩ := m.1 hu
        unfold stopHttps
        split
        · refine ⟨?_, ?_, ?_, ?_, ?_, ?_, ?_, ?_, ?_, ?_, ?_, ?_, ?_, ?_⟩ <;> simp_all [MainOK, cbQuiet]
        · refine ⟨?_, ?_, ?_, ?_, ?_, ?_, ?_, ?_, ?_, ?_, ?_, ?_, ?_, ?_⟩ <;>
            simp_all [MainOK, cbQuiet, afterServers, afterQ]
  · simp at hs


theorem ctl_fail {c : Cfg} {s s' : Sys} (hc : c.proto = .fixed) (h : CtlInv c s) (hs : stepFail c s = some s') : CtlInv c s' := by
  obtain ⟨m, a1, a2, a3, a4, a5, a5', a6, a7, a7', a8, a9, a10, a11⟩ := h
  unfold stepFail at hs
  split at hs
  · rename_i hm
    rcases hm with hm | hm <;> simp [MainOK, hm] at m
    · -- the HTTP server could not be created: no server exists
      have hsrv : s.srv = false := m.2.2.2.1
      simp [hsrv] at hs; subst hs
      refine ⟨?_, ?_, ?_, ?_, ?_, ?_, ?_, ?_, ?_, ?_, ?_, ?_, ?_, ?_⟩ <;> simp_all [MainOK, cbQuiet, stopHttps, afterServers]
    · -- the HTTPS server could not be created/wrapped: the HTTP server may be serving
      split at hs
      · injection hs with hs; subst hs
        refine ⟨?_, ?_, ?_, ?_, ?_, ?_, ?_, ?_, ?_, ?_, ?_, ?_, ?_, ?_⟩ <;> simp_all [MainOK, cbQuiet]
      · injection hs with hs; subst hs
        refine ⟨?_, ?_, ?_, ?_, ?_, ?_, ?_, ?_, ?_, ?_, ?_, ?_, ?_, ?_⟩ <;> simp_all [MainOK, cbQuiet, stopHttps, afterServers]
  · simp at hs

theorem ctl_main {c : Cfg} {s s' : Sys} (hc : c.proto = .fixed) (h : CtlInv c s) (hs : stepMain c s = some s') : CtlInv c s' := by
  obtain ⟨m, a1, a2, a3, a4, a5, a5', a6, a7, a7', a8, a9, a10, a11⟩ := h
  unfold stepMain at hs
  split at hs <;> rename_i hm <;> simp [MainOK, hm] at m
  · simp at hs
  · -- sMkq
    injection hs with hs; subst hs
    refine ⟨?_, ?_, ?_, ?_, ?_, ?_, ?_, ?_, ?_, ?_, ?_, ?_, ?_, ?_⟩ <;> simp_all [MainOK, cbQuiet]
  · -- sThr
    injection hs with hs; subst hs
    unfold startServers
    split
    · refine ⟨?_, ?_, ?_, ?_, ?_, ?_, ?_, ?_, ?_, ?_, ?_, ?_, ?_, ?_⟩ <;> simp_all [MainOK, cbQuiet]
    · split
      · refine ⟨?_, ?_, ?_, ?_, ?_, ?_, ?_, ?_, ?_, ?_, ?_, ?_, ?_, ?_⟩ <;> simp_all [MainOK, cbQuiet]
      · refine ⟨?_, ?_, ?_, ?_, ?_, ?_, ?_, ?_, ?_, ?_, ?_, ?_, ?_, ?_⟩ <;> simp_all [MainOK, cbQuiet]
  · -- sSrv
    injection hs with hs; subst hs
    split
    · refine ⟨?_, ?_, ?_, ?_, ?_, ?_, ?_, ?_, ?_, ?_, ?_, ?_, ?_, ?_⟩ <;> simp_all [MainOK, cbQuiet]
    · refine ⟨?_, ?_, ?_, ?_, ?_, ?_, ?_, ?_, ?_, ?_, ?_, ?_, ?_, ?_⟩ <;> simp_all [MainOK, cbQuiet]
  · -- sSrv2
    injection hs with hs; subst hs
    refine ⟨?_, ?_, ?_, ?_, ?_, ?_, ?_, ?_, ?_, ?_, ?_, ?_, ?_, ?_⟩ <;> simp_all [MainOK, cbQuiet]
  · -- tShutdown
    injection hs with hs; subst hs
    refine ⟨?_, ?_, ?_, ?_, ?_, ?_, ?_, ?_, ?_, ?_, ?_, ?_, ?_, ?_⟩ <;> simp_all [MainOK, cbQuiet]
  · -- tClose
    split at hs
    · injection hs with hs; subst hs
      rename_i hidle
      have := a6 (Or.inl m.2.1)
      unfold stopHttps
      split
      · refine ⟨?_, ?_, ?_, ?_, ?_, ?_, ?_, ?_, ?_, ?_, ?_, ?_, ?_, ?_⟩ <;> simp_all [MainOK, cbQuiet]
      · refine ⟨?_, ?_, ?_, ?_, ?_, ?_, ?_, ?_, ?_, ?_, ?_, ?_, ?_, ?_⟩ <;> simp_all [MainOK, cbQuiet, afterServers]
    · simp at hs
  · -- tShutdown2
    injection hs with hs; subst hs
    refine ⟨?_, ?_, ?_, ?_, ?_, ?_, ?_, ?_, ?_, ?_, ?_, ?_, ?_, ?_⟩ <;> simp_all [MainOK, cbQuiet]
  · -- tClose2
    split at hs
    · injection hs with hs; subst hs
      have := a6 (Or.inr m.2.2.1)
      refine ⟨?_, ?_, ?_, ?_, ?_, ?_, ?_, ?_, ?_, ?_, ?_, ?_, ?_, ?_⟩ <;> simp_all [MainOK, cbQuiet, afterServers]
    · simp at hs
  · -- tPoll
    injection hs with hs; subst hs
    unfold pollStep
    split
    · refine ⟨?_, ?_, ?_, ?_, ?_, ?_, ?_, ?_, ?_, ?_, ?_, ?_, ?_, ?_⟩ <;> simp_all [MainOK, cbQuiet]
    · refine ⟨?_, ?_, ?_, ?_, ?_, ?_, ?_, ?_, ?_, ?_, ?_, ?_, ?_, ?_⟩ <;> simp_all [MainOK, cbQuiet, afterQ]
  · -- tSetEv
    injection hs with hs; subst hs
    refine ⟨?_, ?_, ?_, ?_, ?_, ?_, ?_, ?_, ?_, ?_, ?_, ?_, ?_, ?_⟩ <;> simp_all [MainOK, cbQuiet]
  · -- tJoin
    split at hs
    · injection hs with hs; subst hs
      rename_i exc hcb
      have : exc = false := by cases exc <;> simp_all
      subst this
      refine ⟨?_, ?_, ?_, ?_, ?_, ?_, ?_, ?_, ?_, ?_, ?_, ?_, ?_, ?_⟩ <;> simp_all [MainOK, cbQuiet, joinStep]
    · simp at hs

theorem mainOK_congr {c : Cfg} {s s' : Sys} (h : MainOK c s) (h1 : s'.main = s.main) (h2 : s'.up = s.up) (h3 : s'.srv = s.srv)
    (h4 : s'.accepting = s.accepting) (h3' : s'.srv2 = s.srv2) (h4' : s'.accepting2 = s.accepting2)
    (h5 : s'.thrRef = s.thrRef) (h6 : s'.qref = s.qref)
    (h7 : s.queue = [] → s'.queue = []) (h8 : s'.stopEv = s.stopEv) : MainOK c s' := by
  unfold MainOK at h ⊢
  rw [h1, h2, h3, h4, h3', h4', h5, h6, h8]
  cases hm : s.main <;> simp [hm] at h ⊢ <;> simp_all

theorem ctl_cb {c : Cfg} {s s' : Sys} (hc : c.proto = .fixed) (h : CtlInv c s) (hs : stepCb c s = some s') : CtlInv c s' := by
  obtain ⟨m, a1, a2, a3, a4, a5, a5', a6, a7, a7', a8, a9, a10, a11⟩ := h
  have ht : s.thrRef = true := by
    cases ht : s.thrRef
    · have := a8 ht; unfold stepCb at hs; rcases this with h | h <;> simp [h] at hs
    · rfl
  unfold stepCb at hs
  split at hs <;> rename_i hcb
  · simp at hs
  · injection hs with hs; subst hs
    refine ⟨mainOK_congr m ?_ ?_ ?_ ?_ ?_ ?_ ?_ ?_ ?_ ?_, ?_, ?_, ?_, ?_, ?_, ?_, ?_, ?_, ?_, ?_, ?_, ?_, ?_⟩ <;> simp_all [cbQuiet, loopTop]
  · split at hs <;> rename_i hq
    · injection hs with hs; subst hs
      refine ⟨mainOK_congr m ?_ ?_ ?_ ?_ ?_ ?_ ?_ ?_ ?_ ?_, ?_, ?_, ?_, ?_, ?_, ?_, ?_, ?_, ?_, ?_, ?_, ?_, ?_⟩ <;> simp_all [cbQuiet]
    · injection hs with hs; subst hs
      refine ⟨mainOK_congr m ?_ ?_ ?_ ?_ ?_ ?_ ?_ ?_ ?_ ?_, ?_, ?_, ?_, ?_, ?_, ?_, ?_, ?_, ?_, ?_, ?_, ?_, ?_⟩ <;>
        simp_all [cbQuiet, nextDeliver, afterCallbacks] <;> split <;> simp_all
  · injection hs with hs; subst hs
    refine ⟨mainOK_congr m ?_ ?_ ?_ ?_ ?_ ?_ ?_ ?_ ?_ ?_, ?_, ?_, ?_, ?_, ?_, ?_, ?_, ?_, ?_, ?_, ?_, ?_, ?_⟩ <;> simp_all [cbQuiet]
  · injection hs with hs; subst hs
    refine ⟨mainOK_congr m ?_ ?_ ?_ ?_ ?_ ?_ ?_ ?_ ?_ ?_, ?_, ?_, ?_, ?_, ?_, ?_, ?_, ?_, ?_, ?_, ?_, ?_, ?_⟩ <;>
        simp_all [cbQuiet, nextDeliver, afterCallbacks] <;> split <;> simp_all
  · injection hs with hs; subst hs
    refine ⟨mainOK_congr m ?_ ?_ ?_ ?_ ?_ ?_ ?_ ?_ ?_ ?_, ?_, ?_, ?_, ?_, ?_, ?_, ?_, ?_, ?_, ?_, ?_, ?_, ?_⟩ <;> simp_all [cbQuiet, loopTop]
  · split at hs <;> injection hs with hs <;> subst hs <;>
      refine ⟨mainOK_congr m ?_ ?_ ?_ ?_ ?_ ?_ ?_ ?_ ?_ ?_, ?_, ?_, ?_, ?_, ?_, ?_, ?_, ?_, ?_, ?_, ?_, ?_, ?_⟩ <;> simp_all [cbQuiet, loopTop]
  · simp at hs

theorem mainOK_congr_srv {c : Cfg} {s s' : Sys} (h : MainOK c s) (hsrv : s.srv = true ∨ s.srv2 = true) (h1 : s'.main = s.main)
    (h2 : s'.up = s.up) (h3 : s'.srv = s.srv) (h4 : s'.accepting = s.accepting) (h3' : s'.srv2 = s.srv2)
    (h4' : s'.accepting2 = s.accepting2) (h5 : s'.thrRef = s.thrRef) (h6 : s'.qref = s.qref)
    (h8 : s'.stopEv = s.stopEv) : MainOK c s' := by
  unfold MainOK at h ⊢
  rw [h1, h2, h3, h4, h3', h4', h5, h6, h8]
  cases hm : s.main <;> simp [hm] at h ⊢ <;> rcases hsrv with hh | hh <;> simp_all


/-- the two "no handler of a stopped server" facts survive an update of sender `j` that keeps the port and
    either keeps a busy handler busy or makes it idle -/
theorem idle_facts_set {s : Sys} {j : Nat} {sd sd' : Sender} (hj : s.senders[j]? = some sd)
    (a7 : s.srv = false → idleOn false s.senders = true) (a7' : s.srv2 = false → idleOn true s.senders = true)
    (htls : sd'.tls = sd.tls) (hbusy : sd.pc ≠ .idle ∨ sd'.pc = .idle) :
    (s.srv = false → idleOn false (s.senders.set j sd') = true) ∧
    (s.srv2 = false → idleOn true (s.senders.set j sd') = true) := by
  constructor
  · intro h
    refine idleOn_set (a7 h) j sd' ?_
    rcases hbusy with hb | hb
    · rcases idleOn_get (a7 h) hj with h1 | h1
      · exact absurd h1 hb
      · right; rw [htls]; exact h1
    · exact Or.inl hb
  · intro h
    refine idleOn_set (a7' h) j sd' ?_
    rcases hbusy with hb | hb
    · rcases idleOn_get (a7' h) hj with h1 | h1
      · exact absurd h1 hb
      · right; rw [htls]; exact h1
    · exact Or.inl hb

theorem ctl_accept {c : Cfg} {s : Sys} (h : CtlInv c s) {j : Nat} {sd : Sender} (hj : s.senders[j]? = some sd)
    (t : Bool) (hsrv : if t then s.srv2 = true else s.srv = true) : CtlInv c (acceptReq s j sd t) := by
  obtain ⟨m, a1, a2, a3, a4, a5, a5', a6, a7, a7', a8, a9, a10, a11⟩ := h
  have hsv : s.srv = true ∨ s.srv2 = true := by cases t <;> simp_all
  obtain ⟨hq, ht⟩ := a6 hsv
  unfold acceptReq
  simp only [hq, if_true]
  have i1 : s.srv = false → idleOn false (s.senders.set j { sd with pc := .put, tls := t }) = true := by
    intro h0; refine idleOn_set (a7 h0) j _ ?_; cases t <;> simp_all
  have i2 : s.srv2 = false → idleOn true (s.senders.set j { sd with pc := .put, tls := t }) = true := by
    intro h0; refine idleOn_set (a7' h0) j _ ?_; cases t <;> simp_all
  refine ⟨mainOK_congr_srv m hsv ?_ ?_ ?_ ?_ ?_ ?_ ?_ ?_ ?_, ?_, ?_, ?_, ?_, ?_, ?_, ?_, i1, i2, ?_, ?_, ?_, ?_⟩ <;>
    simp_all [cbQuiet]

theorem ctl_snd {c : Cfg} {s s' : Sys} (_hc : c.proto = .fixed) (h : CtlInv c s) {j : Nat} (hs : stepSnd c s j = some s') : CtlInv c s' := by
  unfold stepSnd at hs
  split at hs
  · simp at hs
  · rename_i sd hj
    unfold stepSndAt at hs
    split at hs <;> rename_i hpc
    · -- idle: a request arrives over the HTTP port
      split at hs
      · rename_i hacc
        injection hs with hs; subst hs
        exact ctl_accept h hj false (by simpa using h.acc_srv hacc)
      · simp at hs
    all_goals
      obtain ⟨m, a1, a2, a3, a4, a5, a5', a6, a7, a7', a8, a9, a10, a11⟩ := h
      have hsv : s.srv = true ∨ s.srv2 = true := by
        cases h1 : s.srv <;> cases h2 : s.srv2 <;> simp
        have := allIdle_get (allIdle_of_idleOn (a7 h1) (a7' h2)) hj
        simp [hpc] at this
    · split at hs <;> injection hs with hs <;> subst hs
      · obtain ⟨i1, i2⟩ := idle_facts_set (sd' := { sd with pc := .respErr }) hj a7 a7' rfl (Or.inl (by simp [hpc]))
        refine ⟨mainOK_congr_srv m hsv ?_ ?_ ?_ ?_ ?_ ?_ ?_ ?_ ?_, ?_, ?_, ?_, ?_, ?_, ?_, ?_, i1, i2, ?_, ?_, ?_, ?_⟩ <;>
          simp_all [cbQuiet, setPc]
      · obtain ⟨i1, i2⟩ := idle_facts_set (sd' := { sd with pc := .respOk }) hj a7 a7' rfl (Or.inl (by simp [hpc]))
        refine ⟨mainOK_congr_srv m hsv ?_ ?_ ?_ ?_ ?_ ?_ ?_ ?_ ?_, ?_, ?_, ?_, ?_, ?_, ?_, ?_, i1, i2, ?_, ?_, ?_, ?_⟩ <;>
          simp_all [cbQuiet, setPc]
    all_goals
      injection hs with hs; subst hs
      obtain ⟨i1, i2⟩ := idle_facts_set (sd' := { next := sd.next + 1, pc := .idle, tls := sd.tls }) hj a7 a7' rfl (Or.inr rfl)
      refine ⟨mainOK_congr_srv m hsv ?_ ?_ ?_ ?_ ?_ ?_ ?_ ?_ ?_, ?_, ?_, ?_, ?_, ?_, ?_, ?_, i1, i2, ?_, ?_, ?_, ?_⟩ <;>
        simp_all [cbQuiet, finishReq]

theorem ctl_sndTls {c : Cfg} {s s' : Sys} (_hc : c.proto = .fixed) (h : CtlInv c s) {j : Nat} (hs : stepSndTls s j = some s') : CtlInv c s' := by
  unfold stepSndTls at hs
  split at hs
  · simp at hs
  · rename_i sd hj
    split at hs
    · rename_i hg
      injection hs with hs; subst hs
      exact ctl_accept h hj true (by simpa using h.acc_srv2 hg.2)
    · simp at hs

end Proofs.Listener


namespace Proofs.Listener

/-- the fields the history invariants talk about -/
def sameData (s s' : Sys) : Prop :=
  s'.queue = s.queue ∧ s'.cb = s.cb ∧ s'.senders = s.senders ∧ s'.enq = s.enq ∧ s'.dlv = s.dlv ∧
  s'.log = s.log ∧ s'.acked = s.acked ∧ s'.refused = s.refused ∧ s'.ignored = s.ignored ∧
  s'.qfull = s.qfull ∧ s'.fullLog = s.fullLog

theorem sameData_afterQ (c : Cfg) (s : Sys) : sameData s (afterQ c s) := by
  unfold afterQ sameData; split
  · simp
  · split <;> simp

theorem sameData_afterServers (c : Cfg) (s : Sys) : sameData s (afterServers c s) := by
  unfold afterServers; split
  · simp [sameData]
  · exact sameData_afterQ c s

theorem sameData_stopHttps (c : Cfg) (s : Sys) : sameData s (stopHttps c s) := by
  unfold stopHttps; split
  · simp [sameData]
  · exact sameData_afterServers c s

theorem sameData_pollStep (c : Cfg) (s : Sys) : sameData s (pollStep c s) := by
  unfold pollStep; split
  · simp [sameData]
  · split
    · have := sameData_afterQ c { s with qref := false }; simpa [sameData] using this
    · exact sameData_afterQ c s

theorem sameData_joinStep (c : Cfg) (s : Sys) (e : Bool) : sameData s (joinStep c s e) := by
  unfold joinStep; split
  · simp [sameData]
  · split <;> simp [sameData]

theorem calls_zero (x : Ind) : calls 0 x = [] := by simp [calls]
theorem calls_succ (k : Nat) (x : Ind) : calls (k + 1) x = calls k x ++ [(k, x)] := by
  simp [calls, List.range_succ]
theorem expand_snoc (n : Nat) (d : List Ind) (x : Ind) : expand n (d ++ [x]) = expand n d ++ calls n x := by
  simp [expand]

def KOk (c : Cfg) (s : Sys) : Prop :=
  match s.cb with
  | .enter _ k => k < c.ncb
  | .inCb _ k => k < c.ncb
  | _ => True

structure DataInv (c : Cfg) (s : Sys) : Prop where
  conserve : s.dlv ++ inflight s ++ s.queue = s.enq
  logOk : s.log = expand c.ncb s.dlv ++ partialLog c s
  kOk : KOk c s

theorem data_congr {c : Cfg} {s s' : Sys} (h : DataInv c s) (hd : sameData s s') : DataInv c s' := by
  obtain ⟨h1, h2, h3, h4, h5, h6, _, _, _, _, _⟩ := hd
  obtain ⟨a, b, k⟩ := h
  refine ⟨?_, ?_, ?_⟩
  · simpa [inflight, h1, h2, h4, h5] using a
  · simpa [partialLog, h2, h5, h6] using b
  · simpa [KOk, h2] using k

/-- a request accepted by a handler thread touches only the sender table (and the ghost `ignored`) -/
theorem data_accept {c : Cfg} {s : Sys} (h : DataInv c s) (j : Nat) (sd : Sender) (t : Bool) :
    DataInv c (acceptReq s j sd t) := by
  obtain ⟨a, b, k⟩ := h
  unfold acceptReq
  split <;> refine ⟨?_, ?_, ?_⟩ <;> simp_all [inflight, partialLog, KOk]

theorem data_init (c : Cfg) (n : Nat) : DataInv c (init n) := by
  refine ⟨?_, ?_, ?_⟩ <;> simp [init, inflight, partialLog, expand, KOk]

end Proofs.Listener

namespace Proofs.Listener

theorem data_start {c : Cfg} {s s' : Sys} (h : DataInv c s) (hs : stepStart s = some s') : DataInv c s' := by
  unfold stepStart at hs
  split at hs
  · split at hs <;> injection hs with hs <;> subst hs <;> exact data_congr h (by simp [sameData])
  · simp at hs

theorem data_stop {c : Cfg} {s s' : Sys} (h : DataInv c s) (hs : stepStop c s = some s') : DataInv c s' := by
  unfold stepStop at hs
  split at hs
  · split at hs <;> injection hs with hs <;> subst hs
    · exact data_congr h (by simp [sameData])
    · have := sameData_stopHttps c { s with up := false }
      exact data_congr h (by simpa [sameData] using this)
  · simp at hs

theorem sameData_fail {c : Cfg} {s s' : Sys} (hs : stepFail c s = some s') : sameData s s' := by
  unfold stepFail at hs
  split at hs
  · split at hs <;> injection hs with hs <;> subst hs
    · simp [sameData]
    · have := sameData_stopHttps c { s with up := false, startFails := s.startFails + 1 }
      simpa [sameData] using this
  · simp at hs

theorem data_main {c : Cfg} {s s' : Sys} (_hc : c.proto = .fixed) (hctl : CtlInv c s) (h : DataInv c s)
    (hs : stepMain c s = some s') : DataInv c s' := by
  have m := hctl.mainOK
  unfold stepMain at hs
  split at hs <;> rename_i hm <;> simp [MainOK, hm] at m
  · simp at hs
  · -- sMkq: the new queue is empty, so was the old one
    injection hs with hs; subst hs
    have hq : s.queue = [] := m.2.2.2.2.2
    exact data_congr h (by simp [sameData, hq])
  · -- sThr: the old thread object (if any) has ended
    injection hs with hs; subst hs
    obtain ⟨a, b, k⟩ := h
    have hquiet := hctl.nothr_cb m.2.2.1
    refine ⟨?_, ?_, ?_⟩
    · rcases hquiet with hq | hq <;> simpa [inflight, hq] using a
    · rcases hquiet with hq | hq <;> simpa [partialLog, hq] using b
    · simp [KOk]
  · injection hs with hs; subst hs; exact data_congr h (by simp [sameData])
  · injection hs with hs; subst hs; exact data_congr h (by simp [sameData])
  · injection hs with hs; subst hs; exact data_congr h (by simp [sameData])
  · split at hs
    · injection hs with hs; subst hs
      have := sameData_stopHttps c { s with srv := false }
      exact data_congr h (by simpa [sameData] using this)
    · simp at hs
  · injection hs with hs; subst hs; exact data_congr h (by simp [sameData])
  · split at hs
    · injection hs with hs; subst hs
      have := sameData_afterServers c { s with srv2 := false }
      exact data_congr h (by simpa [sameData] using this)
    · simp at hs
  · injection hs with hs; subst hs; exact data_congr h (sameData_pollStep c s)
  · injection hs with hs; subst hs; exact data_congr h (by simp [sameData])
  · split at hs
    · injection hs with hs; subst hs; exact data_congr h (sameData_joinStep c s _)
    · simp at hs

theorem data_cb {c : Cfg} {s s' : Sys} (hc : c.proto = .fixed) (h : DataInv c s)
    (hs : stepCb c s = some s') : DataInv c s' := by
  obtain ⟨a, b, k⟩ := h
  unfold stepCb at hs
  split at hs <;> rename_i hcb
  · simp at hs
  · injection hs with hs; subst hs
    refine ⟨?_, ?_, ?_⟩ <;> simp_all [loopTop, inflight, partialLog, KOk]
  · split at hs <;> rename_i hq
    · injection hs with hs; subst hs
      refine ⟨?_, ?_, ?_⟩ <;> simp_all [inflight, partialLog, KOk]
    · injection hs with hs; subst hs
      rename_i x q
      unfold nextDeliver
      split
      · refine ⟨?_, ?_, ?_⟩ <;> simp_all [inflight, partialLog, KOk, calls_zero]
      · rename_i hk
        have h0 : c.ncb = 0 := by omega
        refine ⟨?_, ?_, ?_⟩ <;> simp_all [afterCallbacks, inflight, partialLog, KOk, calls_zero]
  · injection hs with hs; subst hs
    refine ⟨?_, ?_, ?_⟩ <;> simp_all [inflight, partialLog, KOk, calls_succ]
  · injection hs with hs; subst hs
    rename_i x k0
    have hk : k0 < c.ncb := by simpa [KOk, hcb] using k
    unfold nextDeliver
    split
    · refine ⟨?_, ?_, ?_⟩ <;> simp_all [inflight, partialLog, KOk]
    · rename_i hk'
      have h0 : c.ncb = k0 + 1 := by omega
      refine ⟨?_, ?_, ?_⟩ <;> simp_all [afterCallbacks, inflight, partialLog, KOk]
  · injection hs with hs; subst hs
    refine ⟨?_, ?_, ?_⟩ <;> simp_all [loopTop, inflight, partialLog, KOk, expand_snoc]
  · split at hs <;> injection hs with hs <;> subst hs <;>
      refine ⟨?_, ?_, ?_⟩ <;> simp_all [loopTop, inflight, partialLog, KOk]
  · simp at hs

theorem data_snd {c : Cfg} {s s' : Sys} (h : DataInv c s) {j : Nat}
    (hs : stepSnd c s j = some s') : DataInv c s' := by
  obtain ⟨a, b, k⟩ := h
  unfold stepSnd at hs
  split at hs
  · simp at hs
  · rename_i sd hj
    unfold stepSndAt at hs
    split at hs
    · split at hs
      · injection hs with hs; subst hs; exact data_accept ⟨a, b, k⟩ j sd false
      · simp at hs
    · split at hs <;> injection hs with hs <;> subst hs
      · refine ⟨?_, ?_, ?_⟩ <;> simp_all [inflight, partialLog, KOk]
      · refine ⟨?_, ?_, ?_⟩
        · simp [inflight] at a ⊢; rw [← a]; simp
        · simpa [partialLog] using b
        · simpa [KOk] using k
    all_goals
      injection hs with hs; subst hs
      refine ⟨?_, ?_, ?_⟩ <;> simp_all [inflight, partialLog, KOk]

theorem data_sndTls {c : Cfg} {s s' : Sys} (h : DataInv c s) {j : Nat}
    (hs : stepSndTls s j = some s') : DataInv c s' := by
  unfold stepSndTls at hs
  split at hs
  · simp at hs
  · rename_i sd hj
    split at hs
    · injection hs with hs; subst hs; exact data_accept h j sd true
    · simp at hs

end Proofs.Listener


namespace Proofs.Listener

def enqBound (sd : Sender) : Nat := match sd.pc with | .respOk => sd.next + 1 | _ => sd.next

theorem get_set {l : List Sender} {j : Nat} {sd : Sender} (sd' : Sender) (hj : l[j]? = some sd) (i : Nat) :
    (l.set j sd')[i]? = if i = j then some sd' else l[i]? := by
  have hlt : j < l.length := by
    rcases Nat.lt_or_ge j l.length with h | h
    · exact h
    · simp [List.getElem?_eq_none h] at hj
  by_cases h : i = j
  · subst h; simp [hlt]
  · have : j ≠ i := fun e => h e.symm
    simp [h, List.getElem?_set_ne this]

def perSender (a b : Ind) : Prop := a.1 = b.1 → a.2 < b.2

structure UniqInv (c : Cfg) (s : Sys) : Prop where
  enqB : ∀ x ∈ s.enq, ∃ sd, s.senders[x.1]? = some sd ∧ x.2 < enqBound sd
  refB : ∀ x ∈ s.refused, ∃ sd, s.senders[x.1]? = some sd ∧ x.2 < sd.next
  ackB : ∀ x ∈ s.acked, ∃ sd, s.senders[x.1]? = some sd ∧ x.2 < sd.next
  order : s.enq.Pairwise perSender
  ackOrder : s.acked.Pairwise perSender
  refOrder : s.refused.Pairwise perSender
  ref_not_enq : ∀ x ∈ s.refused, x ∉ s.enq
  respOk_enq : ∀ j sd, s.senders[j]? = some sd → sd.pc = .respOk → (j, sd.next) ∈ s.enq
  ack_enq : ∀ x ∈ s.acked, x ∈ s.enq ∨ x ∈ s.ignored
  enq_ack : ∀ x ∈ s.enq, x ∈ s.acked ∨ ∃ sd, s.senders[x.1]? = some sd ∧ sd.pc = .respOk ∧ x.2 = sd.next
  respIgn_ign : ∀ j sd, s.senders[j]? = some sd → sd.pc = .respIgn → (j, sd.next) ∈ s.ignored
  qbound : c.maxQ ≠ 0 → s.queue.length ≤ c.maxQ

theorem uniq_init (c : Cfg) (n : Nat) : UniqInv c (init n) := by
  refine ⟨?_, ?_, ?_, ?_, ?_, ?_, ?_, ?_, ?_, ?_, ?_, ?_⟩ <;> simp [init]
  all_goals
    intro j sd hj hpc
    have : sd ∈ List.replicate n ({} : Sender) := List.mem_of_getElem? hj
    simp [List.mem_replicate] at this
    simp [this.2] at hpc

/-- steps of the main and callback threads leave the sender-side history alone and never grow the queue -/
def sameHist (s s' : Sys) : Prop :=
  s'.senders = s.senders ∧ s'.enq = s.enq ∧ s'.acked = s.acked ∧ s'.refused = s.refused ∧
  s'.ignored = s.ignored ∧ s'.queue.length ≤ s.queue.length ∧ s'.qfull = s.qfull ∧ s'.fullLog = s.fullLog

theorem sameHist_of_sameData {s s' : Sys} (h : sameData s s') : sameHist s s' := by
  obtain ⟨h1, h2, h3, h4, h5, h6, h7, h8, h9, h10, h11⟩ := h
  simp [sameHist, *]

theorem uniq_congr {c : Cfg} {s s' : Sys} (h : UniqInv c s) (hd : sameHist s s') : UniqInv c s' := by
  obtain ⟨h1, h2, h3, h4, h5, h6, _, _⟩ := hd
  obtain ⟨a1, a2, a3, a4, a5, a6, a7, a8, a9, a10, a11, a12⟩ := h
  refine ⟨?_, ?_, ?_, ?_, ?_, ?_, ?_, ?_, ?_, ?_, ?_, ?_⟩ <;> simp_all
  intro hq; have := a12 hq; omega

theorem sameHist_start {s s' : Sys} (hs : stepStart s = some s') : sameHist s s' := by
  unfold stepStart at hs
  split at hs
  · split at hs <;> injection hs with hs <;> subst hs <;> simp [sameHist]
  · simp at hs

theorem sameHist_stop {c : Cfg} {s s' : Sys} (hs : stepStop c s = some s') : sameHist s s' := by
  unfold stepStop at hs
  split at hs
  · split at hs <;> injection hs with hs <;> subst hs
    · simp [sameHist]
    · have := sameHist_of_sameData (sameData_stopHttps c { s with up := false })
      simpa [sameHist] using this
  · simp at hs

theorem sameHist_main {c : Cfg} {s s' : Sys} (hs : stepMain c s = some s') : sameHist s s' := by
  unfold stepMain at hs
  split at hs
  · simp at hs
  · injection hs with hs; subst hs; simp [sameHist]
  · injection hs with hs; subst hs; simp [sameHist]
  · injection hs with hs; subst hs; simp [sameHist]
  · injection hs with hs; subst hs; simp [sameHist]
  · injection hs with hs; subst hs; simp [sameHist]
  · split at hs
    · injection hs with hs; subst hs
      have := sameHist_of_sameData (sameData_stopHttps c { s with srv := false })
      simpa [sameHist] using this
    · simp at hs
  · injection hs with hs; subst hs; simp [sameHist]
  · split at hs
    · injection hs with hs; subst hs
      have := sameHist_of_sameData (sameData_afterServers c { s with srv2 := false })
      simpa [sameHist] using this
    · simp at hs
  · injection hs with hs; subst hs; exact sameHist_of_sameData (sameData_pollStep c s)
  · injection hs with hs; subst hs; simp [sameHist]
  · split at hs
    · injection hs with hs; subst hs; exact sameHist_of_sameData (sameData_joinStep c s _)
    · simp at hs

theorem sameHist_cb {c : Cfg} {s s' : Sys} (hs : stepCb c s = some s') : sameHist s s' := by
  unfold stepCb at hs
  split at hs
  · simp at hs
  · injection hs with hs; subst hs; unfold loopTop; split
    · split <;> simp [sameHist]
    · simp [sameHist]
  · split at hs
    · injection hs with hs; subst hs; simp [sameHist]
    · injection hs with hs; subst hs; unfold nextDeliver afterCallbacks; split
      · simp_all [sameHist]
      · split
        · split <;> simp_all [sameHist]
        · simp_all [sameHist]
  · injection hs with hs; subst hs; simp [sameHist]
  · injection hs with hs; subst hs; unfold nextDeliver afterCallbacks; split
    · simp [sameHist]
    · split
      · split <;> simp [sameHist]
      · simp [sameHist]
  · injection hs with hs; subst hs; unfold loopTop; split
    · split <;> simp [sameHist]
    · simp [sameHist]
  · split at hs <;> injection hs with hs <;> subst hs
    · simp [sameHist]
    · unfold loopTop; split
      · split <;> simp [sameHist]
      · simp [sameHist]
  · simp at hs


theorem uniq_accept {c : Cfg} {s : Sys} (h : UniqInv c s) {j : Nat} {sd : Sender} (hj : s.senders[j]? = some sd)
    (hpc : sd.pc = .idle) (t : Bool) : UniqInv c (acceptReq s j sd t) := by
  obtain ⟨enqB, refB, ackB, order, ackOrder, refOrder, ref_not_enq, respOk_enq, ack_enq, enq_ack, respIgn_ign, qbound⟩ := h
  have gs := fun sd' i => get_set (l := s.senders) (j := j) sd' hj i
  unfold acceptReq
  split <;>
    refine ⟨?_, ?_, ?_, ?_, ?_, ?_, ?_, ?_, ?_, ?_, ?_, ?_⟩ <;> simp only [gs] <;> (try assumption) <;>
    grind [enqBound]

/-- what a sender step does to the sender table: only entry `j` changes -/
theorem uniq_snd {c : Cfg} {s s' : Sys} (h : UniqInv c s) {j : Nat}
    (hs : stepSnd c s j = some s') : UniqInv c s' := by
  obtain ⟨enqB, refB, ackB, order, ackOrder, refOrder, ref_not_enq, respOk_enq, ack_enq, enq_ack, respIgn_ign, qbound⟩ := h
  unfold stepSnd at hs
  split at hs
  · simp at hs
  · rename_i sd hj
    have gs := fun sd' i => get_set (l := s.senders) (j := j) sd' hj i
    unfold stepSndAt at hs
    split at hs <;> rename_i hpc
    · -- idle: accept the request
      split at hs
      · injection hs with hs; subst hs
        exact uniq_accept ⟨enqB, refB, ackB, order, ackOrder, refOrder, ref_not_enq, respOk_enq, ack_enq, enq_ack,
          respIgn_ign, qbound⟩ hj hpc false
      · simp at hs
    · -- put
      split at hs <;> rename_i hfull <;> injection hs with hs <;> subst hs
      · refine ⟨?_, ?_, ?_, ?_, ?_, ?_, ?_, ?_, ?_, ?_, ?_, ?_⟩ <;> simp only [setPc, gs] <;> (try assumption) <;>
          grind [enqBound]
      · refine ⟨?_, ?_, ?_, ?_, ?_, ?_, ?_, ?_, ?_, ?_, ?_, ?_⟩ <;> simp only [setPc, gs] <;> (try assumption)
        · grind [enqBound]
        · grind [enqBound]
        · grind [enqBound]
        · rw [List.pairwise_append]; refine ⟨order, by simp, ?_⟩; grind [enqBound, perSender]
        · grind [enqBound]
        · grind [enqBound]
        · grind [enqBound]
        · grind [enqBound]
        · grind [enqBound]
        · grind [enqBound, isFull]
    · -- respOk
      injection hs with hs; subst hs
      refine ⟨?_, ?_, ?_, ?_, ?_, ?_, ?_, ?_, ?_, ?_, ?_, ?_⟩ <;> simp only [finishReq, gs] <;> (try assumption)
      · grind [enqBound]
      · grind [enqBound]
      · grind [enqBound]
      · rw [List.pairwise_append]; refine ⟨ackOrder, by simp, ?_⟩; grind [enqBound, perSender]
      · grind [enqBound]
      · grind [enqBound]
      · grind [enqBound]
      · grind [enqBound]
    · -- respIgn
      injection hs with hs; subst hs
      refine ⟨?_, ?_, ?_, ?_, ?_, ?_, ?_, ?_, ?_, ?_, ?_, ?_⟩ <;> simp only [finishReq, gs] <;> (try assumption)
      · grind [enqBound]
      · grind [enqBound]
      · grind [enqBound]
      · rw [List.pairwise_append]; refine ⟨ackOrder, by simp, ?_⟩; grind [enqBound, perSender]
      · grind [enqBound]
      · grind [enqBound]
      · grind [enqBound]
      · grind [enqBound]
    · -- respErr
      injection hs with hs; subst hs
      refine ⟨?_, ?_, ?_, ?_, ?_, ?_, ?_, ?_, ?_, ?_, ?_, ?_⟩ <;> simp only [finishReq, gs] <;> (try assumption)
      · grind [enqBound]
      · grind [enqBound]
      · grind [enqBound]
      · rw [List.pairwise_append]; refine ⟨refOrder, by simp, ?_⟩; grind [enqBound, perSender]
      · grind [enqBound]
      · grind [enqBound]
      · grind [enqBound]
      · grind [enqBound]
end Proofs.Listener

namespace Proofs.Listener

theorem uniq_sndTls {c : Cfg} {s s' : Sys} (h : UniqInv c s) {j : Nat}
    (hs : stepSndTls s j = some s') : UniqInv c s' := by
  unfold stepSndTls at hs
  split at hs
  · simp at hs
  · rename_i sd hj
    split at hs
    · rename_i hg
      injection hs with hs; subst hs; exact uniq_accept h hj hg.1 true
    · simp at hs

/-- everything that is proved by induction over the step relation for the fixed protocol -/
structure Inv (c : Cfg) (s : Sys) : Prop where
  ctl : CtlInv c s
  data : DataInv c s
  uniq : UniqInv c s

theorem uniq_step {c : Cfg} {s s' : Sys} (l : Label) (h : UniqInv c s) (hs : step c l s = some s') :
    UniqInv c s' := by
  cases l with
  | start => exact uniq_congr h (sameHist_start hs)
  | stop => exact uniq_congr h (sameHist_stop hs)
  | main => exact uniq_congr h (sameHist_main hs)
  | cb r => exact uniq_congr h (sameHist_cb hs)
  | snd j => exact uniq_snd h hs
  | sndTls j => exact uniq_sndTls h hs
  | failStart => exact uniq_congr h (sameHist_of_sameData (sameData_fail hs))

theorem inv_step {c : Cfg} (hc : c.proto = .fixed) {s s' : Sys} (l : Label) (h : Inv c s)
    (hs : step c l s = some s') : Inv c s' := by
  refine ⟨?_, ?_, uniq_step l h.uniq hs⟩
  · cases l with
    | start => exact ctl_start hc h.ctl hs
    | stop => exact ctl_stop hc h.ctl hs
    | main => exact ctl_main hc h.ctl hs
    | cb r => exact ctl_cb hc h.ctl hs
    | snd j => exact ctl_snd hc h.ctl hs
    | sndTls j => exact ctl_sndTls hc h.ctl hs
    | failStart => exact ctl_fail hc h.ctl hs
  · cases l with
    | start => exact data_start h.data hs
    | stop => exact data_stop h.data hs
    | main => exact data_main hc h.ctl h.data hs
    | cb r => exact data_cb hc h.data hs
    | snd j => exact data_snd h.data hs
    | sndTls j => exact data_sndTls h.data hs
    | failStart => exact data_congr h.data (sameData_fail hs)

theorem uniq_reachable {c : Cfg} {n : Nat} {s : Sys} (h : Reachable c n s) : UniqInv c s := by
  induction h with
  | init => exact uniq_init c n
  | step l _ hs ih => exact uniq_step l ih hs

theorem inv_reachable {c : Cfg} (hc : c.proto = .fixed) {n : Nat} {s : Sys} (h : Reachable c n s) : Inv c s := by
  induction h with
  | init => exact ⟨ctl_init c n, data_init c n, uniq_init c n⟩
  | step l _ hs ih => exact inv_step hc l ih hs

theorem reachable_runTrace {c : Cfg} {n : Nat} {s s' : Sys} (h : Reachable c n s) (ls : List Label)
    (hr : runTrace c ls s = some s') : Reachable c n s' := by
  induction ls generalizing s with
  | nil => simp [runTrace] at hr; subst hr; exact h
  | cons l ls ih =>
    simp only [runTrace] at hr
    split at hr
    · simp at hr
    · rename_i s1 hs1; exact ih (Reachable.step l h hs1) hr

end Proofs.Listener

namespace Proofs.Listener

theorem mem_calls {k m : Nat} {x y : Ind} : (k, x) ∈ calls m y ↔ k < m ∧ x = y := by
  simp only [calls, List.mem_map, List.mem_range, Prod.mk.injEq]
  constructor
  · rintro ⟨a, ha, rfl, rfl⟩; exact ⟨ha, rfl⟩
  · rintro ⟨hk, rfl⟩; exact ⟨k, hk, rfl, rfl⟩

theorem mem_expand {k n : Nat} {x : Ind} {d : List Ind} : (k, x) ∈ expand n d ↔ k < n ∧ x ∈ d := by
  simp only [expand, List.mem_flatMap, mem_calls]
  constructor
  · rintro ⟨y, hy, hk, rfl⟩; exact ⟨hk, hy⟩
  · rintro ⟨hk, hx⟩; exact ⟨x, hx, hk, rfl⟩

theorem partialLog_sub {c : Cfg} {s : Sys} {k : Nat} {x : Ind} (h : (k, x) ∈ partialLog c s) :
    x ∈ inflight s := by
  unfold partialLog at h; unfold inflight
  split at h <;> simp_all [mem_calls]

end Proofs.Listener

namespace Proofs.Listener

theorem count_calls (k m : Nat) (x y : Ind) : (calls m y).count (k, x) = if k < m ∧ x = y then 1 else 0 := by
  induction m with
  | zero => simp [calls]
  | succ m ih =>
    rw [calls_succ, List.count_append, ih, List.count_singleton]
    by_cases hxy : x = y
    · subst hxy
      by_cases hk : k < m
      · have : ¬ (m = k) := by omega
        simp [hk, this]; omega
      · by_cases hk2 : k = m
        · subst hk2; simp
        · have h3 : ¬ k < m + 1 := by omega
          have h4 : ¬ (m = k) := fun e => hk2 e.symm
          simp [hk, h3, h4]
    · have : ¬ (y = x) := fun e => hxy e.symm
      simp [hxy, this]

theorem count_expand (k n : Nat) (x : Ind) (d : List Ind) :
    (expand n d).count (k, x) = if k < n then d.count x else 0 := by
  induction d with
  | nil => simp [expand]
  | cons y ys ih =>
    have : expand n (y :: ys) = calls n y ++ expand n ys := by simp [expand]
    rw [this, List.count_append, ih, count_calls, List.count_cons]
    by_cases hk : k < n <;> by_cases hxy : x = y
    · subst hxy; simp [hk]; omega
    · have : ¬ (y = x) := fun e => hxy e.symm
      simp [hk, hxy, this]
    · simp [hk]
    · simp [hk]


theorem perSender_nodup (l : List Ind) (hl : l.Pairwise perSender) : l.Nodup := by
  refine List.Pairwise.imp ?_ hl
  intro a b hab e
  subst e
  exact Nat.lt_irrefl _ (hab rfl)

/-- the indication in flight is one indication; the partial log is its `calls` -/
theorem partialLog_calls (c : Cfg) (s : Sys) :
    (inflight s = [] ∧ partialLog c s = []) ∨ ∃ y m, inflight s = [y] ∧ partialLog c s = calls m y := by
  unfold inflight partialLog
  split
  · exact Or.inr ⟨_, _, rfl, rfl⟩
  · exact Or.inr ⟨_, _, rfl, rfl⟩
  · exact Or.inr ⟨_, _, rfl, rfl⟩
  · rename_i h1 h2 h3
    left
    cases hcb : s.cb <;> simp_all

end Proofs.Listener

namespace Proofs.Listener

/-! ### progress measure: stop() can always return -/

def W (c : Cfg) : Nat := 2 * c.ncb + 3

def mainRank (s : Sys) : Nat :=
  match s.main with
  | .sMkq => 150 | .sThr => 140 | .sSrv => 130 | .sSrv2 => 120
  | .idle => if s.up then 110 else 0
  | .tShutdown => 100 | .tClose => 90 | .tShutdown2 => 80 | .tClose2 => 75
  | .tPoll => 70 | .tSetEv => 60 | .tJoin => 50

def hWork (c : Cfg) : HPc → Nat
  | .idle => 0 | .put => W c + 2 | .respOk => 1 | .respIgn => 1 | .respErr => 1

def sndWork (c : Cfg) : List Sender → Nat
  | [] => 0
  | sd :: l => hWork c sd.pc + sndWork c l

def cbRem (c : Cfg) (s : Sys) : Nat :=
  match s.cb with
  | .off => 0 | .done _ => 0
  | .chk => if s.stopEv then 1 else 3
  | .get => 2 | .run => 3 | .taskDone _ => 3
  | .inCb _ k => 2 * (c.ncb - k) + 2
  | .enter _ k => 2 * (c.ncb - k) + 3

def measure (c : Cfg) (s : Sys) : Nat :=
  mainRank s + sndWork c s.senders + (s.queue.length * W c + cbRem c s)

theorem sndWork_set (c : Cfg) (l : List Sender) (j : Nat) (sd sd' : Sender) (hj : l[j]? = some sd) :
    sndWork c (l.set j sd') + hWork c sd.pc = sndWork c l + hWork c sd'.pc := by
  induction l generalizing j with
  | nil => simp at hj
  | cons a l ih =>
    cases j with
    | zero => simp at hj; subst hj; simp [sndWork]; omega
    | succ j => simp at hj; have := ih j hj; simp [sndWork]; omega

theorem exists_busy (l : List Sender) (h : allIdle l = false) :
    ∃ (j : Nat) (sd : Sender), l[j]? = some sd ∧ sd.pc ≠ HPc.idle := by
  induction l with
  | nil => simp [allIdle] at h
  | cons a l ih =>
    by_cases ha : a.pc = HPc.idle
    · have : allIdle l = false := by simpa [allIdle, ha] using h
      obtain ⟨j, sd, hj, hp⟩ := ih this
      refine ⟨j + 1, sd, ?_, hp⟩
      simp [hj]
    · exact ⟨0, a, by simp, ha⟩


theorem exists_busy_on (t : Bool) (l : List Sender) (h : idleOn t l = false) :
    ∃ (j : Nat) (sd : Sender), l[j]? = some sd ∧ sd.pc ≠ HPc.idle := by
  induction l with
  | nil => simp [idleOn] at h
  | cons a l ih =>
    by_cases ha : a.pc = HPc.idle
    · have : idleOn t l = false := by simpa [idleOn, ha] using h
      obtain ⟨j, sd, hj, hp⟩ := ih this
      refine ⟨j + 1, sd, ?_, hp⟩
      simp [hj]
    · exact ⟨0, a, by simp, ha⟩

theorem rank_afterQ (c : Cfg) (s : Sys) (hup : s.up = false) : mainRank (afterQ c s) ≤ 60 := by
  unfold afterQ; split
  · simp [mainRank]
  · split <;> simp [mainRank, hup]

theorem rank_afterServers (c : Cfg) (s : Sys) (hup : s.up = false) : mainRank (afterServers c s) ≤ 70 := by
  unfold afterServers; split
  · simp [mainRank]
  · have := rank_afterQ c s hup; omega

theorem measure_sameData {c : Cfg} {s s' : Sys} (h : sameData s s') (hev : s'.stopEv = s.stopEv) :
    measure c s' + mainRank s = mainRank s' + measure c s := by
  obtain ⟨h1, h2, h3, _⟩ := h
  simp only [measure, cbRem, h1, h2, h3, hev]
  omega

theorem stopEv_afterQ (c : Cfg) (s : Sys) : (afterQ c s).stopEv = s.stopEv := by
  unfold afterQ; split
  · rfl
  · split <;> rfl

theorem stopEv_afterServers (c : Cfg) (s : Sys) : (afterServers c s).stopEv = s.stopEv := by
  unfold afterServers; split
  · rfl
  · exact stopEv_afterQ c s

theorem rank_stopHttps (c : Cfg) (s : Sys) (hup : s.up = false) : mainRank (stopHttps c s) ≤ 80 := by
  unfold stopHttps; split
  · simp [mainRank]
  · have := rank_afterServers c s hup; omega

theorem stopEv_stopHttps (c : Cfg) (s : Sys) : (stopHttps c s).stopEv = s.stopEv := by
  unfold stopHttps; split
  · rfl
  · exact stopEv_afterServers c s

/-- main-thread cases of the progress lemma -/
theorem progress_main {c : Cfg} (hc : c.proto = .fixed) {s : Sys} (I : Inv c s)
    (hm : s.main ≠ .idle) (hclose : s.main = .tClose → idleOn false s.senders = true)
    (hclose2 : s.main = .tClose2 → idleOn true s.senders = true)
    (hpoll : s.main = .tPoll → s.queue = []) (hjoin : s.main = .tJoin → ∃ e, s.cb = .done e) :
    ∃ s', stepMain c s = some s' ∧ measure c s' < measure c s := by
  have m := I.ctl.mainOK
  have hle : mainRank s ≤ measure c s := by simp only [measure]; omega
  cases hmain : s.main <;> simp [MainOK, hmain] at m
  · exact absurd hmain hm
  · -- sMkq
    refine ⟨{ s with qref := true, queue := [], main := .sThr }, by simp [stepMain, hmain], ?_⟩
    simp [measure, mainRank, cbRem, hmain, m.2.2.2.2.2]
  · -- sThr
    refine ⟨{ s with thrRef := true, stopEv := false, cb := .run, main := startServers c }, by simp [stepMain, hmain], ?_⟩
    have hq := I.ctl.nothr_cb m.2.2.1
    cases h1 : c.http <;> cases h2 : c.https <;> rcases hq with hq | hq <;>
      simp [measure, mainRank, cbRem, hmain, hq, startServers, h1, h2, m.1] <;> omega
  · -- sSrv
    refine ⟨{ s with srv := true, accepting := true, main := if c.https then .sSrv2 else .idle },
      by simp [stepMain, hmain], ?_⟩
    cases hh : c.https <;> simp [measure, mainRank, cbRem, hmain, m.1]
  · -- sSrv2
    refine ⟨{ s with srv2 := true, accepting2 := true, main := .idle }, by simp [stepMain, hmain], ?_⟩
    simp [measure, mainRank, cbRem, hmain, m.1]
  · -- tShutdown
    refine ⟨{ s with accepting := false, main := .tClose }, by simp [stepMain, hmain], ?_⟩
    simp [measure, mainRank, cbRem, hmain]
  · -- tClose
    have hi := hclose hmain
    refine ⟨stopHttps c { s with srv := false }, by simp [stepMain, hmain, hi], ?_⟩
    have h1 := rank_stopHttps c { s with srv := false } m.1
    have h2 := measure_sameData (c := c) (sameData_stopHttps c { s with srv := false })
      (stopEv_stopHttps c { s with srv := false })
    have h4 : measure c { s with srv := false } = measure c s := by simp [measure, mainRank, cbRem]
    have h5 : mainRank { s with srv := false } = 90 := by simp [mainRank, hmain]
    have h6 : mainRank s = 90 := by simp [mainRank, hmain]
    omega
  · -- tShutdown2
    refine ⟨{ s with accepting2 := false, main := .tClose2 }, by simp [stepMain, hmain], ?_⟩
    simp [measure, mainRank, cbRem, hmain]
  · -- tClose2
    have hi := hclose2 hmain
    refine ⟨afterServers c { s with srv2 := false }, by simp [stepMain, hmain, hi], ?_⟩
    have h1 := rank_afterServers c { s with srv2 := false } m.1
    have h2 := measure_sameData (c := c) (sameData_afterServers c { s with srv2 := false })
      (stopEv_afterServers c { s with srv2 := false })
    have h4 : measure c { s with srv2 := false } = measure c s := by simp [measure, mainRank, cbRem]
    have h5 : mainRank { s with srv2 := false } = 75 := by simp [mainRank, hmain]
    have h6 : mainRank s = 75 := by simp [mainRank, hmain]
    omega
  · -- tPoll
    have hq := hpoll hmain
    have hps : pollStep c s = afterQ c s := by simp [pollStep, hq, hc]
    refine ⟨afterQ c s, by simp [stepMain, hmain, hps], ?_⟩
    have h1 := rank_afterQ c s m.1
    have h2 := measure_sameData (c := c) (sameData_afterQ c s) (stopEv_afterQ c s)
    have h6 : mainRank s = 70 := by simp [mainRank, hmain]
    omega
  · -- tSetEv
    refine ⟨{ s with stopEv := true, main := .tJoin }, by simp [stepMain, hmain], ?_⟩
    simp only [measure, mainRank, cbRem, hmain]
    cases hcb : s.cb <;> simp <;> split <;> omega
  · -- tJoin
    obtain ⟨e, he⟩ := hjoin hmain
    have : e = false := by
      cases e
      · rfl
      · exact absurd he I.ctl.noExc
    subst this
    refine ⟨joinStep c s false, by simp [stepMain, hmain, he], ?_⟩
    simp [joinStep, hc, measure, mainRank, cbRem, hmain, he, m.1]

/-- callback-thread cases: every step of a live callback thread makes progress, except the idle
    timeout (`get` on an empty queue while no stop was requested) -/
theorem progress_cb {c : Cfg} (hc : c.proto = .fixed) {s : Sys} (hk : KOk c s)
    (hoff : s.cb ≠ .off) (hdone : ∀ e, s.cb ≠ .done e) (hwork : s.queue ≠ [] ∨ s.stopEv = true) :
    ∃ s', stepCb c s = some s' ∧ measure c s' < measure c s := by
  have hW : W c = 2 * c.ncb + 3 := rfl
  cases hcb : s.cb with
  | off => exact absurd hcb hoff
  | done e => exact absurd hcb (hdone e)
  | run =>
    refine ⟨{ s with cb := .get }, by simp [stepCb, hcb, loopTop, hc], ?_⟩
    simp [measure, mainRank, cbRem, hcb]
  | get =>
    cases hq : s.queue with
    | nil =>
      have hev : s.stopEv = true := by rcases hwork with h | h; exact absurd hq h; exact h
      refine ⟨{ s with cb := .chk }, by simp [stepCb, hcb, hq], ?_⟩
      simp [measure, mainRank, cbRem, hcb, hq, hev]
    | cons x q =>
      refine ⟨nextDeliver c { s with queue := q } x 0, by simp [stepCb, hcb, hq], ?_⟩
      unfold nextDeliver
      split
      · simp [measure, mainRank, cbRem, hcb, hq, Nat.add_mul, hW]
      · rename_i h0
        have : c.ncb = 0 := by omega
        simp [afterCallbacks, hc, measure, mainRank, cbRem, hcb, hq, Nat.add_mul, hW, this]
  | enter x k =>
    refine ⟨{ s with log := s.log ++ [(k, x)], cb := .inCb x k }, by simp [stepCb, hcb], ?_⟩
    simp [measure, mainRank, cbRem, hcb]
  | inCb x k =>
    have hkk : k < c.ncb := by simpa [KOk, hcb] using hk
    refine ⟨nextDeliver c s x (k + 1), by simp [stepCb, hcb], ?_⟩
    unfold nextDeliver
    split
    · simp [measure, mainRank, cbRem, hcb]; omega
    · simp [afterCallbacks, hc, measure, mainRank, cbRem, hcb]; omega
  | taskDone x =>
    refine ⟨{ s with dlv := s.dlv ++ [x], cb := .get }, by simp [stepCb, hcb, loopTop, hc], ?_⟩
    simp [measure, mainRank, cbRem, hcb]
  | chk =>
    cases hev : s.stopEv with
    | true =>
      refine ⟨{ s with cb := .done false }, by simp [stepCb, hcb, hev], ?_⟩
      simp [measure, mainRank, cbRem, hcb, hev]
    | false =>
      refine ⟨{ s with cb := .get }, by simp [stepCb, hcb, hev, loopTop, hc], ?_⟩
      simp [measure, mainRank, cbRem, hcb, hev]

/-- a handler thread that is not idle can always step, and that makes progress -/
theorem progress_snd {c : Cfg} {s : Sys} {j : Nat} {sd : Sender} (hj : s.senders[j]? = some sd)
    (hbusy : sd.pc ≠ .idle) : ∃ s', stepSnd c s j = some s' ∧ measure c s' < measure c s := by
  have hW : W c = 2 * c.ncb + 3 := rfl
  have key := fun sd' => sndWork_set c s.senders j sd sd' hj
  cases hpc : sd.pc with
  | idle => exact absurd hpc hbusy
  | put =>
    cases hf : isFull c s with
    | true =>
      refine ⟨{ s with senders := setPc s j sd .respErr, qfull := true, fullLog := logFull s },
        by simp [stepSnd, hj, stepSndAt, hpc, hf], ?_⟩
      have := key { sd with pc := .respErr }
      simp [hWork, hpc] at this
      simp [measure, mainRank, cbRem, setPc]; omega
    | false =>
      refine ⟨{ s with queue := s.queue ++ [(j, sd.next)], enq := s.enq ++ [(j, sd.next)],
                       senders := setPc s j sd .respOk, qfull := false, fullLog := logNotFull s },
        by simp [stepSnd, hj, stepSndAt, hpc, hf], ?_⟩
      have := key { sd with pc := .respOk }
      simp [hWork, hpc] at this
      simp [measure, mainRank, cbRem, setPc, Nat.add_mul]; omega
  | respOk =>
    refine ⟨{ s with acked := s.acked ++ [(j, sd.next)], senders := finishReq s j sd },
      by simp [stepSnd, hj, stepSndAt, hpc], ?_⟩
    have := key { next := sd.next + 1, pc := .idle, tls := sd.tls }
    simp [hWork, hpc] at this
    simp [measure, mainRank, cbRem, finishReq]; omega
  | respIgn =>
    refine ⟨{ s with acked := s.acked ++ [(j, sd.next)], senders := finishReq s j sd },
      by simp [stepSnd, hj, stepSndAt, hpc], ?_⟩
    have := key { next := sd.next + 1, pc := .idle, tls := sd.tls }
    simp [hWork, hpc] at this
    simp [measure, mainRank, cbRem, finishReq]; omega
  | respErr =>
    refine ⟨{ s with refused := s.refused ++ [(j, sd.next)], senders := finishReq s j sd },
      by simp [stepSnd, hj, stepSndAt, hpc], ?_⟩
    have := key { next := sd.next + 1, pc := .idle, tls := sd.tls }
    simp [hWork, hpc] at this
    simp [measure, mainRank, cbRem, finishReq]; omega


theorem progress_rest {c : Cfg} (hc : c.proto = .fixed) {s : Sys} (I : Inv c s)
    (hns : ¬ (s.main = .idle ∧ s.up = false)) (hidle : ¬ s.main = .idle)
    (hclose : ¬ (s.main = .tClose ∧ idleOn false s.senders = false))
    (hclose2 : ¬ (s.main = .tClose2 ∧ idleOn true s.senders = false)) :
    ∃ l s', l ≠ .start ∧ step c l s = some s' ∧ measure c s' < measure c s := by
  have m := I.ctl.mainOK
  by_cases hpoll : s.main = .tPoll ∧ s.queue ≠ []
  · simp [MainOK, hpoll.1] at m
    have hev : s.stopEv = false := by
      cases he : s.stopEv
      · rfl
      · rcases I.ctl.evOff he with h | h
        · simp [m.2.2.2.2] at h
        · simp [hpoll.1] at h
    obtain ⟨s', h1, h2⟩ := progress_cb hc I.data.kOk (I.ctl.thrAlive m.2.2.2.2)
      (I.ctl.noDone m.2.2.2.2 hev) (Or.inl hpoll.2)
    exact ⟨.cb false, s', by simp, h1, h2⟩
  · by_cases hjoin : s.main = .tJoin ∧ ∀ e, s.cb ≠ .done e
    · simp [MainOK, hjoin.1] at m
      obtain ⟨s', h1, h2⟩ := progress_cb hc I.data.kOk (I.ctl.thrAlive m.2.2.2.2.1) hjoin.2
        (Or.inr m.2.2.2.2.2.2)
      exact ⟨.cb false, s', by simp, h1, h2⟩
    · obtain ⟨s', h1, h2⟩ := progress_main hc I hidle
        (fun h => by
          cases ha : idleOn false s.senders
          · exact absurd ⟨h, ha⟩ hclose
          · rfl)
        (fun h => by
          cases ha : idleOn true s.senders
          · exact absurd ⟨h, ha⟩ hclose2
          · rfl)
        (fun h => by
          cases hq : s.queue with
          | nil => rfl
          | cons x q => exact absurd ⟨h, by simp [hq]⟩ hpoll)
        (fun h => by
          apply Classical.byContradiction
          intro hne
          exact hjoin ⟨h, fun e he => hne ⟨e, he⟩⟩)
      exact ⟨.main, s', by simp, h1, h2⟩

/-- **Progress.**  In every state satisfying the invariants in which stop() has not returned, some
    thread can take a step that decreases the measure. -/
theorem progress {c : Cfg} (hc : c.proto = .fixed) {s : Sys} (I : Inv c s)
    (hns : ¬ (s.main = .idle ∧ s.up = false)) :
    ∃ l s', l ≠ .start ∧ step c l s = some s' ∧ measure c s' < measure c s := by
  have m := I.ctl.mainOK
  by_cases hidle : s.main = .idle
  · -- listener is up: call stop()
    have hup : s.up = true := by
      cases hu : s.up
      · exact absurd ⟨hidle, hu⟩ hns
      · rfl
    simp [MainOK, hidle, hup] at m
    have hle : mainRank s ≤ measure c s := by simp only [measure]; omega
    cases hsrv : s.srv
    · refine ⟨.stop, stopHttps c { s with up := false }, by simp, by simp [step, stepStop, hidle, hsrv], ?_⟩
      have h1 := rank_stopHttps c { s with up := false } rfl
      have h2 := measure_sameData (c := c) (sameData_stopHttps c { s with up := false })
        (stopEv_stopHttps c { s with up := false })
      have h4 : measure c { s with up := false } + 110 = measure c s := by
        simp [measure, mainRank, cbRem, hidle, hup]; omega
      have h5 : mainRank { s with up := false } = 0 := by simp [mainRank, hidle]
      omega
    · refine ⟨.stop, { s with up := false, main := .tShutdown }, by simp, by simp [step, stepStop, hidle, hsrv], ?_⟩
      simp [measure, mainRank, cbRem, hidle, hup]
  · by_cases hclose : s.main = .tClose ∧ idleOn false s.senders = false
    · obtain ⟨j, sd, hj, hb⟩ := exists_busy_on false _ hclose.2
      obtain ⟨s', h1, h2⟩ := progress_snd (c := c) hj hb
      exact ⟨.snd j, s', by simp, h1, h2⟩
    · by_cases hclose2 : s.main = .tClose2 ∧ idleOn true s.senders = false
      · obtain ⟨j, sd, hj, hb⟩ := exists_busy_on true _ hclose2.2
        obtain ⟨s', h1, h2⟩ := progress_snd (c := c) hj hb
        exact ⟨.snd j, s', by simp, h1, h2⟩
      · exact progress_rest hc I hns hidle hclose hclose2

/-- **stop() can always return**: from every reachable state of the fixed protocol some schedule
    leads to a state in which stop() has returned (no reachable deadlock, and the polling loops of
    stop() and of the callback thread cannot keep each other busy for ever once the senders pause). -/
theorem can_stop {c : Cfg} (hc : c.proto = .fixed) {n : Nat} :
    ∀ (k : Nat) (s : Sys), Reachable c n s → measure c s ≤ k →
      ∃ ls s', (∀ l ∈ ls, l ≠ .start) ∧ runTrace c ls s = some s' ∧ s'.main = .idle ∧ s'.up = false := by
  intro k
  induction k with
  | zero =>
    intro s hr hk
    by_cases hst : s.main = .idle ∧ s.up = false
    · exact ⟨[], s, by simp, rfl, hst.1, hst.2⟩
    · obtain ⟨l, s', _, _, h2⟩ := progress hc (inv_reachable hc hr) hst
      omega
  | succ k ih =>
    intro s hr hk
    by_cases hst : s.main = .idle ∧ s.up = false
    · exact ⟨[], s, by simp, rfl, hst.1, hst.2⟩
    · obtain ⟨l, s1, hl, h1, h2⟩ := progress hc (inv_reachable hc hr) hst
      obtain ⟨ls, s', h0, h3, h4⟩ := ih s1 (Reachable.step l hr h1) (by omega)
      refine ⟨l :: ls, s', ?_, by simp [runTrace, h1, h3], h4⟩
      intro l' hl'
      rcases List.mem_cons.mp hl' with e | e
      · rw [e]; exact hl
      · exact h0 l' e

end Proofs.Listener

namespace Proofs.Listener

theorem seenBy_append (k : Nat) (a b : List (Nat × Ind)) : seenBy k (a ++ b) = seenBy k a ++ seenBy k b := by
  simp [seenBy]

theorem seenBy_calls (k m : Nat) (y : Ind) : seenBy k (calls m y) = if k < m then [y] else [] := by
  induction m with
  | zero => simp [seenBy, calls]
  | succ m ih =>
    rw [calls_succ, seenBy_append, ih]
    by_cases h1 : k < m
    · have : ¬ (m = k) := by omega
      have h2 : k < m + 1 := by omega
      simp [seenBy, h1, h2, this]
    · by_cases h2 : k = m
      · subst h2; simp [seenBy]
      · have h3 : ¬ k < m + 1 := by omega
        have : ¬ (m = k) := fun e => h2 e.symm
        simp [seenBy, h1, h3, this]

theorem seenBy_expand (k n : Nat) (d : List Ind) : seenBy k (expand n d) = if k < n then d else [] := by
  induction d with
  | nil => simp [seenBy, expand]
  | cons y ys ih =>
    have : expand n (y :: ys) = calls n y ++ expand n ys := by simp [expand]
    rw [this, seenBy_append, ih, seenBy_calls]
    by_cases h : k < n <;> simp [h]


end Proofs.Listener


namespace Proofs.Listener

/-! ### the `_queue_full` flag and its edge-triggered warnings (both protocols) -/

theorem alternating_snoc (l : List Bool) (b : Bool) :
    alternating (l ++ [b]) = (alternating l && (l.getLast? != some b)) := by
  induction l with
  | nil => simp [alternating]
  | cons x r ih =>
    cases r with
    | nil => cases x <;> cases b <;> simp [alternating]
    | cons y r' =>
      have : (x :: y :: r') ++ [b] = x :: (y :: (r' ++ [b])) := by simp
      rw [this]
      simp only [alternating]
      have ih' : alternating (y :: (r' ++ [b])) = (alternating (y :: r') && ((y :: r').getLast? != some b)) := by
        simpa using ih
      rw [ih']
      simp [List.getLast?_cons_cons, Bool.and_assoc]

structure FullInv (c : Cfg) (s : Sys) : Prop where
  bounded : s.qfull = true → c.maxQ ≠ 0
  lastOk : s.fullLog.getLast? = if s.fullLog = [] then none else some s.qfull
  emptyOk : s.fullLog = [] → s.qfull = false
  alt : alternating s.fullLog = true
  headOk : s.fullLog.head? ≠ some false

theorem full_init (c : Cfg) (n : Nat) : FullInv c (init n) := by
  refine ⟨?_, ?_, ?_, ?_, ?_⟩ <;> simp [init, alternating]

theorem full_congr {c : Cfg} {s s' : Sys} (h : FullInv c s) (h1 : s'.qfull = s.qfull) (h2 : s'.fullLog = s.fullLog) :
    FullInv c s' := by
  obtain ⟨a, b, e, d, f⟩ := h
  refine ⟨?_, ?_, ?_, ?_, ?_⟩ <;> simp_all

theorem full_accept {c : Cfg} {s : Sys} (h : FullInv c s) (j : Nat) (sd : Sender) (t : Bool) :
    FullInv c (acceptReq s j sd t) := by
  unfold acceptReq; split <;> exact full_congr h rfl rfl

/-- a warning is logged: the flag flips to `v` and `v` is appended -/
theorem full_push {c : Cfg} {s s' : Sys} (h : FullInv c s) (v : Bool) (hv : s.qfull = !v)
    (hb : v = true → c.maxQ ≠ 0) (h1 : s'.qfull = v) (h2 : s'.fullLog = s.fullLog ++ [v]) : FullInv c s' := by
  obtain ⟨a, b, e, d, f⟩ := h
  have hlast : s.fullLog.getLast? ≠ some v := by
    rw [b]; split
    · simp
    · cases v <;> simp_all
  have hfirst : s.fullLog = [] → v = true := by
    intro h0; have := e h0; cases v <;> simp_all
  refine ⟨?_, ?_, ?_, ?_, ?_⟩
  · rw [h1]; exact hb
  · rw [h2, h1]; simp
  · rw [h2]; simp
  · rw [h2, alternating_snoc, d]; simpa using hlast
  · rw [h2]
    by_cases h0 : s.fullLog = []
    · simp [h0, hfirst h0]
    · cases hl : s.fullLog with
      | nil => exact absurd hl h0
      | cons x r => rw [hl] at f; simpa using f

/-- no warning: the flag keeps its value -/
theorem full_keep {c : Cfg} {s s' : Sys} (h : FullInv c s) (h1 : s'.qfull = s.qfull) (h2 : s'.fullLog = s.fullLog) :
    FullInv c s' := full_congr h h1 h2

theorem full_snd {c : Cfg} {s s' : Sys} (h : FullInv c s) {j : Nat} (hs : stepSnd c s j = some s') : FullInv c s' := by
  unfold stepSnd at hs
  split at hs
  · simp at hs
  · rename_i sd hj
    unfold stepSndAt at hs
    split at hs
    · split at hs
      · injection hs with hs; subst hs; exact full_accept h j sd false
      · simp at hs
    · split at hs <;> rename_i hf <;> injection hs with hs <;> subst hs
      · -- refused: flag := true, "now full" logged if the flag was false
        have hm : c.maxQ ≠ 0 := by simp [isFull] at hf; exact hf.1
        cases hq : s.qfull
        · exact full_push h true (by simp [hq]) (fun _ => hm) rfl (by simp [logFull, hq])
        · exact full_keep h (by simp [hq]) (by simp [logFull, hq])
      · -- accepted: flag := false, "no longer full" logged if the flag was true
        cases hq : s.qfull
        · exact full_keep h (by simp [hq]) (by simp [logNotFull, hq])
        · exact full_push h false (by simp [hq]) (by simp) rfl (by simp [logNotFull, hq])
    all_goals
      injection hs with hs; subst hs; exact full_congr h rfl rfl

theorem full_step {c : Cfg} {s s' : Sys} (l : Label) (h : FullInv c s) (hs : step c l s = some s') : FullInv c s' := by
  cases l with
  | start => have := sameHist_start hs; exact full_congr h this.2.2.2.2.2.2.1 this.2.2.2.2.2.2.2
  | stop => have := sameHist_stop hs; exact full_congr h this.2.2.2.2.2.2.1 this.2.2.2.2.2.2.2
  | main => have := sameHist_main hs; exact full_congr h this.2.2.2.2.2.2.1 this.2.2.2.2.2.2.2
  | cb r => have := sameHist_cb hs; exact full_congr h this.2.2.2.2.2.2.1 this.2.2.2.2.2.2.2
  | snd j => exact full_snd h hs
  | failStart =>
    have := sameHist_of_sameData (sameData_fail hs); exact full_congr h this.2.2.2.2.2.2.1 this.2.2.2.2.2.2.2
  | sndTls j =>
    simp only [step, stepSndTls] at hs
    split at hs
    · simp at hs
    · split at hs
      · injection hs with hs; subst hs; exact full_accept h j _ true
      · simp at hs

theorem full_reachable {c : Cfg} {n : Nat} {s : Sys} (h : Reachable c n s) : FullInv c s := by
  induction h with
  | init => exact full_init c n
  | step l _ hs ih => exact full_step l ih hs

end Proofs.Listener

namespace Proofs.Listener

/-! ### add_callback -/

theorem foldl_add_nodup (regs acc : List Nat) (h : acc.Nodup) : (regs.foldl addCallback acc).Nodup := by
  induction regs generalizing acc with
  | nil => simpa
  | cons f r ih =>
    simp only [List.foldl_cons]
    apply ih
    unfold addCallback
    split
    · exact h
    · rename_i hc
      rw [List.nodup_append]
      refine ⟨h, by simp, ?_⟩
      intro a ha b hb
      simp at hb; subst hb
      intro e; subst e
      exact hc (by simpa using ha)

theorem foldl_add_mem (regs acc : List Nat) (f : Nat) :
    f ∈ regs.foldl addCallback acc ↔ f ∈ acc ∨ f ∈ regs := by
  induction regs generalizing acc with
  | nil => simp
  | cons g r ih =>
    simp only [List.foldl_cons, ih]
    unfold addCallback
    split
    · rename_i hc
      have hg : g ∈ acc := by simpa using hc
      constructor
      · rintro (h | h)
        · exact Or.inl h
        · exact Or.inr (List.mem_cons_of_mem _ h)
      · rintro (h | h)
        · exact Or.inl h
        · rcases List.mem_cons.mp h with e | e
          · subst e; exact Or.inl hg
          · exact Or.inr e
    · simp only [List.mem_append, List.mem_cons, List.not_mem_nil, or_false]
      constructor
      · rintro ((h | h) | h)
        · exact Or.inl h
        · exact Or.inr (Or.inl h)
        · exact Or.inr (Or.inr h)
      · rintro (h | h | h)
        · exact Or.inl (Or.inl h)
        · exact Or.inl (Or.inr h)
        · exact Or.inr h

/-- registering callbacks that are all known already changes nothing -/
theorem foldl_add_known (more acc : List Nat) (h : ∀ f ∈ more, f ∈ acc) : more.foldl addCallback acc = acc := by
  induction more with
  | nil => rfl
  | cons g r ih =>
    have hg : g ∈ acc := h g (List.mem_cons_self)
    have : addCallback acc g = acc := by simp [addCallback, hg]
    simp only [List.foldl_cons, this]
    exact ih (fun f hf => h f (List.mem_cons_of_mem _ hf))

/-- the registered list is `acc` followed by a sub-sequence of the registrations -/
theorem foldl_add_sublist (regs acc : List Nat) :
    ∃ t, regs.foldl addCallback acc = acc ++ t ∧ t.Sublist regs := by
  induction regs generalizing acc with
  | nil => exact ⟨[], by simp, List.Sublist.refl _⟩
  | cons g r ih =>
    simp only [List.foldl_cons]
    by_cases hc : g ∈ acc
    · have : addCallback acc g = acc := by simp [addCallback, hc]
      rw [this]
      obtain ⟨t, h1, h2⟩ := ih acc
      exact ⟨t, h1, List.Sublist.cons _ h2⟩
    · have : addCallback acc g = acc ++ [g] := by simp [addCallback, hc]
      rw [this]
      obtain ⟨t, h1, h2⟩ := ih (acc ++ [g])
      exact ⟨g :: t, by rw [h1]; simp, List.Sublist.cons_cons _ h2⟩


end Proofs.Listener

namespace Proofs.Listener

/-! ### variant for termination of stop() under fair schedules -/

/-- work left for the handler threads of the server `t` (false = HTTP, true = HTTPS) -/
def workOn (c : Cfg) (t : Bool) : List Sender → Nat
  | [] => 0
  | sd :: l => (if sd.tls = t then hWork c sd.pc else 0) + workOn c t l

theorem workOn_set (c : Cfg) (t : Bool) (l : List Sender) (j : Nat) (sd sd' : Sender) (hj : l[j]? = some sd) :
    workOn c t (l.set j sd') + (if sd.tls = t then hWork c sd.pc else 0) =
    workOn c t l + (if sd'.tls = t then hWork c sd'.pc else 0) := by
  induction l generalizing j with
  | nil => simp at hj
  | cons a l ih =>
    cases j with
    | zero => simp at hj; subst hj; simp [workOn]; omega
    | succ j => simp at hj; have := ih j hj; simp [workOn]; omega

/-- what the threads other than main still have to do before main's next step is enabled -/
def help (c : Cfg) (s : Sys) : Nat :=
  match s.main with
  | .tClose => workOn c false s.senders
  | .tClose2 => workOn c true s.senders
  | .tPoll => if s.queue = [] then 0 else s.queue.length * W c + cbRem c s
  | .tJoin => s.queue.length * W c + cbRem c s
  | _ => 0

def stopping (s : Sys) : Prop :=
  s.main = .tShutdown ∨ s.main = .tClose ∨ s.main = .tShutdown2 ∨ s.main = .tClose2 ∨
  s.main = .tPoll ∨ s.main = .tSetEv ∨ s.main = .tJoin

/-- lexicographic: main's rank first, then the help still needed -/
def varLE (c : Cfg) (s' s : Sys) : Prop :=
  mainRank s' < mainRank s ∨ (mainRank s' = mainRank s ∧ help c s' ≤ help c s)
def varLT (c : Cfg) (s' s : Sys) : Prop :=
  mainRank s' < mainRank s ∨ (mainRank s' = mainRank s ∧ help c s' < help c s)

theorem cb_keeps_main {c : Cfg} {s s' : Sys} (hs : stepCb c s = some s') :
    s'.main = s.main ∧ s'.up = s.up ∧ s'.stopEv = s.stopEv := by
  unfold stepCb at hs
  split at hs
  · simp at hs
  · injection hs with hs; subst hs; unfold loopTop; split
    · split <;> simp
    · simp
  · split at hs
    · injection hs with hs; subst hs; simp
    · injection hs with hs; subst hs; unfold nextDeliver afterCallbacks; split
      · simp
      · split
        · split <;> simp
        · simp
  · injection hs with hs; subst hs; simp
  · injection hs with hs; subst hs; unfold nextDeliver afterCallbacks; split
    · simp
    · split
      · split <;> simp
      · simp
  · injection hs with hs; subst hs; unfold loopTop; split
    · split <;> simp
    · simp
  · split at hs <;> injection hs with hs <;> subst hs
    · simp
    · unfold loopTop; split
      · split <;> simp
      · simp
  · simp at hs


theorem accept_workOn (c : Cfg) (s : Sys) (j : Nat) (sd : Sender) (hj : s.senders[j]? = some sd) (hpc : sd.pc = .idle)
    (tl t : Bool) :
    (acceptReq s j sd tl).main = s.main ∧ (acceptReq s j sd tl).up = s.up ∧
    (acceptReq s j sd tl).queue = s.queue ∧ (acceptReq s j sd tl).cb = s.cb ∧ (acceptReq s j sd tl).stopEv = s.stopEv ∧
    (t ≠ tl → workOn c t (acceptReq s j sd tl).senders = workOn c t s.senders) := by
  unfold acceptReq
  split
  · refine ⟨rfl, rfl, rfl, rfl, rfl, ?_⟩
    intro ht
    have := workOn_set c t s.senders j sd { sd with pc := .put, tls := tl } hj
    have h2 : ¬ (tl = t) := fun e => ht e.symm
    simp [hpc, hWork, h2] at this; simpa using this
  · refine ⟨rfl, rfl, rfl, rfl, rfl, ?_⟩
    intro ht
    have := workOn_set c t s.senders j sd { sd with pc := .respIgn, tls := tl } hj
    have h2 : ¬ (tl = t) := fun e => ht e.symm
    simp [hpc, hWork, h2] at this; simpa using this

/-- a step of a busy handler thread: less work for its own server, the same for the other one -/
theorem busy_workOn (c : Cfg) (s s' : Sys) (j : Nat) (sd : Sender) (hj : s.senders[j]? = some sd) (hb : sd.pc ≠ .idle)
    (hs : stepSndAt c s j sd = some s') (t : Bool) :
    s'.main = s.main ∧ s'.up = s.up ∧
    (sd.tls = t → workOn c t s'.senders < workOn c t s.senders) ∧
    (sd.tls ≠ t → workOn c t s'.senders = workOn c t s.senders) := by
  have hW : W c = 2 * c.ncb + 3 := rfl
  have key := fun sd' => workOn_set c t s.senders j sd sd' hj
  unfold stepSndAt at hs
  split at hs <;> rename_i hpc
  · exact absurd hpc hb
  · split at hs <;> injection hs with hs <;> subst hs
    · have := key { sd with pc := .respErr }
      refine ⟨rfl, rfl, ?_, ?_⟩ <;> intro ht <;> simp [hWork, hpc, ht, setPc] at this ⊢ <;> omega
    · have := key { sd with pc := .respOk }
      refine ⟨rfl, rfl, ?_, ?_⟩ <;> intro ht <;> simp [hWork, hpc, ht, setPc] at this ⊢ <;> omega
  all_goals
    injection hs with hs; subst hs
    have := key { next := sd.next + 1, pc := .idle, tls := sd.tls }
    refine ⟨rfl, rfl, ?_, ?_⟩ <;> intro ht <;> simp [hWork, hpc, ht, finishReq] at this ⊢ <;> omega


/-- every step of the main thread inside stop() lowers its rank, except polling a non-empty queue -/
theorem main_step_rank {c : Cfg} (hc : c.proto = .fixed) {s s' : Sys} (I : Inv c s) (hst : stopping s)
    (hs : stepMain c s = some s') : mainRank s' < mainRank s ∨ (s.main = .tPoll ∧ s.queue ≠ [] ∧ s' = s) := by
  have m := I.ctl.mainOK
  unfold stopping at hst
  unfold stepMain at hs
  split at hs <;> rename_i hm <;> simp [hm] at hst <;> simp [MainOK, hm] at m
  · -- tShutdown
    injection hs with hs; subst hs; left; simp [mainRank, hm]
  · -- tClose
    split at hs
    · injection hs with hs; subst hs; left
      have := rank_stopHttps c { s with srv := false } m.1
      simp [mainRank, hm] at this ⊢; omega
    · simp at hs
  · injection hs with hs; subst hs; left; simp [mainRank, hm]
  · split at hs
    · injection hs with hs; subst hs; left
      have := rank_afterServers c { s with srv2 := false } m.1
      simp [mainRank, hm] at this ⊢; omega
    · simp at hs
  · -- tPoll
    injection hs with hs; subst hs
    cases hq : s.queue with
    | nil =>
      left
      have hps : pollStep c s = afterQ c s := by simp [pollStep, hq, hc]
      have := rank_afterQ c s m.1
      rw [hps]; simp [mainRank, hm] at this ⊢; omega
    | cons x q => right; exact ⟨hm, by simp, by simp [pollStep, hq]⟩
  · injection hs with hs; subst hs; left; simp [mainRank, hm]
  · -- tJoin
    split at hs
    · rename_i exc hcb
      injection hs with hs; subst hs; left
      have : exc = false := by
        cases exc
        · rfl
        · exact absurd hcb I.ctl.noExc
      subst this
      simp [joinStep, hc, mainRank, hm, m.1]
    · simp at hs

theorem cb_step_help {c : Cfg} (hc : c.proto = .fixed) {s s' : Sys} (I : Inv c s) (hs : stepCb c s = some s')
    (hwork : s.queue ≠ [] ∨ s.stopEv = true) :
    s'.queue.length * W c + cbRem c s' < s.queue.length * W c + cbRem c s := by
  have hoff : s.cb ≠ .off := by intro h; simp [stepCb, h] at hs
  have hdone : ∀ e, s.cb ≠ .done e := by intro e h; simp [stepCb, h] at hs
  obtain ⟨s1, h1, h2⟩ := progress_cb hc I.data.kOk hoff hdone hwork
  rw [hs] at h1; injection h1 with h1; subst h1
  obtain ⟨k1, k2, _⟩ := cb_keeps_main hs
  have k3 := (sameHist_cb hs).1
  simp only [measure, mainRank, k1, k2, k3] at h2
  omega


theorem busy_on_tls (t : Bool) (l : List Sender) (h : idleOn t l = false) :
    ∃ (j : Nat) (sd : Sender), l[j]? = some sd ∧ sd.pc ≠ HPc.idle ∧ sd.tls = t := by
  induction l with
  | nil => simp [idleOn] at h
  | cons a l ih =>
    by_cases ha : a.pc = HPc.idle ∨ a.tls ≠ t
    · have : idleOn t l = false := by
        rcases ha with ha | ha <;> simpa [idleOn, ha] using h
      obtain ⟨j, sd, hj, hp, ht⟩ := ih this
      exact ⟨j + 1, sd, by simp [hj], hp, ht⟩
    · refine ⟨0, a, by simp, ?_, ?_⟩
      · intro h0; exact ha (Or.inl h0)
      · apply Classical.byContradiction; intro h0; exact ha (Or.inr h0)

/-- **(fairness 1)** while stop() is in progress, some thread has an enabled step that lowers the variant:
    the main thread itself, or a busy handler thread of the server being closed, or the callback thread -/
theorem fair_helpful {c : Cfg} (hc : c.proto = .fixed) {s : Sys} (I : Inv c s) (hst : stopping s) :
    ∃ l s', step c l s = some s' ∧ varLT c s' s := by
  have m := I.ctl.mainOK
  by_cases hclose : s.main = .tClose ∧ idleOn false s.senders = false
  · obtain ⟨j, sd, hj, hb, ht⟩ := busy_on_tls false _ hclose.2
    obtain ⟨s', h1, _⟩ := progress_snd (c := c) hj hb
    have h1' : stepSndAt c s j sd = some s' := by simpa [stepSnd, hj] using h1
    obtain ⟨k1, k2, k3, _⟩ := busy_workOn c s s' j sd hj hb h1' false
    refine ⟨.snd j, s', h1, Or.inr ⟨by simp [mainRank, k1, k2], ?_⟩⟩
    simpa [help, k1, hclose.1] using k3 ht
  · by_cases hclose2 : s.main = .tClose2 ∧ idleOn true s.senders = false
    · obtain ⟨j, sd, hj, hb, ht⟩ := busy_on_tls true _ hclose2.2
      obtain ⟨s', h1, _⟩ := progress_snd (c := c) hj hb
      have h1' : stepSndAt c s j sd = some s' := by simpa [stepSnd, hj] using h1
      obtain ⟨k1, k2, k3, _⟩ := busy_workOn c s s' j sd hj hb h1' true
      refine ⟨.snd j, s', h1, Or.inr ⟨by simp [mainRank, k1, k2], ?_⟩⟩
      simpa [help, k1, hclose2.1] using k3 ht
    · by_cases hpoll : s.main = .tPoll ∧ s.queue ≠ []
      · simp [MainOK, hpoll.1] at m
        have hev : s.stopEv = false := by
          cases he : s.stopEv
          · rfl
          · rcases I.ctl.evOff he with h | h
            · simp [m.2.2.2.2] at h
            · simp [hpoll.1] at h
        obtain ⟨s', h1, _⟩ := progress_cb hc I.data.kOk (I.ctl.thrAlive m.2.2.2.2)
          (I.ctl.noDone m.2.2.2.2 hev) (Or.inl hpoll.2)
        have h3 := cb_step_help hc I h1 (Or.inl hpoll.2)
        obtain ⟨k1, k2, _⟩ := cb_keeps_main h1
        refine ⟨.cb false, s', h1, Or.inr ⟨by simp [mainRank, k1, k2], ?_⟩⟩
        simp only [help, k1, hpoll.1, hpoll.2, if_false]
        split <;> omega
      · by_cases hjoin : s.main = .tJoin ∧ ∀ e, s.cb ≠ .done e
        · simp [MainOK, hjoin.1] at m
          obtain ⟨s', h1, _⟩ := progress_cb hc I.data.kOk (I.ctl.thrAlive m.2.2.2.2.1) hjoin.2
            (Or.inr m.2.2.2.2.2.2)
          have h3 := cb_step_help hc I h1 (Or.inr m.2.2.2.2.2.2)
          obtain ⟨k1, k2, _⟩ := cb_keeps_main h1
          refine ⟨.cb false, s', h1, Or.inr ⟨by simp [mainRank, k1, k2], ?_⟩⟩
          simpa [help, k1, hjoin.1] using h3
        · have hidle : s.main ≠ .idle := by
            unfold stopping at hst; intro h0; simp [h0] at hst
          obtain ⟨s', h1, _⟩ := progress_main hc I hidle
            (fun h => by
              cases ha : idleOn false s.senders
              · exact absurd ⟨h, ha⟩ hclose
              · rfl)
            (fun h => by
              cases ha : idleOn true s.senders
              · exact absurd ⟨h, ha⟩ hclose2
              · rfl)
            (fun h => by
              cases hq : s.queue with
              | nil => rfl
              | cons x q => exact absurd ⟨h, by simp [hq]⟩ hpoll)
            (fun h => by
              apply Classical.byContradiction
              intro hne
              exact hjoin ⟨h, fun e he => hne ⟨e, he⟩⟩)
          rcases main_step_rank hc I hst h1 with h2 | ⟨h2, h3, _⟩
          · exact ⟨.main, s', h1, Or.inl h2⟩
          · exact absurd ⟨h2, h3⟩ hpoll


theorem help_of_main_up {s s' : Sys} (h1 : s'.main = s.main) (h2 : s'.up = s.up) : mainRank s' = mainRank s := by
  simp [mainRank, h1, h2]

/-- a sender step while stop() is in progress never raises the variant -/
theorem fair_snd_le {c : Cfg} {s s' : Sys} (I : Inv c s) (hst : stopping s) {j : Nat} {sd : Sender}
    (hj : s.senders[j]? = some sd) (hs : stepSndAt c s j sd = some s') : varLE c s' s := by
  have m := I.ctl.mainOK
  by_cases hb : sd.pc = .idle
  · -- a new request over the HTTP port
    have hacc : s.accepting = true := by
      cases ha : s.accepting
      · simp [stepSndAt, hb, ha] at hs
      · rfl
    have hsrv := I.ctl.acc_srv hacc
    simp [stepSndAt, hb, hacc] at hs; subst hs
    obtain ⟨k1, k2, k3, k4, k5, k6⟩ := accept_workOn c s j sd hj hb false true
    refine Or.inr ⟨help_of_main_up k1 k2, ?_⟩
    unfold stopping at hst
    rcases hst with h | h | h | h | h | h | h <;> simp [MainOK, h] at m <;> simp_all [help]
  · obtain ⟨k1, k2, k3, k4⟩ := busy_workOn c s s' j sd hj hb hs false
    obtain ⟨_, _, k5, k6⟩ := busy_workOn c s s' j sd hj hb hs true
    refine Or.inr ⟨help_of_main_up k1 k2, ?_⟩
    have hle : ∀ t, workOn c t s'.senders ≤ workOn c t s.senders := by
      intro t
      cases t
      · by_cases ht : sd.tls = false
        · exact Nat.le_of_lt (k3 ht)
        · exact Nat.le_of_eq (k4 ht)
      · by_cases ht : sd.tls = true
        · exact Nat.le_of_lt (k5 ht)
        · exact Nat.le_of_eq (k6 ht)
    -- at tPoll/tJoin no handler is busy at all
    have hidleAll : s.srv = false → s.srv2 = false → False := by
      intro h1 h2
      have := allIdle_get (allIdle_of_idleOn (I.ctl.nosrv_idle h1) (I.ctl.nosrv2_idle h2)) hj
      exact hb this
    unfold stopping at hst
    rcases hst with h | h | h | h | h | h | h <;> simp [MainOK, h] at m
    · simp [help, k1, h]
    · simpa [help, k1, h] using hle false
    · simp [help, k1, h]
    · simpa [help, k1, h] using hle true
    · exact absurd (hidleAll m.2.1 m.2.2.1) id
    · simp [help, k1, h]
    · exact absurd (hidleAll m.2.1 m.2.2.1) id


/-- **(fairness 2)** while stop() is in progress, no step of any thread raises the variant -/
theorem fair_never_increases {c : Cfg} (hc : c.proto = .fixed) {s s' : Sys} (I : Inv c s) (hst : stopping s)
    (l : Label) (hs : step c l s = some s') : varLE c s' s := by
  have m := I.ctl.mainOK
  have hnotidle : s.main ≠ .idle := by unfold stopping at hst; intro h0; simp [h0] at hst
  cases l with
  | start => simp [step, stepStart, hnotidle] at hs
  | stop => simp [step, stepStop, hnotidle] at hs
  | failStart =>
    unfold stopping at hst
    simp only [step, stepFail] at hs
    split at hs
    · rename_i h0; rcases h0 with h0 | h0 <;> simp [h0] at hst
    · simp at hs
  | main =>
    rcases main_step_rank hc I hst hs with h | ⟨_, _, h⟩
    · exact Or.inl h
    · subst h; exact Or.inr ⟨rfl, Nat.le_refl _⟩
  | snd j =>
    simp only [step, stepSnd] at hs
    split at hs
    · simp at hs
    · rename_i sd hj; exact fair_snd_le I hst hj hs
  | sndTls j =>
    simp only [step, stepSndTls] at hs
    split at hs
    · simp at hs
    · rename_i sd hj
      split at hs
      · rename_i hg
        injection hs with hs; subst hs
        have hsrv2 := I.ctl.acc_srv2 hg.2
        obtain ⟨k1, k2, k3, k4, k5, k6⟩ := accept_workOn c s j sd hj hg.1 true false
        refine Or.inr ⟨help_of_main_up k1 k2, ?_⟩
        unfold stopping at hst
        rcases hst with h | h | h | h | h | h | h <;> simp [MainOK, h] at m <;> simp_all [help]
      · simp at hs
  | cb r =>
    have hs' : stepCb c s = some s' := hs
    obtain ⟨k1, k2, k3⟩ := cb_keeps_main hs'
    have k4 := (sameHist_cb hs').1
    have k5 := (sameHist_cb hs').2.2.2.2.2.1
    refine Or.inr ⟨help_of_main_up k1 k2, ?_⟩
    unfold stopping at hst
    rcases hst with h | h | h | h | h | h | h <;> simp [MainOK, h] at m
    · simp [help, k1, h]
    · simp [help, k1, h, k4]
    · simp [help, k1, h]
    · simp [help, k1, h, k4]
    · -- tPoll
      simp only [help, k1, h]
      by_cases hq : s.queue = []
      · have : s'.queue = [] := by
          have := k5; rw [hq] at this; simpa using this
        simp [hq, this]
      · have := cb_step_help hc I hs' (Or.inl hq)
        simp only [hq, if_false]
        split <;> omega
    · simp [help, k1, h]
    · -- tJoin
      have := cb_step_help hc I hs' (Or.inr m.2.2.2.2.2.2)
      simp only [help, k1, h]; omega


theorem hWork_pos (c : Cfg) {pc : HPc} (h : pc ≠ .idle) : 0 < hWork c pc := by
  cases pc <;> simp [hWork, W] at h ⊢

theorem idleOn_of_workOn_zero (c : Cfg) (t : Bool) (l : List Sender) (h : workOn c t l = 0) : idleOn t l = true := by
  induction l with
  | nil => simp [idleOn]
  | cons a l ih =>
    simp only [workOn] at h
    have h1 : (if a.tls = t then hWork c a.pc else 0) = 0 := by omega
    have h2 : workOn c t l = 0 := by omega
    have ih' := ih h2
    simp only [idleOn, List.all_cons, Bool.and_eq_true] at ih' ⊢
    refine ⟨?_, ih'⟩
    by_cases ht : a.tls = t
    · simp [ht] at h1
      by_cases hp : a.pc = .idle
      · simp [hp]
      · have := hWork_pos c hp; omega
    · simp [ht]

/-- **(fairness 3)** while stop() is in progress: when no help is needed any more, the main thread's own step
    is enabled and lowers its rank (and by `fair_never_increases` no other thread can take that away again) -/
theorem fair_main_enabled {c : Cfg} (hc : c.proto = .fixed) {s : Sys} (I : Inv c s) (hst : stopping s)
    (h0 : help c s = 0) : ∃ s', stepMain c s = some s' ∧ mainRank s' < mainRank s := by
  have m := I.ctl.mainOK
  have hidle : s.main ≠ .idle := by unfold stopping at hst; intro h1; simp [h1] at hst
  obtain ⟨s', h1, _⟩ := progress_main hc I hidle
    (fun h => by simp only [help, h] at h0; exact idleOn_of_workOn_zero c false _ h0)
    (fun h => by simp only [help, h] at h0; exact idleOn_of_workOn_zero c true _ h0)
    (fun h => by
      simp only [help, h] at h0
      cases hq : s.queue with
      | nil => rfl
      | cons x q => simp [hq, W] at h0)
    (fun h => by
      simp only [help, h] at h0
      simp [MainOK, h] at m
      have hrem : cbRem c s = 0 := by omega
      have hal := I.ctl.thrAlive m.2.2.2.2.1
      cases hcb : s.cb <;> simp [cbRem, hcb] at hrem hal ⊢
      · split at hrem <;> omega)
  rcases main_step_rank hc I hst h1 with h2 | ⟨h2, h3, _⟩
  · exact ⟨s', h1, h2⟩
  · simp only [help, h2] at h0
    simp [h3, W] at h0
    have : s.queue.length = 0 := by
      rcases Nat.mul_eq_zero.mp h0.1 with h | h
      · exact h
      · omega
    exact absurd (List.length_eq_zero_iff.mp this) h3


end Proofs.Listener
