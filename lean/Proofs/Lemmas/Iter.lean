/-
Helper lemmas for C15 (Iter… operations): facts about the generated table, one case-analysis lemma per
step function of Model/Iter.lean, the "linked" relation between a suspended generator and its server
context, and the history invariants.
-/
import Pywbem.Model.Iter
import Proofs.Lemmas.Pull

set_option linter.unusedSimpArgs false
set_option linter.unusedVariables false

namespace Proofs.Iter
open Pywbem.Model.Pull Pywbem.Model.Iter Pywbem.Proto Proofs.Pull

/-! ### the generated table (tools/extractors/iterops.py), pinned -/

theorem row_closes (f : Family) : f.row.closesInFinally = true := by cases f <;> rfl

theorem learn_iff (f : Family) (code : Nat) : isLearnCode f code = true ↔ (code = 7 ∨ code = 1) := by
  cases f <;> simp [isLearnCode, Family.row, Family.idx, Pywbem.Generated.IterOps.rows, List.getD]

theorem kinds_agree (f : Family) (h : f ≠ .query) : openKind f = pullKind f := by
  cases f <;> first | rfl | exact absurd rfl h

theorem lazy_iff (f : Family) : f.row.isLazy = true ↔ f ≠ .query := by
  cases f <;> simp [Family.row, Family.idx, Pywbem.Generated.IterOps.rows, List.getD]

/-! ### objects -/

theorem ident_complete (o : Nat) : ident (complete o) = ident o := by
  simp only [complete, ident, hasNs, hasHost, beq_iff_eq]
  split <;> split <;> omega

theorem hasNs_complete (o : Nat) : hasNs (complete o) = true := by
  simp only [complete, hasNs, hasHost, beq_iff_eq]
  split <;> split <;> omega

theorem hasHost_complete (o : Nat) : hasHost (complete o) = true := by
  simp only [complete, hasNs, hasHost, beq_iff_eq]
  split <;> split <;> omega

/-- completion changes nothing on a path that already names namespace and host -/
theorem complete_of_complete (o : Obj) (h1 : hasNs o = true) (h2 : hasHost o = true) : complete o = o := by
  unfold complete; simp [h1, h2]

/-! ### the server table with one extra context at the end -/

theorem lookup_append_last {l : List Ctx} {x : Ctx} {i : Nat} (hf : ∀ y ∈ l, y.id ≠ i) (hx : x.id = i) :
    lookup (l ++ [x]) i = some x := by
  unfold lookup
  rw [List.find?_append]
  have : l.find? (fun c => c.id == i) = none := by
    apply List.find?_eq_none.mpr
    intro y hy; simpa using hf y hy
  simp [this, hx]

theorem remove_append_last {l : List Ctx} {x : Ctx} {i : Nat} (hf : ∀ y ∈ l, y.id ≠ i) (hx : x.id = i) :
    remove (l ++ [x]) i = l := by
  unfold remove
  rw [List.filter_append]
  have : l.filter (fun c => c.id != i) = l := by
    apply List.filter_eq_self.mpr
    intro y hy; simpa using hf y hy
  simp [this, hx]

theorem replaceData_append_last {l : List Ctx} {x : Ctx} {i : Nat} (d : List Obj)
    (hf : ∀ y ∈ l, y.id ≠ i) (hx : x.id = i) :
    replaceData (l ++ [x]) i d = l ++ [{ x with data := d }] := by
  unfold replaceData
  rw [List.map_append]
  have : l.map (fun c => if c.id == i then { c with data := d } else c) = l := by
    conv => rhs; rw [← List.map_id l]
    apply List.map_congr_left
    intro y hy
    have := hf y hy
    simp [this]
  rw [this]; simp [hx]

theorem stepPull_linked (s : State) (ctxs0 : List Ctx) (k : Kind) (ns i : Nat) (d : List Obj) (m : Int)
    (hm : 0 < m) (hd : s.disabled = false) (hns : ns ∈ s.nss)
    (hc : s.ctxs = ctxs0 ++ [{ id := i, kind := k, ns := ns, data := d }])
    (hf : ∀ y ∈ ctxs0, y.id ≠ i) :
    (d.length ≤ m.toNat ∧
      stepPull s k (some i) (some m) = ({ s with ctxs := ctxs0 }, .batch d true none)) ∨
    (¬ d.length ≤ m.toNat ∧
      stepPull s k (some i) (some m) =
        ({ s with ctxs := ctxs0 ++ [{ id := i, kind := k, ns := ns, data := d.drop m.toNat }] },
         .batch (d.take m.toNat) false (some i))) := by
  have hl : lookup s.ctxs i = some { id := i, kind := k, ns := ns, data := d } := by
    rw [hc]; exact lookup_append_last hf rfl
  have hb : badMax (some m) = false := by simp [badMax]; omega
  by_cases hlen : d.length ≤ m.toNat
  · left
    refine ⟨hlen, ?_⟩
    have hr : remove s.ctxs i = ctxs0 := by rw [hc]; exact remove_append_last hf rfl
    simp [stepPull, hb, hd, hl, hns, effMax, hlen, hr]
  · right
    refine ⟨hlen, ?_⟩
    have hr : replaceData s.ctxs i (d.drop m.toNat) =
        ctxs0 ++ [{ id := i, kind := k, ns := ns, data := d.drop m.toNat }] := by
      rw [hc]; exact replaceData_append_last _ hf rfl
    simp [stepPull, hb, hd, hl, hns, effMax, hlen, hr]

theorem stepClose_linked (s : State) (ctxs0 : List Ctx) (x : Ctx) (i : Nat)
    (hd : s.disabled = false) (hc : s.ctxs = ctxs0 ++ [x]) (hx : x.id = i)
    (hf : ∀ y ∈ ctxs0, y.id ≠ i) :
    stepClose s (some i) = ({ s with ctxs := ctxs0 }, .done) := by
  have hl : lookup s.ctxs i = some x := by rw [hc]; exact lookup_append_last hf hx
  have hr : remove s.ctxs i = ctxs0 := by rw [hc]; exact remove_append_last hf hx
  simp [stepClose, hd, hl, hr]

/-! ### a suspended generator and "its" server context -/

/-- what the pull phase of one call relies on -/
structure PullOk (a : Args) (c : Conn) : Prop where
  enabled : c.srv.disabled = false
  nsOk : a.ns ∈ c.srv.nss
  maxPos : 0 < maxOf a.max

def theCtx (a : Args) (i : Nat) (d : List Obj) : Ctx :=
  { id := i, kind := pullKind a.fam, ns := a.ns, data := d }

/-- the generator suspended with (`pending`, `eos`, `ctx`) will still deliver `rem`, and the server table is
    `ctxs0` plus exactly the generator's own context (none when `eos`) -/
def Linked (ctxs0 : List Ctx) (a : Args) (c : Conn) (pending : List Obj) (eos : Bool) (ctx : Option Nat)
    (rem : List Obj) : Prop :=
  (eos = true ∧ c.srv.ctxs = ctxs0 ∧ rem = pending) ∨
  (eos = false ∧ ∃ i d, ctx = some i ∧ c.srv.ctxs = ctxs0 ++ [theCtx a i d] ∧
      (∀ y ∈ ctxs0, y.id ≠ i) ∧ rem = pending ++ d)

/-- connection-level facts that no step of a single call changes -/
def SameEnv (c c' : Conn) : Prop :=
  c'.flags = c.flags ∧ c'.srv.nss = c.srv.nss ∧ c'.srv.disabled = c.srv.disabled

/-- the connection after a successful Pull that left the server table as `t` -/
def afterPull (c : Conn) (a : Args) (t : List Ctx) : Conn :=
  { c with srv := { c.srv with ctxs := t }, log := c.log ++ [(.pull a.fam, none)] }

theorem advance_linked {ctxs0 : List Ctx} {a : Args} {c : Conn} {pending : List Obj} {eos : Bool}
    {ctx : Option Nat} {rem : List Obj} (ok : PullOk a c) (h : Linked ctxs0 a c pending eos ctx rem) :
    (rem = [] ∧ ∃ c', advance c a pending eos ctx = (c', .finished, .stop) ∧ c'.srv.ctxs = ctxs0 ∧
        SameEnv c c') ∨
    (∃ o rem' c' p' e' x', rem = o :: rem' ∧
        advance c a pending eos ctx = (c', .pulling a p' e' x', .yield o) ∧
        Linked ctxs0 a c' p' e' x' rem' ∧ PullOk a c' ∧ SameEnv c c') := by
  cases pending with
  | cons o rest =>
    right
    rcases h with ⟨he, hc, hr⟩ | ⟨he, i, d, hx, hc, hf, hr⟩
    · exact ⟨o, rest, c, rest, eos, ctx, hr, by simp [advance], Or.inl ⟨he, hc, rfl⟩, ok, rfl, rfl, rfl⟩
    · exact ⟨o, rest ++ d, c, rest, eos, ctx, by simpa using hr, by simp [advance],
        Or.inr ⟨he, i, d, hx, hc, hf, rfl⟩, ok, rfl, rfl, rfl⟩
  | nil =>
    rcases h with ⟨he, hc, hr⟩ | ⟨he, i, d, hx, hc, hf, hr⟩
    · left
      exact ⟨hr, c, by simp [advance, he], hc, rfl, rfl, rfl⟩
    · subst hx
      have hr' : rem = d := by simpa using hr
      subst hr'
      have hm := ok.maxPos
      rcases stepPull_linked c.srv ctxs0 (pullKind a.fam) a.ns i rem (maxOf a.max) hm ok.enabled ok.nsOk hc hf
        with ⟨hlen, hp⟩ | ⟨hlen, hp⟩
      · -- last batch: the context is gone
        cases rem with
        | nil =>
          left
          refine ⟨rfl, afterPull c a ctxs0, ?_, rfl, rfl, rfl, rfl⟩
          simp [advance, he, doPull, hp, afterPull, outErr]
        | cons o rest =>
          right
          refine ⟨o, rest, afterPull c a ctxs0, rest, true, none, rfl, ?_, Or.inl ⟨rfl, rfl, rfl⟩,
            ⟨ok.enabled, ok.nsOk, hm⟩, rfl, rfl, rfl⟩
          simp [advance, he, doPull, hp, afterPull, outErr]
      · -- a full batch, more to come
        have hpos : 0 < (maxOf a.max).toNat := by omega
        have hne : rem.take (maxOf a.max).toNat ≠ [] := by
          intro e
          rcases List.take_eq_nil_iff.mp e with e | e
          · omega
          · subst e; simp at hlen
        cases ht : rem.take (maxOf a.max).toNat with
        | nil => exact absurd ht hne
        | cons o rest =>
          right
          refine ⟨o, rest ++ rem.drop (maxOf a.max).toNat,
            afterPull c a (ctxs0 ++ [theCtx a i (rem.drop (maxOf a.max).toNat)]), rest, false, some i, ?_, ?_,
            Or.inr ⟨rfl, i, rem.drop (maxOf a.max).toNat, rfl, rfl, hf, rfl⟩,
            ⟨ok.enabled, ok.nsOk, hm⟩, rfl, rfl, rfl⟩
          · have := List.take_append_drop (maxOf a.max).toNat rem
            rw [ht] at this; simpa using this.symm
          · simp [advance, he, doPull, hp, ht, afterPull, outErr, theCtx]

theorem SameEnv.trans {c c' c'' : Conn} (h1 : SameEnv c c') (h2 : SameEnv c' c'') : SameEnv c c'' :=
  ⟨h2.1.trans h1.1, h2.2.1.trans h1.2.1, h2.2.2.trans h1.2.2⟩

theorem SameEnv.refl (c : Conn) : SameEnv c c := ⟨rfl, rfl, rfl⟩

/-- `k` times `next` on a linked generator: the next `k` objects of `rem`, in order; past the end the
    generator stops and the server table is `ctxs0` again -/
theorem takeN_pulling {ctxs0 : List Ctx} {a : Args} : ∀ (k : Nat) {c : Conn} {pending : List Obj} {eos : Bool}
    {ctx : Option Nat} {rem : List Obj}, PullOk a c → Linked ctxs0 a c pending eos ctx rem →
    (k ≤ rem.length → ∃ c' p' e' x',
        takeN c (.pulling a pending eos ctx) k = (c', .pulling a p' e' x', rem.take k, none) ∧
        Linked ctxs0 a c' p' e' x' (rem.drop k) ∧ PullOk a c' ∧ SameEnv c c') ∧
    (rem.length < k → ∃ c',
        takeN c (.pulling a pending eos ctx) k = (c', .finished, rem, some .stop) ∧
        c'.srv.ctxs = ctxs0 ∧ SameEnv c c') := by
  intro k
  induction k with
  | zero =>
    intro c pending eos ctx rem ok h
    refine ⟨fun _ => ⟨c, pending, eos, ctx, by simp [takeN], by simpa using h, ok, SameEnv.refl c⟩, ?_⟩
    intro hlt; omega
  | succ k ih =>
    intro c pending eos ctx rem ok h
    rcases advance_linked ok h with ⟨hrem, c', hadv, hc', henv⟩ | ⟨o, rem', c', p', e', x', hrem, hadv, hl', ok', henv⟩
    · subst hrem
      refine ⟨fun hle => by simp at hle, fun _ => ⟨c', ?_, hc', henv⟩⟩
      simp [takeN, next, hadv]
    · subst hrem
      have ih' := ih ok' hl'
      constructor
      · intro hle
        have hle' : k ≤ rem'.length := by simpa using hle
        obtain ⟨c'', p'', e'', x'', ht, hl'', ok'', henv''⟩ := ih'.1 hle'
        exact ⟨c'', p'', e'', x'', by simp [takeN, next, hadv, ht], by simpa using hl'', ok'',
          henv.trans henv''⟩
      · intro hlt
        have hlt' : rem'.length < k := by simpa using hlt
        obtain ⟨c'', ht, hc'', henv''⟩ := ih'.2 hlt'
        exact ⟨c'', by simp [takeN, next, hadv, ht], hc'', henv.trans henv''⟩

/-- `close()` on a linked generator removes exactly its own context -/
theorem close_linked {ctxs0 : List Ctx} {a : Args} {c : Conn} {pending : List Obj} {eos : Bool}
    {ctx : Option Nat} {rem : List Obj} (ok : PullOk a c) (h : Linked ctxs0 a c pending eos ctx rem) :
    ∃ c', close c (.pulling a pending eos ctx) = (c', .finished, .ok) ∧ c'.srv.ctxs = ctxs0 ∧ SameEnv c c' := by
  rcases h with ⟨he, hc, hr⟩ | ⟨he, i, d, hx, hc, hf, hr⟩
  · exact ⟨c, by simp [close, finallyClose, he], hc, SameEnv.refl c⟩
  · subst hx
    have hcl := stepClose_linked c.srv ctxs0 (theCtx a i d) i ok.enabled hc rfl hf
    refine ⟨{ c with srv := { c.srv with ctxs := ctxs0 }, log := c.log ++ [(.close (some i), none)] }, ?_, rfl, rfl, rfl, rfl⟩
    simp [close, finallyClose, he, row_closes, doClose, hcl, outErr]

/-- C14's `stepOpen` with default session parameters (how `srvOpen` calls it) is the plain slicing step -/
theorem stepOpen_default (s : State) (k : Kind) (ns : Nat) (objs : List Obj) (m : Option Int) :
    stepOpen s {} k ns objs m =
      (if badMax m then (s, .err .valueError)
       else if s.disabled then (s, .err (.cimError CIM_ERR_NOT_SUPPORTED))
       else if !(s.nss.contains ns) then (s, .err (.cimError CIM_ERR_INVALID_NAMESPACE))
       else if objs.length ≤ effMax m then (s, .batch objs true none)
       else ({ s with ctxs := s.ctxs ++ [{ id := s.nextId, kind := k, ns := ns, data := objs.drop (effMax m) }],
                      nextId := s.nextId + 1 }, .batch (objs.take (effMax m)) false (some s.nextId))) := by
  simp [stepOpen, badTimeout, paramErr, Fql.truthy]

/-! ### the first `next()` -/

theorem maxPos_of_validate {a : Args} (h : validate a = none) : 0 < maxOf a.max := by
  unfold validate at h
  cases ht : validateTimeout a.timeout with
  | some e => simp [ht] at h
  | none =>
    simp [ht] at h
    cases hm : a.max with
    | none => simp [hm, validateMax] at h
    | other => simp [hm, validateMax] at h
    | int k =>
      simp [hm, validateMax] at h
      simp [maxOf]; omega

theorem openParamErr_none {a : Args} (h : openParamErr a = none) : typeBad a = false ∧ serverParamErr a = none := by
  unfold openParamErr at h
  cases ht : typeBad a with
  | true => simp [ht] at h
  | false =>
    simp only [ht, Bool.false_eq_true, if_false] at h
    cases hs : serverParamErr a with
    | none => exact ⟨rfl, rfl⟩
    | some e => simp [hs] at h

/-- the connection after a successful Open (flag set to True) with server state `s'` -/
def afterOpen (c : Conn) (a : Args) (s' : State) : Conn :=
  { srv := s', flags := setFlag c.flags a.fam (some true), log := c.log ++ [(.open a.fam, none)] }

/-- pull path taken and Open succeeds: the generator is linked to its fresh context -/
theorem start_pull {c : Conn} {a : Args} (hv : validate a = none) (hu : usePull (c.flags a.fam) = true)
    (hd : c.srv.disabled = false) (hns : a.ns ∈ c.srv.nss) (hp : openParamErr a = none)
    (ht : a.tradErr = none) (hinv : Inv c.srv) (hk : openKind a.fam = pullKind a.fam) :
    ∃ c1 p e x, start c a = advance c1 a p e x ∧ Linked c.srv.ctxs a c1 p e x a.tradObjs ∧ PullOk a c1 ∧
      c1.flags = setFlag c.flags a.fam (some true) ∧ c1.srv.nss = c.srv.nss ∧
      c1.srv.disabled = c.srv.disabled := by
  have hm := maxPos_of_validate hv
  have hb : badMax (some (maxOf a.max)) = false := by simp [badMax]; omega
  obtain ⟨htb, hsp⟩ := openParamErr_none hp
  by_cases hlen : a.tradObjs.length ≤ (maxOf a.max).toNat
  · refine ⟨afterOpen c a c.srv, a.tradObjs, true, none, ?_, Or.inl ⟨rfl, rfl, rfl⟩, ⟨hd, hns, hm⟩, rfl, rfl, rfl⟩
    simp [start, hv, hu, doOpen, srvOpen, hd, hns, htb, hsp, ht, stepOpen_default, hb, effMax, hlen, afterOpen, outErr]
  · refine ⟨afterOpen c a (openedState c.srv (openKind a.fam) a.ns a.tradObjs (some (maxOf a.max))),
      a.tradObjs.take (maxOf a.max).toNat, false, some c.srv.nextId, ?_,
      Or.inr ⟨rfl, c.srv.nextId, a.tradObjs.drop (maxOf a.max).toNat, rfl, ?_, ?_, ?_⟩,
      ⟨hd, hns, hm⟩, rfl, rfl, rfl⟩
    · simp [start, hv, hu, doOpen, srvOpen, hd, hns, htb, hsp, ht, stepOpen_default, hb, effMax, hlen, afterOpen, outErr,
        openedState]
    · simp [afterOpen, openedState, theCtx, hk, effMax]
    · intro y hy; have := hinv.below y hy; omega
    · simp

theorem takeN_congr_next {c c' : Conn} {g g' : Gen} (h : next c g = next c' g') (k : Nat) :
    takeN c g (k + 1) = takeN c' g' (k + 1) := by
  simp only [takeN, h]

/-- the connection after the traditional operation was sent and answered without error -/
def afterTrad (c : Conn) (a : Args) : Conn :=
  { c with log := c.log ++ [(.trad a.fam, none)] }

theorem fallbackStart_ok {c : Conn} {a : Args} (hf : c.flags a.fam = some false)
    (hr : fallbackReject a = false) (ht : a.tradErr = none) :
    fallbackStart c a = yieldFrom (afterTrad c a) (fallbackItems a) := by
  simp [fallbackStart, hf, hr, tradErrOf, ht, afterTrad]

theorem fallbackStart_reject {c : Conn} {a : Args} (hf : c.flags a.fam = some false)
    (hr : fallbackReject a = true) : fallbackStart c a = (c, .finished, .raise .valueError) := by
  simp [fallbackStart, hf, hr]

theorem start_flag_false {c : Conn} {a : Args} (hv : validate a = none) (hf : c.flags a.fam = some false) :
    start c a = fallbackStart c a := by
  simp [start, hv, hf, usePull]

/-- the connection after an Open that the server refused with `code`, which switched the flag to False -/
def afterLearn (c : Conn) (a : Args) (code : Nat) : Conn :=
  { c with flags := setFlag c.flags a.fam (some false), log := c.log ++ [(.open a.fam, some (.cimError code))] }

theorem start_learn {c : Conn} {a : Args} (hv : validate a = none) (hf : c.flags a.fam = none)
    (hd : c.srv.disabled = true) (htb : typeBad a = false) :
    start c a = fallbackStart (afterLearn c a CIM_ERR_NOT_SUPPORTED) a := by
  have hl : isLearnCode a.fam CIM_ERR_NOT_SUPPORTED = true := (learn_iff _ _).mpr (Or.inl rfl)
  simp [start, hv, hf, usePull, doOpen, srvOpen, htb, hd, handleErr, learns, hl, finallyClose, afterLearn, outErr]

theorem takeN_fallback (c : Conn) : ∀ (k : Nat) (pending : List Obj),
    (k ≤ pending.length → takeN c (.fallback pending) k = (c, .fallback (pending.drop k), pending.take k, none)) ∧
    (pending.length < k → takeN c (.fallback pending) k = (c, .finished, pending, some .stop)) := by
  intro k
  induction k with
  | zero => intro pending; exact ⟨fun _ => by simp [takeN], fun h => by omega⟩
  | succ k ih =>
    intro pending
    cases pending with
    | nil => exact ⟨fun h => by simp at h, fun _ => by simp [takeN, next, yieldFrom]⟩
    | cons o rest =>
      constructor
      · intro h
        have := (ih rest).1 (by simpa using h)
        simp [takeN, next, yieldFrom, this]
      · intro h
        have := (ih rest).2 (by simpa using h)
        simp [takeN, next, yieldFrom, this]

/-! ### decided flags never change -/

def Mono (c c' : Conn) : Prop := ∀ f b, c.flags f = some b → c'.flags f = some b

theorem finallyClose_flags (c : Conn) (f : Family) (eos : Bool) (ctx : Option Nat) :
    (finallyClose c f eos ctx).1.flags = c.flags := by
  unfold finallyClose
  split <;> simp [doClose]

theorem fallbackStart_flags (c : Conn) (a : Args) : (fallbackStart c a).1.flags = c.flags := by
  unfold fallbackStart
  split
  · rfl
  · split
    · rfl
    · simp only []
      split
      · rfl
      · unfold yieldFrom; split <;> rfl

theorem handleErr_mono (c : Conn) (a : Args) (e : PyExc) (eos : Bool) (ctx : Option Nat) :
    Mono c (handleErr c a e eos ctx).1 := by
  intro f b hf
  unfold handleErr
  split
  · rename_i hl
    have hnone : c.flags a.fam = none := by
      unfold learns at hl; split at hl <;> simp_all
    have hne : f ≠ a.fam := by intro h; subst h; simp [hnone] at hf
    simp only []
    split
    · simp [finallyClose_flags, setFlag, hne, hf]
    · simp [fallbackStart_flags, finallyClose_flags, setFlag, hne, hf]
  · simp only []
    split <;> simp [finallyClose_flags, hf]

theorem Mono.refl (c : Conn) : Mono c c := fun _ _ h => h
theorem Mono.trans {c c' c'' : Conn} (h1 : Mono c c') (h2 : Mono c' c'') : Mono c c'' :=
  fun f b h => h2 f b (h1 f b h)
theorem Mono.of_eq {c c' : Conn} (h : c'.flags = c.flags) : Mono c c' := fun f b hf => by rw [h]; exact hf

theorem doPull_flags (c : Conn) (a : Args) (ctx : Option Nat) : (doPull c a ctx).1.flags = c.flags := rfl
theorem doOpen_flags (c : Conn) (a : Args) : (doOpen c a).1.flags = c.flags := rfl

theorem advance_mono (c : Conn) (a : Args) (p : List Obj) (eos : Bool) (ctx : Option Nat) :
    Mono c (advance c a p eos ctx).1 := by
  unfold advance
  split
  · exact Mono.refl c
  · split
    · exact Mono.refl c
    · simp only []
      split
      · exact Mono.of_eq rfl
      · exact Mono.of_eq rfl
      · exact Mono.of_eq rfl
      · exact (Mono.of_eq (doPull_flags c a ctx)).trans (handleErr_mono _ _ _ _ _)
      · exact Mono.of_eq rfl

theorem start_mono (c : Conn) (a : Args) : Mono c (start c a).1 := by
  unfold start
  split
  · exact Mono.refl c
  · split
    · rename_i hu
      simp only []
      split
      · refine Mono.trans ?_ (advance_mono _ _ _ _ _)
        intro f b hf
        by_cases h : f = a.fam
        · subst h
          have : b = true := by
            cases b with
            | true => rfl
            | false => simp [usePull, hf] at hu
          simp [setFlag, this]
        · simp [setFlag, h, doOpen_flags, hf]
      · exact (Mono.of_eq (doOpen_flags c a)).trans (handleErr_mono _ _ _ _ _)
      · exact Mono.of_eq rfl
    · exact Mono.of_eq (fallbackStart_flags c a)

theorem next_mono (c : Conn) (g : Gen) : Mono c (next c g).1 := by
  unfold next
  split
  · exact start_mono _ _
  · exact advance_mono _ _ _ _ _
  · unfold yieldFrom; split <;> exact Mono.refl c
  · exact Mono.refl c

theorem close_flags (c : Conn) (g : Gen) : (close c g).1.flags = c.flags := by
  unfold close
  split
  · simp only []; split <;> simp [finallyClose_flags]
  · rfl

theorem throw_mono (c : Conn) (g : Gen) (e : PyExc) : Mono c (throwAt c g e).1 := by
  unfold throwAt
  split
  · exact handleErr_mono _ _ _ _ _
  · exact Mono.refl c

theorem drain_mono : ∀ (k : Nat) (c : Conn) (g : Gen), Mono c (drain c g k).1 := by
  intro k
  induction k with
  | zero => intro c g; exact Mono.refl c
  | succ k ih =>
    intro c g
    unfold drain
    have hn := next_mono c g
    split
    · rename_i c' g' o heq
      rw [heq] at hn
      exact hn.trans (ih c' g')
    · rename_i c' g' r hne heq
      rw [heq] at hn
      exact hn

theorem callEager_mono (c : Conn) (a : Args) : Mono c (callEager c a).1 := by
  unfold callEager
  have := drain_mono (a.tradObjs.length + 1) c (.notStarted a)
  simp only []
  split <;> exact this

theorem step_mono (w : World) (ev : Ev) : Mono w.conn (stepW w ev).1.conn := by
  cases ev with
  | call a =>
    unfold stepW
    simp only []
    split
    · exact Mono.refl _
    · exact callEager_mono _ _
  | next g => exact next_mono _ _
  | close g => exact Mono.of_eq (close_flags _ _)
  | drop g => exact Mono.of_eq (close_flags _ _)
  | throw g e => exact throw_mono _ _ _
  | setDisabled b => exact Mono.refl _
  | removeNs n => exact Mono.refl _

theorem run_mono : ∀ (evs : List Ev) (w : World), Mono w.conn (runW w evs).1.conn := by
  intro evs
  induction evs with
  | nil => intro w; exact Mono.refl _
  | cons ev evs ih => intro w; exact (step_mono w ev).trans (ih _)

/-! ### ownership of server contexts -/

def holds (g : Gen) (i : Nat) : Prop := ∃ a p, g = .pulling a p false (some i)
def NotPulling (g : Gen) : Prop := ∀ a p e x, g ≠ .pulling a p e x
def GoodGen (g : Gen) : Prop := ∀ a p e x, g = .pulling a p e x → 0 < maxOf a.max

theorem NotPulling.not_holds {g : Gen} (h : NotPulling g) (i : Nat) : ¬ holds g i := by
  rintro ⟨a, p, rfl⟩; exact h _ _ _ _ rfl
theorem NotPulling.good {g : Gen} (h : NotPulling g) : GoodGen g := by
  intro a p e x hg; exact absurd hg (h _ _ _ _)

theorem finallyClose_eos (c : Conn) (f : Family) (ctx : Option Nat) : finallyClose c f true ctx = (c, none) := by
  simp [finallyClose]

theorem finallyClose_found (c : Conn) (f : Family) (i : Nat) (y : Ctx) (hd : c.srv.disabled = false)
    (hl : lookup c.srv.ctxs i = some y) :
    finallyClose c f false (some i) =
      ({ c with srv := { c.srv with ctxs := remove c.srv.ctxs i }, log := c.log ++ [(.close (some i), none)] }, none) := by
  simp [finallyClose, row_closes, doClose, stepClose, hd, hl, outErr]

theorem finallyClose_missing (c : Conn) (f : Family) (i : Nat) (hd : c.srv.disabled = false)
    (hl : lookup c.srv.ctxs i = none) :
    finallyClose c f false (some i) =
      ({ c with log := c.log ++ [(.close (some i), some (.cimError CIM_ERR_INVALID_ENUMERATION_CONTEXT))] },
       some (.cimError CIM_ERR_INVALID_ENUMERATION_CONTEXT)) := by
  simp [finallyClose, row_closes, doClose, stepClose, hd, hl, outErr]

theorem finallyClose_noctx (c : Conn) (f : Family) :
    finallyClose c f false none = ({ c with log := c.log ++ [(.close none, some .valueError)] }, some .valueError) := by
  simp [finallyClose, row_closes, doClose, stepClose, outErr]

theorem finallyClose_table (c : Conn) (f : Family) (eos : Bool) (ctx : Option Nat)
    (hd : c.srv.disabled = false) :
    (∀ x ∈ (finallyClose c f eos ctx).1.srv.ctxs, x ∈ c.srv.ctxs ∧ (eos = false → ctx ≠ some x.id)) ∧
    (finallyClose c f eos ctx).1.srv.disabled = false := by
  cases eos with
  | true => rw [finallyClose_eos]; exact ⟨fun x hx => ⟨hx, fun h => by cases h⟩, hd⟩
  | false =>
    cases ctx with
    | none => rw [finallyClose_noctx]; exact ⟨fun x hx => ⟨hx, fun _ h => by cases h⟩, hd⟩
    | some i =>
      cases hl : lookup c.srv.ctxs i with
      | none =>
        have hn := lookup_none hl
        rw [finallyClose_missing c f i hd hl]
        refine ⟨fun x hx => ⟨hx, fun _ h => ?_⟩, hd⟩
        simp at h; exact hn x hx h.symm
      | some y =>
        rw [finallyClose_found c f i y hd hl]
        refine ⟨fun x hx => ?_, hd⟩
        have := mem_remove.mp hx
        exact ⟨this.1, fun _ h => by simp at h; exact this.2 h.symm⟩

theorem fallbackStart_srv (c : Conn) (a : Args) :
    (fallbackStart c a).1.srv = c.srv ∧ NotPulling (fallbackStart c a).2.1 := by
  unfold fallbackStart
  split
  · exact ⟨rfl, by intro _ _ _ _ h; cases h⟩
  · split
    · exact ⟨rfl, by intro _ _ _ _ h; cases h⟩
    · simp only []
      split
      · exact ⟨rfl, by intro _ _ _ _ h; cases h⟩
      · unfold yieldFrom; split <;> exact ⟨rfl, by intro _ _ _ _ h; cases h⟩

theorem handleErr_table (c : Conn) (a : Args) (e : PyExc) (eos : Bool) (ctx : Option Nat)
    (hd : c.srv.disabled = false) :
    (∀ x ∈ (handleErr c a e eos ctx).1.srv.ctxs, x ∈ c.srv.ctxs ∧ (eos = false → ctx ≠ some x.id)) ∧
    (handleErr c a e eos ctx).1.srv.disabled = false ∧ NotPulling (handleErr c a e eos ctx).2.1 := by
  unfold handleErr
  split
  · simp only []
    have h := finallyClose_table { c with flags := setFlag c.flags a.fam (some false) } a.fam eos ctx hd
    split
    · exact ⟨h.1, h.2, by intro _ _ _ _ h; cases h⟩
    · have hs := fallbackStart_srv (finallyClose { c with flags := setFlag c.flags a.fam (some false) } a.fam eos ctx).1 a
      rw [hs.1]; exact ⟨h.1, h.2, hs.2⟩
  · simp only []
    have h := finallyClose_table c a.fam eos ctx hd
    split <;> exact ⟨h.1, h.2, by intro _ _ _ _ h; cases h⟩

theorem holds_pulling_iff (a : Args) (p : List Obj) (e : Bool) (x : Option Nat) (i : Nat) :
    holds (.pulling a p e x) i ↔ (e = false ∧ x = some i) := by
  constructor
  · rintro ⟨a', p', h⟩; cases h; exact ⟨rfl, rfl⟩
  · rintro ⟨rfl, rfl⟩; exact ⟨a, p, rfl⟩

/-- how one consumer action on generator `g` changes the server table: every context left is either the one
    the generator holds now, or was there before (same id) and was not the generator's -/
def Frame (c : Conn) (g : Gen) (c' : Conn) (g' : Gen) : Prop :=
  (∀ x ∈ c'.srv.ctxs, holds g' x.id ∨ ((∃ y ∈ c.srv.ctxs, y.id = x.id) ∧ ¬ holds g x.id)) ∧
  c'.srv.disabled = false ∧ GoodGen g'

theorem doPull_eq (c : Conn) (a : Args) (ctx : Option Nat) (s' : State) (o : Out)
    (h : stepPull c.srv (pullKind a.fam) ctx (some (maxOf a.max)) = (s', o)) :
    doPull c a ctx = ({ c with srv := s', log := c.log ++ [(.pull a.fam, outErr o)] }, o) := by
  simp [doPull, h]

theorem advance_frame (c : Conn) (a : Args) (p : List Obj) (eos : Bool) (ctx : Option Nat)
    (hd : c.srv.disabled = false) (hm : 0 < maxOf a.max) :
    Frame c (.pulling a p eos ctx) (advance c a p eos ctx).1 (advance c a p eos ctx).2.1 := by
  cases p with
  | cons o rest =>
    simp only [advance]
    refine ⟨fun x hx => ?_, hd, fun _ _ _ _ h => by cases h; exact hm⟩
    by_cases hh : holds (.pulling a rest eos ctx) x.id
    · exact Or.inl hh
    · exact Or.inr ⟨⟨x, hx, rfl⟩, by rw [holds_pulling_iff] at hh ⊢; exact hh⟩
  | nil =>
    cases eos with
    | true =>
      simp only [advance, if_true]
      exact ⟨fun x hx => Or.inr ⟨⟨x, hx, rfl⟩, by rw [holds_pulling_iff]; simp⟩, hd,
        fun _ _ _ _ h => by cases h⟩
    | false =>
      cases ctx with
      | none =>
        have e := doPull_eq c a none c.srv (.err .valueError) (by simp [stepPull])
        simp only [advance, Bool.false_eq_true, if_false, e]
        have h := handleErr_table { c with srv := c.srv, log := c.log ++ [(.pull a.fam, outErr (.err .valueError))] }
          a .valueError false none hd
        exact ⟨fun x hx => Or.inr ⟨⟨x, (h.1 x hx).1, rfl⟩, by rw [holds_pulling_iff]; simp⟩, h.2.1, h.2.2.good⟩
      | some i =>
        have hnot : ∀ x : Ctx, x.id ≠ i → ¬ holds (.pulling a [] false (some i)) x.id := by
          intro x hx; rw [holds_pulling_iff]; intro h; simp at h; exact hx h.symm
        rcases stepPull_cases c.srv (pullKind a.fam) i (some (maxOf a.max)) with ⟨e, he⟩ | ⟨y, hr, hle, he⟩ | ⟨y, hr, hgt, he⟩
        · have e' := doPull_eq c a (some i) _ _ he
          simp only [advance, Bool.false_eq_true, if_false, e']
          have h := handleErr_table { c with srv := c.srv, log := c.log ++ [(.pull a.fam, outErr (.err e))] }
            a e false (some i) hd
          refine ⟨fun x hx => Or.inr ⟨⟨x, (h.1 x hx).1, rfl⟩, hnot x ?_⟩, h.2.1, h.2.2.good⟩
          have := (h.1 x hx).2 rfl
          intro hh; exact this (by rw [hh])
        · have e' := doPull_eq c a (some i) _ _ he
          simp only [advance, Bool.false_eq_true, if_false, e']
          cases hdta : y.data with
          | nil =>
            refine ⟨fun x hx => ?_, hd, fun _ _ _ _ h => by cases h⟩
            have := mem_remove.mp hx
            exact Or.inr ⟨⟨x, this.1, rfl⟩, hnot x this.2⟩
          | cons o rest =>
            refine ⟨fun x hx => ?_, hd, fun _ _ _ _ h => by cases h; exact hm⟩
            have := mem_remove.mp hx
            exact Or.inr ⟨⟨x, this.1, rfl⟩, hnot x this.2⟩
        · have e' := doPull_eq c a (some i) _ _ he
          simp only [advance, Bool.false_eq_true, if_false, e']
          have hne : y.data.take (effMax (some (maxOf a.max))) ≠ [] := by
            intro e
            rcases List.take_eq_nil_iff.mp e with e | e
            · simp [effMax] at e; omega
            · rw [e] at hgt; simp at hgt
          cases hdta : y.data.take (effMax (some (maxOf a.max))) with
          | nil => exact absurd hdta hne
          | cons o rest =>
            refine ⟨fun x hx => ?_, hd, fun _ _ _ _ h => by cases h; exact hm⟩
            obtain ⟨z, hz, rfl⟩ := mem_replaceData.mp hx
            by_cases hzi : z.id = i
            · left; rw [holds_pulling_iff]; simp [hzi]
            · right
              have : (z.id == i) = false := by simp [hzi]
              simp only [this]
              exact ⟨⟨z, hz, rfl⟩, hnot z hzi⟩

theorem srvOpen_cases (s : State) (a : Args) :
    (∃ e, srvOpen s a = (s, .err e)) ∨
    srvOpen s a = (s, .batch a.tradObjs true none) ∨
    srvOpen s a = (openedState s (openKind a.fam) a.ns a.tradObjs (some (maxOf a.max)),
      .batch (a.tradObjs.take (effMax (some (maxOf a.max)))) false (some s.nextId)) := by
  unfold srvOpen
  by_cases h0 : typeBad a = true
  · left; exact ⟨.typeError, by simp [h0]⟩
  by_cases h1 : s.disabled = true
  · left; exact ⟨.cimError CIM_ERR_NOT_SUPPORTED, by simp [h0, h1]⟩
  by_cases h2 : a.ns ∈ s.nss
  · cases h3 : serverParamErr a with
    | some e => left; exact ⟨.cimError e, by simp [h0, h1, h2, h3]⟩
    | none =>
      cases h4 : a.tradErr with
      | some e => left; exact ⟨.cimError e, by simp [h0, h1, h2, h3, h4]⟩
      | none =>
        rcases stepOpen_cases s {} (openKind a.fam) a.ns a.tradObjs (some (maxOf a.max)) with ⟨e, he⟩ | ⟨_, he⟩ | ⟨_, he⟩
        · left; exact ⟨e, by simp [h0, h1, h2, h3, h4, he]⟩
        · right; left; simp [h0, h1, h2, h3, h4, he]
        · right; right; simp [h0, h1, h2, h3, h4, he]
  · left; exact ⟨.cimError CIM_ERR_INVALID_NAMESPACE, by simp [h0, h1, h2]⟩

theorem doOpen_eq (c : Conn) (a : Args) (s' : State) (o : Out) (h : srvOpen c.srv a = (s', o)) :
    doOpen c a = ({ c with srv := s', log := c.log ++ [(.open a.fam, outErr o)] }, o) := by
  simp [doOpen, h]

theorem notStarted_not_holds (a : Args) (i : Nat) : ¬ holds (.notStarted a) i := by
  rintro ⟨_, _, h⟩; cases h

theorem start_frame (c : Conn) (a : Args) (hd : c.srv.disabled = false) :
    Frame c (.notStarted a) (start c a).1 (start c a).2.1 := by
  unfold start
  cases hv : validate a with
  | some e =>
    exact ⟨fun x hx => Or.inr ⟨⟨x, hx, rfl⟩, notStarted_not_holds _ _⟩, hd, fun _ _ _ _ h => by cases h⟩
  | none =>
    have hm := maxPos_of_validate hv
    simp only []
    split
    · rcases srvOpen_cases c.srv a with ⟨e, he⟩ | he | he
      · rw [doOpen_eq c a _ _ he]
        simp only []
        have h := handleErr_table { c with srv := c.srv, log := c.log ++ [(.open a.fam, outErr (.err e))] }
          a e true none hd
        exact ⟨fun x hx => Or.inr ⟨⟨x, (h.1 x hx).1, rfl⟩, notStarted_not_holds _ _⟩, h.2.1, h.2.2.good⟩
      · rw [doOpen_eq c a _ _ he]
        simp only []
        have h := advance_frame
          { srv := c.srv, flags := setFlag c.flags a.fam (some true),
            log := c.log ++ [(.open a.fam, outErr (.batch a.tradObjs true none))] } a a.tradObjs true none hd hm
        refine ⟨fun x hx => ?_, h.2.1, h.2.2⟩
        rcases h.1 x hx with hh | ⟨⟨y, hy, hyx⟩, _⟩
        · exact Or.inl hh
        · exact Or.inr ⟨⟨y, hy, hyx⟩, notStarted_not_holds _ _⟩
      · rw [doOpen_eq c a _ _ he]
        simp only []
        have h := advance_frame
          { srv := openedState c.srv (openKind a.fam) a.ns a.tradObjs (some (maxOf a.max)),
            flags := setFlag c.flags a.fam (some true),
            log := c.log ++ [(.open a.fam, outErr (.batch (a.tradObjs.take (effMax (some (maxOf a.max)))) false (some c.srv.nextId)))] }
          a (a.tradObjs.take (effMax (some (maxOf a.max)))) false (some c.srv.nextId) (by simpa [openedState] using hd) hm
        refine ⟨fun x hx => ?_, h.2.1, h.2.2⟩
        rcases h.1 x hx with hh | ⟨⟨y, hy, hyx⟩, hnh⟩
        · exact Or.inl hh
        · simp only [openedState, List.mem_append, List.mem_singleton] at hy
          rcases hy with hy | hy
          · exact Or.inr ⟨⟨y, hy, hyx⟩, notStarted_not_holds _ _⟩
          · exfalso; apply hnh; rw [holds_pulling_iff]; subst hy; simp at hyx; simp [hyx]
    · have h := fallbackStart_srv c a
      refine ⟨fun x hx => Or.inr ⟨⟨x, ?_, rfl⟩, notStarted_not_holds _ _⟩, ?_, h.2.good⟩
      · rw [h.1] at hx; exact hx
      · rw [h.1]; exact hd

theorem frame_same (c : Conn) (g g' : Gen) (hd : c.srv.disabled = false) (hn : ∀ i, ¬ holds g i)
    (hg : GoodGen g') : Frame c g c g' :=
  ⟨fun x hx => Or.inr ⟨⟨x, hx, rfl⟩, hn _⟩, hd, hg⟩

theorem next_frame (c : Conn) (g : Gen) (hd : c.srv.disabled = false) (hg : GoodGen g) :
    Frame c g (next c g).1 (next c g).2.1 := by
  cases g with
  | notStarted a => exact start_frame c a hd
  | pulling a p e x => exact advance_frame c a p e x hd (hg _ _ _ _ rfl)
  | fallback p =>
    simp only [next]
    unfold yieldFrom
    split
    · exact frame_same c _ _ hd (by rintro i ⟨_, _, h⟩; cases h) (fun _ _ _ _ h => by cases h)
    · exact frame_same c _ _ hd (by rintro i ⟨_, _, h⟩; cases h) (fun _ _ _ _ h => by cases h)
  | finished =>
    exact frame_same c _ _ hd (by rintro i ⟨_, _, h⟩; cases h) (fun _ _ _ _ h => by cases h)

theorem close_gen (c : Conn) (g : Gen) : (close c g).2.1 = .finished := by
  unfold close; split
  · simp only []; split <;> rfl
  · rfl

theorem close_frame (c : Conn) (g : Gen) (hd : c.srv.disabled = false) :
    Frame c g (close c g).1 (close c g).2.1 := by
  rw [close_gen]
  cases g with
  | pulling a p e x =>
    have h := finallyClose_table c a.fam e x hd
    have hc : (close c (.pulling a p e x)).1 = (finallyClose c a.fam e x).1 := by
      simp only [close]; split <;> rfl
    rw [hc]
    refine ⟨fun y hy => Or.inr ⟨⟨y, (h.1 y hy).1, rfl⟩, ?_⟩, h.2, fun _ _ _ _ h => by cases h⟩
    rw [holds_pulling_iff]
    rintro ⟨he, hx⟩
    exact (h.1 y hy).2 he hx
  | notStarted a => exact frame_same c _ _ hd (by rintro i ⟨_, _, h⟩; cases h) (fun _ _ _ _ h => by cases h)
  | fallback p => exact frame_same c _ _ hd (by rintro i ⟨_, _, h⟩; cases h) (fun _ _ _ _ h => by cases h)
  | finished => exact frame_same c _ _ hd (by rintro i ⟨_, _, h⟩; cases h) (fun _ _ _ _ h => by cases h)

theorem throwAt_frame (c : Conn) (g : Gen) (e : PyExc) (hd : c.srv.disabled = false) :
    Frame c g (throwAt c g e).1 (throwAt c g e).2.1 := by
  cases g with
  | pulling a p eos x =>
    have h := handleErr_table c a e eos x hd
    simp only [throwAt]
    refine ⟨fun y hy => Or.inr ⟨⟨y, (h.1 y hy).1, rfl⟩, ?_⟩, h.2.1, h.2.2.good⟩
    rw [holds_pulling_iff]
    rintro ⟨he, hx⟩
    exact (h.1 y hy).2 he hx
  | notStarted a => exact frame_same c _ _ hd (by rintro i ⟨_, _, h⟩; cases h) (fun _ _ _ _ h => by cases h)
  | fallback p => exact frame_same c _ _ hd (by rintro i ⟨_, _, h⟩; cases h) (fun _ _ _ _ h => by cases h)
  | finished => exact frame_same c _ _ hd (by rintro i ⟨_, _, h⟩; cases h) (fun _ _ _ _ h => by cases h)

theorem setAt_same {α} (f : Nat → α) (i : Nat) (v : α) : setAt f i v i = v := by simp [setAt]
theorem setAt_other {α} (f : Nat → α) {i j : Nat} (v : α) (h : j ≠ i) : setAt f i v j = f j := by simp [setAt, h]

/-! ### a namespace removal leaves running generators alone -/

theorem nsGone_pulling {ns : Nat} {g : Gen} {a : Args} {p : List Obj} {e : Bool} {x : Option Nat}
    (h : nsGone ns g = .pulling a p e x) : g = .pulling a p e x := by
  cases g with
  | notStarted a' => simp only [nsGone] at h; split at h <;> cases h
  | pulling _ _ _ _ => exact h
  | fallback _ => cases h
  | finished => cases h

theorem nsGone_holds {ns : Nat} {g : Gen} {i : Nat} : holds (nsGone ns g) i ↔ holds g i := by
  constructor
  · rintro ⟨a, p, h⟩; exact ⟨a, p, nsGone_pulling h⟩
  · rintro ⟨a, p, rfl⟩; exact ⟨a, p, rfl⟩

theorem nsGone_good {ns : Nat} {g : Gen} (h : GoodGen g) : GoodGen (nsGone ns g) :=
  fun a p e x hg => h a p e x (nsGone_pulling hg)

theorem nsGone_finished (ns : Nat) : nsGone ns .finished = .finished := rfl

theorem nsGone_notStarted {ns : Nat} {g : Gen} {a : Args} (h : nsGone ns g = .notStarted a) :
    g = .notStarted a ∨ ∃ a', g = .notStarted a' ∧ a'.fam ≠ .query ∧
      a = { a' with tradErr := some CIM_ERR_INVALID_NAMESPACE, tradObjs := [] } := by
  cases g with
  | notStarted a' =>
    simp only [nsGone] at h
    split at h
    · rename_i hc; cases h; exact Or.inr ⟨a', rfl, hc.2, rfl⟩
    · exact Or.inl h
  | pulling _ _ _ _ => cases h
  | fallback _ => cases h
  | finished => cases h

/-! ### only documented exceptions -/

/-- the exception classes the Iter methods are documented to raise -/
def Documented (e : PyExc) : Prop := e = .valueError ∨ e = .typeError ∨ ∃ code, e = .cimError code

/-- result of a consumer action: a documented exception, or `e0` (what the consumer threw in), never the
    model-only `diverge` -/
def ResOk (e0 : Option PyExc) (r : Res) : Prop :=
  match r with
  | .raise e => Documented e ∨ e0 = some e
  | .diverge => False
  | _ => True

theorem stepClose_err_doc (s : State) (ctx : Option Nat) (e : PyExc) (h : (stepClose s ctx).2 = .err e) :
    Documented e := by
  unfold stepClose at h
  split at h
  · simp at h; exact Or.inl h.symm
  · split at h
    · simp at h; exact Or.inr (Or.inr ⟨_, h.symm⟩)
    · split at h
      · simp at h; exact Or.inr (Or.inr ⟨_, h.symm⟩)
      · simp at h

theorem stepPull_err_doc (s : State) (k : Kind) (ctx : Option Nat) (m : Option Int) (e : PyExc)
    (h : (stepPull s k ctx m).2 = .err e) : Documented e := by
  cases ctx with
  | none => simp [stepPull] at h; exact Or.inl h.symm
  | some i =>
    unfold stepPull at h
    simp only [] at h
    split at h
    · simp at h; exact Or.inl h.symm
    · split at h
      · simp at h; exact Or.inr (Or.inr ⟨_, h.symm⟩)
      · split at h
        · simp at h; exact Or.inr (Or.inr ⟨_, h.symm⟩)
        · split at h
          · simp at h; exact Or.inr (Or.inr ⟨_, h.symm⟩)
          · split at h
            · simp at h; exact Or.inr (Or.inr ⟨_, h.symm⟩)
            · split at h <;> simp at h

theorem stepOpen_err_doc (s : State) (k : Kind) (ns : Nat) (objs : List Obj) (m : Option Int) (e : PyExc)
    (h : (stepOpen s {} k ns objs m).2 = .err e) : Documented e := by
  rw [stepOpen_default] at h
  split at h
  · simp at h; exact Or.inl h.symm
  · split at h
    · simp at h; exact Or.inr (Or.inr ⟨_, h.symm⟩)
    · split at h
      · simp at h; exact Or.inr (Or.inr ⟨_, h.symm⟩)
      · split at h <;> simp at h

theorem srvOpen_err_doc (s : State) (a : Args) (e : PyExc) (h : (srvOpen s a).2 = .err e) : Documented e := by
  unfold srvOpen at h
  split at h
  · simp only [Out.err.injEq] at h; exact Or.inr (Or.inl h.symm)
  · split at h
    · simp at h; exact Or.inr (Or.inr ⟨_, h.symm⟩)
    · split at h
      · simp at h; exact Or.inr (Or.inr ⟨_, h.symm⟩)
      · split at h
        · simp at h; exact Or.inr (Or.inr ⟨_, h.symm⟩)
        · split at h
          · simp at h; exact Or.inr (Or.inr ⟨_, h.symm⟩)
          · exact stepOpen_err_doc _ _ _ _ _ _ h

theorem validateMax_doc (m : IntArg) (e : PyExc) (h : validateMax m = some e) : Documented e := by
  cases m with
  | none => simp [validateMax] at h; exact Or.inl h.symm
  | other => simp [validateMax] at h; exact Or.inr (Or.inl h.symm)
  | int k => simp [validateMax] at h; exact Or.inl h.2.symm

theorem validateTimeout_doc (m : IntArg) (e : PyExc) (h : validateTimeout m = some e) : Documented e := by
  cases m with
  | none => simp [validateTimeout] at h
  | other => simp [validateTimeout] at h; exact Or.inr (Or.inl h.symm)
  | int k => simp [validateTimeout] at h; exact Or.inl h.2.symm

theorem validate_doc (a : Args) (e : PyExc) (h : validate a = some e) : Documented e := by
  unfold validate at h
  cases ht : validateTimeout a.timeout with
  | some e' => simp [ht] at h; subst h; exact validateTimeout_doc _ _ ht
  | none => simp [ht] at h; exact validateMax_doc _ _ h

theorem finallyClose_doc (c : Conn) (f : Family) (eos : Bool) (ctx : Option Nat) (e : PyExc)
    (h : (finallyClose c f eos ctx).2 = some e) : Documented e := by
  unfold finallyClose at h
  split at h
  · cases h
  · simp only [doClose] at h
    cases hc : (stepClose c.srv ctx).2 with
    | err e' => rw [hc] at h; simp [outErr] at h; subst h; exact stepClose_err_doc _ _ _ hc
    | batch _ _ _ => rw [hc] at h; simp [outErr] at h
    | done => rw [hc] at h; simp [outErr] at h

theorem yieldFrom_res (c : Conn) (items : List Obj) (e0 : Option PyExc) : ResOk e0 (yieldFrom c items).2.2 := by
  unfold yieldFrom; split <;> simp [ResOk]

theorem fallbackStart_res (c : Conn) (a : Args) (e0 : Option PyExc) (hf : c.flags a.fam = some false) :
    ResOk e0 (fallbackStart c a).2.2 := by
  unfold fallbackStart
  simp only [hf, ne_eq, not_true_eq_false, if_false]
  split
  · exact Or.inl (Or.inl rfl)
  · split
    · exact Or.inl (Or.inr (Or.inr ⟨_, rfl⟩))
    · exact yieldFrom_res _ _ _

theorem handleErr_res (c : Conn) (a : Args) (e : PyExc) (eos : Bool) (ctx : Option Nat) (e0 : Option PyExc)
    (he : Documented e ∨ e0 = some e) : ResOk e0 (handleErr c a e eos ctx).2.2 := by
  unfold handleErr
  split
  · simp only []
    split
    · rename_i e2 h2; exact Or.inl (finallyClose_doc _ _ _ _ _ h2)
    · apply fallbackStart_res
      rw [finallyClose_flags]; simp [setFlag]
  · simp only []
    split
    · rename_i e2 h2; exact Or.inl (finallyClose_doc _ _ _ _ _ h2)
    · exact he

theorem handleErr_notPulling (c : Conn) (a : Args) (e : PyExc) (eos : Bool) (ctx : Option Nat) :
    NotPulling (handleErr c a e eos ctx).2.1 := by
  unfold handleErr
  split
  · simp only []
    split
    · intro _ _ _ _ h; cases h
    · exact (fallbackStart_srv _ _).2
  · simp only []
    split <;> (intro _ _ _ _ h; cases h)

theorem advance_res (c : Conn) (a : Args) (p : List Obj) (eos : Bool) (ctx : Option Nat)
    (hm : 0 < maxOf a.max) :
    ResOk none (advance c a p eos ctx).2.2 ∧ GoodGen (advance c a p eos ctx).2.1 := by
  cases p with
  | cons o rest => simp only [advance]; exact ⟨trivial, fun _ _ _ _ h => by cases h; exact hm⟩
  | nil =>
    cases eos with
    | true => simp only [advance, if_true]; exact ⟨trivial, fun _ _ _ _ h => by cases h⟩
    | false =>
      simp only [advance, Bool.false_eq_true, if_false]
      cases hp : (stepPull c.srv (pullKind a.fam) ctx (some (maxOf a.max))).2 with
      | err e =>
        simp only [doPull, hp]
        exact ⟨handleErr_res _ _ _ _ _ _ (Or.inl (stepPull_err_doc _ _ _ _ _ hp)), (handleErr_notPulling _ _ _ _ _).good⟩
      | done =>
        exfalso
        cases ctx with
        | none => simp [stepPull] at hp
        | some i =>
          rcases stepPull_cases c.srv (pullKind a.fam) i (some (maxOf a.max)) with ⟨e, he⟩ | ⟨y, _, _, he⟩ | ⟨y, _, _, he⟩ <;>
            rw [he] at hp <;> simp at hp
      | batch objs eos' ctx' =>
        simp only [doPull, hp]
        cases objs with
        | cons o rest => exact ⟨trivial, fun _ _ _ _ h => by cases h; exact hm⟩
        | nil =>
          cases eos' with
          | true => exact ⟨trivial, fun _ _ _ _ h => by cases h⟩
          | false =>
            exfalso
            cases ctx with
            | none => simp [stepPull] at hp
            | some i =>
              rcases stepPull_cases c.srv (pullKind a.fam) i (some (maxOf a.max)) with ⟨e, he⟩ | ⟨y, _, _, he⟩ | ⟨y, _, hgt, he⟩ <;>
                rw [he] at hp <;> simp at hp
              rcases hp.1 with e | e
              · simp [effMax] at e; omega
              · rw [e] at hgt; simp at hgt

theorem start_res (c : Conn) (a : Args) : ResOk none (start c a).2.2 ∧ GoodGen (start c a).2.1 := by
  unfold start
  cases hv : validate a with
  | some e => exact ⟨Or.inl (validate_doc _ _ hv), fun _ _ _ _ h => by cases h⟩
  | none =>
    have hm := maxPos_of_validate hv
    simp only []
    split
    · cases ho : (srvOpen c.srv a).2 with
      | err e =>
        simp only [doOpen, ho]
        exact ⟨handleErr_res _ _ _ _ _ _ (Or.inl (srvOpen_err_doc _ _ _ ho)), (handleErr_notPulling _ _ _ _ _).good⟩
      | batch objs eos ctx =>
        simp only [doOpen, ho]
        exact advance_res _ _ _ _ _ hm
      | done =>
        exfalso
        rcases srvOpen_cases c.srv a with ⟨e, he⟩ | he | he <;> rw [he] at ho <;> simp at ho
    · rename_i hu
      have hf : c.flags a.fam = some false := by
        cases h : c.flags a.fam with
        | none => simp [usePull, h] at hu
        | some b => cases b <;> simp [usePull, h] at hu ⊢
      exact ⟨fallbackStart_res _ _ _ hf, (fallbackStart_srv _ _).2.good⟩

theorem next_res (c : Conn) (g : Gen) (hg : GoodGen g) : ResOk none (next c g).2.2 ∧ GoodGen (next c g).2.1 := by
  cases g with
  | notStarted a => exact start_res c a
  | pulling a p e x => exact advance_res c a p e x (hg _ _ _ _ rfl)
  | fallback p =>
    simp only [next]
    refine ⟨yieldFrom_res _ _ _, ?_⟩
    unfold yieldFrom; split <;> (intro _ _ _ _ h; cases h)
  | finished => exact ⟨trivial, fun _ _ _ _ h => by cases h⟩

theorem close_res (c : Conn) (g : Gen) : ResOk none (close c g).2.2 := by
  unfold close
  split
  · simp only []
    split
    · rename_i e h; exact Or.inl (finallyClose_doc _ _ _ _ _ h)
    · trivial
  · trivial

theorem throwAt_res (c : Conn) (g : Gen) (e : PyExc) :
    ResOk (some e) (throwAt c g e).2.2 ∧ GoodGen (throwAt c g e).2.1 := by
  unfold throwAt
  split
  · exact ⟨handleErr_res _ _ _ _ _ _ (Or.inr rfl), (handleErr_notPulling _ _ _ _ _).good⟩
  · exact ⟨Or.inr rfl, fun _ _ _ _ h => by cases h⟩

theorem fallbackStart_traderr (c : Conn) (a : Args) (code : Nat) (h : a.tradErr = some code)
    (hf : c.flags a.fam = some false) :
    ∃ e, (fallbackStart c a).2.2 = .raise e ∧ Documented e ∧ (fallbackStart c a).1.srv = c.srv ∧
      (fallbackStart c a).2.1 = .finished := by
  unfold fallbackStart
  simp only [hf, ne_eq, not_true_eq_false, if_false]
  split
  · exact ⟨_, rfl, Or.inl rfl, rfl, rfl⟩
  · simp only [tradErrOf, h]
    exact ⟨.cimError code, by simp, Or.inr (Or.inr ⟨_, rfl⟩), by simp, by simp⟩

theorem srvOpen_traderr (s : State) (a : Args) (code : Nat) (h : a.tradErr = some code) :
    ∃ e, srvOpen s a = (s, .err e) ∧ Documented e := by
  unfold srvOpen
  split
  · exact ⟨_, rfl, Or.inr (Or.inl rfl)⟩
  · split
    · exact ⟨_, rfl, Or.inr (Or.inr ⟨_, rfl⟩)⟩
    · split
      · exact ⟨_, rfl, Or.inr (Or.inr ⟨_, rfl⟩)⟩
      · split
        · exact ⟨_, rfl, Or.inr (Or.inr ⟨_, rfl⟩)⟩
        · simp only [h]
          exact ⟨_, rfl, Or.inr (Or.inr ⟨_, rfl⟩)⟩

/-- a call whose traditional operation fails never yields: the first `next()` raises, nothing is left on
    the server -/
theorem start_traderr (c : Conn) (a : Args) (code : Nat) (h : a.tradErr = some code) :
    ∃ e, (start c a).2.2 = .raise e ∧ Documented e ∧ (start c a).1.srv = c.srv ∧
      (start c a).2.1 = .finished := by
  unfold start
  cases hv : validate a with
  | some e => exact ⟨e, rfl, validate_doc _ _ hv, rfl, rfl⟩
  | none =>
    simp only []
    split
    · obtain ⟨e, he, hdoc⟩ := srvOpen_traderr c.srv a code h
      rw [doOpen_eq c a _ _ he]
      simp only [handleErr]
      split
      · simp only [finallyClose_eos]
        exact fallbackStart_traderr _ a code h (by simp [setFlag])
      · simp only [finallyClose_eos]
        exact ⟨e, by simp, hdoc, by simp, by simp⟩
    · rename_i hu
      have hf : c.flags a.fam = some false := by
        cases h : c.flags a.fam with
        | none => simp [usePull, h] at hu
        | some b => cases b <;> simp [usePull, h] at hu ⊢
      exact fallbackStart_traderr c a code h hf

theorem callEager_traderr (c : Conn) (a : Args) (code : Nat) (h : a.tradErr = some code) :
    ∃ e, (callEager c a).2 = .raise e ∧ Documented e ∧ (callEager c a).1.srv = c.srv := by
  obtain ⟨e, h1, h2, h3, _⟩ := start_traderr c a code h
  refine ⟨e, ?_, h2, ?_⟩
  · simp only [callEager, drain, next]
    rcases hs : start c a with ⟨c', g', r⟩
    rw [hs] at h1; simp only [] at h1; subst h1
    rfl
  · simp only [callEager, drain, next]
    rcases hs : start c a with ⟨c', g', r⟩
    rw [hs] at h1 h3; simp only [] at h1 h3; subst h1
    exact h3

/-- calls covered by the history theorems about exceptions and leaks: the six generator methods with any
    arguments, and IterQueryInstances when the server's ExecQuery fails (the mock's always does) -/
def CallOk (ev : Ev) : Prop :=
  match ev with
  | .call a => a.fam ≠ .query ∨ a.tradErr ≠ none
  | _ => True

instance (ev : Ev) : Decidable (CallOk ev) := by
  cases ev <;> simp only [CallOk] <;> infer_instance

/-- the exception a `throw` event puts into the generator -/
def thrown (ev : Ev) : Option PyExc :=
  match ev with
  | .throw _ e => some e
  | _ => none

theorem ResOk.weaken {r : Res} {e0 : Option PyExc} (h : ResOk none r) : ResOk e0 r := by
  cases r <;> simp [ResOk] at h ⊢
  exact Or.inl h

theorem step_res (w : World) (hg : ∀ j, GoodGen (w.gens j)) (ev : Ev) (ha : CallOk ev) :
    ResOk (thrown ev) (stepW w ev).2 ∧ ∀ j, GoodGen ((stepW w ev).1.gens j) := by
  have upd : ∀ (g : Nat) (g' : Gen), GoodGen g' → ∀ j, GoodGen (setAt w.gens g g' j) := by
    intro g g' hg' j
    by_cases e : j = g
    · subst e; simp only [setAt_same]; exact hg'
    · simp only [setAt_other _ _ e]; exact hg j
  cases ev with
  | call a =>
    simp only [stepW]
    split
    · exact ⟨trivial, upd _ _ (fun _ _ _ _ h => by cases h)⟩
    · rename_i hl
      have hq : a.fam = .query := by
        by_cases e : a.fam = .query
        · exact e
        · exact absurd ((lazy_iff _).mpr e) hl
      have ht : a.tradErr ≠ none := by
        rcases ha with h | h
        · exact absurd hq h
        · exact h
      obtain ⟨code, hcode⟩ := Option.ne_none_iff_exists'.mp ht
      obtain ⟨e, he, hdoc, _⟩ := callEager_traderr w.conn a code hcode
      refine ⟨?_, upd _ _ (fun _ _ _ _ h => by cases h)⟩
      simp only [he]; exact Or.inl hdoc
  | next g =>
    have h := next_res w.conn (w.gens g) (hg g)
    exact ⟨h.1, upd _ _ h.2⟩
  | close g =>
    exact ⟨close_res _ _, upd _ _ (by rw [close_gen]; intro _ _ _ _ h; cases h)⟩
  | drop g =>
    exact ⟨trivial, upd _ _ (by rw [close_gen]; intro _ _ _ _ h; cases h)⟩
  | throw g e =>
    have h := throwAt_res w.conn (w.gens g) e
    exact ⟨h.1, upd _ _ h.2⟩
  | setDisabled b => exact ⟨trivial, hg⟩
  | removeNs n => exact ⟨trivial, fun j => nsGone_good (hg j)⟩

theorem run_res : ∀ (evs : List Ev) (w : World), (∀ j, GoodGen (w.gens j)) → (∀ ev ∈ evs, CallOk ev) →
    ∀ p ∈ evs.zip (runW w evs).2, ResOk (thrown p.1) p.2 := by
  intro evs
  induction evs with
  | nil => intro w _ _ p hp; simp at hp
  | cons ev evs ih =>
    intro w hg ha p hp
    have h := step_res w hg ev (ha ev (by simp))
    simp only [runW, List.zip_cons_cons, List.mem_cons] at hp
    rcases hp with hp | hp
    · subst hp; exact h.1
    · exact ih _ h.2 (fun e he => ha e (by simp [he])) p hp

/-! ### history invariant: every server context is held by a suspended generator -/

structure HInv (w : World) : Prop where
  owned : ∀ x ∈ w.conn.srv.ctxs, ∃ j, holds (w.gens j) x.id
  enabled : w.conn.srv.disabled = false
  good : ∀ j, GoodGen (w.gens j)
  beyond : ∀ j, w.n ≤ j → w.gens j = .finished

/-- events of the no-leak theorem: the server keeps supporting pull; calls as in `CallOk` -/
def Allowed (ev : Ev) : Prop :=
  match ev with
  | .setDisabled b => b = false
  | .call a => a.fam ≠ .query ∨ a.tradErr ≠ none
  | _ => True

instance (ev : Ev) : Decidable (Allowed ev) := by
  cases ev <;> simp only [Allowed] <;> infer_instance

theorem Allowed.callOk {ev : Ev} (h : Allowed ev) : CallOk ev := by
  cases ev <;> simp only [Allowed, CallOk] at h ⊢ <;> first | exact h | trivial

theorem hinv_update {w : World} (h : HInv w) (g : Nat) (c' : Conn) (g' : Gen)
    (hf : Frame w.conn (w.gens g) c' g') (hfin : w.n ≤ g → g' = .finished) :
    HInv { w with conn := c', gens := setAt w.gens g g' } := by
  refine ⟨fun x hx => ?_, hf.2.1, fun j => ?_, fun j hj => ?_⟩
  · rcases hf.1 x hx with hh | ⟨⟨y, hy, hyx⟩, hnh⟩
    · exact ⟨g, by simp only [setAt_same]; exact hh⟩
    · obtain ⟨j, hj⟩ := h.owned y hy
      rw [hyx] at hj
      have : j ≠ g := by intro e; subst e; exact hnh hj
      exact ⟨j, by simp only [setAt_other _ _ this]; exact hj⟩
  · by_cases e : j = g
    · subst e; simp only [setAt_same]; exact hf.2.2
    · simp only [setAt_other _ _ e]; exact h.good j
  · by_cases e : j = g
    · subst e; simp only [setAt_same]; exact hfin hj
    · simp only [setAt_other _ _ e]; exact h.beyond j hj

theorem next_finished (c : Conn) : (next c .finished).2.1 = .finished := rfl
theorem throwAt_finished (c : Conn) (e : PyExc) : (throwAt c .finished e).2.1 = .finished := rfl

theorem hinv_step {w : World} (ev : Ev) (h : HInv w) (ha : Allowed ev) : HInv (stepW w ev).1 := by
  cases ev with
  | call a =>
    have fin : ∀ j, (∃ i, holds (w.gens j) i) → j ≠ w.n := by
      rintro j ⟨i, hj⟩ e; subst e
      rw [h.beyond _ (Nat.le_refl _)] at hj
      obtain ⟨_, _, hj⟩ := hj; cases hj
    by_cases hl : a.fam.row.isLazy = true
    · simp only [stepW, hl, if_true]
      refine ⟨fun x hx => ?_, h.enabled, fun j => ?_, fun j hj => ?_⟩
      · obtain ⟨j, hj⟩ := h.owned x hx
        exact ⟨j, by simp only [setAt_other _ _ (fin j ⟨_, hj⟩)]; exact hj⟩
      · by_cases e : j = w.n
        · subst e; simp only [setAt_same]; intro _ _ _ _ hh; cases hh
        · simp only [setAt_other _ _ e]; exact h.good j
      · have : j ≠ w.n := by simp only [] at hj; omega
        simp only [setAt_other _ _ this]; exact h.beyond j (by simp only [] at hj; omega)
    · have hq : a.fam = .query := by
        by_cases e : a.fam = .query
        · exact e
        · exact absurd ((lazy_iff _).mpr e) hl
      have ht : a.tradErr ≠ none := by
        rcases ha with h' | h'
        · exact absurd hq h'
        · exact h'
      obtain ⟨code, hcode⟩ := Option.ne_none_iff_exists'.mp ht
      obtain ⟨e, _, _, hsrv⟩ := callEager_traderr w.conn a code hcode
      simp only [stepW, hl, Bool.false_eq_true, if_false]
      refine ⟨fun x hx => ?_, ?_, fun j => ?_, fun j hj => ?_⟩
      · simp only [hsrv] at hx
        obtain ⟨j, hj⟩ := h.owned x hx
        exact ⟨j, by simp only [setAt_other _ _ (fin j ⟨_, hj⟩)]; exact hj⟩
      · simp only [hsrv]; exact h.enabled
      · by_cases e : j = w.n
        · subst e; simp only [setAt_same]; intro _ _ _ _ hh; cases hh
        · simp only [setAt_other _ _ e]; exact h.good j
      · have : j ≠ w.n := by simp only [] at hj; omega
        simp only [setAt_other _ _ this]; exact h.beyond j (by simp only [] at hj; omega)
  | next g =>
    exact hinv_update h g _ _ (next_frame _ _ h.enabled (h.good g)) (fun hg => by rw [h.beyond g hg]; rfl)
  | close g =>
    exact hinv_update h g _ _ (close_frame _ _ h.enabled) (fun _ => close_gen _ _)
  | drop g =>
    exact hinv_update h g _ _ (close_frame _ _ h.enabled) (fun _ => close_gen _ _)
  | throw g e =>
    exact hinv_update h g _ _ (throwAt_frame _ _ e h.enabled) (fun hg => by rw [h.beyond g hg]; rfl)
  | setDisabled b =>
    have hb : b = false := ha
    subst hb
    exact ⟨h.owned, rfl, h.good, h.beyond⟩
  | removeNs n =>
    exact ⟨fun x hx => by obtain ⟨j, hj⟩ := h.owned x hx; exact ⟨j, nsGone_holds.mpr hj⟩, h.enabled,
      fun j => nsGone_good (h.good j), fun j hj => by show nsGone n (w.gens j) = .finished; rw [h.beyond j hj]; rfl⟩

theorem hinv_run : ∀ (evs : List Ev) {w : World}, HInv w → (∀ ev ∈ evs, Allowed ev) → HInv (runW w evs).1 := by
  intro evs
  induction evs with
  | nil => intro w h _; exact h
  | cons ev evs ih =>
    intro w h ha
    exact ih (hinv_step ev h (ha ev (by simp))) (fun e he => ha e (by simp [he]))

/-! ### the server invariant of C14 along Iter histories -/

theorem srvOpen_inv (s : State) (a : Args) (h : Inv s) : Inv (srvOpen s a).1 := by
  unfold srvOpen
  split
  · exact h
  · split
    · exact h
    · split
      · exact h
      · split
        · exact h
        · split
          · exact h
          · have := inv_step (.open {} (openKind a.fam) a.ns a.tradObjs (some (maxOf a.max))) h
            simpa [Pywbem.Model.Pull.step] using this

theorem stepPull_inv (s : State) (k : Kind) (ctx : Option Nat) (m : Option Int) (h : Inv s) :
    Inv (stepPull s k ctx m).1 := by
  have := inv_step (.pull k ctx m) h
  simpa [Pywbem.Model.Pull.step] using this

theorem stepClose_inv (s : State) (ctx : Option Nat) (h : Inv s) : Inv (stepClose s ctx).1 := by
  have := inv_step (.close ctx) h
  simpa [Pywbem.Model.Pull.step] using this

theorem finallyClose_inv (c : Conn) (f : Family) (eos : Bool) (ctx : Option Nat) (h : Inv c.srv) :
    Inv (finallyClose c f eos ctx).1.srv := by
  unfold finallyClose
  split
  · exact h
  · exact stepClose_inv _ _ h

theorem handleErr_inv (c : Conn) (a : Args) (e : PyExc) (eos : Bool) (ctx : Option Nat) (h : Inv c.srv) :
    Inv (handleErr c a e eos ctx).1.srv := by
  unfold handleErr
  split
  · simp only []
    split
    · exact finallyClose_inv _ _ _ _ h
    · rw [(fallbackStart_srv _ _).1]; exact finallyClose_inv _ _ _ _ h
  · simp only []
    split <;> exact finallyClose_inv _ _ _ _ h

theorem advance_inv (c : Conn) (a : Args) (p : List Obj) (eos : Bool) (ctx : Option Nat) (h : Inv c.srv) :
    Inv (advance c a p eos ctx).1.srv := by
  unfold advance
  split
  · exact h
  · split
    · exact h
    · have hp : Inv (doPull c a ctx).1.srv := stepPull_inv _ _ _ _ h
      simp only []
      split
      · exact hp
      · exact hp
      · exact hp
      · exact handleErr_inv _ _ _ _ _ hp
      · exact hp

theorem start_inv (c : Conn) (a : Args) (h : Inv c.srv) : Inv (start c a).1.srv := by
  unfold start
  split
  · exact h
  · split
    · have ho : Inv (doOpen c a).1.srv := srvOpen_inv _ _ h
      simp only []
      split
      · exact advance_inv _ _ _ _ _ ho
      · exact handleErr_inv _ _ _ _ _ ho
      · exact ho
    · rw [(fallbackStart_srv _ _).1]; exact h

theorem next_inv (c : Conn) (g : Gen) (h : Inv c.srv) : Inv (next c g).1.srv := by
  cases g with
  | notStarted a => exact start_inv c a h
  | pulling a p e x => exact advance_inv c a p e x h
  | fallback p => simp only [next]; unfold yieldFrom; split <;> exact h
  | finished => exact h

theorem close_inv (c : Conn) (g : Gen) (h : Inv c.srv) : Inv (close c g).1.srv := by
  unfold close
  split
  · simp only []; split <;> exact finallyClose_inv _ _ _ _ h
  · exact h

theorem throwAt_inv (c : Conn) (g : Gen) (e : PyExc) (h : Inv c.srv) : Inv (throwAt c g e).1.srv := by
  unfold throwAt
  split
  · exact handleErr_inv _ _ _ _ _ h
  · exact h

/-! ### what a connection can learn from a server whose capability does not change -/

theorem handleErr_flags_decided (c : Conn) (a : Args) (e : PyExc) (eos : Bool) (ctx : Option Nat)
    (h : c.flags a.fam ≠ none) : (handleErr c a e eos ctx).1.flags = c.flags := by
  have hl : learns c a.fam e = false := by
    unfold learns; cases e <;> simp [h]
  unfold handleErr
  simp only [hl, Bool.false_eq_true, if_false]
  split <;> simp [finallyClose_flags]

theorem advance_gen_args (c : Conn) (a : Args) (p : List Obj) (eos : Bool) (ctx : Option Nat)
    (a' : Args) (p' : List Obj) (e' : Bool) (x' : Option Nat)
    (h : (advance c a p eos ctx).2.1 = .pulling a' p' e' x') : a' = a := by
  unfold advance at h
  split at h
  · cases h; rfl
  · split at h
    · cases h
    · simp only [] at h
      split at h
      · cases h; rfl
      · cases h
      · cases h
      · exact absurd h (handleErr_notPulling _ _ _ _ _ _ _ _ _)
      · cases h

theorem advance_flags_true (c : Conn) (a : Args) (p : List Obj) (eos : Bool) (ctx : Option Nat)
    (h : c.flags a.fam = some true) : (advance c a p eos ctx).1.flags = c.flags := by
  unfold advance
  split
  · rfl
  · split
    · rfl
    · simp only []
      split
      · rfl
      · rfl
      · rfl
      · rw [handleErr_flags_decided]
        · rfl
        · show c.flags a.fam ≠ none
          rw [h]; simp
      · rfl

theorem srvOpen_batch_enabled (s : State) (a : Args) (objs : List Obj) (eos : Bool) (ctx : Option Nat)
    (h : (srvOpen s a).2 = .batch objs eos ctx) : s.disabled = false := by
  unfold srvOpen at h
  split at h
  · simp at h
  · split at h
    · simp at h
    · rename_i hd; simpa using hd

theorem srvOpen_batch_ns (s : State) (a : Args) (objs : List Obj) (eos : Bool) (ctx : Option Nat)
    (h : (srvOpen s a).2 = .batch objs eos ctx) : a.ns ∈ s.nss := by
  unfold srvOpen at h
  split at h
  · simp at h
  · split at h
    · simp at h
    · split at h
      · simp at h
      · rename_i hns; simpa using hns

theorem stepOpen_err_enabled (s : State) (k : Kind) (ns : Nat) (objs : List Obj) (m : Option Int) (e : PyExc)
    (hd : s.disabled = false) (h : (stepOpen s {} k ns objs m).2 = .err e) :
    e = .valueError ∨ e = .cimError CIM_ERR_INVALID_NAMESPACE := by
  rw [stepOpen_default] at h
  by_cases h1 : badMax m = true
  · simp [h1] at h; exact Or.inl h.symm
  · by_cases h3 : ns ∈ s.nss
    · by_cases h4 : objs.length ≤ effMax m
      · simp [h1, hd, h3, h4] at h
      · simp [h1, hd, h3, h4] at h
    · simp [h1, hd, h3] at h; exact Or.inr h.symm

/-- with pull enabled, an Open that is answered with one of the "not supported" codes got that code from
    the traditional provider method itself -/
theorem srvOpen_learn_enabled (s : State) (a : Args) (code : Nat) (hd : s.disabled = false)
    (h : (srvOpen s a).2 = .err (.cimError code)) (hl : isLearnCode a.fam code = true) :
    a.tradErr = some code := by
  have hc := (learn_iff _ _).mp hl
  unfold srvOpen at h
  split at h
  · simp at h
  simp only [hd, Bool.false_eq_true, if_false] at h
  split at h
  · simp [CIM_ERR_INVALID_NAMESPACE] at h; omega
  · split at h
    · rename_i e he
      simp at h
      unfold serverParamErr at he
      split at he
      · simp [CIM_ERR_INVALID_PARAMETER] at he; omega
      · split at he
        · simp [CIM_ERR_QUERY_LANGUAGE_NOT_SUPPORTED] at he; omega
        · split at he
          · split at he
            · simp [CIM_ERR_INVALID_PARAMETER] at he; omega
            · simp at he
          · simp at he
    · split at h
      · rename_i e he; simp at h; rw [he, h]
      · exfalso
        rcases stepOpen_err_enabled _ _ _ _ _ _ hd h with e | e
        · cases e
        · simp [CIM_ERR_INVALID_NAMESPACE] at e; omega

/-- flags of a connection configured with `u` that only ever talked to a server with capability `d`
    (`d` = pull disabled): still `u`, or — when `u` is None — learned `not d` -/
def FF (u : Option Bool) (d : Bool) (fl : Family → Option Bool) : Prop :=
  ∀ f, fl f = u ∨ (u = none ∧ fl f = some (!d))

/-- the traditional operation itself does not answer with one of the codes the Iter methods read as
    "pull not supported" -/
def GoodCall (a : Args) : Prop := ∀ code, a.tradErr = some code → isLearnCode a.fam code = false

theorem ff_set_learned {u : Option Bool} {d : Bool} {fl : Family → Option Bool} {f : Family}
    (h : FF u d fl) (hf : fl f = none) : FF u d (setFlag fl f (some (!d))) := by
  intro g
  by_cases e : g = f
  · subst e
    have hu : u = none := by rcases h g with h1 | ⟨h1, _⟩ <;> simp_all
    exact Or.inr ⟨hu, by simp [setFlag]⟩
  · simp only [setFlag, e, if_false]; exact h g

theorem start_ff (c : Conn) (a : Args) (u : Option Bool) (hff : FF u c.srv.disabled c.flags) (hg : GoodCall a) :
    FF u c.srv.disabled (start c a).1.flags := by
  unfold start
  split
  · exact hff
  · split
    · rename_i hu
      cases ho : (srvOpen c.srv a).2 with
      | err e =>
        simp only [doOpen, ho]
        by_cases hl : learns { c with srv := (srvOpen c.srv a).1, log := c.log ++ [(.open a.fam, outErr (.err e))] } a.fam e = true
        · -- the flag is None and the code is a "not supported" code: only a server without pull can do that
          simp only [handleErr, hl, if_true, finallyClose_eos]
          rw [(fallbackStart_flags _ _)]
          unfold learns at hl
          cases e with
          | cimError code =>
            simp only [Bool.and_eq_true, decide_eq_true_eq] at hl
            cases hd : c.srv.disabled with
            | true => simpa [hd] using ff_set_learned (d := true) (by simpa [hd] using hff) hl.1
            | false =>
              have := srvOpen_learn_enabled c.srv a code hd ho hl.2
              have := hg code this
              rw [hl.2] at this; cases this
          | _ => simp at hl
        · have hl' : learns { c with srv := (srvOpen c.srv a).1, log := c.log ++ [(.open a.fam, outErr (.err e))] } a.fam e = false := by
            simpa using hl
          simp only [handleErr, hl', Bool.false_eq_true, if_false, finallyClose_eos]
          exact hff
      | batch objs eos ctx =>
        simp only [doOpen, ho]
        have hd := srvOpen_batch_enabled _ _ _ _ _ ho
        rw [advance_flags_true _ _ _ _ _ (by simp [setFlag])]
        simp only [hd] at hff ⊢
        cases hf : c.flags a.fam with
        | none => simpa using ff_set_learned (d := false) hff hf
        | some b =>
          have hb : b = true := by cases b <;> simp [usePull, hf] at hu ⊢
          subst hb
          have : setFlag c.flags a.fam (some true) = c.flags := by
            funext g; by_cases e : g = a.fam
            · subst e; simp [setFlag, hf]
            · simp [setFlag, e]
          rw [this]; exact hff
      | done =>
        exfalso
        rcases srvOpen_cases c.srv a with ⟨e, he⟩ | he | he <;> rw [he] at ho <;> simp at ho
    · rw [fallbackStart_flags]; exact hff


/-! ### the pull capability is the server's own business: no client action changes it -/

theorem stepOpen_disabled (s : State) (k : Kind) (ns : Nat) (objs : List Obj) (m : Option Int) :
    (stepOpen s {} k ns objs m).1.disabled = s.disabled := by
  rcases stepOpen_cases s {} k ns objs m with ⟨e, he⟩ | ⟨_, he⟩ | ⟨_, he⟩ <;> rw [he] <;> rfl

theorem stepPull_disabled (s : State) (k : Kind) (ctx : Option Nat) (m : Option Int) :
    (stepPull s k ctx m).1.disabled = s.disabled := by
  cases ctx with
  | none => simp [stepPull]
  | some i => rcases stepPull_cases s k i m with ⟨e, he⟩ | ⟨_, _, _, he⟩ | ⟨_, _, _, he⟩ <;> rw [he]

theorem stepClose_disabled (s : State) (ctx : Option Nat) : (stepClose s ctx).1.disabled = s.disabled := by
  cases ctx with
  | none => simp [stepClose]
  | some i => rcases stepClose_cases s i with ⟨e, he⟩ | ⟨_, _, _, he⟩ <;> rw [he]

theorem srvOpen_disabled (s : State) (a : Args) : (srvOpen s a).1.disabled = s.disabled := by
  rcases srvOpen_cases s a with ⟨e, he⟩ | he | he <;> rw [he] <;> rfl

theorem finallyClose_disabled (c : Conn) (f : Family) (eos : Bool) (ctx : Option Nat) :
    (finallyClose c f eos ctx).1.srv.disabled = c.srv.disabled := by
  unfold finallyClose
  split
  · rfl
  · exact stepClose_disabled _ _

theorem handleErr_disabled (c : Conn) (a : Args) (e : PyExc) (eos : Bool) (ctx : Option Nat) :
    (handleErr c a e eos ctx).1.srv.disabled = c.srv.disabled := by
  unfold handleErr
  split
  · simp only []
    split
    · exact finallyClose_disabled _ _ _ _
    · rw [(fallbackStart_srv _ _).1]; exact finallyClose_disabled _ _ _ _
  · simp only []
    split <;> exact finallyClose_disabled _ _ _ _

theorem advance_disabled (c : Conn) (a : Args) (p : List Obj) (eos : Bool) (ctx : Option Nat) :
    (advance c a p eos ctx).1.srv.disabled = c.srv.disabled := by
  unfold advance
  split
  · rfl
  · split
    · rfl
    · have hp : (doPull c a ctx).1.srv.disabled = c.srv.disabled := stepPull_disabled _ _ _ _
      simp only []
      split
      · exact hp
      · exact hp
      · exact hp
      · rw [handleErr_disabled]; exact hp
      · exact hp

theorem start_disabled (c : Conn) (a : Args) : (start c a).1.srv.disabled = c.srv.disabled := by
  unfold start
  split
  · rfl
  · split
    · have ho : (doOpen c a).1.srv.disabled = c.srv.disabled := srvOpen_disabled _ _
      simp only []
      split
      · rw [advance_disabled]; exact ho
      · rw [handleErr_disabled]; exact ho
      · exact ho
    · rw [(fallbackStart_srv _ _).1]

theorem next_disabled (c : Conn) (g : Gen) : (next c g).1.srv.disabled = c.srv.disabled := by
  cases g with
  | notStarted a => exact start_disabled c a
  | pulling a p e x => exact advance_disabled c a p e x
  | fallback p => simp only [next]; unfold yieldFrom; split <;> rfl
  | finished => rfl

theorem close_disabled (c : Conn) (g : Gen) : (close c g).1.srv.disabled = c.srv.disabled := by
  unfold close
  split
  · simp only []; split <;> exact finallyClose_disabled _ _ _ _
  · rfl

theorem throwAt_disabled (c : Conn) (g : Gen) (e : PyExc) : (throwAt c g e).1.srv.disabled = c.srv.disabled := by
  unfold throwAt
  split
  · exact handleErr_disabled _ _ _ _ _
  · rfl

/-! ### a generator never returns to the not-started state -/

def Started (g : Gen) : Prop := ∀ a, g ≠ .notStarted a

theorem fallbackStart_started (c : Conn) (a : Args) : Started (fallbackStart c a).2.1 := by
  unfold fallbackStart
  split
  · intro _ h; cases h
  · split
    · intro _ h; cases h
    · simp only []
      split
      · intro _ h; cases h
      · unfold yieldFrom; split <;> (intro _ h; cases h)

theorem handleErr_started (c : Conn) (a : Args) (e : PyExc) (eos : Bool) (ctx : Option Nat) :
    Started (handleErr c a e eos ctx).2.1 := by
  unfold handleErr
  split
  · simp only []
    split
    · intro _ h; cases h
    · exact fallbackStart_started _ _
  · simp only []
    split <;> (intro _ h; cases h)

theorem advance_started (c : Conn) (a : Args) (p : List Obj) (eos : Bool) (ctx : Option Nat) :
    Started (advance c a p eos ctx).2.1 := by
  unfold advance
  split
  · intro _ h; cases h
  · split
    · intro _ h; cases h
    · simp only []
      split
      · intro _ h; cases h
      · intro _ h; cases h
      · intro _ h; cases h
      · exact handleErr_started _ _ _ _ _
      · intro _ h; cases h

theorem start_started (c : Conn) (a : Args) : Started (start c a).2.1 := by
  unfold start
  split
  · intro _ h; cases h
  · split
    · simp only []
      split
      · exact advance_started _ _ _ _ _
      · exact handleErr_started _ _ _ _ _
      · intro _ h; cases h
    · exact fallbackStart_started _ _

/-- after the first `next()` on a not-started generator: if it is suspended in the pull loop, its family's
    flag is True -/
theorem start_pulling_flag (c : Conn) (a a' : Args) (p : List Obj) (e : Bool) (x : Option Nat)
    (h : (start c a).2.1 = .pulling a' p e x) : (start c a).1.flags a'.fam = some true := by
  unfold start at h ⊢
  cases hv : validate a with
  | some e' => simp only [hv] at h; cases h
  | none =>
    simp only [hv] at h ⊢
    by_cases hu : usePull (c.flags a.fam) = true
    · simp only [hu, if_true] at h ⊢
      cases ho : (doOpen c a).2 with
      | batch objs eos ctx =>
        simp only [ho] at h ⊢
        have ha := advance_gen_args _ _ _ _ _ _ _ _ _ h
        subst ha
        rw [advance_flags_true _ _ _ _ _ (by simp [setFlag])]
        simp [setFlag]
      | err e' => simp only [ho] at h; exact absurd h (handleErr_notPulling _ _ _ _ _ _ _ _ _)
      | done => simp only [ho] at h; cases h
    · simp only [hu, Bool.false_eq_true, if_false] at h
      exact absurd h ((fallbackStart_srv _ _).2 _ _ _ _)

/-! ### histories against a server whose pull capability is constant -/

/-- a connection configured with `u` whose whole history was played against a server with capability `d` -/
structure Steady (u : Option Bool) (d : Bool) (w : World) : Prop where
  dis : w.conn.srv.disabled = d
  ff : FF u d w.conn.flags
  pt : ∀ j a p e x, w.gens j = .pulling a p e x → w.conn.flags a.fam = some true
  calls : ∀ j a, w.gens j = .notStarted a → GoodCall a
  inv : Inv w.conn.srv

/-- events of such a history: calls of the six generator methods whose traditional operation does not itself
    answer CIM_ERR_NOT_SUPPORTED / CIM_ERR_FAILED; the capability stays `d` -/
def SteadyEv (d : Bool) (ev : Ev) : Prop :=
  match ev with
  | .call a => a.fam ≠ .query ∧ GoodCall a
  | .setDisabled b => b = d
  | _ => True

instance (a : Args) : Decidable (GoodCall a) := by
  unfold GoodCall
  cases a.tradErr with
  | none => exact isTrue (by intro code hc; cases hc)
  | some c =>
    exact decidable_of_iff (isLearnCode a.fam c = false)
      ⟨fun h code hc => by cases hc; exact h, fun h => h c rfl⟩

instance (d : Bool) (ev : Ev) : Decidable (SteadyEv d ev) := by
  cases ev <;> simp only [SteadyEv] <;> infer_instance

theorem steady_update {u : Option Bool} {d : Bool} {w : World} (h : Steady u d w) (g : Nat) (c' : Conn) (g' : Gen)
    (hdis : c'.srv.disabled = d) (hff : FF u d c'.flags) (hmono : Mono w.conn c')
    (hpt : ∀ a p e x, g' = .pulling a p e x → c'.flags a.fam = some true)
    (hst : Started g') (hinv : Inv c'.srv) :
    Steady u d { w with conn := c', gens := setAt w.gens g g' } := by
  refine ⟨hdis, hff, ?_, ?_, hinv⟩
  · intro j a p e x hj
    by_cases e' : j = g
    · subst e'; simp only [setAt_same] at hj; exact hpt _ _ _ _ hj
    · simp only [setAt_other _ _ e'] at hj
      exact hmono _ _ (h.pt j a p e x hj)
  · intro j a hj
    by_cases e' : j = g
    · subst e'; simp only [setAt_same] at hj; exact absurd hj (hst a)
    · simp only [setAt_other _ _ e'] at hj; exact h.calls j a hj

theorem steady_step {u : Option Bool} {d : Bool} {w : World} (ev : Ev) (h : Steady u d w) (ha : SteadyEv d ev) :
    Steady u d (stepW w ev).1 := by
  cases ev with
  | call a =>
    have hl : a.fam.row.isLazy = true := (lazy_iff _).mpr ha.1
    simp only [stepW, hl, if_true]
    refine ⟨h.dis, h.ff, ?_, ?_, h.inv⟩
    · intro j a' p e x hj
      by_cases e' : j = w.n
      · subst e'; simp only [setAt_same] at hj; cases hj
      · simp only [setAt_other _ _ e'] at hj; exact h.pt j a' p e x hj
    · intro j a' hj
      by_cases e' : j = w.n
      · subst e'; simp only [setAt_same] at hj; cases hj; exact ha.2
      · simp only [setAt_other _ _ e'] at hj; exact h.calls j a' hj
  | next g =>
    simp only [stepW]
    cases hg : w.gens g with
    | notStarted a =>
      have hff : FF u w.conn.srv.disabled (start w.conn a).1.flags :=
        start_ff w.conn a u (by rw [h.dis]; exact h.ff) (h.calls g a hg)
      exact steady_update h g _ _ (by simp only [next]; rw [start_disabled]; exact h.dis)
        (by simp only [next]; rw [← h.dis]; exact hff) (next_mono _ _)
        (fun a' p e x hp => start_pulling_flag _ _ _ _ _ _ hp) (start_started _ _) (next_inv _ _ h.inv)
    | pulling a p e x =>
      have hfl := h.pt g a p e x hg
      have hsame := advance_flags_true w.conn a p e x hfl
      refine steady_update h g _ _ (by simp only [next]; rw [advance_disabled]; exact h.dis)
        (by simp only [next]; rw [hsame]; exact h.ff) (next_mono _ _) ?_ (advance_started _ _ _ _ _)
        (next_inv _ _ h.inv)
      intro a' p' e' x' hp
      simp only [next] at hp ⊢
      have := advance_gen_args _ _ _ _ _ _ _ _ _ hp
      subst this
      rw [hsame]; exact hfl
    | fallback p =>
      refine steady_update h g _ _ (by rw [next_disabled]; exact h.dis) ?_ (next_mono _ _) ?_ ?_ (next_inv _ _ h.inv)
      · simp only [next]; unfold yieldFrom; split <;> exact h.ff
      · intro a p' e x hp; simp only [next] at hp; unfold yieldFrom at hp; split at hp <;> cases hp
      · simp only [next]; unfold yieldFrom; split <;> (intro _ hh; cases hh)
    | finished =>
      exact steady_update h g _ _ h.dis h.ff (Mono.refl _) (fun _ _ _ _ hp => by cases hp)
        (fun _ hh => by cases hh) h.inv
  | close g =>
    simp only [stepW]
    exact steady_update h g _ _ (by rw [close_disabled]; exact h.dis) (by rw [close_flags]; exact h.ff)
      (Mono.of_eq (close_flags _ _)) (fun _ _ _ _ hp => by rw [close_gen] at hp; cases hp)
      (by rw [close_gen]; intro _ hh; cases hh) (close_inv _ _ h.inv)
  | drop g =>
    simp only [stepW]
    exact steady_update h g _ _ (by rw [close_disabled]; exact h.dis) (by rw [close_flags]; exact h.ff)
      (Mono.of_eq (close_flags _ _)) (fun _ _ _ _ hp => by rw [close_gen] at hp; cases hp)
      (by rw [close_gen]; intro _ hh; cases hh) (close_inv _ _ h.inv)
  | throw g e =>
    simp only [stepW]
    cases hg : w.gens g with
    | pulling a p eos x =>
      have hfl := h.pt g a p eos x hg
      have hsame : (throwAt w.conn (.pulling a p eos x) e).1.flags = w.conn.flags := by
        simp only [throwAt]; exact handleErr_flags_decided _ _ _ _ _ (by rw [hfl]; simp)
      exact steady_update h g _ _ (by rw [throwAt_disabled]; exact h.dis) (by rw [hsame]; exact h.ff)
        (Mono.of_eq hsame) (fun _ _ _ _ hp => absurd hp (handleErr_notPulling _ _ _ _ _ _ _ _ _))
        (handleErr_started _ _ _ _ _) (throwAt_inv _ _ _ h.inv)
    | notStarted a =>
      exact steady_update h g _ _ h.dis h.ff (Mono.refl _) (fun _ _ _ _ hp => by cases hp)
        (fun _ hh => by cases hh) h.inv
    | fallback p =>
      exact steady_update h g _ _ h.dis h.ff (Mono.refl _) (fun _ _ _ _ hp => by cases hp)
        (fun _ hh => by cases hh) h.inv
    | finished =>
      exact steady_update h g _ _ h.dis h.ff (Mono.refl _) (fun _ _ _ _ hp => by cases hp)
        (fun _ hh => by cases hh) h.inv
  | setDisabled b =>
    have hb : b = d := ha
    subst hb
    exact ⟨rfl, h.ff, h.pt, h.calls, ⟨h.inv.uniq, h.inv.below, h.inv.nonempty⟩⟩
  | removeNs n =>
    refine ⟨h.dis, h.ff, fun j a p e x hj => h.pt j a p e x (nsGone_pulling hj), fun j a hj => ?_,
      ⟨h.inv.uniq, h.inv.below, h.inv.nonempty⟩⟩
    rcases nsGone_notStarted hj with hj' | ⟨a', hj', _, rfl⟩
    · exact h.calls j a hj'
    · intro code hc
      simp only [Option.some.injEq] at hc
      subst hc
      cases hl : isLearnCode a'.fam CIM_ERR_INVALID_NAMESPACE with
      | false => rfl
      | true => rcases (learn_iff _ _).mp hl with e | e <;> simp [CIM_ERR_INVALID_NAMESPACE] at e

theorem steady_run {u : Option Bool} {d : Bool} : ∀ (evs : List Ev) {w : World}, Steady u d w →
    (∀ ev ∈ evs, SteadyEv d ev) → Steady u d (runW w evs).1 := by
  intro evs
  induction evs with
  | nil => intro w h _; exact h
  | cons ev evs ih =>
    intro w h ha
    exact ih (steady_step ev h (ha ev (by simp))) (fun e he => ha e (by simp [he]))

theorem steady_fresh (s : State) (u : Option Bool) (h : Inv s) : Steady u s.disabled (fresh s u) :=
  ⟨rfl, fun _ => Or.inl rfl, fun _ _ _ _ _ hh => (by cases hh), fun _ _ hh => (by cases hh), h⟩

/-! ### the three ways a call can go, as functions of (server, the family's flag, arguments) -/

/-- outcome of `k` times `next()`: objects yielded and the final non-yield result -/
def outcome (c : Conn) (a : Args) (k : Nat) : List Obj × Option Res :=
  ((takeN c (.notStarted a) k).2.2.1, (takeN c (.notStarted a) k).2.2.2)

def specOf (items : List Obj) (k : Nat) : List Obj × Option Res :=
  (items.take k, if k ≤ items.length then none else some .stop)

theorem pull_path_spec (c : Conn) (a : Args) (k : Nat)
    (hv : validate a = none) (hu : usePull (c.flags a.fam) = true) (hd : c.srv.disabled = false)
    (hns : a.ns ∈ c.srv.nss) (hp : openParamErr a = none) (ht : a.tradErr = none) (hinv : Inv c.srv)
    (hq : a.fam ≠ .query) :
    outcome c a k = specOf a.tradObjs k ∧
    (a.tradObjs.length < k → (takeN c (.notStarted a) k).2.1 = .finished ∧
      (takeN c (.notStarted a) k).1.srv.ctxs = c.srv.ctxs) ∧
    (0 < k → (takeN c (.notStarted a) k).1.flags a.fam = some true) := by
  cases k with
  | zero => simp [outcome, specOf, takeN]
  | succ k =>
    obtain ⟨c1, p, e, x, hs, hl, ok, hfl, _, _⟩ := start_pull hv hu hd hns hp ht hinv (kinds_agree _ hq)
    have hn : next c (.notStarted a) = next c1 (.pulling a p e x) := by simp [next, hs]
    unfold outcome
    rw [takeN_congr_next hn k]
    have h := takeN_pulling (k + 1) ok hl
    have hflag : setFlag c.flags a.fam (some true) a.fam = some true := by simp [setFlag]
    by_cases hle : k + 1 ≤ a.tradObjs.length
    · obtain ⟨c', p', e', x', hk, _, _, henv⟩ := h.1 hle
      rw [hk]
      refine ⟨by simp [specOf, hle], fun hlt => by omega, fun _ => ?_⟩
      simp only []; rw [henv.1, hfl]; exact hflag
    · have hlt : a.tradObjs.length < k + 1 := by omega
      obtain ⟨c', hk, hc', henv⟩ := h.2 hlt
      rw [hk]
      refine ⟨?_, fun _ => ⟨rfl, hc'⟩, fun _ => ?_⟩
      · simp only [specOf, hle, if_false]
        rw [List.take_of_length_le (by omega)]
      · simp only []; rw [henv.1, hfl]; exact hflag

/-- when is the traditional tail used: flag False, or flag None and the server refuses Open… with
    CIM_ERR_NOT_SUPPORTED (which switches the flag to False) — for which the Open request must get past the
    client-side type check of its pull-only arguments -/
def UsesFallback (c : Conn) (a : Args) : Prop :=
  c.flags a.fam = some false ∨ (c.flags a.fam = none ∧ c.srv.disabled = true ∧ typeBad a = false)

theorem fallback_spec (c : Conn) (a : Args) (k : Nat)
    (hv : validate a = none) (hu : UsesFallback c a) (hr : fallbackReject a = false) (ht : a.tradErr = none) :
    outcome c a k = specOf (fallbackItems a) k ∧
    ((fallbackItems a).length < k → (takeN c (.notStarted a) k).2.1 = .finished) ∧
    (takeN c (.notStarted a) k).1.srv = c.srv ∧
    (0 < k → (takeN c (.notStarted a) k).1.flags a.fam = some false) := by
  cases k with
  | zero => simp [outcome, specOf, takeN]
  | succ k =>
    have key : ∃ c', start c a = yieldFrom c' (fallbackItems a) ∧ c'.srv = c.srv ∧ c'.flags a.fam = some false := by
      rcases hu with hf | ⟨hf, hd, htb⟩
      · exact ⟨afterTrad c a, by rw [start_flag_false hv hf, fallbackStart_ok hf hr ht], rfl, hf⟩
      · have hf' : (afterLearn c a CIM_ERR_NOT_SUPPORTED).flags a.fam = some false := by simp [afterLearn, setFlag]
        exact ⟨afterTrad (afterLearn c a CIM_ERR_NOT_SUPPORTED) a,
          by rw [start_learn hv hf hd htb, fallbackStart_ok hf' hr ht], rfl, hf'⟩
    obtain ⟨c', hs, hsrv, hfl⟩ := key
    have hn : next c (.notStarted a) = next c' (.fallback (fallbackItems a)) := by simp [next, hs]
    unfold outcome
    rw [takeN_congr_next hn k]
    have h := takeN_fallback c' (k + 1) (fallbackItems a)
    by_cases hle : k + 1 ≤ (fallbackItems a).length
    · rw [h.1 hle]
      exact ⟨by simp [specOf, hle], fun hlt => by omega, hsrv, fun _ => hfl⟩
    · rw [h.2 (by omega)]
      refine ⟨?_, fun _ => rfl, hsrv, fun _ => hfl⟩
      simp only [specOf, hle, if_false]
      rw [List.take_of_length_le (by omega)]

theorem takeN_raise {c : Conn} {g : Gen} {e : PyExc} (h : (next c g).2.2 = .raise e) (k : Nat) :
    (takeN c g (k + 1)).2.2.1 = [] ∧ (takeN c g (k + 1)).2.2.2 = some (.raise e) := by
  rcases hn : next c g with ⟨c', g', r⟩
  rw [hn] at h; simp only [] at h; subst h
  simp [takeN, hn]

/-- the first `next()` raises -/
def Fails (c : Conn) (a : Args) : Prop := ∃ e, (next c (.notStarted a)).2.2 = .raise e

theorem fails_outcome {c : Conn} {a : Args} (h : Fails c a) (k : Nat) :
    ∃ e, (outcome c a (k + 1)).2 = some (.raise e) := by
  obtain ⟨e, he⟩ := h
  exact ⟨e, (takeN_raise he k).2⟩

theorem srvOpen_fails (s : State) (a : Args)
    (h : s.disabled = true ∨ a.ns ∉ s.nss ∨ openParamErr a ≠ none ∨ a.tradErr ≠ none) :
    ∃ e, srvOpen s a = (s, .err e) := by
  rcases srvOpen_cases s a with he | he | he
  · exact he
  all_goals
    exfalso
    have hd := srvOpen_batch_enabled s a _ _ _ (by rw [he])
    have hns := srvOpen_batch_ns s a _ _ _ (by rw [he])
    have hok : openParamErr a = none ∧ a.tradErr = none := by
      unfold srvOpen at he
      cases h0 : typeBad a with
      | true => simp [h0] at he
      | false =>
        simp only [h0, hd, Bool.false_eq_true, if_false] at he
        have : (!s.nss.contains a.ns) = false := by simp [hns]
        simp only [this, Bool.false_eq_true, if_false] at he
        cases h3 : serverParamErr a with
        | some e => simp [h3] at he
        | none =>
          cases h4 : a.tradErr with
          | some e => simp [h3, h4] at he
          | none => exact ⟨by simp [openParamErr, h0, h3], rfl⟩
    rcases h with h | h | h | h
    · rw [hd] at h; cases h
    · exact h hns
    · exact h hok.1
    · exact h hok.2

/-- pull path, server with pull: if Open… is refused for whatever reason, the first `next()` raises -/
theorem open_refused_fails (c : Conn) (a : Args) (hv : validate a = none) (hu : usePull (c.flags a.fam) = true)
    (hd : c.srv.disabled = false)
    (h : a.ns ∉ c.srv.nss ∨ openParamErr a ≠ none ∨ a.tradErr ≠ none) : Fails c a := by
  obtain ⟨e, he⟩ := srvOpen_fails c.srv a (Or.inr h)
  unfold Fails
  simp only [next, start, hv, hu, if_true, doOpen_eq c a _ _ he]
  by_cases hl : learns { c with srv := c.srv, log := c.log ++ [(.open a.fam, outErr (.err e))] } a.fam e = true
  · simp only [handleErr, hl, if_true, finallyClose_eos]
    unfold learns at hl
    cases e with
    | cimError code =>
      simp only [Bool.and_eq_true, decide_eq_true_eq] at hl
      have ht := srvOpen_learn_enabled c.srv a code hd (by rw [he]) hl.2
      obtain ⟨e', h1, _⟩ := fallbackStart_traderr
        { c with flags := setFlag c.flags a.fam (some false), log := c.log ++ [(.open a.fam, outErr (.err (.cimError code)))] }
        a code ht (by simp [setFlag])
      exact ⟨e', h1⟩
    | _ => simp at hl
  · have hl' : learns { c with srv := c.srv, log := c.log ++ [(.open a.fam, outErr (.err e))] } a.fam e = false := by
      simpa using hl
    simp only [handleErr, hl', Bool.false_eq_true, if_false, finallyClose_eos]
    exact ⟨e, rfl⟩

theorem validate_fails (c : Conn) (a : Args) (e : PyExc) (h : validate a = some e) : Fails c a :=
  ⟨e, by simp [next, start, h]⟩

theorem traderr_fails (c : Conn) (a : Args) (h : a.tradErr ≠ none) : Fails c a := by
  obtain ⟨code, hcode⟩ := Option.ne_none_iff_exists'.mp h
  obtain ⟨e, he, _⟩ := start_traderr c a code hcode
  exact ⟨e, by simpa [next] using he⟩

/-- pull path with a wrongly typed pull-only argument: TypeError out of the client part of Open…, nothing sent -/
theorem typeBad_raises (c : Conn) (a : Args) (hv : validate a = none) (hu : usePull (c.flags a.fam) = true)
    (htb : typeBad a = true) : (next c (.notStarted a)).2.2 = .raise .typeError := by
  simp [next, start, hv, hu, doOpen, srvOpen, htb, handleErr, learns, finallyClose]

theorem forced_raises (c : Conn) (a : Args) (hv : validate a = none) (hf : c.flags a.fam = some true)
    (hd : c.srv.disabled = true) (htb : typeBad a = false) :
    (next c (.notStarted a)).2.2 = .raise (.cimError CIM_ERR_NOT_SUPPORTED) := by
  simp [next, start, hv, hf, usePull, doOpen, srvOpen, htb, hd, handleErr, learns, finallyClose]

theorem forced_fails (c : Conn) (a : Args) (hv : validate a = none) (hf : c.flags a.fam = some true)
    (hd : c.srv.disabled = true) : Fails c a := by
  cases htb : typeBad a with
  | true => exact ⟨_, typeBad_raises c a hv (by simp [usePull, hf]) htb⟩
  | false => exact ⟨_, forced_raises c a hv hf hd htb⟩

theorem reject_fails (c : Conn) (a : Args) (hv : validate a = none) (hu : UsesFallback c a)
    (hr : fallbackReject a = true) : Fails c a := by
  rcases hu with hf | ⟨hf, hd, htb⟩
  · exact ⟨.valueError, by simp [next, start_flag_false hv hf, fallbackStart_reject hf hr]⟩
  · have hf' : (afterLearn c a CIM_ERR_NOT_SUPPORTED).flags a.fam = some false := by simp [afterLearn, setFlag]
    refine ⟨.valueError, ?_⟩
    simp only [next]; rw [start_learn hv hf hd htb, fallbackStart_reject hf' hr]

/-- pull path, and Open… will succeed -/
def PullWay (c : Conn) (a : Args) : Prop :=
  validate a = none ∧ usePull (c.flags a.fam) = true ∧ c.srv.disabled = false ∧ a.ns ∈ c.srv.nss ∧
    openParamErr a = none ∧ a.tradErr = none

/-- traditional tail, and it will succeed -/
def FbWay (c : Conn) (a : Args) : Prop :=
  validate a = none ∧ UsesFallback c a ∧ fallbackReject a = false ∧ a.tradErr = none

/-- every call goes one of three ways -/
theorem classify (c : Conn) (a : Args) : PullWay c a ∨ FbWay c a ∨ Fails c a := by
  cases hv : validate a with
  | some e => exact Or.inr (Or.inr (validate_fails c a e hv))
  | none =>
    by_cases ht : a.tradErr = none
    · have fb : UsesFallback c a → (PullWay c a ∨ FbWay c a ∨ Fails c a) := fun hu => by
        by_cases hr : fallbackReject a = true
        · exact Or.inr (Or.inr (reject_fails c a hv hu hr))
        · exact Or.inr (Or.inl ⟨hv, hu, by simpa using hr, ht⟩)
      have pl : usePull (c.flags a.fam) = true → c.srv.disabled = false →
          (PullWay c a ∨ FbWay c a ∨ Fails c a) := fun hu hd => by
        by_cases h : a.ns ∈ c.srv.nss ∧ openParamErr a = none
        · exact Or.inl ⟨hv, hu, hd, h.1, h.2, ht⟩
        · refine Or.inr (Or.inr (open_refused_fails c a hv hu hd ?_))
          by_cases h1 : a.ns ∈ c.srv.nss
          · exact Or.inr (Or.inl (fun h2 => h ⟨h1, h2⟩))
          · exact Or.inl h1
      cases hf : c.flags a.fam with
      | none =>
        cases hd : c.srv.disabled with
        | true =>
          cases htb : typeBad a with
          | true => exact Or.inr (Or.inr ⟨_, typeBad_raises c a hv (by simp [usePull, hf]) htb⟩)
          | false => exact fb (Or.inr ⟨hf, hd, htb⟩)
        | false => exact pl (by simp [usePull, hf]) hd
      | some b =>
        cases b with
        | false => exact fb (Or.inl hf)
        | true =>
          cases hd : c.srv.disabled with
          | true => exact Or.inr (Or.inr (forced_fails c a hv hf hd))
          | false => exact pl (by simp [usePull, hf]) hd
    · exact Or.inr (Or.inr (traderr_fails c a ht))

/-- **a learned flag is harmless when the server's capability has not changed**: on a connection whose
    flags are what `FF` allows, a call that succeeds with nothing learned (all flags at the configured
    value) has the same outcome -/
theorem learned_equiv (c : Conn) (a : Args) (u : Option Bool) (hinv : Inv c.srv) (hq : a.fam ≠ .query)
    (hfl : c.flags a.fam = u ∨ (u = none ∧ c.flags a.fam = some (!c.srv.disabled))) (k : Nat)
    (hok : ∀ e, (outcome { c with flags := fun _ => u } a k).2 ≠ some (.raise e)) :
    outcome c a k = outcome { c with flags := fun _ => u } a k := by
  cases k with
  | zero => simp [outcome, takeN]
  | succ k =>
    rcases classify { c with flags := fun _ => u } a with ⟨hv, hu, hd, hns, hp, ht⟩ | ⟨hv, hu, hr, ht⟩ | hfail
    · have hu' : usePull (c.flags a.fam) = true := by
        rcases hfl with h | ⟨_, h⟩
        · rw [h]; exact hu
        · have hd' : c.srv.disabled = false := hd
          rw [h, hd']; simp [usePull]
      rw [(pull_path_spec c a (k + 1) hv hu' hd hns hp ht hinv hq).1,
        (pull_path_spec { c with flags := fun _ => u } a (k + 1) hv hu hd hns hp ht hinv hq).1]
    · have hu' : UsesFallback c a := by
        rcases hfl with h | ⟨hnone, h⟩
        · rcases hu with h1 | ⟨h1, h2⟩
          · exact Or.inl (by rw [h]; exact h1)
          · exact Or.inr ⟨by rw [h]; exact h1, h2⟩
        · rcases hu with h1 | ⟨_, h2, _⟩
          · have h1' : u = some false := h1
            rw [hnone] at h1'; cases h1'
          · have h2' : c.srv.disabled = true := h2
            exact Or.inl (by rw [h, h2']; rfl)
      rw [(fallback_spec c a (k + 1) hv hu' hr ht).1,
        (fallback_spec { c with flags := fun _ => u } a (k + 1) hv hu hr ht).1]
    · obtain ⟨e, he⟩ := fails_outcome hfail k
      exact absurd he (hok e)

/-! ### a generator suspended in its pull loop has its family's flag at True (any history) -/

def PT (w : World) : Prop :=
  ∀ j a p e x, w.gens j = .pulling a p e x → w.conn.flags a.fam = some true

theorem pt_update {w : World} (h : PT w) (g : Nat) (c' : Conn) (g' : Gen) (hmono : Mono w.conn c')
    (hpt : ∀ a p e x, g' = .pulling a p e x → c'.flags a.fam = some true) :
    PT { w with conn := c', gens := setAt w.gens g g' } := by
  intro j a p e x hj
  by_cases e' : j = g
  · subst e'; simp only [setAt_same] at hj; exact hpt _ _ _ _ hj
  · simp only [setAt_other _ _ e'] at hj
    exact hmono _ _ (h j a p e x hj)

theorem pt_step {w : World} (ev : Ev) (h : PT w) : PT (stepW w ev).1 := by
  cases ev with
  | call a =>
    simp only [stepW]
    split
    · intro j a' p e x hj
      by_cases e' : j = w.n
      · subst e'; simp only [setAt_same] at hj; cases hj
      · simp only [setAt_other _ _ e'] at hj; exact h j a' p e x hj
    · exact pt_update h _ _ _ (callEager_mono _ _) (fun _ _ _ _ hp => by cases hp)
  | next g =>
    simp only [stepW]
    cases hg : w.gens g with
    | notStarted a =>
      exact pt_update h g _ _ (next_mono _ _) (fun a' p e x hp => start_pulling_flag _ _ _ _ _ _ hp)
    | pulling a p e x =>
      have hfl := h g a p e x hg
      have hsame := advance_flags_true w.conn a p e x hfl
      refine pt_update h g _ _ (next_mono _ _) ?_
      intro a' p' e' x' hp
      simp only [next] at hp ⊢
      have := advance_gen_args _ _ _ _ _ _ _ _ _ hp
      subst this
      rw [hsame]; exact hfl
    | fallback p =>
      refine pt_update h g _ _ (next_mono _ _) ?_
      intro a p' e x hp; simp only [next] at hp; unfold yieldFrom at hp; split at hp <;> cases hp
    | finished => exact pt_update h g _ _ (Mono.refl _) (fun _ _ _ _ hp => by cases hp)
  | close g =>
    exact pt_update h g _ _ (Mono.of_eq (close_flags _ _)) (fun _ _ _ _ hp => by rw [close_gen] at hp; cases hp)
  | drop g =>
    exact pt_update h g _ _ (Mono.of_eq (close_flags _ _)) (fun _ _ _ _ hp => by rw [close_gen] at hp; cases hp)
  | throw g e =>
    simp only [stepW]
    refine pt_update h g _ _ (throw_mono _ _ _) ?_
    intro a p e' x hp
    unfold throwAt at hp
    split at hp
    · exact absurd hp (handleErr_notPulling _ _ _ _ _ _ _ _ _)
    · cases hp
  | setDisabled b => exact h
  | removeNs n => exact fun j a p e x hj => h j a p e x (nsGone_pulling hj)

theorem pt_run : ∀ (evs : List Ev) {w : World}, PT w → PT (runW w evs).1 := by
  intro evs
  induction evs with
  | nil => intro w h; exact h
  | cons ev evs ih => intro w h; exact ih (pt_step ev h)

/-- the full-strength learned-state statement (no assumption on what the server did in between): a call that
    succeeds on a connection that has learned nothing has the same outcome on the connection with its history.
    FALSE for the code as it is — see `C15.C15_learned_state_harmless_fails_at`. -/
def LearnedStateHarmless : Prop :=
  ∀ (s : State) (u : Option Bool) (evs : List Ev) (a : Args) (k : Nat), Inv s → a.fam ≠ .query →
    (∀ e, (outcome { (runW (fresh s u) evs).1.conn with flags := fun _ => u } a k).2 ≠ some (.raise e)) →
    outcome (runW (fresh s u) evs).1.conn a k =
      outcome { (runW (fresh s u) evs).1.conn with flags := fun _ => u } a k

/-! ### interleaved generators: what each one yields, observed over a whole history -/

/-- what an observer of the history writes down per generator (index = creation order) -/
structure Ghost where
  trad    : Nat → List Obj := fun _ => []     -- traditional result of the call that created it
  comp    : Nat → List Obj := fun _ => []     -- the same with completed paths (what the fallback yields)
  exp     : Nat → List Obj := fun _ => []     -- which of the two it is going to deliver (known after the first next())
  got     : Nat → List Obj := fun _ => []     -- objects yielded so far
  stopped : Nat → Bool := fun _ => false      -- it has raised StopIteration out of a live state

def expOf (g' : Gen) (a : Args) : List Obj :=
  match g' with
  | .fallback _ => fallbackItems a
  | _ => a.tradObjs

def isFinished (g : Gen) : Bool :=
  match g with
  | .finished => true
  | _ => false

/-- a not-started generator whose namespace is being removed (see `nsGone`) -/
def affected (ns : Nat) (g : Gen) : Bool :=
  match g with
  | .notStarted a => decide (a.ns = ns ∧ a.fam ≠ .query)
  | _ => false

theorem nsGone_unaffected {ns : Nat} {g : Gen} (h : affected ns g = false) : nsGone ns g = g := by
  cases g with
  | notStarted a => simp only [affected, decide_eq_false_iff_not] at h; simp [nsGone, h]
  | pulling _ _ _ _ => rfl
  | fallback _ => rfl
  | finished => rfl

theorem nsGone_affected {ns : Nat} {g : Gen} (h : affected ns g = true) :
    ∃ a, g = .notStarted a ∧ a.fam ≠ .query ∧
      nsGone ns g = .notStarted { a with tradErr := some CIM_ERR_INVALID_NAMESPACE, tradObjs := [] } := by
  cases g with
  | notStarted a =>
    simp only [affected, decide_eq_true_eq] at h
    exact ⟨a, rfl, h.2, by simp [nsGone, h]⟩
  | pulling _ _ _ _ => cases h
  | fallback _ => cases h
  | finished => cases h

def gotAfter (got : List Obj) (r : Res) : List Obj :=
  match r with
  | .yield o => got ++ [o]
  | _ => got

def stoppedAfter (stopped : Bool) (r : Res) : Bool :=
  match r with
  | .stop => true
  | _ => stopped

def expAfter (g g' : Gen) (e : List Obj) : List Obj :=
  match g with
  | .notStarted a => expOf g' a
  | _ => e

def ghostStep (w : World) (gh : Ghost) (ev : Ev) : Ghost :=
  match ev with
  | .call a => { gh with trad := setAt gh.trad w.n a.tradObjs, comp := setAt gh.comp w.n (fallbackItems a),
                         exp := setAt gh.exp w.n a.tradObjs }
  | .next g =>
    let r := next w.conn (w.gens g)
    { gh with exp := setAt gh.exp g (expAfter (w.gens g) r.2.1 (gh.exp g)),
              got := setAt gh.got g (gotAfter (gh.got g) r.2.2),
              stopped := setAt gh.stopped g
                (if isFinished (w.gens g) then gh.stopped g else stoppedAfter (gh.stopped g) r.2.2) }
  | .removeNs ns =>
    -- calls on that namespace that have not started: their traditional operation now fails, nothing to deliver
    { gh with trad := fun j => if affected ns (w.gens j) then [] else gh.trad j,
              comp := fun j => if affected ns (w.gens j) then [] else gh.comp j,
              exp := fun j => if affected ns (w.gens j) then [] else gh.exp j }
  | _ => gh

def runG (w : World) (gh : Ghost) : List Ev → World × Ghost
  | [] => (w, gh)
  | ev :: evs => runG (stepW w ev).1 (ghostStep w gh ev) evs

/-- the generator's own context on the server -/
def OwnCtx (c : Conn) (a : Args) (i : Nat) (x : Ctx) : Prop :=
  x ∈ c.srv.ctxs ∧ x.id = i ∧ x.kind = pullKind a.fam

/-- per generator: ghost values (trad, comp, exp, got, stopped) against the generator's state -/
def GOK (c : Conn) (g : Gen) (trad comp exp got : List Obj) (stopped : Bool) : Prop :=
  match g with
  | .notStarted a => got = [] ∧ stopped = false ∧ trad = a.tradObjs ∧ comp = fallbackItems a ∧ a.fam ≠ .query
  | .pulling a pending eos ctx =>
      stopped = false ∧
      ((eos = true ∧ got ++ pending = exp) ∨
       (eos = false ∧ ∃ i x, ctx = some i ∧ OwnCtx c a i x ∧ got ++ pending ++ x.data = exp))
  | .fallback pending => stopped = false ∧ got ++ pending = exp
  | .finished => got <+: exp ∧ (stopped = true → got = exp)

def GenOK (w : World) (gh : Ghost) (j : Nat) : Prop :=
  GOK w.conn (w.gens j) (gh.trad j) (gh.comp j) (gh.exp j) (gh.got j) (gh.stopped j)

theorem GOK.prefix {c : Conn} {g : Gen} {trad comp exp got : List Obj} {stopped : Bool}
    (h : GOK c g trad comp exp got stopped) : got <+: exp ∧ (stopped = true → got = exp) := by
  cases g with
  | notStarted a => exact ⟨by rw [h.1]; exact List.nil_prefix, fun hs => by rw [h.2.1] at hs; cases hs⟩
  | pulling a p e x =>
    refine ⟨?_, fun hs => by rw [h.1] at hs; cases hs⟩
    rcases h.2 with ⟨_, h⟩ | ⟨_, i, y, _, _, h⟩
    · exact ⟨p, h⟩
    · exact ⟨p ++ y.data, by rw [← List.append_assoc]; exact h⟩
  | fallback p => exact ⟨⟨p, h.2⟩, fun hs => by rw [h.1] at hs; cases hs⟩
  | finished => exact h

theorem mem_of_lookup_uniq {s : State} (h : Inv s) {x : Ctx} (hx : x ∈ s.ctxs) : lookup s.ctxs x.id = some x := by
  cases hl : lookup s.ctxs x.id with
  | none => exact absurd rfl (lookup_none hl x hx)
  | some y =>
    have := lookup_some hl
    rw [h.uniq y this.1 x hx this.2]

/-- Pull on the generator's own context (server enabled, MaxObjectCount ≥ 1) -/
theorem stepPull_own (s : State) (h : Inv s) (k : Kind) (x : Ctx) (m : Int) (hm : 0 < m)
    (hd : s.disabled = false) (hx : x ∈ s.ctxs) (hk : x.kind = k) (hns : x.ns ∈ s.nss) :
    (x.data.length ≤ m.toNat ∧
      stepPull s k (some x.id) (some m) = ({ s with ctxs := remove s.ctxs x.id }, .batch x.data true none)) ∨
    (¬ x.data.length ≤ m.toNat ∧
      stepPull s k (some x.id) (some m) =
        ({ s with ctxs := replaceData s.ctxs x.id (x.data.drop m.toNat) },
         .batch (x.data.take m.toNat) false (some x.id))) := by
  have hl := mem_of_lookup_uniq h hx
  have hb : badMax (some m) = false := by simp [badMax]; omega
  by_cases hlen : x.data.length ≤ m.toNat
  · left; exact ⟨hlen, by simp [stepPull, hb, hd, hl, hns, hk, effMax, hlen]⟩
  · right; exact ⟨hlen, by simp [stepPull, hb, hd, hl, hns, hk, effMax, hlen]⟩

/-- an action on generator `g` leaves every server context that is not `g`'s own in place, and the namespaces -/
def Keeps (c c' : Conn) (g : Gen) : Prop :=
  c'.srv.nss = c.srv.nss ∧ ∀ x ∈ c.srv.ctxs, ¬ holds g x.id → x ∈ c'.srv.ctxs

theorem mem_replaceData_other {cs : List Ctx} {i : Nat} {d : List Obj} {x : Ctx} (hx : x ∈ cs) (hi : x.id ≠ i) :
    x ∈ replaceData cs i d :=
  mem_replaceData.mpr ⟨x, hx, by have : (x.id == i) = false := by simp [hi]
                                 simp [this]⟩

theorem stepClose_keeps (s : State) (ctx : Option Nat) :
    (stepClose s ctx).1.nss = s.nss ∧ ∀ x ∈ s.ctxs, ctx ≠ some x.id → x ∈ (stepClose s ctx).1.ctxs := by
  cases ctx with
  | none => simp [stepClose]
  | some i =>
    rcases stepClose_cases s i with ⟨e, he⟩ | ⟨y, _, _, he⟩ <;> rw [he]
    · exact ⟨rfl, fun x hx _ => hx⟩
    · exact ⟨rfl, fun x hx h => mem_remove.mpr ⟨hx, fun e => h (by rw [e])⟩⟩

theorem stepPull_keeps (s : State) (k : Kind) (ctx : Option Nat) (m : Option Int) :
    (stepPull s k ctx m).1.nss = s.nss ∧ ∀ x ∈ s.ctxs, ctx ≠ some x.id → x ∈ (stepPull s k ctx m).1.ctxs := by
  cases ctx with
  | none => simp [stepPull]
  | some i =>
    rcases stepPull_cases s k i m with ⟨e, he⟩ | ⟨y, _, _, he⟩ | ⟨y, _, _, he⟩ <;> rw [he]
    · exact ⟨rfl, fun x hx _ => hx⟩
    · exact ⟨rfl, fun x hx h => mem_remove.mpr ⟨hx, fun e => h (by rw [e])⟩⟩
    · exact ⟨rfl, fun x hx h => mem_replaceData_other hx (fun e => h (by rw [e]))⟩

theorem srvOpen_keeps (s : State) (a : Args) :
    (srvOpen s a).1.nss = s.nss ∧ ∀ x ∈ s.ctxs, x ∈ (srvOpen s a).1.ctxs := by
  rcases srvOpen_cases s a with ⟨e, he⟩ | he | he <;> rw [he]
  · exact ⟨rfl, fun x hx => hx⟩
  · exact ⟨rfl, fun x hx => hx⟩
  · exact ⟨rfl, fun x hx => by simp [openedState, hx]⟩

theorem finallyClose_keeps (c : Conn) (f : Family) (eos : Bool) (ctx : Option Nat) :
    (finallyClose c f eos ctx).1.srv.nss = c.srv.nss ∧
    ∀ x ∈ c.srv.ctxs, ¬ (eos = false ∧ ctx = some x.id) → x ∈ (finallyClose c f eos ctx).1.srv.ctxs := by
  unfold finallyClose
  split
  · exact ⟨rfl, fun x hx _ => hx⟩
  · rename_i h
    have he : eos = false := by
      cases eos with
      | true => exact absurd (Or.inl rfl) h
      | false => rfl
    have := stepClose_keeps c.srv ctx
    exact ⟨this.1, fun x hx hn => this.2 x hx (fun e => hn ⟨he, e⟩)⟩

theorem handleErr_keeps (c : Conn) (a : Args) (e : PyExc) (eos : Bool) (ctx : Option Nat) :
    (handleErr c a e eos ctx).1.srv.nss = c.srv.nss ∧
    ∀ x ∈ c.srv.ctxs, ¬ (eos = false ∧ ctx = some x.id) → x ∈ (handleErr c a e eos ctx).1.srv.ctxs := by
  unfold handleErr
  split
  · simp only []
    have h := finallyClose_keeps { c with flags := setFlag c.flags a.fam (some false) } a.fam eos ctx
    split
    · exact h
    · rw [(fallbackStart_srv _ _).1]; exact h
  · simp only []
    have h := finallyClose_keeps c a.fam eos ctx
    split <;> exact h

theorem advance_keeps (c : Conn) (a : Args) (p : List Obj) (eos : Bool) (ctx : Option Nat) :
    Keeps c (advance c a p eos ctx).1 (.pulling a p eos ctx) := by
  unfold Keeps advance
  split
  · exact ⟨rfl, fun x hx _ => hx⟩
  · split
    · exact ⟨rfl, fun x hx _ => hx⟩
    · rename_i he
      have he' : eos = false := by simpa using he
      have hp := stepPull_keeps c.srv (pullKind a.fam) ctx (some (maxOf a.max))
      have hp' : ∀ x ∈ c.srv.ctxs, ¬ holds (.pulling a [] eos ctx) x.id → x ∈ (doPull c a ctx).1.srv.ctxs := by
        intro x hx hn
        exact hp.2 x hx (fun e => hn ((holds_pulling_iff _ _ _ _ _).mpr ⟨he', e⟩))
      simp only []
      split
      · exact ⟨hp.1, hp'⟩
      · exact ⟨hp.1, hp'⟩
      · exact ⟨hp.1, hp'⟩
      · rename_i e _
        have hh := handleErr_keeps (doPull c a ctx).1 a e eos ctx
        refine ⟨hh.1.trans hp.1, fun x hx hn => ?_⟩
        exact hh.2 x (hp' x hx hn) (fun h => hn ((holds_pulling_iff _ _ _ _ _).mpr h))
      · exact ⟨hp.1, hp'⟩

theorem start_keeps (c : Conn) (a : Args) (hinv : Inv c.srv) : Keeps c (start c a).1 (.notStarted a) := by
  unfold Keeps start
  split
  · exact ⟨rfl, fun x hx _ => hx⟩
  · split
    · rcases srvOpen_cases c.srv a with ⟨e, he⟩ | he | he
      · rw [doOpen_eq c a _ _ he]
        simp only []
        have hh := handleErr_keeps { c with srv := c.srv, log := c.log ++ [(.open a.fam, outErr (.err e))] } a e true none
        exact ⟨hh.1, fun x hx _ => hh.2 x hx (by simp)⟩
      · rw [doOpen_eq c a _ _ he]
        simp only []
        have ha := advance_keeps (afterOpen c a c.srv) a a.tradObjs true none
        simp only [afterOpen, outErr] at ha ⊢
        exact ⟨ha.1, fun x hx _ => ha.2 x hx (by rw [holds_pulling_iff]; simp)⟩
      · rw [doOpen_eq c a _ _ he]
        simp only []
        have ha := advance_keeps (afterOpen c a (openedState c.srv (openKind a.fam) a.ns a.tradObjs (some (maxOf a.max))))
          a (a.tradObjs.take (effMax (some (maxOf a.max)))) false (some c.srv.nextId)
        simp only [afterOpen, outErr] at ha ⊢
        refine ⟨ha.1, fun x hx _ => ha.2 x (by simp [openedState, hx]) ?_⟩
        rw [holds_pulling_iff]
        rintro ⟨_, h⟩
        have := hinv.below x hx
        simp at h; omega
    · rw [(fallbackStart_srv _ _).1]; exact ⟨rfl, fun x hx _ => hx⟩

theorem next_keeps (c : Conn) (g : Gen) (hinv : Inv c.srv) : Keeps c (next c g).1 g := by
  cases g with
  | notStarted a => exact start_keeps c a hinv
  | pulling a p e x => exact advance_keeps c a p e x
  | fallback p => simp only [next]; unfold yieldFrom; split <;> exact ⟨rfl, fun x hx _ => hx⟩
  | finished => exact ⟨rfl, fun x hx _ => hx⟩

theorem close_keeps (c : Conn) (g : Gen) : Keeps c (close c g).1 g := by
  cases g with
  | pulling a p e x =>
    have h := finallyClose_keeps c a.fam e x
    have hc : (close c (.pulling a p e x)).1 = (finallyClose c a.fam e x).1 := by
      simp only [close]; split <;> rfl
    rw [hc]
    exact ⟨h.1, fun y hy hn => h.2 y hy (fun hh => hn ((holds_pulling_iff _ _ _ _ _).mpr hh))⟩
  | notStarted a => exact ⟨rfl, fun x hx _ => hx⟩
  | fallback p => exact ⟨rfl, fun x hx _ => hx⟩
  | finished => exact ⟨rfl, fun x hx _ => hx⟩

theorem throwAt_keeps (c : Conn) (g : Gen) (e : PyExc) : Keeps c (throwAt c g e).1 g := by
  cases g with
  | pulling a p eos x =>
    have h := handleErr_keeps c a e eos x
    simp only [throwAt]
    exact ⟨h.1, fun y hy hn => h.2 y hy (fun hh => hn ((holds_pulling_iff _ _ _ _ _).mpr hh))⟩
  | notStarted a => exact ⟨rfl, fun x hx _ => hx⟩
  | fallback p => exact ⟨rfl, fun x hx _ => hx⟩
  | finished => exact ⟨rfl, fun x hx _ => hx⟩

/-! #### the generator acted upon -/

/-- Pull on an own context that the server refuses (pull switched off, or the namespace removed) -/
theorem stepPull_refused (s : State) (h : Inv s) (k : Kind) (x : Ctx) (m : Int) (hx : x ∈ s.ctxs)
    (hno : ¬ (s.disabled = false ∧ x.ns ∈ s.nss)) :
    ∃ e, stepPull s k (some x.id) (some m) = (s, .err e) := by
  have hl := mem_of_lookup_uniq h hx
  rcases stepPull_cases s k x.id (some m) with he | ⟨y, hr, _, _⟩ | ⟨y, hr, _, _⟩
  · exact he
  · exfalso
    have : y = x := by have := hr.2.2.1; rw [hl] at this; exact (Option.some.inj this).symm
    subst this; exact hno ⟨hr.2.1, hr.2.2.2.1⟩
  · exfalso
    have : y = x := by have := hr.2.2.1; rw [hl] at this; exact (Option.some.inj this).symm
    subst this; exact hno ⟨hr.2.1, hr.2.2.2.1⟩

/-- with the family's flag decided the `except` clause cannot fall back: the generator is over, an exception
    comes out -/
theorem handleErr_decided_over (c : Conn) (a : Args) (e : PyExc) (eos : Bool) (ctx : Option Nat)
    (h : c.flags a.fam ≠ none) :
    (handleErr c a e eos ctx).2.1 = .finished ∧ ∃ e', (handleErr c a e eos ctx).2.2 = .raise e' := by
  have hl : learns c a.fam e = false := by
    unfold learns; cases e <;> simp [h]
  unfold handleErr
  simp only [hl, Bool.false_eq_true, if_false]
  split
  · exact ⟨rfl, _, rfl⟩
  · exact ⟨rfl, _, rfl⟩

theorem own_advance (c : Conn) (a : Args) (p : List Obj) (eos : Bool) (ctx : Option Nat)
    (trad comp exp got : List Obj) (hfl : c.flags a.fam = some true) (hinv : Inv c.srv) (hm : 0 < maxOf a.max)
    (h : GOK c (.pulling a p eos ctx) trad comp exp got false) :
    GOK (advance c a p eos ctx).1 (advance c a p eos ctx).2.1 trad comp exp
      (gotAfter got (advance c a p eos ctx).2.2) (stoppedAfter false (advance c a p eos ctx).2.2) ∧
    (∀ q, (advance c a p eos ctx).2.1 ≠ .fallback q) := by
  cases p with
  | cons o rest =>
    simp only [advance, gotAfter, stoppedAfter]
    refine ⟨⟨rfl, ?_⟩, fun q hq => by cases hq⟩
    rcases h.2 with ⟨he, hg⟩ | ⟨he, i, x, hx, hown, hg⟩
    · exact Or.inl ⟨he, by rw [← hg]; simp⟩
    · exact Or.inr ⟨he, i, x, hx, hown, by rw [← hg]; simp⟩
  | nil =>
    rcases h.2 with ⟨he, hg⟩ | ⟨he, i, x, hx, hown, hg⟩
    · subst he
      simp only [advance, if_true, gotAfter, stoppedAfter]
      have : got = exp := by simpa using hg
      exact ⟨⟨by rw [this]; exact List.prefix_refl _, fun _ => this⟩, fun q hq => by cases hq⟩
    · subst he; subst hx
      obtain ⟨hmem, hid, hkind⟩ := hown
      subst hid
      have h' : got ++ x.data = exp := by simpa using hg
      by_cases hok : c.srv.disabled = false ∧ x.ns ∈ c.srv.nss
      case neg =>
        -- the server refuses the Pull (no pull any more, or the namespace is gone): the flag is True, so the
        -- exception is re-raised after the `finally` clause; what was yielded stays a prefix
        obtain ⟨e, he⟩ := stepPull_refused c.srv hinv (pullKind a.fam) x (maxOf a.max) hmem hok
        have e' := doPull_eq c a (some x.id) _ _ he
        simp only [advance, Bool.false_eq_true, if_false, e']
        obtain ⟨hg1, e2, hg2⟩ := handleErr_decided_over
          { c with srv := c.srv, log := c.log ++ [(.pull a.fam, outErr (.err e))] } a e false (some x.id)
          (by show c.flags a.fam ≠ none; rw [hfl]; simp)
        rw [hg1, hg2]
        simp only [gotAfter, stoppedAfter]
        exact ⟨⟨⟨x.data, h'⟩, fun hh => by cases hh⟩, fun q hq => by cases hq⟩
      obtain ⟨hd, hns⟩ := hok
      rcases stepPull_own c.srv hinv (pullKind a.fam) x (maxOf a.max) hm hd hmem hkind hns with ⟨hlen, hp⟩ | ⟨hlen, hp⟩
      · have e' := doPull_eq c a (some x.id) _ _ hp
        simp only [advance, Bool.false_eq_true, if_false, e']
        cases hdta : x.data with
        | nil =>
          simp only [gotAfter, stoppedAfter]
          have : got = exp := by rw [hdta] at h'; simpa using h'
          exact ⟨⟨by rw [this]; exact List.prefix_refl _, fun _ => this⟩, fun q hq => by cases hq⟩
        | cons o rest =>
          simp only [gotAfter, stoppedAfter]
          refine ⟨⟨rfl, Or.inl ⟨rfl, ?_⟩⟩, fun q hq => by cases hq⟩
          rw [← h', hdta]; simp
      · have e' := doPull_eq c a (some x.id) _ _ hp
        simp only [advance, Bool.false_eq_true, if_false, e']
        have hne : x.data.take (maxOf a.max).toNat ≠ [] := by
          intro e
          rcases List.take_eq_nil_iff.mp e with e | e
          · omega
          · rw [e] at hlen; simp at hlen
        cases hdta : x.data.take (maxOf a.max).toNat with
        | nil => exact absurd hdta hne
        | cons o rest =>
          simp only [gotAfter, stoppedAfter]
          refine ⟨⟨rfl, Or.inr ⟨rfl, x.id, { x with data := x.data.drop (maxOf a.max).toNat }, rfl, ⟨?_, rfl, hkind⟩, ?_⟩⟩,
            fun q hq => by cases hq⟩
          · exact mem_replaceData.mpr ⟨x, hmem, by simp⟩
          · have := List.take_append_drop (maxOf a.max).toNat x.data
            rw [hdta] at this
            rw [← h']; simpa using this

theorem fallbackItems_length (a : Args) : (fallbackItems a).length = a.tradObjs.length := by
  unfold fallbackItems; split <;> simp

theorem own_fallbackStart (c : Conn) (a : Args) (trad comp : List Obj) :
    GOK (fallbackStart c a).1 (fallbackStart c a).2.1 trad comp (expOf (fallbackStart c a).2.1 a)
      (gotAfter [] (fallbackStart c a).2.2) (stoppedAfter false (fallbackStart c a).2.2) := by
  unfold fallbackStart
  split
  · exact ⟨List.nil_prefix, fun h => by cases h⟩
  · split
    · exact ⟨List.nil_prefix, fun h => by cases h⟩
    · simp only []
      split
      · exact ⟨List.nil_prefix, fun h => by cases h⟩
      · unfold yieldFrom
        split
        · rename_i hnil
          have : a.tradObjs = [] := by
            have := fallbackItems_length a
            rw [hnil] at this
            exact List.eq_nil_of_length_eq_zero this.symm
          simp only [expOf, gotAfter, stoppedAfter, this]
          exact ⟨List.prefix_refl _, fun _ => rfl⟩
        · rename_i o rest hcons
          simp only [expOf, gotAfter, stoppedAfter, hcons]
          exact ⟨rfl, by simp⟩

theorem own_handleErr_start (c : Conn) (a : Args) (e : PyExc) (trad comp : List Obj) :
    GOK (handleErr c a e true none).1 (handleErr c a e true none).2.1 trad comp
      (expOf (handleErr c a e true none).2.1 a)
      (gotAfter [] (handleErr c a e true none).2.2) (stoppedAfter false (handleErr c a e true none).2.2) := by
  unfold handleErr
  split
  · simp only [finallyClose_eos]
    exact own_fallbackStart _ a trad comp
  · simp only [finallyClose_eos]
    exact ⟨List.nil_prefix, fun h => by cases h⟩

theorem start_eq_advance (c : Conn) (a : Args) (s' : State) (objs : List Obj) (eos : Bool) (ctx : Option Nat)
    (hv : validate a = none) (hu : usePull (c.flags a.fam) = true)
    (h : srvOpen c.srv a = (s', .batch objs eos ctx)) :
    start c a = advance (afterOpen c a s') a objs eos ctx := by
  simp [start, hv, hu, doOpen, h, afterOpen, outErr]

/-- the connection after an Open that failed with `e` -/
def afterOpenErr (c : Conn) (a : Args) (e : PyExc) : Conn :=
  { c with log := c.log ++ [(.open a.fam, some e)] }

theorem start_eq_handleErr (c : Conn) (a : Args) (e : PyExc)
    (hv : validate a = none) (hu : usePull (c.flags a.fam) = true)
    (h : srvOpen c.srv a = (c.srv, .err e)) :
    start c a = handleErr (afterOpenErr c a e) a e true none := by
  simp [start, hv, hu, doOpen, h, afterOpenErr, outErr]

theorem start_eq_fallback (c : Conn) (a : Args) (hv : validate a = none) (hu : ¬ usePull (c.flags a.fam) = true) :
    start c a = fallbackStart c a := by
  simp [start, hv, hu]

theorem own_start (c : Conn) (a : Args) (trad comp exp : List Obj) (hinv : Inv c.srv)
    (h : GOK c (.notStarted a) trad comp exp [] false) :
    GOK (start c a).1 (start c a).2.1 trad comp (expOf (start c a).2.1 a)
      (gotAfter [] (start c a).2.2) (stoppedAfter false (start c a).2.2) := by
  have hq : a.fam ≠ .query := h.2.2.2.2
  cases hv : validate a with
  | some e =>
    have : start c a = (c, .finished, .raise e) := by simp [start, hv]
    rw [this]; exact ⟨List.nil_prefix, fun h => by cases h⟩
  | none =>
    have hm := maxPos_of_validate hv
    by_cases hu : usePull (c.flags a.fam) = true
    · rcases srvOpen_cases c.srv a with ⟨e, he⟩ | he | he
      · rw [start_eq_handleErr c a e hv hu he]
        exact own_handleErr_start _ a e trad comp
      · rw [start_eq_advance c a _ _ _ _ hv hu he]
        have hd := srvOpen_batch_enabled c.srv a _ _ _ (by rw [he])
        have hadv := own_advance (afterOpen c a c.srv) a a.tradObjs true none trad comp a.tradObjs []
          (by simp [afterOpen, setFlag]) hinv hm
          ⟨rfl, Or.inl ⟨rfl, by simp⟩⟩
        have hexp : expOf (advance (afterOpen c a c.srv) a a.tradObjs true none).2.1 a = a.tradObjs := by
          unfold expOf; split
          · rename_i q hq'; exact absurd hq' (hadv.2 q)
          · rfl
        rw [hexp]; exact hadv.1
      · rw [start_eq_advance c a _ _ _ _ hv hu he]
        have hd := srvOpen_batch_enabled c.srv a _ _ _ (by rw [he])
        have hns := srvOpen_batch_ns c.srv a _ _ _ (by rw [he])
        have hinv' : Inv (openedState c.srv (openKind a.fam) a.ns a.tradObjs (some (maxOf a.max))) := by
          have := srvOpen_inv c.srv a hinv; rw [he] at this; exact this
        have hadv := own_advance (afterOpen c a (openedState c.srv (openKind a.fam) a.ns a.tradObjs (some (maxOf a.max))))
          a (a.tradObjs.take (effMax (some (maxOf a.max)))) false (some c.srv.nextId) trad comp a.tradObjs []
          (by simp [afterOpen, setFlag]) hinv' hm
          ⟨rfl, Or.inr ⟨rfl, c.srv.nextId,
            { id := c.srv.nextId, kind := openKind a.fam, ns := a.ns, data := a.tradObjs.drop (effMax (some (maxOf a.max))) },
            rfl, ⟨by simp [afterOpen, openedState], rfl, kinds_agree _ hq⟩,
            by simp⟩⟩
        have hexp : expOf (advance (afterOpen c a (openedState c.srv (openKind a.fam) a.ns a.tradObjs (some (maxOf a.max))))
            a (a.tradObjs.take (effMax (some (maxOf a.max)))) false (some c.srv.nextId)).2.1 a = a.tradObjs := by
          unfold expOf; split
          · rename_i q hq'; exact absurd hq' (hadv.2 q)
          · rfl
        rw [hexp]; exact hadv.1
    · rw [start_eq_fallback c a hv hu]
      exact own_fallbackStart c a trad comp

theorem own_next (c : Conn) (g : Gen) (trad comp exp got : List Obj) (stopped : Bool)
    (hpt : ∀ a p e x, g = .pulling a p e x → c.flags a.fam = some true) (hinv : Inv c.srv) (hg : GoodGen g)
    (h : GOK c g trad comp exp got stopped) :
    GOK (next c g).1 (next c g).2.1 trad comp (expAfter g (next c g).2.1 exp)
      (gotAfter got (next c g).2.2)
      (if isFinished g then stopped else stoppedAfter stopped (next c g).2.2) := by
  cases g with
  | notStarted a =>
    have h1 : got = [] := h.1
    have h2 : stopped = false := h.2.1
    subst h1; subst h2
    simp only [next, expAfter, isFinished, Bool.false_eq_true, if_false]
    exact own_start c a trad comp exp hinv h
  | pulling a p e x =>
    have h2 : stopped = false := h.1
    subst h2
    simp only [next, expAfter, isFinished, Bool.false_eq_true, if_false]
    exact (own_advance c a p e x trad comp exp got (hpt _ _ _ _ rfl) hinv (hg _ _ _ _ rfl) h).1
  | fallback p =>
    have h2 : stopped = false := h.1
    subst h2
    simp only [next, expAfter, isFinished, Bool.false_eq_true, if_false]
    cases p with
    | nil =>
      simp only [yieldFrom, gotAfter, stoppedAfter]
      have : got = exp := by simpa using h.2
      exact ⟨by rw [this]; exact List.prefix_refl _, fun _ => this⟩
    | cons o rest =>
      simp only [yieldFrom, gotAfter, stoppedAfter]
      exact ⟨rfl, by rw [← h.2]; simp⟩
  | finished =>
    simp only [next, expAfter, isFinished, if_true, gotAfter]
    exact h

theorem own_close (c : Conn) (g : Gen) (trad comp exp got : List Obj) (stopped : Bool)
    (h : GOK c g trad comp exp got stopped) :
    GOK (close c g).1 (close c g).2.1 trad comp exp got stopped := by
  rw [close_gen]; exact h.prefix

theorem own_throw (c : Conn) (g : Gen) (e : PyExc) (trad comp exp got : List Obj) (stopped : Bool)
    (hpt : ∀ a p eos x, g = .pulling a p eos x → c.flags a.fam = some true)
    (h : GOK c g trad comp exp got stopped) :
    GOK (throwAt c g e).1 (throwAt c g e).2.1 trad comp exp got stopped := by
  have hfin : (throwAt c g e).2.1 = .finished := by
    cases g with
    | pulling a p eos x =>
      have hfl := hpt a p eos x rfl
      have hl : learns c a.fam e = false := by unfold learns; cases e <;> simp [hfl]
      simp only [throwAt, handleErr, hl, Bool.false_eq_true, if_false]
      split <;> rfl
    | notStarted a => rfl
    | fallback p => rfl
    | finished => rfl
  rw [hfin]; exact h.prefix

theorem GOK.transfer {c c' : Conn} {g : Gen} {trad comp exp got : List Obj} {stopped : Bool}
    (h : GOK c g trad comp exp got stopped)
    (hk : ∀ x ∈ c.srv.ctxs, holds g x.id → x ∈ c'.srv.ctxs) : GOK c' g trad comp exp got stopped := by
  cases g with
  | notStarted a => exact h
  | fallback p => exact h
  | finished => exact h
  | pulling a p e x =>
    refine ⟨h.1, ?_⟩
    rcases h.2 with h2 | ⟨he, i, y, hx, ⟨hmem, hid, hkind⟩, h2⟩
    · exact Or.inl h2
    · refine Or.inr ⟨he, i, y, hx, ⟨hk y hmem ?_, hid, hkind⟩, h2⟩
      rw [holds_pulling_iff]; exact ⟨he, by rw [hx, hid]⟩

/-- a generator that holds a context holds one that is on the server -/
theorem GOK.holds_mem {c : Conn} {g : Gen} {trad comp exp got : List Obj} {stopped : Bool} {i : Nat}
    (h : GOK c g trad comp exp got stopped) (hh : holds g i) : ∃ x ∈ c.srv.ctxs, x.id = i := by
  obtain ⟨a, p, rfl⟩ := hh
  rcases h.2 with ⟨he, _⟩ | ⟨_, i', y, hx, ⟨hmem, hid, _⟩, _⟩
  · cases he
  · cases hx; exact ⟨y, hmem, hid⟩

/-- the context a generator holds after `next()` is the one it held before, or the one the server just created -/
theorem advance_holds (c : Conn) (a : Args) (p : List Obj) (eos : Bool) (ctx : Option Nat) (i : Nat)
    (h : holds (advance c a p eos ctx).2.1 i) : holds (.pulling a p eos ctx) i := by
  unfold advance at h
  split at h
  · rw [holds_pulling_iff] at h ⊢; exact h
  · split at h
    · obtain ⟨_, _, h⟩ := h; cases h
    · rename_i he
      have he' : eos = false := by simpa using he
      simp only [] at h
      cases ctx with
      | none =>
        have e := doPull_eq c a none c.srv (.err .valueError) (by simp [stepPull])
        rw [e] at h; simp only [] at h
        exact absurd h ((handleErr_notPulling _ _ _ _ _).not_holds i)
      | some j =>
        rcases stepPull_cases c.srv (pullKind a.fam) j (some (maxOf a.max)) with ⟨e, hs⟩ | ⟨y, _, _, hs⟩ | ⟨y, _, _, hs⟩
        · rw [doPull_eq c a _ _ _ hs] at h; simp only [] at h
          exact absurd h ((handleErr_notPulling _ _ _ _ _).not_holds i)
        · rw [doPull_eq c a _ _ _ hs] at h; simp only [] at h
          split at h
          · rw [holds_pulling_iff] at h; simp_all
          · obtain ⟨_, _, h⟩ := h; cases h
          · obtain ⟨_, _, h⟩ := h; cases h
          · simp_all
          · simp_all
        · rw [doPull_eq c a _ _ _ hs] at h; simp only [] at h
          split at h
          · rename_i o rest eos' ctx' heq
            simp at heq
            rw [holds_pulling_iff] at h ⊢
            obtain ⟨_, h2, h3⟩ := heq
            subst h3
            exact ⟨he', h.2⟩
          · obtain ⟨_, _, h⟩ := h; cases h
          · obtain ⟨_, _, h⟩ := h; cases h
          · simp_all
          · simp_all

theorem next_holds (c : Conn) (g : Gen) (i : Nat) (h : holds (next c g).2.1 i) :
    holds g i ∨ i = c.srv.nextId := by
  cases g with
  | pulling a p e x => exact Or.inl (advance_holds c a p e x i h)
  | fallback p =>
    simp only [next] at h; unfold yieldFrom at h
    split at h <;> (obtain ⟨_, _, h⟩ := h; cases h)
  | finished => obtain ⟨_, _, h⟩ := h; cases h
  | notStarted a =>
    simp only [next] at h
    cases hv : validate a with
    | some e =>
      have : start c a = (c, .finished, .raise e) := by simp [start, hv]
      rw [this] at h; obtain ⟨_, _, h⟩ := h; cases h
    | none =>
      by_cases hu : usePull (c.flags a.fam) = true
      · rcases srvOpen_cases c.srv a with ⟨e, he⟩ | he | he
        · rw [start_eq_handleErr c a e hv hu he] at h
          exact absurd h ((handleErr_notPulling _ _ _ _ _).not_holds i)
        · rw [start_eq_advance c a _ _ _ _ hv hu he] at h
          have := advance_holds _ _ _ _ _ _ h
          rw [holds_pulling_iff] at this; simp at this
        · rw [start_eq_advance c a _ _ _ _ hv hu he] at h
          have := advance_holds _ _ _ _ _ _ h
          rw [holds_pulling_iff] at this
          right; have := this.2; simp at this; exact this.symm
      · rw [start_eq_fallback c a hv hu] at h
        exact absurd h ((fallbackStart_srv _ _).2.not_holds i)

/-! ### no context leak, for a server that toggles at will -/

/-- the server answered CIM_ERR_NOT_SUPPORTED to a CloseEnumeration of context `i` (request log) -/
def Refused (c : Conn) (i : Nat) : Prop :=
  (SrvOp.close (some i), some (PyExc.cimError CIM_ERR_NOT_SUPPORTED)) ∈ c.log

def LogGrows (c c' : Conn) : Prop := ∀ e ∈ c.log, e ∈ c'.log

theorem LogGrows.refl (c : Conn) : LogGrows c c := fun _ h => h
theorem LogGrows.trans {c c' c'' : Conn} (h1 : LogGrows c c') (h2 : LogGrows c' c'') : LogGrows c c'' :=
  fun e h => h2 e (h1 e h)
theorem LogGrows.append (c c' : Conn) (l : List (SrvOp × Option PyExc)) (h : c'.log = c.log ++ l) : LogGrows c c' :=
  fun e he => by rw [h]; exact List.mem_append_left _ he
theorem Refused.mono {c c' : Conn} {i : Nat} (h : Refused c i) (hl : LogGrows c c') : Refused c' i := hl _ h

theorem finallyClose_table2 (c : Conn) (f : Family) (eos : Bool) (ctx : Option Nat) :
    (∀ x ∈ (finallyClose c f eos ctx).1.srv.ctxs,
      x ∈ c.srv.ctxs ∧ ((eos = false → ctx ≠ some x.id) ∨ Refused (finallyClose c f eos ctx).1 x.id)) ∧
    LogGrows c (finallyClose c f eos ctx).1 := by
  cases eos with
  | true => rw [finallyClose_eos]; exact ⟨fun x hx => ⟨hx, Or.inl (fun h => by cases h)⟩, LogGrows.refl c⟩
  | false =>
    cases ctx with
    | none =>
      rw [finallyClose_noctx]
      exact ⟨fun x hx => ⟨hx, Or.inl (fun _ h => by cases h)⟩, LogGrows.append _ _ _ rfl⟩
    | some i =>
      cases hd : c.srv.disabled with
      | true =>
        have e : finallyClose c f false (some i) =
            ({ c with log := c.log ++ [(.close (some i), some (.cimError CIM_ERR_NOT_SUPPORTED))] },
             some (.cimError CIM_ERR_NOT_SUPPORTED)) := by
          simp [finallyClose, row_closes, doClose, stepClose, hd, outErr]
        rw [e]
        refine ⟨fun x hx => ⟨hx, ?_⟩, LogGrows.append _ _ _ rfl⟩
        by_cases hxi : x.id = i
        · right; subst hxi; simp [Refused]
        · left; intro _ h; simp at h; exact hxi h.symm
      | false =>
        have h := finallyClose_table c f false (some i) hd
        cases hl : lookup c.srv.ctxs i with
        | none =>
          rw [finallyClose_missing c f i hd hl] at h ⊢
          exact ⟨fun x hx => ⟨(h.1 x hx).1, Or.inl (h.1 x hx).2⟩, LogGrows.append _ _ _ rfl⟩
        | some y =>
          rw [finallyClose_found c f i y hd hl] at h ⊢
          exact ⟨fun x hx => ⟨(h.1 x hx).1, Or.inl (h.1 x hx).2⟩, LogGrows.append _ _ _ rfl⟩

theorem fallbackStart_logGrows (c : Conn) (a : Args) : LogGrows c (fallbackStart c a).1 := by
  unfold fallbackStart
  split
  · exact LogGrows.refl c
  · split
    · exact LogGrows.refl c
    · simp only []
      split
      · exact LogGrows.append _ _ _ rfl
      · unfold yieldFrom; split <;> exact LogGrows.append _ _ _ rfl

theorem handleErr_table2 (c : Conn) (a : Args) (e : PyExc) (eos : Bool) (ctx : Option Nat) :
    (∀ x ∈ (handleErr c a e eos ctx).1.srv.ctxs,
      x ∈ c.srv.ctxs ∧ ((eos = false → ctx ≠ some x.id) ∨ Refused (handleErr c a e eos ctx).1 x.id)) ∧
    LogGrows c (handleErr c a e eos ctx).1 := by
  unfold handleErr
  split
  · simp only []
    have h := finallyClose_table2 { c with flags := setFlag c.flags a.fam (some false) } a.fam eos ctx
    split
    · exact h
    · have hs := fallbackStart_srv (finallyClose { c with flags := setFlag c.flags a.fam (some false) } a.fam eos ctx).1 a
      have hg := fallbackStart_logGrows (finallyClose { c with flags := setFlag c.flags a.fam (some false) } a.fam eos ctx).1 a
      refine ⟨fun x hx => ?_, LogGrows.trans h.2 hg⟩
      rw [hs.1] at hx
      rcases h.1 x hx with ⟨h1, h2 | h2⟩
      · exact ⟨h1, Or.inl h2⟩
      · exact ⟨h1, Or.inr (h2.mono hg)⟩
  · simp only []
    have h := finallyClose_table2 c a.fam eos ctx
    split <;> exact h

/-- like `Frame`, without assuming that the server supports pull: a context may also stay because its
    CloseEnumeration was refused -/
def Frame2 (c : Conn) (g : Gen) (c' : Conn) (g' : Gen) : Prop :=
  (∀ x ∈ c'.srv.ctxs, holds g' x.id ∨ ((∃ y ∈ c.srv.ctxs, y.id = x.id) ∧ ¬ holds g x.id) ∨ Refused c' x.id) ∧
  LogGrows c c' ∧ GoodGen g'

theorem frame2_same (c : Conn) (g g' : Gen) (hn : ∀ i, ¬ holds g i) (hg : GoodGen g') : Frame2 c g c g' :=
  ⟨fun x hx => Or.inr (Or.inl ⟨⟨x, hx, rfl⟩, hn _⟩), LogGrows.refl c, hg⟩

theorem doPull_logGrows (c : Conn) (a : Args) (ctx : Option Nat) : LogGrows c (doPull c a ctx).1 :=
  LogGrows.append _ _ _ rfl
theorem doOpen_logGrows (c : Conn) (a : Args) : LogGrows c (doOpen c a).1 := LogGrows.append _ _ _ rfl

theorem advance_frame2 (c : Conn) (a : Args) (p : List Obj) (eos : Bool) (ctx : Option Nat)
    (hm : 0 < maxOf a.max) :
    Frame2 c (.pulling a p eos ctx) (advance c a p eos ctx).1 (advance c a p eos ctx).2.1 := by
  cases p with
  | cons o rest =>
    simp only [advance]
    refine ⟨fun x hx => ?_, LogGrows.refl c, fun _ _ _ _ h => by cases h; exact hm⟩
    by_cases hh : holds (.pulling a rest eos ctx) x.id
    · exact Or.inl hh
    · exact Or.inr (Or.inl ⟨⟨x, hx, rfl⟩, by rw [holds_pulling_iff] at hh ⊢; exact hh⟩)
  | nil =>
    cases eos with
    | true =>
      simp only [advance, if_true]
      exact frame2_same c _ _ (by intro i; rw [holds_pulling_iff]; simp) (fun _ _ _ _ h => by cases h)
    | false =>
      cases ctx with
      | none =>
        have e := doPull_eq c a none c.srv (.err .valueError) (by simp [stepPull])
        simp only [advance, Bool.false_eq_true, if_false, e]
        have h := handleErr_table2 { c with srv := c.srv, log := c.log ++ [(.pull a.fam, outErr (.err .valueError))] }
          a .valueError false none
        refine ⟨fun x hx => ?_, LogGrows.trans (LogGrows.append _ _ _ rfl) h.2, (handleErr_notPulling _ _ _ _ _).good⟩
        exact Or.inr (Or.inl ⟨⟨x, (h.1 x hx).1, rfl⟩, by rw [holds_pulling_iff]; simp⟩)
      | some i =>
        have hnot : ∀ x : Ctx, x.id ≠ i → ¬ holds (.pulling a [] false (some i)) x.id := by
          intro x hx; rw [holds_pulling_iff]; intro h; simp at h; exact hx h.symm
        rcases stepPull_cases c.srv (pullKind a.fam) i (some (maxOf a.max)) with ⟨e, he⟩ | ⟨y, hr, hle, he⟩ | ⟨y, hr, hgt, he⟩
        · have e' := doPull_eq c a (some i) _ _ he
          simp only [advance, Bool.false_eq_true, if_false, e']
          have h := handleErr_table2 { c with srv := c.srv, log := c.log ++ [(.pull a.fam, outErr (.err e))] }
            a e false (some i)
          refine ⟨fun x hx => ?_, LogGrows.trans (LogGrows.append _ _ _ rfl) h.2, (handleErr_notPulling _ _ _ _ _).good⟩
          rcases (h.1 x hx).2 with h2 | h2
          · exact Or.inr (Or.inl ⟨⟨x, (h.1 x hx).1, rfl⟩, hnot x (fun hh => h2 rfl (by rw [hh]))⟩)
          · exact Or.inr (Or.inr h2)
        · have e' := doPull_eq c a (some i) _ _ he
          simp only [advance, Bool.false_eq_true, if_false, e']
          cases hdta : y.data with
          | nil =>
            refine ⟨fun x hx => ?_, LogGrows.append _ _ _ rfl, fun _ _ _ _ h => by cases h⟩
            have := mem_remove.mp hx
            exact Or.inr (Or.inl ⟨⟨x, this.1, rfl⟩, hnot x this.2⟩)
          | cons o rest =>
            refine ⟨fun x hx => ?_, LogGrows.append _ _ _ rfl, fun _ _ _ _ h => by cases h; exact hm⟩
            have := mem_remove.mp hx
            exact Or.inr (Or.inl ⟨⟨x, this.1, rfl⟩, hnot x this.2⟩)
        · have e' := doPull_eq c a (some i) _ _ he
          simp only [advance, Bool.false_eq_true, if_false, e']
          have hne : y.data.take (effMax (some (maxOf a.max))) ≠ [] := by
            intro e
            rcases List.take_eq_nil_iff.mp e with e | e
            · simp [effMax] at e; omega
            · rw [e] at hgt; simp at hgt
          cases hdta : y.data.take (effMax (some (maxOf a.max))) with
          | nil => exact absurd hdta hne
          | cons o rest =>
            refine ⟨fun x hx => ?_, LogGrows.append _ _ _ rfl, fun _ _ _ _ h => by cases h; exact hm⟩
            obtain ⟨z, hz, rfl⟩ := mem_replaceData.mp hx
            by_cases hzi : z.id = i
            · left; rw [holds_pulling_iff]; simp [hzi]
            · right; left
              have : (z.id == i) = false := by simp [hzi]
              simp only [this]
              exact ⟨⟨z, hz, rfl⟩, hnot z hzi⟩

theorem start_frame2 (c : Conn) (a : Args) : Frame2 c (.notStarted a) (start c a).1 (start c a).2.1 := by
  cases hv : validate a with
  | some e =>
    have : start c a = (c, .finished, .raise e) := by simp [start, hv]
    rw [this]; exact frame2_same c _ _ (notStarted_not_holds a) (fun _ _ _ _ h => by cases h)
  | none =>
    have hm := maxPos_of_validate hv
    by_cases hu : usePull (c.flags a.fam) = true
    · rcases srvOpen_cases c.srv a with ⟨e, he⟩ | he | he
      · rw [start_eq_handleErr c a e hv hu he]
        have h := handleErr_table2 (afterOpenErr c a e) a e true none
        refine ⟨fun x hx => ?_, LogGrows.trans (LogGrows.append _ _ _ rfl) h.2, (handleErr_notPulling _ _ _ _ _).good⟩
        exact Or.inr (Or.inl ⟨⟨x, (h.1 x hx).1, rfl⟩, notStarted_not_holds _ _⟩)
      · rw [start_eq_advance c a _ _ _ _ hv hu he]
        have h := advance_frame2 (afterOpen c a c.srv) a a.tradObjs true none hm
        refine ⟨fun x hx => ?_, LogGrows.trans (LogGrows.append _ _ _ rfl) h.2.1, h.2.2⟩
        rcases h.1 x hx with hh | ⟨⟨y, hy, hyx⟩, _⟩ | hh
        · exact Or.inl hh
        · exact Or.inr (Or.inl ⟨⟨y, hy, hyx⟩, notStarted_not_holds _ _⟩)
        · exact Or.inr (Or.inr hh)
      · rw [start_eq_advance c a _ _ _ _ hv hu he]
        have h := advance_frame2 (afterOpen c a (openedState c.srv (openKind a.fam) a.ns a.tradObjs (some (maxOf a.max))))
          a (a.tradObjs.take (effMax (some (maxOf a.max)))) false (some c.srv.nextId) hm
        refine ⟨fun x hx => ?_, LogGrows.trans (LogGrows.append _ _ _ rfl) h.2.1, h.2.2⟩
        rcases h.1 x hx with hh | ⟨⟨y, hy, hyx⟩, hnh⟩ | hh
        · exact Or.inl hh
        · simp only [afterOpen, openedState, List.mem_append, List.mem_singleton] at hy
          rcases hy with hy | hy
          · exact Or.inr (Or.inl ⟨⟨y, hy, hyx⟩, notStarted_not_holds _ _⟩)
          · exfalso; apply hnh; rw [holds_pulling_iff]; subst hy; simp at hyx; simp [hyx]
        · exact Or.inr (Or.inr hh)
    · rw [start_eq_fallback c a hv hu]
      have h := fallbackStart_srv c a
      refine ⟨fun x hx => Or.inr (Or.inl ⟨⟨x, ?_, rfl⟩, notStarted_not_holds _ _⟩), fallbackStart_logGrows c a, h.2.good⟩
      rw [h.1] at hx; exact hx

theorem next_frame2 (c : Conn) (g : Gen) (hg : GoodGen g) : Frame2 c g (next c g).1 (next c g).2.1 := by
  cases g with
  | notStarted a => exact start_frame2 c a
  | pulling a p e x => exact advance_frame2 c a p e x (hg _ _ _ _ rfl)
  | fallback p =>
    simp only [next]
    unfold yieldFrom
    split
    · exact frame2_same c _ _ (by rintro i ⟨_, _, h⟩; cases h) (fun _ _ _ _ h => by cases h)
    · exact frame2_same c _ _ (by rintro i ⟨_, _, h⟩; cases h) (fun _ _ _ _ h => by cases h)
  | finished =>
    exact frame2_same c _ _ (by rintro i ⟨_, _, h⟩; cases h) (fun _ _ _ _ h => by cases h)

theorem close_frame2 (c : Conn) (g : Gen) : Frame2 c g (close c g).1 (close c g).2.1 := by
  rw [close_gen]
  cases g with
  | pulling a p e x =>
    have h := finallyClose_table2 c a.fam e x
    have hc : (close c (.pulling a p e x)).1 = (finallyClose c a.fam e x).1 := by
      simp only [close]; split <;> rfl
    rw [hc]
    refine ⟨fun y hy => ?_, h.2, fun _ _ _ _ h => by cases h⟩
    rcases (h.1 y hy).2 with h2 | h2
    · refine Or.inr (Or.inl ⟨⟨y, (h.1 y hy).1, rfl⟩, ?_⟩)
      rw [holds_pulling_iff]; rintro ⟨he, hx⟩; exact h2 he hx
    · exact Or.inr (Or.inr h2)
  | notStarted a => exact frame2_same c _ _ (by rintro i ⟨_, _, h⟩; cases h) (fun _ _ _ _ h => by cases h)
  | fallback p => exact frame2_same c _ _ (by rintro i ⟨_, _, h⟩; cases h) (fun _ _ _ _ h => by cases h)
  | finished => exact frame2_same c _ _ (by rintro i ⟨_, _, h⟩; cases h) (fun _ _ _ _ h => by cases h)

theorem throwAt_frame2 (c : Conn) (g : Gen) (e : PyExc) : Frame2 c g (throwAt c g e).1 (throwAt c g e).2.1 := by
  cases g with
  | pulling a p eos x =>
    have h := handleErr_table2 c a e eos x
    simp only [throwAt]
    refine ⟨fun y hy => ?_, h.2, (handleErr_notPulling _ _ _ _ _).good⟩
    rcases (h.1 y hy).2 with h2 | h2
    · refine Or.inr (Or.inl ⟨⟨y, (h.1 y hy).1, rfl⟩, ?_⟩)
      rw [holds_pulling_iff]; rintro ⟨he, hx⟩; exact h2 he hx
    · exact Or.inr (Or.inr h2)
  | notStarted a => exact frame2_same c _ _ (by rintro i ⟨_, _, h⟩; cases h) (fun _ _ _ _ h => by cases h)
  | fallback p => exact frame2_same c _ _ (by rintro i ⟨_, _, h⟩; cases h) (fun _ _ _ _ h => by cases h)
  | finished => exact frame2_same c _ _ (by rintro i ⟨_, _, h⟩; cases h) (fun _ _ _ _ h => by cases h)

theorem drain_logGrows : ∀ (k : Nat) (c : Conn) (g : Gen), GoodGen g → LogGrows c (drain c g k).1 := by
  intro k
  induction k with
  | zero => intro c g _; exact LogGrows.refl c
  | succ k ih =>
    intro c g hg
    unfold drain
    have hn := next_frame2 c g hg
    split
    · rename_i c' g' o heq
      rw [heq] at hn
      exact LogGrows.trans hn.2.1 (ih c' g' hn.2.2)
    · rename_i c' g' r hne heq
      rw [heq] at hn
      exact hn.2.1

theorem callEager_logGrows (c : Conn) (a : Args) : LogGrows c (callEager c a).1 := by
  unfold callEager
  have := drain_logGrows (a.tradObjs.length + 1) c (.notStarted a) (fun _ _ _ _ h => by cases h)
  simp only []
  split <;> exact this

/-- history invariant for ANY server behaviour: a context on the server is held by a suspended generator, or the
    server refused to close it -/
structure HInv2 (w : World) : Prop where
  owned : ∀ x ∈ w.conn.srv.ctxs, (∃ j, holds (w.gens j) x.id) ∨ Refused w.conn x.id
  good : ∀ j, GoodGen (w.gens j)
  beyond : ∀ j, w.n ≤ j → w.gens j = .finished

theorem hinv2_update {w : World} (h : HInv2 w) (g : Nat) (c' : Conn) (g' : Gen)
    (hf : Frame2 w.conn (w.gens g) c' g') (hfin : w.n ≤ g → g' = .finished) :
    HInv2 { w with conn := c', gens := setAt w.gens g g' } := by
  refine ⟨fun x hx => ?_, fun j => ?_, fun j hj => ?_⟩
  · rcases hf.1 x hx with hh | ⟨⟨y, hy, hyx⟩, hnh⟩ | hh
    · exact Or.inl ⟨g, by simp only [setAt_same]; exact hh⟩
    · rcases h.owned y hy with ⟨j, hj⟩ | hr
      · rw [hyx] at hj
        have : j ≠ g := by intro e; subst e; exact hnh hj
        exact Or.inl ⟨j, by simp only [setAt_other _ _ this]; exact hj⟩
      · rw [hyx] at hr; exact Or.inr (hr.mono hf.2.1)
    · exact Or.inr hh
  · by_cases e : j = g
    · subst e; simp only [setAt_same]; exact hf.2.2
    · simp only [setAt_other _ _ e]; exact h.good j
  · by_cases e : j = g
    · subst e; simp only [setAt_same]; exact hfin hj
    · simp only [setAt_other _ _ e]; exact h.beyond j hj

theorem hinv2_step {w : World} (ev : Ev) (h : HInv2 w) (ha : CallOk ev) : HInv2 (stepW w ev).1 := by
  cases ev with
  | call a =>
    have fin : ∀ j, (∃ i, holds (w.gens j) i) → j ≠ w.n := by
      rintro j ⟨i, hj⟩ e; subst e
      rw [h.beyond _ (Nat.le_refl _)] at hj
      obtain ⟨_, _, hj⟩ := hj; cases hj
    by_cases hl : a.fam.row.isLazy = true
    · simp only [stepW, hl, if_true]
      refine ⟨fun x hx => ?_, fun j => ?_, fun j hj => ?_⟩
      · rcases h.owned x hx with ⟨j, hj⟩ | hr
        · exact Or.inl ⟨j, by simp only [setAt_other _ _ (fin j ⟨_, hj⟩)]; exact hj⟩
        · exact Or.inr hr
      · by_cases e : j = w.n
        · subst e; simp only [setAt_same]; intro _ _ _ _ hh; cases hh
        · simp only [setAt_other _ _ e]; exact h.good j
      · have : j ≠ w.n := by simp only [] at hj; omega
        simp only [setAt_other _ _ this]; exact h.beyond j (by simp only [] at hj; omega)
    · have hq : a.fam = .query := by
        by_cases e : a.fam = .query
        · exact e
        · exact absurd ((lazy_iff _).mpr e) hl
      have ht : a.tradErr ≠ none := by
        rcases ha with h' | h'
        · exact absurd hq h'
        · exact h'
      obtain ⟨code, hcode⟩ := Option.ne_none_iff_exists'.mp ht
      obtain ⟨e, _, _, hsrv⟩ := callEager_traderr w.conn a code hcode
      have hlg := callEager_logGrows w.conn a
      simp only [stepW, hl, Bool.false_eq_true, if_false]
      refine ⟨fun x hx => ?_, fun j => ?_, fun j hj => ?_⟩
      · simp only [hsrv] at hx
        rcases h.owned x hx with ⟨j, hj⟩ | hr
        · exact Or.inl ⟨j, by simp only [setAt_other _ _ (fin j ⟨_, hj⟩)]; exact hj⟩
        · exact Or.inr (hr.mono hlg)
      · by_cases e : j = w.n
        · subst e; simp only [setAt_same]; intro _ _ _ _ hh; cases hh
        · simp only [setAt_other _ _ e]; exact h.good j
      · have : j ≠ w.n := by simp only [] at hj; omega
        simp only [setAt_other _ _ this]; exact h.beyond j (by simp only [] at hj; omega)
  | next g =>
    exact hinv2_update h g _ _ (next_frame2 _ _ (h.good g)) (fun hg => by rw [h.beyond g hg]; rfl)
  | close g => exact hinv2_update h g _ _ (close_frame2 _ _) (fun _ => close_gen _ _)
  | drop g => exact hinv2_update h g _ _ (close_frame2 _ _) (fun _ => close_gen _ _)
  | throw g e =>
    exact hinv2_update h g _ _ (throwAt_frame2 _ _ e) (fun hg => by rw [h.beyond g hg]; rfl)
  | setDisabled b => exact ⟨h.owned, h.good, h.beyond⟩
  | removeNs n =>
    exact ⟨fun x hx => by
        rcases h.owned x hx with ⟨j, hj⟩ | hr
        · exact Or.inl ⟨j, nsGone_holds.mpr hj⟩
        · exact Or.inr hr,
      fun j => nsGone_good (h.good j), fun j hj => by show nsGone n (w.gens j) = .finished; rw [h.beyond j hj]; rfl⟩

theorem hinv2_run : ∀ (evs : List Ev) {w : World}, HInv2 w → (∀ ev ∈ evs, CallOk ev) → HInv2 (runW w evs).1 := by
  intro evs
  induction evs with
  | nil => intro w h _; exact h
  | cons ev evs ih =>
    intro w h ha
    exact ih (hinv2_step ev h (ha ev (by simp))) (fun e he => ha e (by simp [he]))

/-! #### the history invariant with the observer's notes -/

structure IInv (w : World) (gh : Ghost) : Prop where
  h : HInv2 w
  inv : Inv w.conn.srv
  pt : PT w
  ok : ∀ j, GenOK w gh j
  expok : ∀ j, j < w.n → gh.exp j = gh.trad j ∨ gh.exp j = gh.comp j
  distinct : ∀ j j' i, holds (w.gens j) i → holds (w.gens j') i → j = j'
  beyondG : ∀ j, w.n ≤ j → gh.got j = [] ∧ gh.stopped j = false

theorem iinv_fresh (s : State) (u : Option Bool) (hs : s.ctxs = []) (hinv : Inv s) :
    IInv (fresh s u) {} :=
  ⟨⟨by intro x hx; simp [fresh, hs] at hx, fun j _ _ _ _ h => (by cases h), fun _ _ => rfl⟩,
   hinv, fun _ _ _ _ _ h => (by cases h),
   fun j => ⟨List.nil_prefix, fun h => (by cases h)⟩,
   fun j hj => (by simp [fresh] at hj), fun j j' i h => (by obtain ⟨_, _, h⟩ := h; cases h),
   fun _ _ => ⟨rfl, rfl⟩⟩

/-- common part of next / close / drop / throw: generator `g` goes from `w.gens g` to `g'`, the connection
    to `c'`, the notes change only at `g` -/
theorem iinv_update {w : World} {gh gh' : Ghost} (hi : IInv w gh) (g : Nat) (c' : Conn) (g' : Gen)
    (hH : HInv2 { w with conn := c', gens := setAt w.gens g g' })
    (hinv : Inv c'.srv) (hpt : PT { w with conn := c', gens := setAt w.gens g g' })
    (hkeep : Keeps w.conn c' (w.gens g))
    (hholds : ∀ i, holds g' i → holds (w.gens g) i ∨ i = w.conn.srv.nextId)
    (hsame : ∀ j, j ≠ g → gh'.trad j = gh.trad j ∧ gh'.comp j = gh.comp j ∧ gh'.exp j = gh.exp j ∧
      gh'.got j = gh.got j ∧ gh'.stopped j = gh.stopped j)
    (hown : GOK c' g' (gh'.trad g) (gh'.comp g) (gh'.exp g) (gh'.got g) (gh'.stopped g))
    (hexp : g < w.n → gh'.exp g = gh'.trad g ∨ gh'.exp g = gh'.comp g)
    (hbey : w.n ≤ g → gh'.got g = [] ∧ gh'.stopped g = false) :
    IInv { w with conn := c', gens := setAt w.gens g g' } gh' := by
  refine ⟨hH, hinv, hpt, fun j => ?_, fun j hj => ?_, fun j j' i hj hj' => ?_, fun j hj => ?_⟩
  · by_cases e : j = g
    · subst e; simp only [GenOK, setAt_same]; exact hown
    · obtain ⟨h1, h2, h3, h4, h5⟩ := hsame j e
      simp only [GenOK, setAt_other _ _ e, h1, h2, h3, h4, h5]
      refine (hi.ok j).transfer (fun x hx hh => hkeep.2 x hx (fun hg => ?_))
      exact e (hi.distinct j g x.id hh hg)
  · by_cases e : j = g
    · subst e; exact hexp hj
    · obtain ⟨h1, h2, h3, _, _⟩ := hsame j e
      rw [h1, h2, h3]; exact hi.expok j hj
  · -- distinct holders
    have other : ∀ k, k ≠ g → ∀ i, holds (w.gens k) i → holds g' i → False := by
      intro k hk i hki hgi
      obtain ⟨x, hx, hxi⟩ := (hi.ok k).holds_mem hki
      rcases hholds i hgi with h | h
      · exact hk (hi.distinct k g i hki h)
      · have := hi.inv.below x hx; omega
    by_cases e : j = g
    · by_cases e' : j' = g
      · rw [e, e']
      · subst e
        simp only [setAt_same] at hj
        simp only [setAt_other _ _ e'] at hj'
        exact absurd hj (fun h => other j' e' i hj' h)
    · by_cases e' : j' = g
      · subst e'
        simp only [setAt_same] at hj'
        simp only [setAt_other _ _ e] at hj
        exact absurd hj' (fun h => other j e i hj h)
      · simp only [setAt_other _ _ e] at hj
        simp only [setAt_other _ _ e'] at hj'
        exact hi.distinct j j' i hj hj'
  · by_cases e : j = g
    · subst e; exact hbey hj
    · obtain ⟨_, _, _, h4, h5⟩ := hsame j e
      rw [h4, h5]; exact hi.beyondG j hj

/-- events of the interleaving theorem: as `Allowed`, and no namespace is removed under a running enumeration -/
def AllowedI (ev : Ev) : Prop :=
  match ev with
  | .removeNs _ => False
  | ev => Allowed ev

instance (ev : Ev) : Decidable (AllowedI ev) := by
  cases ev <;> simp only [AllowedI] <;> infer_instance

theorem AllowedI.allowed {ev : Ev} (h : AllowedI ev) : Allowed ev := by
  cases ev <;> simp only [AllowedI] at h <;> first | exact h | exact h.elim

theorem iinv_step {w : World} {gh : Ghost} (ev : Ev) (hi : IInv w gh) (ha : CallOk ev) :
    IInv (stepW w ev).1 (ghostStep w gh ev) := by
  have hH := hinv2_step ev hi.h ha
  have hpt := pt_step ev hi.pt
  cases ev with
  | next g =>
    simp only [stepW] at hH hpt ⊢
    refine iinv_update hi g _ _ hH (next_inv _ _ hi.inv) hpt (next_keeps _ _ hi.inv)
      (fun i h => next_holds _ _ i h) (fun j e => ?_) ?_ (fun hg => ?_) (fun hg => ?_)
    · simp [ghostStep, setAt_other _ _ e]
    · simp only [ghostStep, setAt_same]
      exact own_next _ _ _ _ _ _ _ (fun a p e x hg => hi.pt g a p e x hg) hi.inv (hi.h.good g) (hi.ok g)
    · simp only [ghostStep, setAt_same]
      cases hgen : w.gens g with
      | notStarted a =>
        have hk := hi.ok g
        simp only [GenOK, hgen] at hk
        simp only [expAfter, expOf]
        split
        · right; exact hk.2.2.2.1.symm
        · left; exact hk.2.2.1.symm
      | pulling a p e x => simp only [expAfter]; exact hi.expok g hg
      | fallback p => simp only [expAfter]; exact hi.expok g hg
      | finished => simp only [expAfter]; exact hi.expok g hg
    · simp only [ghostStep, setAt_same, hi.h.beyond g hg, isFinished, if_true]
      have hb := hi.beyondG g hg
      exact ⟨by simp only [next, gotAfter]; exact hb.1, hb.2⟩
  | close g =>
    simp only [stepW] at hH hpt ⊢
    refine iinv_update hi g _ _ hH (close_inv _ _ hi.inv) hpt (close_keeps _ _)
      (fun i h => by rw [close_gen] at h; obtain ⟨_, _, h⟩ := h; cases h) (fun j e => ⟨rfl, rfl, rfl, rfl, rfl⟩)
      (own_close _ _ _ _ _ _ _ (hi.ok g)) (hi.expok g) (hi.beyondG g)
  | drop g =>
    simp only [stepW] at hH hpt ⊢
    refine iinv_update hi g _ _ hH (close_inv _ _ hi.inv) hpt (close_keeps _ _)
      (fun i h => by rw [close_gen] at h; obtain ⟨_, _, h⟩ := h; cases h) (fun j e => ⟨rfl, rfl, rfl, rfl, rfl⟩)
      (own_close _ _ _ _ _ _ _ (hi.ok g)) (hi.expok g) (hi.beyondG g)
  | throw g e =>
    simp only [stepW] at hH hpt ⊢
    have hown := own_throw w.conn (w.gens g) e _ _ _ _ _ (fun a p eos x hg => hi.pt g a p eos x hg) (hi.ok g)
    refine iinv_update hi g _ _ hH (throwAt_inv _ _ _ hi.inv) hpt (throwAt_keeps _ _ _)
      (fun i h => ?_) (fun j e => ⟨rfl, rfl, rfl, rfl, rfl⟩) hown (hi.expok g) (hi.beyondG g)
    -- after a throw the generator is over (its flag is True, so the handler does not fall back)
    exfalso
    cases hgen : w.gens g with
    | pulling a p eos x =>
      have hfl := hi.pt g a p eos x hgen
      have hl : learns w.conn a.fam e = false := by unfold learns; cases e <;> simp [hfl]
      rw [hgen] at h
      simp only [throwAt, handleErr, hl, Bool.false_eq_true, if_false] at h
      split at h <;> (obtain ⟨_, _, h⟩ := h; cases h)
    | notStarted a => rw [hgen] at h; obtain ⟨_, _, h⟩ := h; cases h
    | fallback p => rw [hgen] at h; obtain ⟨_, _, h⟩ := h; cases h
    | finished => rw [hgen] at h; obtain ⟨_, _, h⟩ := h; cases h
  | setDisabled b =>
    exact ⟨hH, ⟨hi.inv.uniq, hi.inv.below, hi.inv.nonempty⟩, hpt, hi.ok, hi.expok, hi.distinct, hi.beyondG⟩
  | removeNs n =>
    refine ⟨hH, ⟨hi.inv.uniq, hi.inv.below, hi.inv.nonempty⟩, hpt, fun j => ?_, fun j hj => ?_,
      fun j j' i hj hj' => hi.distinct j j' i (nsGone_holds.mp hj) (nsGone_holds.mp hj'), fun j hj => ?_⟩
    · cases haf : affected n (w.gens j) with
      | false =>
        simp only [GenOK, stepW, ghostStep, haf, Bool.false_eq_true, if_false, nsGone_unaffected haf]
        exact (hi.ok j).transfer (fun x hx _ => hx)
      | true =>
        obtain ⟨a, hga, hq, hns⟩ := nsGone_affected haf
        have hk := hi.ok j
        simp only [GenOK, hga] at hk
        simp only [GenOK, stepW, ghostStep, haf, if_true, hns]
        refine ⟨hk.1, hk.2.1, rfl, ?_, hq⟩
        unfold fallbackItems; split <;> rfl
    · cases haf : affected n (w.gens j) with
      | false => simp only [ghostStep, haf, Bool.false_eq_true, if_false]; exact hi.expok j hj
      | true => simp [ghostStep, haf]
    · exact hi.beyondG j hj
  | call a =>
    have notheld : ∀ j i, holds (w.gens j) i → j ≠ w.n := by
      intro j i hj e; subst e
      rw [hi.h.beyond _ (Nat.le_refl _)] at hj
      obtain ⟨_, _, hj⟩ := hj; cases hj
    by_cases hl : a.fam.row.isLazy = true
    · simp only [stepW, hl, if_true] at hH hpt ⊢
      refine ⟨hH, hi.inv, hpt, fun j => ?_, fun j hj => ?_, fun j j' i hj hj' => ?_, fun j hj => ?_⟩
      · by_cases e : j = w.n
        · subst e
          have hb := hi.beyondG w.n (Nat.le_refl _)
          simp only [GenOK, ghostStep, setAt_same]
          exact ⟨hb.1, hb.2, rfl, rfl, (lazy_iff _).mp hl⟩
        · simp only [GenOK, ghostStep, setAt_other _ _ e]; exact hi.ok j
      · by_cases e : j = w.n
        · subst e; simp [ghostStep, setAt_same]
        · simp only [ghostStep, setAt_other _ _ e]; exact hi.expok j (by simp only [] at hj; omega)
      · by_cases e : j = w.n
        · subst e; simp only [setAt_same] at hj; obtain ⟨_, _, hj⟩ := hj; cases hj
        · by_cases e' : j' = w.n
          · subst e'; simp only [setAt_same] at hj'; obtain ⟨_, _, hj'⟩ := hj'; cases hj'
          · simp only [setAt_other _ _ e] at hj
            simp only [setAt_other _ _ e'] at hj'
            exact hi.distinct j j' i hj hj'
      · have : j ≠ w.n := by simp only [] at hj; omega
        simp only [ghostStep]; exact hi.beyondG j (by simp only [] at hj; omega)
    · have hq : a.fam = .query := by
        by_cases e : a.fam = .query
        · exact e
        · exact absurd ((lazy_iff _).mpr e) hl
      have ht : a.tradErr ≠ none := by
        rcases ha with h' | h'
        · exact absurd hq h'
        · exact h'
      obtain ⟨code, hcode⟩ := Option.ne_none_iff_exists'.mp ht
      obtain ⟨e, _, _, hsrv⟩ := callEager_traderr w.conn a code hcode
      simp only [stepW, hl, Bool.false_eq_true, if_false] at hH hpt ⊢
      refine ⟨hH, by rw [hsrv]; exact hi.inv, hpt, fun j => ?_, fun j hj => ?_, fun j j' i hj hj' => ?_, fun j hj => ?_⟩
      · by_cases e : j = w.n
        · subst e
          have hb := hi.beyondG w.n (Nat.le_refl _)
          simp only [GenOK, ghostStep, setAt_same]
          exact ⟨by rw [hb.1]; exact List.nil_prefix, fun h => by rw [hb.2] at h; cases h⟩
        · simp only [GenOK, ghostStep, setAt_other _ _ e]
          exact (hi.ok j).transfer (fun x hx _ => by rw [hsrv]; exact hx)
      · by_cases e : j = w.n
        · subst e; simp [ghostStep, setAt_same]
        · simp only [ghostStep, setAt_other _ _ e]; exact hi.expok j (by simp only [] at hj; omega)
      · by_cases e : j = w.n
        · subst e; simp only [setAt_same] at hj; obtain ⟨_, _, hj⟩ := hj; cases hj
        · by_cases e' : j' = w.n
          · subst e'; simp only [setAt_same] at hj'; obtain ⟨_, _, hj'⟩ := hj'; cases hj'
          · simp only [setAt_other _ _ e] at hj
            simp only [setAt_other _ _ e'] at hj'
            exact hi.distinct j j' i hj hj'
      · simp only [ghostStep]; exact hi.beyondG j (by simp only [] at hj; omega)

theorem iinv_run : ∀ (evs : List Ev) {w : World} {gh : Ghost}, IInv w gh → (∀ ev ∈ evs, CallOk ev) →
    IInv (runG w gh evs).1 (runG w gh evs).2 := by
  intro evs
  induction evs with
  | nil => intro w gh h _; exact h
  | cons ev evs ih =>
    intro w gh h ha
    exact ih (iinv_step ev h (ha ev (by simp))) (fun e he => ha e (by simp [he]))

theorem runG_world (w : World) (gh : Ghost) (evs : List Ev) : (runG w gh evs).1 = (runW w evs).1 := by
  induction evs generalizing w gh with
  | nil => rfl
  | cons ev evs ih => simp only [runG, runW]; exact ih _ _

/-! ### the C14 server invariant along every Iter history -/

theorem drain_inv : ∀ (k : Nat) (c : Conn) (g : Gen), Inv c.srv → Inv (drain c g k).1.srv := by
  intro k
  induction k with
  | zero => intro c g h; exact h
  | succ k ih =>
    intro c g h
    unfold drain
    have hn := next_inv c g h
    split
    · rename_i c' g' o heq
      rw [heq] at hn
      exact ih c' g' hn
    · rename_i c' g' r hne heq
      rw [heq] at hn
      exact hn

theorem callEager_inv (c : Conn) (a : Args) (h : Inv c.srv) : Inv (callEager c a).1.srv := by
  unfold callEager
  have := drain_inv (a.tradObjs.length + 1) c (.notStarted a) h
  simp only []
  split <;> exact this

theorem stepW_inv (w : World) (ev : Ev) (h : Inv w.conn.srv) : Inv (stepW w ev).1.conn.srv := by
  cases ev with
  | call a =>
    simp only [stepW]
    split
    · exact h
    · exact callEager_inv _ _ h
  | next g => exact next_inv _ _ h
  | close g => exact close_inv _ _ h
  | drop g => exact close_inv _ _ h
  | throw g e => exact throwAt_inv _ _ _ h
  | setDisabled b => exact ⟨h.uniq, h.below, h.nonempty⟩
  | removeNs n => exact ⟨h.uniq, h.below, h.nonempty⟩

theorem runW_inv : ∀ (evs : List Ev) (w : World), Inv w.conn.srv → Inv (runW w evs).1.conn.srv := by
  intro evs
  induction evs with
  | nil => intro w h; exact h
  | cons ev evs ih => intro w h; exact ih _ (stepW_inv w ev h)

/-! ### what a learned flag can change, for a server that toggles at will -/

theorem outcome_zero (c : Conn) (a : Args) : outcome c a 0 = ([], none) := by simp [outcome, takeN]

theorem fails_outcome_exact {c : Conn} {a : Args} {e : PyExc} (h : (next c (.notStarted a)).2.2 = .raise e)
    (k : Nat) : outcome c a (k + 1) = ([], some (.raise e)) := by
  have := takeN_raise h k
  simp only [outcome]; rw [this.1, this.2]

/-- the connection `c` with nothing learned (configured with `use_pull_operations=None`) -/
def unlearned (c : Conn) : Conn := { c with flags := fun _ => none }

/-- **Exactly two ways a learned flag hurts.**  Any connection state (reachable by any history: the server may have
    toggled its capability any number of times), any call that succeeds within `k` steps on the same connection with
    nothing learned: on the used connection the call
    (1) has the same outcome, or
    (2) [stale False, server has pull again, no pull-only argument] yields the same traditional objects through the
        fallback (completed paths) instead of the pull path, or
    (3) [stale False, server has pull again, FilterQuery/ContinueOnError] raises ValueError at the first `next()`
        — known finding KF1, or
    (4) [stale True, server lost pull] raises CIM_ERR_NOT_SUPPORTED at the first `next()` — known finding KF2. -/
theorem learned_dichotomy (c : Conn) (a : Args) (k : Nat) (hinv : Inv c.srv) (hq : a.fam ≠ .query)
    (hok : ∀ e, (outcome (unlearned c) a k).2 ≠ some (.raise e)) :
    outcome c a k = outcome (unlearned c) a k ∨
    (c.flags a.fam = some false ∧ c.srv.disabled = false ∧ fallbackReject a = false ∧
      outcome c a k = specOf (fallbackItems a) k ∧ outcome (unlearned c) a k = specOf a.tradObjs k) ∨
    (c.flags a.fam = some false ∧ c.srv.disabled = false ∧ fallbackReject a = true ∧
      (k = 0 ∨ outcome c a k = ([], some (.raise .valueError)))) ∨
    (c.flags a.fam = some true ∧ c.srv.disabled = true ∧
      (k = 0 ∨ outcome c a k = ([], some (.raise (.cimError CIM_ERR_NOT_SUPPORTED))))) := by
  cases k with
  | zero => left; rw [outcome_zero, outcome_zero]
  | succ k =>
    cases hf : c.flags a.fam with
    | none => exact Or.inl (learned_equiv c a none hinv hq (Or.inl hf) (k + 1) hok)
    | some b =>
      by_cases hb : b = !c.srv.disabled
      · exact Or.inl (learned_equiv c a none hinv hq (Or.inr ⟨rfl, by rw [hf, hb]⟩) (k + 1) hok)
      · cases b with
        | true =>
          have hd : c.srv.disabled = true := by
            cases h : c.srv.disabled with
            | true => rfl
            | false => rw [h] at hb; simp at hb
          cases hv : validate a with
          | some e =>
            obtain ⟨e', he'⟩ := fails_outcome (validate_fails (unlearned c) a e hv) k
            exact absurd he' (hok e')
          | none =>
            cases htb : typeBad a with
            | true =>
              obtain ⟨e', he'⟩ := fails_outcome ⟨_, typeBad_raises (unlearned c) a hv (by simp [usePull, unlearned]) htb⟩ k
              exact absurd he' (hok e')
            | false =>
              refine Or.inr (Or.inr (Or.inr ⟨rfl, hd, Or.inr ?_⟩))
              exact fails_outcome_exact (forced_raises c a hv hf hd htb) k
        | false =>
          have hd : c.srv.disabled = false := by
            cases h : c.srv.disabled with
            | false => rfl
            | true => rw [h] at hb; simp at hb
          rcases classify (unlearned c) a with ⟨hv, hu, _, hns, hp, ht⟩ | ⟨_, hu, _, _⟩ | hfail
          · by_cases hr : fallbackReject a = true
            · refine Or.inr (Or.inr (Or.inl ⟨rfl, hd, hr, Or.inr ?_⟩))
              apply fails_outcome_exact
              simp [next, start_flag_false hv hf, fallbackStart_reject hf hr]
            · have hr' : fallbackReject a = false := by simpa using hr
              exact Or.inr (Or.inl ⟨rfl, hd, hr',
                (fallback_spec c a (k + 1) hv (Or.inl hf) hr' ht).1,
                (pull_path_spec (unlearned c) a (k + 1) hv hu hd hns hp ht hinv hq).1⟩)
          · -- the unlearned connection cannot be on the fallback: its flag is None and the server has pull
            rcases hu with h | ⟨_, h, _⟩
            · simp [unlearned] at h
            · have : c.srv.disabled = true := h
              rw [hd] at this; cases this
          · obtain ⟨e', he'⟩ := fails_outcome hfail k
            exact absurd he' (hok e')

end Proofs.Iter
