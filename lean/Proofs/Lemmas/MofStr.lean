/-
Helper lemmas for C08: escape as a per-character map, shape of the escape units, the lexer and
`_fixStringValue` on escape units, split positions, the folding loop.
-/
import Pywbem.Model.MofStr
import Pywbem.Model.MofLex

namespace Pywbem.Lemmas.MofStr
open Pywbem.Proto Pywbem.Model Pywbem.Model.MofStr Pywbem.Model.MofLex

abbrev Str := List Nat

/-! ### A. the replace chain is a per-character substitution -/

/-- what a chain does to one character -/
def chainFn : List (Nat × Str) → Nat → Str
  | [], c => [c]
  | r :: rs, c => if c = r.1 then r.2.flatMap (chainFn rs) else chainFn rs c

theorem applyChain_eq (rs : List (Nat × Str)) (s : Str) : applyChain rs s = s.flatMap (chainFn rs) := by
  induction rs generalizing s with
  | nil => simp [applyChain, chainFn]
  | cons r rs ih =>
    simp only [applyChain, ih, replaceChar, List.flatMap_assoc]
    congr 1
    funext c
    by_cases h : c = r.1 <;> simp [chainFn, h]

def lookup (rs : List (Nat × Str)) (c : Nat) : Option Str := (rs.find? (fun r => r.1 == c)).map (·.2)

/-- no replacement text contains a character that a *later* rule replaces -/
def chainOk : List (Nat × Str) → Bool
  | [] => true
  | r :: rs => r.2.all (fun c => rs.all (fun r' => r'.1 != c)) && chainOk rs

theorem chainFn_noinput (rs : List (Nat × Str)) (c : Nat) (h : rs.all (fun r' => r'.1 != c) = true) :
    chainFn rs c = [c] := by
  induction rs with
  | nil => rfl
  | cons r rs ih =>
    simp only [List.all_cons, Bool.and_eq_true, bne_iff_ne, ne_eq] at h
    have h1 : ¬ c = r.1 := fun e => h.1 e.symm
    simp [chainFn, h1, ih h.2]

theorem flatMap_singleton_of (f : Nat → Str) (l : Str) (h : ∀ x ∈ l, f x = [x]) : l.flatMap f = l := by
  induction l with
  | nil => rfl
  | cons y ys ih =>
    simp only [List.flatMap_cons]
    rw [h y (by simp), ih (fun x hx => h x (by simp [hx]))]
    rfl

theorem chainFn_of_ok (rs : List (Nat × Str)) (h : chainOk rs = true) (c : Nat) :
    chainFn rs c = (lookup rs c).getD [c] := by
  induction rs with
  | nil => rfl
  | cons r rs ih =>
    simp only [chainOk, Bool.and_eq_true] at h
    by_cases hc : c = r.1
    · have hb : r.2.flatMap (chainFn rs) = r.2 :=
        flatMap_singleton_of _ _ (fun x hx => chainFn_noinput rs x ((List.all_eq_true.mp h.1) x hx))
      simp [chainFn, lookup, hc, hb, List.find?]
    · have hne : (r.1 == c) = false := by
        simp only [beq_eq_false_iff_ne, ne_eq]; exact fun e => hc e.symm
      simp only [chainFn, hc, if_false, ih h.2, lookup, List.find?, hne]

/-- the escaped form of one character -/
def escChar (c : Nat) : Str := (lookup Generated.mofEscapeChain c).getD [c]

theorem chain_ok : chainOk Generated.mofEscapeChain = true := by decide

theorem escape_eq (s : Str) : escape s = s.flatMap escChar := by
  unfold escape
  rw [applyChain_eq]
  congr 1
  funext c
  exact chainFn_of_ok _ chain_ok c

theorem escape_nil : escape [] = [] := by simp [escape_eq]
theorem escape_cons (c : Nat) (s : Str) : escape (c :: s) = escChar c ++ escape s := by simp [escape_eq]
theorem escape_append (a b : Str) : escape (a ++ b) = escape a ++ escape b := by simp [escape_eq]

/-! ### B. shape of the units -/

/-- character denoted by a simple escape letter (DSP0004) -/
def simpleDecode (d : Nat) : Option Nat :=
  if d = 34 then some 34 else if d = 110 then some 10 else if d = 116 then some 9
  else if d = 98 then some 8 else if d = 102 then some 12 else if d = 114 then some 13
  else if d = 92 then some 92 else if d = 39 then some 39 else none

def hex4 (h1 h2 h3 h4 : Nat) : Nat := ((hexVal h1 * 16 + hexVal h2) * 16 + hexVal h3) * 16 + hexVal h4

/-- the replacement `b` of character `a` is `\` + simple escape letter denoting `a`, or `\x` + four
    upper-case hex digits with value `a` -/
def goodUnit (a : Nat) (b : Str) : Bool :=
  match b with
  | [92, d] => simpleDecode d == some a
  | [92, 120, h1, h2, h3, h4] =>
    isUpHex h1 && isUpHex h2 && isUpHex h3 && isUpHex h4 && hex4 h1 h2 h3 h4 == a
  | _ => false

/-- characters that must not appear unescaped between the quotes (both quote kinds, backslash, LF, CR) -/
def mustEscape : List Nat := [34, 39, 92, 10, 13]

def tableOk (rs : List (Nat × Str)) : Bool :=
  rs.all (fun r => goodUnit r.1 r.2) && mustEscape.all (fun c => rs.any (fun r => r.1 == c))

theorem table_ok : tableOk Generated.mofEscapeChain = true := by decide

inductive UnitShape (c : Nat) : Str → Prop where
  | plain : c ≠ 34 → c ≠ 39 → c ≠ 92 → c ≠ 10 → c ≠ 13 → UnitShape c [c]
  | simple (d : Nat) : simpleDecode d = some c → UnitShape c [92, d]
  | hex (h1 h2 h3 h4 : Nat) : isUpHex h1 = true → isUpHex h2 = true → isUpHex h3 = true → isUpHex h4 = true →
      hex4 h1 h2 h3 h4 = c → UnitShape c [92, 120, h1, h2, h3, h4]

theorem goodUnit_shape (a : Nat) (b : Str) (h : goodUnit a b = true) : UnitShape a b := by
  unfold goodUnit at h
  split at h
  · exact .simple _ (by simpa using h)
  · simp only [Bool.and_eq_true, beq_iff_eq] at h
    exact .hex _ _ _ _ h.1.1.1.1 h.1.1.1.2 h.1.1.2 h.1.2 h.2
  · exact absurd h (by simp)

theorem lookup_none_noinput (rs : List (Nat × Str)) (c : Nat) (h : lookup rs c = none) :
    rs.any (fun r => r.1 == c) = false := by
  induction rs with
  | nil => rfl
  | cons r rs ih =>
    unfold lookup at h
    by_cases hc : (r.1 == c) = true
    · simp [List.find?, hc] at h
    · simp only [Bool.not_eq_true] at hc
      simp only [List.find?, hc] at h
      simp [hc, ih (by unfold lookup; exact h)]

theorem lookup_some_mem (rs : List (Nat × Str)) (c : Nat) (b : Str) (h : lookup rs c = some b) :
    (c, b) ∈ rs := by
  induction rs with
  | nil => simp [lookup] at h
  | cons r rs ih =>
    unfold lookup at h
    by_cases hc : (r.1 == c) = true
    · simp only [List.find?, hc, Option.map_some, Option.some.injEq] at h
      have : r = (c, b) := by
        cases r; simp only [beq_iff_eq] at hc; simp_all
      simp [this]
    · simp only [Bool.not_eq_true] at hc
      simp only [List.find?, hc] at h
      exact List.mem_cons_of_mem _ (ih (by unfold lookup; exact h))

theorem escChar_shape (c : Nat) : UnitShape c (escChar c) := by
  have ht := table_ok
  unfold tableOk at ht
  simp only [Bool.and_eq_true] at ht
  unfold escChar
  cases hl : lookup Generated.mofEscapeChain c with
  | none =>
    have hn := lookup_none_noinput _ c hl
    have hm := List.all_eq_true.mp ht.2
    have ne : ∀ x ∈ mustEscape, c ≠ x := by
      intro x hx e
      have := hm x hx
      rw [← e, hn] at this
      exact absurd this (by simp)
    simp only [Option.getD_none]
    exact .plain (ne 34 (by decide)) (ne 39 (by decide)) (ne 92 (by decide)) (ne 10 (by decide)) (ne 13 (by decide))
  | some b =>
    have hm := lookup_some_mem _ c b hl
    have := (List.all_eq_true.mp ht.1) (c, b) hm
    simp only [Option.getD_some]
    exact goodUnit_shape c b this

theorem escChar_ne_nil (c : Nat) : escChar c ≠ [] := by
  have hs := escChar_shape c
  generalize escChar c = u at hs ⊢
  cases hs <;> simp

theorem escChar_length_pos (c : Nat) : 0 < (escChar c).length := by
  have hs := escChar_shape c
  generalize escChar c = u at hs ⊢
  cases hs <;> simp

theorem escChar_length_le (c : Nat) : (escChar c).length ≤ 6 := by
  have hs := escChar_shape c
  generalize escChar c = u at hs ⊢
  cases hs <;> simp

theorem escape_eq_nil (s : Str) (h : escape s = []) : s = [] := by
  cases s with
  | nil => rfl
  | cons c s =>
    rw [escape_cons] at h
    exact absurd (List.append_eq_nil_iff.mp h).1 (escChar_ne_nil c)

theorem isUpHex_isHexDigit (h : Nat) (hh : isUpHex h = true) : isHexDigit h = true := by
  unfold isUpHex at hh; unfold isHexDigit
  simp only [Bool.or_eq_true, Bool.and_eq_true, decide_eq_true_eq] at hh ⊢
  omega

theorem isUpHex_plain (h : Nat) (hh : isUpHex h = true) :
    h ≠ 34 ∧ h ≠ 39 ∧ h ≠ 92 ∧ h ≠ 10 ∧ h ≠ 13 ∧ h ≠ 32 := by
  unfold isUpHex at hh
  simp only [Bool.or_eq_true, Bool.and_eq_true, decide_eq_true_eq] at hh
  omega

theorem simpleDecode_cases (d a : Nat) (h : simpleDecode d = some a) :
    (d = 34 ∧ a = 34) ∨ (d = 110 ∧ a = 10) ∨ (d = 116 ∧ a = 9) ∨ (d = 98 ∧ a = 8) ∨ (d = 102 ∧ a = 12) ∨
    (d = 114 ∧ a = 13) ∨ (d = 92 ∧ a = 92) ∨ (d = 39 ∧ a = 39) := by
  unfold simpleDecode at h
  repeat' split at h
  all_goals first | (simp only [Option.some.injEq] at h; omega) | exact absurd h (by simp)

/-! ### C. `_fixStringValue` on units -/

theorem except_map_map {ε α β γ} (x : Except ε α) (f : α → β) (g : β → γ) :
    (x.map f).map g = x.map (g ∘ f) := by cases x <;> rfl

theorem except_map_id' {ε α} (x : Except ε α) : x.map (fun a => a) = x := by cases x <;> rfl

theorem fix_unit (c : Nat) (rest : Str) :
    fixFrom .normal (escChar c ++ rest) = (fixFrom .normal rest).map (c :: ·) := by
  have hs := escChar_shape c
  generalize escChar c = u at hs ⊢
  cases hs with
  | plain _ _ h92 _ _ => simp [fixFrom, h92]
  | simple d hd =>
    rcases simpleDecode_cases d c hd with h | h | h | h | h | h | h | h <;>
      (obtain ⟨h1, h2⟩ := h; subst h1; subst h2; simp [fixFrom])
  | hex h1 h2 h3 h4 u1 u2 u3 u4 hv =>
    have e1 := isUpHex_isHexDigit _ u1
    have e2 := isUpHex_isHexDigit _ u2
    have e3 := isUpHex_isHexDigit _ u3
    have e4 := isUpHex_isHexDigit _ u4
    simp [fixFrom, e1, e2, e3, e4, hex4] at hv ⊢
    rw [hv]

theorem fix_escape (s rest : Str) :
    fixFrom .normal (escape s ++ rest) = (fixFrom .normal rest).map (s ++ ·) := by
  induction s with
  | nil => simp [escape_nil, except_map_id']
  | cons c s ih =>
    rw [escape_cons, List.append_assoc, fix_unit, ih, except_map_map]
    rfl

theorem fixStringValue_quoted (q : Nat) (s : Str) : fixStringValue (q :: escape s ++ [q]) = .ok s := by
  unfold fixStringValue
  have : (List.drop 1 (q :: escape s ++ [q])).dropLast = escape s := by simp
  rw [this]
  have := fix_escape s []
  simp only [List.append_nil] at this
  rw [this]
  simp [fixFrom, Except.map]

/-! ### D. the string-token regex on units -/

theorem scanBody_cons (q c : Nat) (cs : Str) : scanBody q (c :: cs) =
    if c = q then some ([], cs)
    else if c = 92 then
      match cs with
      | [] => none
      | d :: ds =>
        if isSimpleEscape d then (scanBody q ds).map (fun r => (92 :: d :: r.1, r.2))
        else if d = 120 ∨ d = 88 then
          match ds with
          | [] => none
          | h :: hs =>
            if isHexDigit h then (scanBody q hs).map (fun r => (92 :: d :: h :: r.1, r.2)) else none
        else none
    else if c = 10 ∨ c = 13 then none
    else (scanBody q cs).map (fun r => (c :: r.1, r.2)) := by
  rw [scanBody.eq_def]; rfl

theorem scan_unit (q : Nat) (hq : q = 34 ∨ q = 39) (c : Nat) (rest : Str) :
    scanBody q (escChar c ++ rest) = (scanBody q rest).map (fun r => (escChar c ++ r.1, r.2)) := by
  have hq92 : ¬ (92 = q) := by omega
  have hs := escChar_shape c
  generalize escChar c = u at hs ⊢
  cases hs with
  | plain a b d e f =>
    have : ¬ c = q := by omega
    simp [scanBody_cons, this, d, e, f]
  | simple d hd =>
    have hs : isSimpleEscape d = true := by
      rcases simpleDecode_cases d c hd with h | h | h | h | h | h | h | h <;>
        (obtain ⟨h1, _⟩ := h; subst h1; decide)
    simp [scanBody_cons, hq92, hs]
  | hex h1 h2 h3 h4 u1 u2 u3 u4 hv =>
    have e1 := isUpHex_isHexDigit _ u1
    have p2 := isUpHex_plain _ u2
    have p3 := isUpHex_plain _ u3
    have p4 := isUpHex_plain _ u4
    have n2 : ¬ h2 = q := by omega
    have n3 : ¬ h3 = q := by omega
    have n4 : ¬ h4 = q := by omega
    have ns : isSimpleEscape 120 = false := by decide
    simp [scanBody_cons, hq92, ns, e1, n2, n3, n4, p2.2.2.1, p3.2.2.1, p4.2.2.1, p2.2.2.2.1, p3.2.2.2.1, p4.2.2.2.1,
      p2.2.2.2.2.1, p3.2.2.2.2.1, p4.2.2.2.2.1, Option.map_map, Function.comp_def]

theorem scan_escape (q : Nat) (hq : q = 34 ∨ q = 39) (s rest : Str) :
    scanBody q (escape s ++ q :: rest) = some (escape s, rest) := by
  induction s with
  | nil => simp [escape_nil, scanBody_cons]
  | cons c s ih =>
    rw [escape_cons, List.append_assoc, scan_unit q hq, ih]
    simp

/-! ### E. split positions -/

theorem escMatchLen_plain (c : Nat) (rest : Str) (h : c ≠ 92) : escMatchLen (c :: rest) = 0 := by
  rw [escMatchLen.eq_def]
  split
  · rename_i heq; simp only [List.cons.injEq] at heq; exact absurd heq.1 h
  · rfl

theorem escMatchLen_bsl (d : Nat) (rest : Str) : escMatchLen (92 :: d :: rest) =
    if d = 120 ∧ (rest.take 4).length = 4 ∧ (rest.take 4).all isUpHex then 6 else if d = 10 then 0 else 2 := by
  rw [escMatchLen.eq_def]; rfl

/-- effect of one regex match `[pos, pos+l)` on `split_pos` -/
def unitAdj (pos l : Nat) (sp : Int) : Int :=
  if (pos : Int) ≤ sp ∧ sp < (pos : Int) + l - 1 then (pos : Int) - 1 else sp

theorem adjust_unit (c : Nat) (rest : Str) (pos : Nat) (sp : Int) :
    adjustSplitAux (escChar c ++ rest) pos 0 sp =
      adjustSplitAux rest (pos + (escChar c).length) 0 (unitAdj pos (escChar c).length sp) := by
  have hs := escChar_shape c
  generalize escChar c = u at hs ⊢
  cases hs with
  | plain _ _ h92 _ _ =>
    have : unitAdj pos 1 sp = sp := by unfold unitAdj; split <;> omega
    simp [adjustSplitAux, escMatchLen_plain c rest h92, this]
  | simple d hd =>
    have hd' : d ≠ 120 ∧ d ≠ 10 := by
      rcases simpleDecode_cases d c hd with h | h | h | h | h | h | h | h <;> omega
    simp [adjustSplitAux, escMatchLen_bsl, hd'.1, hd'.2, unitAdj]
  | hex h1 h2 h3 h4 u1 u2 u3 u4 hv =>
    simp [adjustSplitAux, escMatchLen_bsl, u1, u2, u3, u4, unitAdj]

theorem adjust_past (s : Str) : ∀ (pos : Nat) (sp : Int), sp < pos → adjustSplitAux (escape s) pos 0 sp = sp := by
  induction s with
  | nil => intro pos sp _; simp [escape_nil, adjustSplitAux]
  | cons c s ih =>
    intro pos sp h
    rw [escape_cons, adjust_unit]
    have : unitAdj pos (escChar c).length sp = sp := by unfold unitAdj; split <;> omega
    rw [this]
    exact ih _ _ (by push_cast; omega)

/-- the adjusted split position is at most 5 columns left of the wanted one and falls on a unit boundary -/
theorem adjust_boundary (s : Str) : ∀ (pos : Nat) (sp : Int), (pos : Int) ≤ sp + 1 →
    adjustSplitAux (escape s) pos 0 sp ≤ sp ∧ sp ≤ adjustSplitAux (escape s) pos 0 sp + 5 ∧
    ((∃ s1 s2, s = s1 ++ s2 ∧ (pos : Int) + (escape s1).length = adjustSplitAux (escape s) pos 0 sp + 1) ∨
     ((pos : Int) + (escape s).length < adjustSplitAux (escape s) pos 0 sp + 1 ∧
        adjustSplitAux (escape s) pos 0 sp = sp)) := by
  induction s with
  | nil =>
    intro pos sp h
    simp only [escape_nil, adjustSplitAux, List.length_nil]
    refine ⟨by omega, by omega, ?_⟩
    by_cases e : (pos : Int) = sp + 1
    · exact .inl ⟨[], [], rfl, by simp [escape_nil]; omega⟩
    · exact .inr ⟨by push_cast; omega, trivial⟩
  | cons c s ih =>
    intro pos sp h
    have hl1 := escChar_length_pos c
    have hl6 := escChar_length_le c
    rw [escape_cons, adjust_unit]
    by_cases h1 : sp < pos
    · have : unitAdj pos (escChar c).length sp = sp := by unfold unitAdj; split <;> omega
      rw [this, adjust_past s _ _ (by push_cast; omega)]
      exact ⟨by omega, by omega, .inl ⟨[], c :: s, rfl, by simp [escape_nil]; omega⟩⟩
    · by_cases h2 : sp < (pos : Int) + (escChar c).length - 1
      · have : unitAdj pos (escChar c).length sp = (pos : Int) - 1 := by unfold unitAdj; split <;> omega
        rw [this, adjust_past s _ _ (by push_cast; omega)]
        exact ⟨by omega, by omega, .inl ⟨[], c :: s, rfl, by simp [escape_nil]⟩⟩
      · have : unitAdj pos (escChar c).length sp = sp := by unfold unitAdj; split <;> omega
        rw [this]
        obtain ⟨a, b, hc⟩ := ih (pos + (escChar c).length) sp (by push_cast; omega)
        refine ⟨a, b, ?_⟩
        rcases hc with ⟨s1, s2, e, hlen⟩ | ⟨hlen, e⟩
        · refine .inl ⟨c :: s1, s2, by simp [e], ?_⟩
          rw [escape_cons, List.length_append]
          push_cast at hlen ⊢
          omega
        · refine .inr ⟨?_, e⟩
          rw [List.length_append]
          push_cast at hlen ⊢
          omega

theorem lastBlank_some (l : Str) : ∀ i, lastBlank l = some i → l[i]? = some 32 := by
  induction l with
  | nil => intro i h; simp [lastBlank] at h
  | cons c cs ih =>
    intro i h
    unfold lastBlank at h
    cases hc : lastBlank cs with
    | some j =>
      simp only [hc, Option.some.injEq] at h
      subst h
      simpa using ih j hc
    | none =>
      simp only [hc] at h
      split at h
      · simp only [Option.some.injEq] at h; subst h; simp_all
      · exact absurd h (by simp)

theorem rfindBlank_some (v : Str) (e : Int) (i : Nat) (h : rfindBlank v e = some i) : v[i]? = some 32 := by
  unfold rfindBlank at h
  have := lastBlank_some _ i h
  rw [List.getElem?_take] at this
  split at this
  · exact this
  · exact absurd this (by simp)

/-- a blank of the escaped text is a unit of its own: cutting after it cuts between units -/
theorem blank_boundary (s : Str) : ∀ i, (escape s)[i]? = some 32 →
    ∃ s1 s2, s = s1 ++ s2 ∧ (escape s1).length = i + 1 := by
  induction s with
  | nil => intro i h; simp [escape_nil] at h
  | cons c s ih =>
    intro i h
    rw [escape_cons] at h
    by_cases hi : i < (escChar c).length
    · rw [List.getElem?_append_left hi] at h
      have hs := escChar_shape c
      have hc : escChar c = [c] ∧ i = 0 := by
        generalize escChar c = u at hs h hi
        cases hs with
        | plain => simp at hi; exact ⟨rfl, hi⟩
        | simple d hd =>
          have hd' : d ≠ 32 := by
            rcases simpleDecode_cases d c hd with h | h | h | h | h | h | h | h <;> omega
          match i, hi with
          | 0, _ => simp at h
          | 1, _ => simp at h; exact absurd h hd'
        | hex h1 h2 h3 h4 u1 u2 u3 u4 hv =>
          have p1 := (isUpHex_plain _ u1).2.2.2.2.2
          have p2 := (isUpHex_plain _ u2).2.2.2.2.2
          have p3 := (isUpHex_plain _ u3).2.2.2.2.2
          have p4 := (isUpHex_plain _ u4).2.2.2.2.2
          match i, hi with
          | 0, _ => simp at h
          | 1, _ => simp at h
          | 2, _ => simp at h; exact absurd h p1
          | 3, _ => simp at h; exact absurd h p2
          | 4, _ => simp at h; exact absurd h p3
          | 5, _ => simp at h; exact absurd h p4
      refine ⟨[c], s, rfl, ?_⟩
      rw [escape_cons, escape_nil, hc.1, hc.2]
      rfl
    · rw [List.getElem?_append_right (by omega)] at h
      obtain ⟨s1, s2, e, hl⟩ := ih _ h
      refine ⟨c :: s1, s2, by simp [e], ?_⟩
      rw [escape_cons, List.length_append, hl]
      omega

theorem take_escape (s1 s2 : Str) : (escape (s1 ++ s2)).take (escape s1).length = escape s1 := by
  rw [escape_append]; simp

theorem drop_escape (s1 s2 : Str) : (escape (s1 ++ s2)).drop (escape s1).length = escape s2 := by
  rw [escape_append]; simp

/-! ### F. the folding loop -/

/-- pieces of the output: (text before the opening quote, substring of the original string) -/
def render (q : Nat) : List (Str × Str) → Str
  | [] => []
  | p :: ps => p.1 ++ q :: escape p.2 ++ [q] ++ render q ps

def SepOk (cfg : FoldCfg) (sep : Str) : Prop := sep = [] ∨ sep = newLine cfg

theorem linePre_sepOk (cfg : FoldCfg) (v : Str) (lp : Int) : SepOk cfg (linePre cfg v lp) := by
  unfold linePre SepOk; split <;> simp

theorem normIdx_nat (len n : Nat) (h : n ≤ len) : normIdx len (n : Int) = n := by
  unfold normIdx
  have : ¬ ((n : Int) < 0) := by omega
  simp only [this, if_false, Int.toNat_natCast]
  omega

theorem lastBlank_lt (l : Str) : ∀ i, lastBlank l = some i → i < l.length := by
  intro i h
  have := lastBlank_some l i h
  rcases Nat.lt_or_ge i l.length with h1 | h1
  · exact h1
  · rw [List.getElem?_eq_none h1] at this; exact absurd this (by simp)

theorem rfindBlank_lt (v : Str) (e : Int) (i : Nat) (h : rfindBlank v e = some i) : i < normIdx v.length e := by
  unfold rfindBlank at h
  have := lastBlank_lt _ i h
  rw [List.length_take] at this
  omega

/-- `line_pos + avl_len + 2 = maxline` after the new-line decision -/
theorem lp_avl (cfg : FoldCfg) (v : Str) (linePos : Int) :
    lineLp cfg v linePos + lineAvl cfg v linePos + 2 = cfg.maxline := by
  unfold lineLp lineAvl avlNew avlCur
  split <;> omega

/-- when the rest does not fit, `avl_len` is not negative (a negative one forces a new line, and a new
    line has at least 6 columns) -/
theorem lineAvl_nonneg (cfg : FoldCfg) (hw : cfg.indent + 8 ≤ cfg.maxline) (v : Str) (linePos : Int)
    (hfit : ¬ ((v.length : Int) ≤ lineAvl cfg v linePos - cfg.endSpace)) : 0 ≤ lineAvl cfg v linePos := by
  rcases Bool.eq_false_or_eq_true (startsNewLine cfg v linePos) with h | h
  · have : lineAvl cfg v linePos = avlNew cfg := by simp [lineAvl, h]
    rw [this]; unfold avlNew; omega
  · have havl : lineAvl cfg v linePos = avlCur cfg linePos := by simp [lineAvl, h]
    rw [havl] at hfit ⊢
    unfold startsNewLine at h
    simp only [Bool.and_eq_false_iff, Bool.or_eq_false_iff, decide_eq_false_iff_not] at h
    rcases h with h | h
    · omega
    · omega

/-- where the code cuts, the escaped text is cut between two escape units -/
theorem cut_boundary (cfg : FoldCfg) (hw : cfg.indent + 8 ≤ cfg.maxline) (s : Str) (linePos : Int)
    (hfit : ¬ (((escape s).length : Int) ≤ lineAvl cfg (escape s) linePos - cfg.endSpace)) :
    ∃ s1 s2, s = s1 ++ s2 ∧ (escape s).take (cutPos cfg (escape s) linePos) = escape s1 ∧
      (escape s).drop (cutPos cfg (escape s) linePos) = escape s2 ∧ (s ≠ [] → s1 ≠ []) ∧
      ((escape s1).length : Int) ≤ lineAvl cfg (escape s) linePos := by
  unfold cutPos splitPos
  cases hb : rfindBlank (escape s) (lineAvl cfg (escape s) linePos) with
  | some i =>
    have hi := rfindBlank_some _ _ _ hb
    obtain ⟨s1, s2, e, hl⟩ := blank_boundary s i hi
    have hlt : i < (escape s).length := by
      rcases Nat.lt_or_ge i (escape s).length with h | h
      · exact h
      · rw [List.getElem?_eq_none h] at hi; exact absurd hi (by simp)
    have hcut : normIdx (escape s).length ((i : Int) + 1) = (escape s1).length := by
      have := normIdx_nat (escape s).length (i + 1) (by omega)
      rw [hl]; simpa using this
    simp only [hcut]
    refine ⟨s1, s2, e, ?_, ?_, ?_, ?_⟩
    · rw [e]; exact take_escape s1 s2
    · rw [e]; exact drop_escape s1 s2
    · intro _ h1; rw [h1, escape_nil] at hl; simp at hl
    · -- the blank was found left of column avl_len (which is not negative when the code gets here)
      have hnn : (0 : Int) ≤ lineAvl cfg (escape s) linePos := lineAvl_nonneg cfg hw _ _ hfit
      have hi2 := rfindBlank_lt _ _ _ hb
      unfold normIdx at hi2
      have : ¬ (lineAvl cfg (escape s) linePos < 0) := by omega
      simp only [this, if_false] at hi2
      omega
  | none =>
    -- without a blank the code has started a new line: avl_len = maxline - indent - 2 >= 6
    have hnl : startsNewLine cfg (escape s) linePos = true := by
      rcases Bool.eq_false_or_eq_true (startsNewLine cfg (escape s) linePos) with h | h
      · exact h
      · exfalso
        have havl : lineAvl cfg (escape s) linePos = avlCur cfg linePos := by simp [lineAvl, h]
        rw [havl] at hfit hb
        unfold startsNewLine at h
        simp only [Bool.and_eq_false_iff, Bool.or_eq_false_iff, decide_eq_false_iff_not] at h
        rcases h with h | h
        · omega
        · rw [hb] at h; simp at h
    have havl : lineAvl cfg (escape s) linePos = avlNew cfg := by simp [lineAvl, hnl]
    rw [havl] at hfit ⊢
    have h6 : (6 : Int) ≤ avlNew cfg := by unfold avlNew; omega
    simp only [adjustSplit]
    obtain ⟨hle, hge, hc⟩ := adjust_boundary s 0 (avlNew cfg - 1) (by omega)
    generalize adjustSplitAux (escape s) 0 0 (avlNew cfg - 1) = r at hle hge hc
    have hr : (0 : Int) ≤ r := by omega
    rcases hc with ⟨s1, s2, e, hl⟩ | ⟨hl, _⟩
    · have hlen : (escape s1).length ≤ (escape s).length := by rw [e, escape_append]; simp
      have hcut : normIdx (escape s).length (r + 1) = (escape s1).length := by
        have : r + 1 = ((escape s1).length : Int) := by omega
        rw [this]; exact normIdx_nat _ _ hlen
      simp only [hcut]
      refine ⟨s1, s2, e, ?_, ?_, ?_, by omega⟩
      · rw [e]; exact take_escape s1 s2
      · rw [e]; exact drop_escape s1 s2
      · intro _ h1; rw [h1, escape_nil] at hl; simp at hl; omega
    · have hcut : normIdx (escape s).length (r + 1) = (escape s).length := by
        unfold normIdx
        have : ¬ (r + 1 < 0) := by omega
        simp only [this, if_false]
        omega
      simp only [hcut]
      exact ⟨s, [], by simp, by simp, by simp [escape_nil], fun h => h, by omega⟩

/-- the loop terminates normally and its output is a sequence of quoted escapes of consecutive
    substrings of the original string, each preceded by nothing or by newline + indentation -/
theorem loop_pieces (cfg : FoldCfg) (hw : cfg.indent + 8 ≤ cfg.maxline) :
    ∀ (fuel : Nat) (s : Str) (linePos : Int), (escape s).length + 1 ≤ fuel →
      ∃ ps lp, mofstrLoop cfg fuel (escape s) linePos = .ok (render cfg.quote ps, lp) ∧
        (ps.map (·.2)).flatten = s ∧ ∀ p ∈ ps, SepOk cfg p.1 := by
  intro fuel
  induction fuel with
  | zero => intro s lp h; omega
  | succ fuel ih =>
    intro s linePos hf
    simp only [mofstrLoop]
    by_cases hfit : ((escape s).length : Int) ≤ lineAvl cfg (escape s) linePos - cfg.endSpace
    · simp only [hfit, if_true]
      refine ⟨[(linePre cfg (escape s) linePos, s)], lineLp cfg (escape s) linePos + 2 + (escape s).length, ?_, by simp, ?_⟩
      · simp [render, piece]
      · intro p hp; simp at hp; subst hp; exact linePre_sepOk _ _ _
    · simp only [hfit, if_false]
      obtain ⟨s1, s2, e, ht, hd, hne, _⟩ := cut_boundary cfg hw s linePos hfit
      rw [ht, hd]
      by_cases h2 : escape s2 = []
      · have := escape_eq_nil s2 h2
        subst this
        simp only [h2, if_true]
        refine ⟨[(linePre cfg (escape s) linePos, s1)], lineLp cfg (escape s) linePos + 2 + (escape s1).length, ?_, by simp [e], ?_⟩
        · simp [render, piece]
        · intro p hp; simp at hp; subst hp; exact linePre_sepOk _ _ _
      · simp only [h2, if_false]
        have hs : s ≠ [] := by
          intro h; subst h
          have : s2 = [] := by
            have := congrArg List.length e; simp at this; exact List.eq_nil_of_length_eq_zero (by omega)
          exact h2 (by rw [this, escape_nil])
        have h1 : 0 < (escape s1).length := by
          have := hne hs
          cases s1 with
          | nil => exact absurd rfl this
          | cons c s1 => rw [escape_cons, List.length_append]; have := escChar_length_pos c; omega
        have hlen : (escape s).length = (escape s1).length + (escape s2).length := by
          rw [e, escape_append, List.length_append]
        have h3 : ¬ escape s2 = escape s := by
          intro h; have := congrArg List.length h; omega
        simp only [h3, if_false]
        obtain ⟨ps, lp, hrec, hflat, hsep⟩ := ih s2 (lineLp cfg (escape s) linePos + 2 + (escape s1).length) (by omega)
        rw [hrec]
        refine ⟨(linePre cfg (escape s) linePos, s1) :: ps, lp, ?_, by simp [e, hflat], ?_⟩
        · simp [render, piece]
        · intro p hp
          simp only [List.mem_cons] at hp
          rcases hp with hp | hp
          · subst hp; exact linePre_sepOk _ _ _
          · exact hsep p hp

/-! ### G. lexer and parser on the rendered pieces -/

theorem lexF_ws (ws : Str) (h : ws.all isWs = true) : ∀ (f : Nat) (t : Str),
    lexStringListF (f + ws.length) (ws ++ t) = lexStringListF f t := by
  induction ws with
  | nil => intro f t; rfl
  | cons w ws ih =>
    intro f t
    simp only [List.all_cons, Bool.and_eq_true] at h
    have : f + (w :: ws).length = (f + ws.length) + 1 := by simp; omega
    rw [this]
    simp only [List.cons_append, lexStringListF, h.1, if_true]
    exact ih h.2 f t

theorem sepOk_ws (cfg : FoldCfg) (sep : Str) (h : SepOk cfg sep) : sep.all isWs = true := by
  rcases h with h | h
  · subst h; rfl
  · subst h
    simp only [newLine, indentStr, List.all_cons, List.all_replicate]
    simp [isWs]

def tokOf (p : Str × Str) : Str := 34 :: escape p.2 ++ [34]

theorem lex_render (ps : List (Str × Str)) (hs : ∀ p ∈ ps, p.1.all isWs = true) :
    ∀ fuel, (render 34 ps).length + 1 ≤ fuel → lexStringListF fuel (render 34 ps) = some (ps.map tokOf) := by
  induction ps with
  | nil =>
    intro fuel h
    match fuel, h with
    | f + 1, _ => rfl
  | cons p ps ih =>
    intro fuel h
    have hp := hs p (by simp)
    simp only [render, List.length_append, List.length_cons, List.length_nil] at h
    obtain ⟨f, hf⟩ : ∃ f, fuel = (f + 1) + p.1.length := ⟨fuel - 1 - p.1.length, by omega⟩
    subst hf
    simp only [render, List.append_assoc]
    rw [lexF_ws p.1 hp]
    have hw34 : isWs 34 = false := by decide
    simp only [List.cons_append, lexStringListF, hw34, Bool.false_eq_true, if_false, if_true, List.nil_append]
    rw [scan_escape 34 (.inl rfl)]
    simp only []
    rw [ih (fun q hq => hs q (by simp [hq])) f (by omega)]
    simp [tokOf]

theorem stringValueList_toks (ps : List (Str × Str)) :
    stringValueList (ps.map tokOf) = .ok (ps.map (·.2)).flatten := by
  induction ps with
  | nil => rfl
  | cons p ps ih =>
    simp only [List.map_cons, stringValueList, tokOf, fixStringValue_quoted, ih]
    simp [Except.map]

/-! ### H. columns: line bound and `line_pos` bookkeeping -/

/-- column after writing `t` from column `col` (a newline resets the column) -/
def endCol : Int → Str → Int
  | col, [] => col
  | col, c :: cs => if c = 10 then endCol 0 cs else endCol (col + 1) cs

/-- no character of `t`, written from column `col`, lands beyond column `maxline` -/
def withinLine (maxline : Int) : Int → Str → Bool
  | _, [] => true
  | col, c :: cs =>
    if c = 10 then withinLine maxline 0 cs else decide (col + 1 ≤ maxline) && withinLine maxline (col + 1) cs

theorem endCol_append (a b : Str) : ∀ col, endCol col (a ++ b) = endCol (endCol col a) b := by
  induction a with
  | nil => intro col; rfl
  | cons c cs ih => intro col; simp only [List.cons_append, endCol]; split <;> exact ih _

theorem withinLine_append (m : Int) (a b : Str) : ∀ col,
    withinLine m col (a ++ b) = (withinLine m col a && withinLine m (endCol col a) b) := by
  induction a with
  | nil => intro col; simp [withinLine, endCol]
  | cons c cs ih =>
    intro col
    simp only [List.cons_append, withinLine, endCol]
    split
    · exact ih _
    · rw [ih, Bool.and_assoc]

theorem endCol_flat (t : Str) (h : 10 ∉ t) : ∀ col, endCol col t = col + t.length := by
  induction t with
  | nil => intro col; simp [endCol]
  | cons c cs ih =>
    intro col
    have hc : ¬ c = 10 := fun e => h (by simp [e])
    simp only [endCol, hc, if_false, List.length_cons]
    rw [ih (fun hm => h (by simp [hm]))]
    push_cast; omega

theorem withinLine_flat (m : Int) (t : Str) (h : 10 ∉ t) : ∀ col, col + t.length ≤ m → withinLine m col t = true := by
  induction t with
  | nil => intro col _; rfl
  | cons c cs ih =>
    intro col hle
    have hc : ¬ c = 10 := fun e => h (by simp [e])
    simp only [List.length_cons] at hle
    push_cast at hle
    simp only [withinLine, hc, if_false, Bool.and_eq_true, decide_eq_true_eq]
    exact ⟨by omega, ih (fun hm => h (by simp [hm])) _ (by omega)⟩

theorem escChar_no_nl (c : Nat) : 10 ∉ escChar c := by
  have hs := escChar_shape c
  generalize escChar c = u at hs ⊢
  cases hs with
  | plain _ _ _ h10 _ => simp; exact fun e => h10 e.symm
  | simple d hd =>
    have : d ≠ 10 := by rcases simpleDecode_cases d c hd with h | h | h | h | h | h | h | h <;> omega
    simp; exact fun e => this e.symm
  | hex h1 h2 h3 h4 u1 u2 u3 u4 _ =>
    have p1 := (isUpHex_plain _ u1).2.2.2.1
    have p2 := (isUpHex_plain _ u2).2.2.2.1
    have p3 := (isUpHex_plain _ u3).2.2.2.1
    have p4 := (isUpHex_plain _ u4).2.2.2.1
    simp
    exact ⟨fun e => p1 e.symm, fun e => p2 e.symm, fun e => p3 e.symm, fun e => p4 e.symm⟩

theorem escape_no_nl (s : Str) : 10 ∉ escape s := by
  induction s with
  | nil => simp [escape_nil]
  | cons c s ih =>
    rw [escape_cons]
    simp only [List.mem_append, not_or]
    exact ⟨escChar_no_nl c, ih⟩

/-- one piece: afterwards the column is `lineLp + 2 + |part|`, and nothing is beyond `maxline` if that fits -/
theorem piece_cols (cfg : FoldCfg) (hw : cfg.indent + 8 ≤ cfg.maxline) (hq : cfg.quote ≠ 10) (v : Str)
    (linePos : Int) (part : Str) (hp : 10 ∉ part)
    (hb : lineLp cfg v linePos + 2 + part.length ≤ cfg.maxline) :
    endCol linePos (piece cfg v linePos part) = lineLp cfg v linePos + 2 + part.length ∧
    withinLine cfg.maxline linePos (piece cfg v linePos part) = true := by
  have hflat : 10 ∉ cfg.quote :: part ++ [cfg.quote] := by
    simp only [List.cons_append, List.mem_cons, List.mem_append, List.mem_nil_iff, or_false, not_or]
    exact ⟨fun e => hq e.symm, hp, fun e => hq e.symm⟩
  have hlen : (cfg.quote :: part ++ [cfg.quote]).length = part.length + 2 := by simp
  unfold piece
  have hassoc : linePre cfg v linePos ++ cfg.quote :: part ++ [cfg.quote] =
      linePre cfg v linePos ++ (cfg.quote :: part ++ [cfg.quote]) := by simp
  rw [hassoc, endCol_append, withinLine_append]
  have hpre : endCol linePos (linePre cfg v linePos) = lineLp cfg v linePos ∧
      withinLine cfg.maxline linePos (linePre cfg v linePos) = true := by
    unfold linePre lineLp
    split
    · have hi : 10 ∉ indentStr cfg.indent := by simp [indentStr]
      simp only [newLine, endCol, withinLine, if_true]
      rw [endCol_flat _ hi, withinLine_flat _ _ hi]
      · simp [indentStr]
      · simp [indentStr]; omega
    · simp [endCol, withinLine]
  rw [hpre.1, hpre.2, endCol_flat _ hflat, withinLine_flat _ _ hflat _ (by rw [hlen]; push_cast; omega), hlen]
  simp only [Bool.and_self, and_true]
  push_cast; omega

theorem loop_cols (cfg : FoldCfg) (hw : cfg.indent + 8 ≤ cfg.maxline) (hq : cfg.quote ≠ 10) :
    ∀ (fuel : Nat) (s : Str) (linePos : Int) (mof : Str) (lp : Int), (escape s).length + 1 ≤ fuel →
      mofstrLoop cfg fuel (escape s) linePos = .ok (mof, lp) →
      endCol linePos mof = lp ∧ withinLine cfg.maxline linePos mof = true := by
  intro fuel
  induction fuel with
  | zero => intro s lp mof l h; omega
  | succ fuel ih =>
    intro s linePos mof lp hf hrun
    simp only [mofstrLoop] at hrun
    have hsum := lp_avl cfg (escape s) linePos
    by_cases hfit : ((escape s).length : Int) ≤ lineAvl cfg (escape s) linePos - cfg.endSpace
    · simp only [hfit, if_true, Except.ok.injEq, Prod.mk.injEq] at hrun
      obtain ⟨hm, hl⟩ := hrun
      subst hm; subst hl
      exact piece_cols cfg hw hq _ _ _ (escape_no_nl s) (by omega)
    · simp only [hfit, if_false] at hrun
      obtain ⟨s1, s2, e, ht, hd, hne, hbound⟩ := cut_boundary cfg hw s linePos hfit
      rw [ht, hd] at hrun
      have hpc := piece_cols cfg hw hq (escape s) linePos (escape s1) (escape_no_nl s1) (by omega)
      by_cases h2 : escape s2 = []
      · simp only [h2, if_true, Except.ok.injEq, Prod.mk.injEq] at hrun
        obtain ⟨hm, hl⟩ := hrun
        subst hm; subst hl
        exact hpc
      · simp only [h2, if_false] at hrun
        by_cases h3 : escape s2 = escape s
        · simp [h3] at hrun
        · simp only [h3, if_false] at hrun
          have hlen : (escape s).length = (escape s1).length + (escape s2).length := by
            rw [e, escape_append, List.length_append]
          have h1 : 0 < (escape s1).length := by
            rcases Nat.eq_zero_or_pos (escape s1).length with h0 | h0
            · exfalso; apply h3
              have : escape s1 = [] := List.eq_nil_of_length_eq_zero h0
              rw [e, escape_append, this, List.nil_append]
            · exact h0
          cases hrec : mofstrLoop cfg fuel (escape s2)
              (lineLp cfg (escape s) linePos + 2 + (escape s1).length) with
          | error err => rw [hrec] at hrun; simp at hrun
          | ok r =>
            rw [hrec] at hrun
            simp only [Except.ok.injEq, Prod.mk.injEq] at hrun
            obtain ⟨hm, hl⟩ := hrun
            subst hm; subst hl
            obtain ⟨ha, hb⟩ := ih s2 _ r.1 r.2 (by omega) (by rw [hrec])
            rw [endCol_append, withinLine_append, hpc.1, hpc.2, ha, hb]
            simp

end Pywbem.Lemmas.MofStr
