/-
C03 — the content-model matcher of `Pywbem/Model/Dtd.lean` is correct: `matchRe r w = true` exactly when `w`
belongs to the language of the regular expression `r` (declarative semantics `Lang`).  Holds for every content
model, deterministic or not.  Plus the closure lemmas the encoder proofs use to exhibit membership.
-/
import Pywbem.Model.Dtd

set_option linter.unusedSimpArgs false

namespace Proofs.Dtd
open Pywbem.Model.Dtd

/-- declarative semantics of a content model -/
inductive Lang : Re → List Name → Prop where
  | eps : Lang .eps []
  | sym (n : Name) : Lang (.sym n) [n]
  | seq {a b : Re} {u v : List Name} : Lang a u → Lang b v → Lang (.seq a b) (u ++ v)
  | altL {a b : Re} {u : List Name} : Lang a u → Lang (.alt a b) u
  | altR {a b : Re} {u : List Name} : Lang b u → Lang (.alt a b) u
  | starNil {a : Re} : Lang (.star a) []
  | starCons {a : Re} {u v : List Name} : Lang a u → Lang (.star a) v → Lang (.star a) (u ++ v)

/-! ### inversion -/

theorem not_lang_none {w : List Name} : ¬ Lang .none w := by intro h; cases h

theorem lang_eps_inv {w : List Name} (h : Lang .eps w) : w = [] := by cases h; rfl

theorem lang_sym_inv {n : Name} {w : List Name} (h : Lang (.sym n) w) : w = [n] := by cases h; rfl

theorem lang_seq_inv {a b : Re} {w : List Name} (h : Lang (.seq a b) w) :
    ∃ u v, w = u ++ v ∧ Lang a u ∧ Lang b v := by
  cases h with
  | seq ha hb => exact ⟨_, _, rfl, ha, hb⟩

theorem lang_alt_inv {a b : Re} {w : List Name} (h : Lang (.alt a b) w) : Lang a w ∨ Lang b w := by
  cases h with
  | altL h => exact .inl h
  | altR h => exact .inr h

/-- a non-empty word of `a*` starts with a non-empty word of `a` -/
theorem lang_star_cons_inv {r : Re} {s : List Name} (h : Lang r s) :
    ∀ {a : Re} {x : Name} {w : List Name}, r = .star a → s = x :: w →
      ∃ u v, w = u ++ v ∧ Lang a (x :: u) ∧ Lang (.star a) v := by
  induction h with
  | eps => intro a x w hr; cases hr
  | sym n => intro a x w hr; cases hr
  | seq _ _ _ _ => intro a x w hr; cases hr
  | altL _ _ => intro a x w hr; cases hr
  | altR _ _ => intro a x w hr; cases hr
  | starNil => intro a x w _ hs; cases hs
  | @starCons a' u v hu hv _ ihv =>
    intro a x w hr hs
    cases hr
    cases u with
    | nil => exact ihv rfl (by simpa using hs)
    | cons y u' =>
      simp at hs
      obtain ⟨rfl, rfl⟩ := hs
      exact ⟨u', v, rfl, hu, hv⟩

/-! ### nullable -/

theorem lang_nil_nullable {r : Re} {s : List Name} (h : Lang r s) : s = [] → nullable r = true := by
  induction h with
  | eps => intro _; rfl
  | sym n => intro h; cases h
  | seq _ _ iha ihb =>
    intro h
    have := List.append_eq_nil_iff.mp h
    simp [nullable, iha this.1, ihb this.2]
  | altL _ ih => intro h; simp [nullable, ih h]
  | altR _ ih => intro h; simp [nullable, ih h]
  | starNil => intro _; rfl
  | starCons _ _ _ _ => intro _; rfl

theorem nullable_lang : ∀ {r : Re}, nullable r = true → Lang r []
  | .none, h => by simp [nullable] at h
  | .eps, _ => .eps
  | .sym _, h => by simp [nullable] at h
  | .seq a b, h => by
    simp [nullable] at h
    have := Lang.seq (nullable_lang h.1) (nullable_lang h.2)
    simpa using this
  | .alt a b, h => by
    simp [nullable] at h
    rcases h with h | h
    · exact .altL (nullable_lang h)
    · exact .altR (nullable_lang h)
  | .star _, _ => .starNil

theorem nullable_iff {r : Re} : nullable r = true ↔ Lang r [] :=
  ⟨nullable_lang, fun h => lang_nil_nullable h rfl⟩

/-! ### smart constructors -/

theorem mkSeq_iff {a b : Re} {w : List Name} : Lang (mkSeq a b) w ↔ Lang (.seq a b) w := by
  unfold mkSeq
  split
  · constructor
    · intro h; exact absurd h not_lang_none
    · intro h; obtain ⟨_, _, _, ha, _⟩ := lang_seq_inv h; exact absurd ha not_lang_none
  · constructor
    · intro h; have := Lang.seq Lang.eps h; simpa using this
    · intro h
      obtain ⟨u, v, rfl, ha, hb⟩ := lang_seq_inv h
      rw [lang_eps_inv ha]; simpa using hb
  · split
    · constructor
      · intro h; exact absurd h not_lang_none
      · intro h; obtain ⟨_, _, _, _, hb⟩ := lang_seq_inv h; exact absurd hb not_lang_none
    · exact Iff.rfl

theorem mkAlt_iff {a b : Re} {w : List Name} : Lang (mkAlt a b) w ↔ Lang (.alt a b) w := by
  unfold mkAlt
  split
  · constructor
    · intro h; exact .altR h
    · intro h; rcases lang_alt_inv h with h | h
      · exact absurd h not_lang_none
      · exact h
  · split
    · constructor
      · intro h; exact .altL h
      · intro h; rcases lang_alt_inv h with h | h
        · exact h
        · exact absurd h not_lang_none
    · exact Iff.rfl

/-! ### derivatives -/

theorem deriv_iff (x : Name) : ∀ (r : Re) (w : List Name), Lang (deriv x r) w ↔ Lang r (x :: w)
  | .none, w => by
    simp only [deriv]
    exact ⟨fun h => absurd h not_lang_none, fun h => absurd h not_lang_none⟩
  | .eps, w => by
    simp only [deriv]
    exact ⟨fun h => absurd h not_lang_none, fun h => by have := lang_eps_inv h; simp at this⟩
  | .sym n, w => by
    simp only [deriv]
    by_cases hn : n = x
    · subst hn
      simp only [if_true]
      constructor
      · intro h; rw [lang_eps_inv h]; exact .sym n
      · intro h
        have := lang_sym_inv h
        simp at this
        subst this; exact .eps
    · simp only [hn, if_false]
      constructor
      · intro h; exact absurd h not_lang_none
      · intro h
        have := lang_sym_inv h
        simp at this
        exact absurd this.1.symm hn
  | .seq a b, w => by
    have iha := deriv_iff x a
    have ihb := deriv_iff x b
    have left : Lang (mkSeq (deriv x a) b) w → Lang (.seq a b) (x :: w) := by
      intro h
      obtain ⟨u, v, rfl, hu, hv⟩ := lang_seq_inv (mkSeq_iff.mp h)
      have := Lang.seq ((iha u).mp hu) hv
      simpa using this
    have split : Lang (.seq a b) (x :: w) →
        Lang (mkSeq (deriv x a) b) w ∨ (nullable a = true ∧ Lang (deriv x b) w) := by
      intro h
      obtain ⟨u, v, huv, hu, hv⟩ := lang_seq_inv h
      cases u with
      | nil =>
        simp at huv; subst huv
        exact .inr ⟨nullable_iff.mpr hu, (ihb w).mpr hv⟩
      | cons y u' =>
        simp at huv
        obtain ⟨rfl, rfl⟩ := huv
        exact .inl (mkSeq_iff.mpr (.seq ((iha u').mpr hu) hv))
    simp only [deriv]
    by_cases hn : nullable a = true
    · simp only [hn, if_true]
      constructor
      · intro h
        rcases lang_alt_inv (mkAlt_iff.mp h) with h | h
        · exact left h
        · have := Lang.seq (nullable_iff.mp hn) ((ihb w).mp h)
          simpa using this
      · intro h
        rcases split h with h | ⟨_, h⟩
        · exact mkAlt_iff.mpr (.altL h)
        · exact mkAlt_iff.mpr (.altR h)
    · simp only [hn, if_false]
      constructor
      · exact left
      · intro h
        rcases split h with h | ⟨h, _⟩
        · exact h
        · exact absurd h hn
  | .alt a b, w => by
    have iha := deriv_iff x a
    have ihb := deriv_iff x b
    simp only [deriv]
    constructor
    · intro h
      rcases lang_alt_inv (mkAlt_iff.mp h) with h | h
      · exact .altL ((iha w).mp h)
      · exact .altR ((ihb w).mp h)
    · intro h
      rcases lang_alt_inv h with h | h
      · exact mkAlt_iff.mpr (.altL ((iha w).mpr h))
      · exact mkAlt_iff.mpr (.altR ((ihb w).mpr h))
  | .star a, w => by
    have iha := deriv_iff x a
    simp only [deriv]
    constructor
    · intro h
      obtain ⟨u, v, rfl, hu, hv⟩ := lang_seq_inv (mkSeq_iff.mp h)
      have := Lang.starCons ((iha u).mp hu) hv
      simpa using this
    · intro h
      obtain ⟨u, v, rfl, hu, hv⟩ := lang_star_cons_inv h rfl rfl
      exact mkSeq_iff.mpr (.seq ((iha u).mpr hu) hv)

theorem derivs_iff : ∀ (w : List Name) (r : Re) (v : List Name), Lang (derivs r w) v ↔ Lang r (w ++ v)
  | [], r, v => by simp [derivs]
  | x :: xs, r, v => by
    simp only [derivs, List.cons_append]
    rw [derivs_iff xs (deriv x r) v, deriv_iff]

/-- **the matcher decides membership** -/
theorem matchRe_iff (r : Re) (w : List Name) : matchRe r w = true ↔ Lang r w := by
  unfold matchRe
  rw [nullable_iff, derivs_iff]
  simp

/-! ### closure lemmas (how the encoder proofs exhibit membership) -/

theorem lang_opt_none {r : Re} : Lang (Re.opt r) [] := .altR .eps
theorem lang_opt_some {r : Re} {w : List Name} (h : Lang r w) : Lang (Re.opt r) w := .altL h

theorem lang_star_replicate (n : Name) : ∀ k : Nat, Lang (.star (.sym n)) (List.replicate k n)
  | 0 => .starNil
  | k + 1 => by
    have := Lang.starCons (Lang.sym n) (lang_star_replicate n k)
    simpa [List.replicate_succ] using this

/-- every letter of `w` is a one-letter word of `r` -/
theorem lang_star_letters {r : Re} : ∀ (w : List Name), (∀ x ∈ w, Lang r [x]) → Lang (.star r) w
  | [], _ => .starNil
  | x :: xs, h => by
    have := Lang.starCons (h x (by simp)) (lang_star_letters xs (fun y hy => h y (by simp [hy])))
    simpa using this

theorem lang_plus {r : Re} {u v : List Name} (hu : Lang r u) (hv : Lang (.star r) v) : Lang (Re.plus r) (u ++ v) :=
  .seq hu hv

theorem lang_seq3 {a b c : Re} {u v w : List Name} (ha : Lang a u) (hb : Lang b v) (hc : Lang c w) :
    Lang (Re.seqs [a, b, c]) (u ++ v ++ w) := by
  have := Lang.seq ha (Lang.seq hb hc)
  simpa [Re.seqs, List.append_assoc] using this

theorem lang_seq2 {a b : Re} {u v : List Name} (ha : Lang a u) (hb : Lang b v) :
    Lang (Re.seqs [a, b]) (u ++ v) := .seq ha hb

/-- membership in an n-ary alternative -/
theorem lang_alts_mem : ∀ {rs : List Re} {r : Re} {w : List Name}, r ∈ rs → Lang r w → Lang (Re.alts rs) w
  | [], _, _, h, _ => by simp at h
  | [a], r, w, h, hw => by simp at h; subst h; exact hw
  | a :: b :: rest, r, w, h, hw => by
    simp only [Re.alts]
    rcases List.mem_cons.mp h with h | h
    · subst h; exact .altL hw
    · exact .altR (lang_alts_mem h hw)

end Proofs.Dtd
