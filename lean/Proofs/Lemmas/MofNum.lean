/-
Helper lemmas for C08: decimal integer literals — Python's str(int) is read back by the numeric token
rules of the MOF lexer (in PLY's rule order) as a decimalValue with the same value.
-/
import Pywbem.Model.MofLex

namespace Pywbem.Lemmas.MofNum
open Pywbem.Model.MofLex

abbrev Str := List Nat

/-- what may follow an integer literal without changing how the lexer reads it: end of input, or a character
    that is no digit and none of `. x X b B` -/
def Delim (rest : Str) : Prop :=
  match rest with
  | [] => True
  | c :: _ => isDigit c = false ∧ c ≠ 46 ∧ c ≠ 120 ∧ c ≠ 88 ∧ c ≠ 98 ∧ c ≠ 66

theorem spanP_append (p : Nat → Bool) (ds rest : Str) (hd : ds.all p = true)
    (hr : ∀ c r, rest = c :: r → p c = false) : spanP p (ds ++ rest) = (ds, rest) := by
  induction ds with
  | nil =>
    cases rest with
    | nil => rfl
    | cons c r => simp [spanP, hr c r rfl]
  | cons d ds ih =>
    simp only [List.all_cons, Bool.and_eq_true] at hd
    simp [spanP, hd.1, ih hd.2]

theorem hexVal_digit (k : Nat) (h : k < 10) : hexVal (48 + k) = k := by
  unfold hexVal
  have : 48 + k ≤ 57 := by omega
  simp [this]

theorem digitsVal_snoc (b : Nat) (ds : Str) (d : Nat) : digitsVal b (ds ++ [d]) = digitsVal b ds * b + hexVal d := by
  simp [digitsVal, List.foldl_append]

theorem decDigits_val : ∀ (f n : Nat), n < f → digitsVal 10 (decDigits f n) = n := by
  intro f
  induction f with
  | zero => intro n h; omega
  | succ f ih =>
    intro n h
    unfold decDigits
    split
    · rename_i h10
      simp [digitsVal, hexVal_digit n h10]
    · rw [digitsVal_snoc, ih (n / 10) (by omega), hexVal_digit _ (by omega)]
      omega

theorem decDigits_digits : ∀ (f n : Nat), n < f → (decDigits f n).all isDigit = true := by
  intro f
  induction f with
  | zero => intro n h; omega
  | succ f ih =>
    intro n h
    unfold decDigits
    split
    · simp [isDigit]; omega
    · simp only [List.all_append, ih (n / 10) (by omega), Bool.true_and, List.all_cons, List.all_nil, Bool.and_true]
      simp [isDigit]; omega

theorem decDigits_head : ∀ (f n : Nat), n < f → 0 < n →
    ∃ c cs, decDigits f n = c :: cs ∧ 49 ≤ c ∧ c ≤ 57 := by
  intro f
  induction f with
  | zero => intro n h; omega
  | succ f ih =>
    intro n h hpos
    unfold decDigits
    split
    · exact ⟨48 + n, [], rfl, by omega, by omega⟩
    · obtain ⟨c, cs, e, h1, h2⟩ := ih (n / 10) (by omega) (by omega)
      exact ⟨c, cs ++ [48 + n % 10], by simp [e], h1, h2⟩

theorem natStr_zero : natStr 0 = [48] := by decide

theorem signedVal_pos (n : Nat) : signedVal [] n = (n : Int) := by simp [signedVal]
theorem signedVal_neg (n : Nat) : signedVal [45] n = -(n : Int) := by simp [signedVal]

/-- a digit string that starts with 1-9, followed by a delimiter, is a decimalValue token with that value -/
theorem lexNumber_nonzero (sign : Str) (hs : sign = [] ∨ sign = [45]) (c : Nat) (cs rest : Str)
    (h1 : 49 ≤ c) (h2 : c ≤ 57) (hd : cs.all isDigit = true) (hr : Delim rest) :
    lexNumber (sign ++ c :: cs ++ rest) = some (.int (signedVal sign (digitsVal 10 (c :: cs))), rest) := by
  have hsg : optSign (sign ++ c :: cs ++ rest) = (sign, c :: cs ++ rest) := by
    rcases hs with h | h <;> subst h
    · have a : c ≠ 43 := by omega
      have b : c ≠ 45 := by omega
      simp [optSign]
      split <;> simp_all
    · simp [optSign]
  have hcd : isDigit c = true := by simp [isDigit]; omega
  have hrest : ∀ x r, rest = x :: r → isDigit x = false := by
    intro x r e; subst e; exact hr.1
  have hspan : spanP isDigit (c :: cs ++ rest) = (c :: cs, rest) := by
    have := spanP_append isDigit (c :: cs) rest (by simp [hcd, hd]) hrest
    simpa using this
  have hspan2 : spanP isDigit (cs ++ rest) = (cs, rest) := spanP_append isDigit cs rest hd hrest
  have c48 : c ≠ 48 := by omega
  have hF : lexFloat (sign ++ c :: cs ++ rest) = none := by
    unfold lexFloat
    simp only [hsg, hspan]
    cases rest with
    | nil => rfl
    | cons x r =>
      have : x ≠ 46 := hr.2.1
      split
      · rename_i heq; simp at heq; exact absurd heq.1 this
      · rfl
  have hH : lexHex (sign ++ c :: cs ++ rest) = none := by
    unfold lexHex
    simp only [hsg]
    split
    · rename_i heq; simp at heq; exact absurd heq.1 c48
    · rfl
  have hB : lexBinary (sign ++ c :: cs ++ rest) = none := by
    unfold lexBinary
    simp only [hsg, hspan]
    cases rest with
    | nil => simp
    | cons x r =>
      have a : x ≠ 98 := hr.2.2.2.2.1
      have b : x ≠ 66 := hr.2.2.2.2.2
      simp [a, b]
  have hO : lexOctal (sign ++ c :: cs ++ rest) = none := by
    unfold lexOctal
    simp only [hsg]
    split
    · rename_i heq; simp at heq; exact absurd heq.1 c48
    · rfl
  have hD : lexDecimal (sign ++ c :: cs ++ rest) = some (signedVal sign (digitsVal 10 (c :: cs)), rest) := by
    unfold lexDecimal
    simp only [hsg]
    simp [h1, h2, hspan2]
  unfold lexNumber; rw [hF, hH, hB, hO, hD]

/-- "0" followed by a delimiter is the decimalValue 0 -/
theorem lexNumber_zero (rest : Str) (hr : Delim rest) : lexNumber (48 :: rest) = some (.int 0, rest) := by
  have hsg : optSign (48 :: rest) = ([], 48 :: rest) := by simp [optSign]
  have hrest : ∀ x r, rest = x :: r → isDigit x = false := by
    intro x r e; subst e; exact hr.1
  have hspan : spanP isDigit (48 :: rest) = ([48], rest) := by
    have := spanP_append isDigit [48] rest (by decide) hrest
    simpa using this
  have hspan0 : spanP isDigit rest = ([], rest) := by
    have := spanP_append isDigit [] rest (by decide) hrest
    simpa using this
  have hF : lexFloat (48 :: rest) = none := by
    unfold lexFloat
    simp only [hsg, hspan]
    cases rest with
    | nil => rfl
    | cons x r =>
      have : x ≠ 46 := hr.2.1
      split
      · rename_i heq; simp at heq; exact absurd heq.1 this
      · rfl
  have hH : lexHex (48 :: rest) = none := by
    unfold lexHex
    simp only [hsg]
    cases rest with
    | nil => rfl
    | cons x r =>
      have a : x ≠ 120 := hr.2.2.1
      have b : x ≠ 88 := hr.2.2.2.1
      simp [a, b]
  have hB : lexBinary (48 :: rest) = none := by
    unfold lexBinary
    simp only [hsg, hspan]
    cases rest with
    | nil => simp
    | cons x r =>
      have a : x ≠ 98 := hr.2.2.2.2.1
      have b : x ≠ 66 := hr.2.2.2.2.2
      simp [a, b]
  have hO : lexOctal (48 :: rest) = none := by
    unfold lexOctal
    simp only [hsg, hspan0]
    simp
  have hD : lexDecimal (48 :: rest) = some (0, rest) := by
    unfold lexDecimal
    simp only [hsg]
    simp
  unfold lexNumber; rw [hF, hH, hB, hO, hD]

theorem lexNumber_intStr (v : Int) (rest : Str) (hr : Delim rest) :
    lexNumber (intStr v ++ rest) = some (.int v, rest) := by
  unfold intStr
  by_cases hneg : v < 0
  · simp only [hneg, if_true]
    have hpos : 0 < v.natAbs := by omega
    obtain ⟨c, cs, e, h1, h2⟩ := decDigits_head (v.natAbs + 1) v.natAbs (by omega) hpos
    have hd := decDigits_digits (v.natAbs + 1) v.natAbs (by omega)
    have hv := decDigits_val (v.natAbs + 1) v.natAbs (by omega)
    unfold natStr
    rw [e] at hd hv ⊢
    simp only [List.all_cons, Bool.and_eq_true] at hd
    have := lexNumber_nonzero [45] (.inr rfl) c cs rest h1 h2 hd.2 hr
    simp only [List.cons_append, List.nil_append] at this ⊢
    rw [this, hv, signedVal_neg]
    congr 3; omega
  · simp only [hneg, if_false]
    by_cases hz : v = 0
    · subst hz
      simp only [Int.natAbs_zero, natStr_zero, List.cons_append, List.nil_append]
      exact lexNumber_zero rest hr
    · have hpos : 0 < v.natAbs := by omega
      obtain ⟨c, cs, e, h1, h2⟩ := decDigits_head (v.natAbs + 1) v.natAbs (by omega) hpos
      have hd := decDigits_digits (v.natAbs + 1) v.natAbs (by omega)
      have hv := decDigits_val (v.natAbs + 1) v.natAbs (by omega)
      unfold natStr
      rw [e] at hd hv ⊢
      simp only [List.all_cons, Bool.and_eq_true] at hd
      have := lexNumber_nonzero [] (.inl rfl) c cs rest h1 h2 hd.2 hr
      simp only [List.cons_append, List.nil_append] at this ⊢
      rw [this, hv, signedVal_pos]
      congr 3; omega

end Pywbem.Lemmas.MofNum
