/-
C17 helper lemmas, part 3: handler threads (one per connection) — progress and linearisability.
-/
import Proofs.Lemmas.ListenerHttp

namespace Proofs.ListenerHttp
open Pywbem.Proto Pywbem.Model Pywbem.Model.XmlText Pywbem.Model.ListenerHttp

theorem run_append (cfg : Cfg) (s : LState) (a b : List Ev) :
    run cfg s (a ++ b) = ((run cfg (run cfg s a).1 b).1, (run cfg s a).2 ++ (run cfg (run cfg s a).1 b).2) := by
  induction a generalizing s with
  | nil => simp [run]
  | cons e es ih => simp only [List.cons_append, run, ih]

/-- every pending connection is one whose handler really has to wait -/
def AllWait (cfg : Cfg) (cs : CState) : Prop := ∀ c ∈ cs.pending, c.waits cfg = true

theorem advance_lin (cfg : Cfg) (cs : CState) (c : Conn) :
    run cfg cs.ls (advance cfg cs c).trace = ((advance cfg cs c).st.ls, (advance cfg cs c).obs) := by
  unfold advance
  by_cases h : c.waits cfg = true
  · simp [h, run]
  · simp [h, run]

theorem advance_wait (cfg : Cfg) (cs : CState) (c : Conn) (h : AllWait cfg cs) : AllWait cfg (advance cfg cs c).st := by
  unfold advance
  by_cases hw : c.waits cfg = true
  · simp only [hw, ↓reduceIte]
    intro x hx
    simp only [List.mem_append, List.mem_singleton] at hx
    rcases hx with hx | rfl
    · exact h x hx
    · exact hw
  · simp only [hw]
    exact h

theorem removeConn_sub (id : Nat) (l : List Conn) : ∀ c ∈ removeConn id l, c ∈ l := by
  intro c hc
  simp only [removeConn, List.mem_filter] at hc
  exact hc.1

theorem cstep_lin (cfg : Cfg) (cs : CState) (e : CEv) :
    run cfg cs.ls (cstep cfg cs e).trace = ((cstep cfg cs e).st.ls, (cstep cfg cs e).obs) := by
  cases e with
  | connect c => exact advance_lin cfg cs c
  | send id octets =>
    simp only [cstep]
    split
    · simp [run]
    · rename_i c _; exact advance_lin cfg { ls := cs.ls, pending := removeConn id cs.pending } _
  | shut id =>
    simp only [cstep]
    split
    · simp [run]
    · rename_i c _; exact advance_lin cfg { ls := cs.ls, pending := removeConn id cs.pending } _
  | deliver => simp [cstep, run]

theorem cstep_wait (cfg : Cfg) (cs : CState) (e : CEv) (h : AllWait cfg cs) : AllWait cfg (cstep cfg cs e).st := by
  cases e with
  | connect c => exact advance_wait cfg cs c h
  | send id octets =>
    simp only [cstep]
    split
    · exact h
    · exact advance_wait cfg _ _ (fun c hc => h c (removeConn_sub id _ c hc))
  | shut id =>
    simp only [cstep]
    split
    · exact h
    · exact advance_wait cfg _ _ (fun c hc => h c (removeConn_sub id _ c hc))
  | deliver => exact fun c hc => h c hc

theorem crun_lin (cfg : Cfg) (cs : CState) (evs : List CEv) :
    run cfg cs.ls (crun cfg cs evs).trace = ((crun cfg cs evs).st.ls, (crun cfg cs evs).obs) := by
  induction evs generalizing cs with
  | nil => simp [crun, run]
  | cons e es ih =>
    simp only [crun]
    rw [run_append, cstep_lin, ih]

theorem crun_wait (cfg : Cfg) (cs : CState) (evs : List CEv) (h : AllWait cfg cs) : AllWait cfg (crun cfg cs evs).st := by
  induction evs generalizing cs with
  | nil => simpa [crun] using h
  | cons e es ih =>
    simp only [crun]
    exact ih _ (cstep_wait cfg cs e h)

end Proofs.ListenerHttp

namespace Proofs.ListenerHttp
open Pywbem.Proto Pywbem.Model Pywbem.Model.XmlText Pywbem.Model.ListenerHttp

/-! ### the request line -/

theorem emitError_cases (v : Str) (code : Nat) : emitError v code = .bare code ∨ emitError v code = .stdlib code := by
  unfold emitError; split <;> simp

/-- the only things parse_request itself sends -/
theorem parseRequestLine_reject {raw : Str} {w : Wire} (h : parseRequestLine raw = .reject w) :
    w = .stdlib 414 ∨ w = .bare 400 ∨ w = .bare 505 ∨ w = .stdlib 400 := by
  unfold parseRequestLine at h
  split at h
  · cases h; exact Or.inl rfl
  · split at h
    · cases h
    · simp only at h
      split at h
      · cases h
      · split at h
        · rename_i w' hv
          cases h
          split at hv
          · split at hv
            · cases hv; exact Or.inr (Or.inl rfl)
            · split at hv
              · cases hv; exact Or.inr (Or.inr (Or.inl rfl))
              · cases hv
          · cases hv
        · rename_i ver hv
          split at h
          · split at h
            · cases h; exact Or.inr (Or.inl rfl)
            · cases h
          · cases h
          · cases h
            rcases emitError_cases ver 400 with e | e <;> rw [e] <;> simp

end Proofs.ListenerHttp

namespace Proofs.ListenerHttp
open Pywbem.Proto Pywbem.Model Pywbem.Model.XmlText Pywbem.Model.ListenerHttp

/-! ### the Date and Server header values -/

theorem replicate_zero_printable (n : Nat) : printable (List.replicate n '0') = true := by
  induction n with
  | zero => rfl
  | succ n ih => simp only [List.replicate_succ, printable_cons, ih, Bool.and_true]; decide

theorem padNat_printable (w n : Nat) : printable (padNat w n) = true := by
  simp [padNat, printable_append, replicate_zero_printable, natStr_printable]

theorem getD_printable (l : List String) (i : Nat) (h : ∀ x ∈ l, printable x.toList = true) :
    printable (l.getD i "???").toList = true := by
  rw [List.getD_eq_getElem?_getD]
  cases hx : l[i]? with
  | none => decide
  | some x => exact h x (List.mem_of_getElem? hx)

theorem weekday_printable (i : Nat) : printable (weekdayNames.getD i "???").toList = true :=
  getD_printable _ _ (by decide)

theorem month_printable (i : Nat) : printable (monthNames.getD i "???").toList = true :=
  getD_printable _ _ (by decide)

theorem dateString_printable (wd d mon y hh mm ss : Nat) : printable (dateString wd d mon y hh mm ss) = true := by
  have h1 : printable ", ".toList = true := by decide
  have h2 : printable " GMT".toList = true := by decide
  have hs : printableC ' ' = true := by decide
  have hc : printableC ':' = true := by decide
  have hw := weekday_printable wd
  have hm := month_printable (mon - 1)
  simp only [dateString, printable_append, printable_cons, padNat_printable, hw, hm, h1, h2, hs, hc, Bool.and_self]

end Proofs.ListenerHttp
