/-
Helper lemmas for C13 (association traversal): name/path equivalence, membership characterisations of
the traversal functions of `Pywbem.Model.Assoc`.
-/
import Pywbem.Model.Assoc

namespace Pywbem.Model.Assoc
open Pywbem.Proto

/-- decidable equality of model outcomes (for the closed witnesses checked by `decide`) -/
instance instDecEqExcept {α : Type} [DecidableEq α] : DecidableEq (Except PyExc α)
  | .ok a, .ok b => if h : a = b then isTrue (by rw [h]) else isFalse (by intro h'; cases h'; exact h rfl)
  | .error a, .error b => if h : a = b then isTrue (by rw [h]) else isFalse (by intro h'; cases h'; exact h rfl)
  | .ok _, .error _ => isFalse (by intro h; cases h)
  | .error _, .ok _ => isFalse (by intro h; cases h)

/-! ### names and paths: equivalence laws -/

theorem ieq_iff {a b : Name} : ieq a b = true ↔ lower a = lower b := by simp [ieq]

theorem ieq_refl (a : Name) : ieq a a = true := by simp [ieq]

theorem ieq_symm {a b : Name} (h : ieq a b = true) : ieq b a = true := by
  rw [ieq_iff] at *; exact h.symm

theorem ieq_trans {a b c : Name} (h1 : ieq a b = true) (h2 : ieq b c = true) : ieq a c = true := by
  rw [ieq_iff] at *; exact h1.trans h2

/-- `ieq` depends on its arguments only through `lower` -/
theorem ieq_congr_right {a b c : Name} (h : lower b = lower c) : ieq a b = ieq a c := by
  simp [ieq, h]

theorem ieq_congr_left {a b c : Name} (h : lower a = lower b) : ieq a c = ieq b c := by
  simp [ieq, h]

theorem eqOptName_refl (a : Option Name) : eqOptName a a = true := by
  cases a <;> simp [eqOptName, ieq_refl]

theorem eqOptName_symm {a b : Option Name} (h : eqOptName a b = true) : eqOptName b a = true := by
  cases a <;> cases b <;> simp_all [eqOptName]
  exact ieq_symm h

theorem eqOptName_trans {a b c : Option Name} (h1 : eqOptName a b = true) (h2 : eqOptName b c = true) :
    eqOptName a c = true := by
  cases a <;> cases b <;> cases c <;> simp_all [eqOptName]
  exact ieq_trans h1 h2

theorem eqv_iff {a b : Path} : a.eqv b = true ↔
    eqOptName a.host b.host = true ∧ eqOptName a.ns b.ns = true ∧ ieq a.cls b.cls = true ∧ a.key = b.key := by
  simp [Path.eqv, and_assoc]

theorem eqv_refl (a : Path) : a.eqv a = true := by
  rw [eqv_iff]; exact ⟨eqOptName_refl _, eqOptName_refl _, ieq_refl _, rfl⟩

theorem eqv_symm {a b : Path} (h : a.eqv b = true) : b.eqv a = true := by
  rw [eqv_iff] at *
  exact ⟨eqOptName_symm h.1, eqOptName_symm h.2.1, ieq_symm h.2.2.1, h.2.2.2.symm⟩

theorem eqv_trans {a b c : Path} (h1 : a.eqv b = true) (h2 : b.eqv c = true) : a.eqv c = true := by
  rw [eqv_iff] at *
  exact ⟨eqOptName_trans h1.1 h2.1, eqOptName_trans h1.2.1 h2.2.1, ieq_trans h1.2.2.1 h2.2.2.1,
    h1.2.2.2.trans h2.2.2.2⟩

/-- equivalent paths are interchangeable on the right of `eqv` -/
theorem eqv_congr_right {v x x' : Path} (h : x.eqv x' = true) : v.eqv x = v.eqv x' := by
  cases h1 : v.eqv x <;> cases h2 : v.eqv x' <;> try rfl
  · have := eqv_trans h2 (eqv_symm h); simp_all
  · have := eqv_trans h1 h; simp_all

theorem eqv_false_of {v x y : Path} (h1 : v.eqv x = true) (h2 : y.eqv x = false) : v.eqv y = false := by
  cases h : v.eqv y
  · rfl
  · have := eqv_trans (eqv_symm h) h1; simp_all

/-! ### filters -/

theorem truthy_false_classAdmits {cs : List Cls} {f : Option Name} (h : truthy f = false) (c : Name) :
    classAdmits cs f c = true := by simp [classAdmits, h]

theorem lcOpt_none_of_not_truthy {f : Option Name} (h : truthy f = false) : lcOpt f = none := by
  cases f with
  | none => rfl
  | some n => simp [truthy] at h; simp [lcOpt, h]

theorem truthy_false_roleAdmits {f : Option Name} (h : truthy f = false) (p : Name) :
    roleAdmits f p = true := by simp [roleAdmits, lcOpt_none_of_not_truthy h]

theorem filterClassOk_of_not_truthy {cs : List Cls} {f : Option Name} (h : truthy f = false) :
    filterClassOk cs f = true := by
  cases f with
  | none => rfl
  | some n => simp [truthy] at h; simp [filterClassOk, h]

theorem subclassesLc_of_not_truthy {cs : List Cls} {f : Option Name} (h : truthy f = false) :
    subclassesLc cs f = [] := by
  cases f with
  | none => rfl
  | some n => simp [truthy] at h; simp [subclassesLc, h]

/-! ### instance level: membership -/

theorem refPropHit_iff {cs : List Cls} {x : Path} {rc role : Option Name} {ic : Name} {p : IProp} :
    refPropHit cs x rc role ic p = true ↔
      p.isRef = true ∧ (∃ v, p.value = some v ∧ v.eqv x = true) ∧ classAdmits cs rc ic = true ∧
        roleAdmits role p.name = true := by
  unfold refPropHit
  cases hv : p.value with
  | none => simp
  | some v => simp [and_assoc]

theorem otherEnd_iff {cs : List Cls} {x y : Path} {rc rrole : Option Name} {p : IProp} :
    otherEnd cs x rc rrole p = some y ↔
      p.isRef = true ∧ p.value = some y ∧ y.eqv x = false ∧ classAdmits cs rc y.cls = true ∧
        roleAdmits rrole p.name = true := by
  unfold otherEnd
  cases hr : p.isRef with
  | false => simp
  | true =>
    cases hv : p.value with
    | none => simp
    | some v =>
      by_cases h1 : v.eqv x = true
      · simp [h1]; intro h; subst h; simp [h1]
      · by_cases h2 : classAdmits cs rc v.cls = true
        · by_cases h3 : roleAdmits rrole p.name = true
          · simp [h1, h2, h3]; intro h; subst h; simp_all
          · simp [h1, h2, h3]
        · simp [h1, h2]; intro h; subst h; simp_all

theorem mem_refInsts {S : NsStore} {x : Path} {rc role : Option Name} {a : Inst} :
    a ∈ refInsts S x rc role ↔ a ∈ S.insts ∧ ∃ p ∈ a.props, refPropHit S.classes x rc role a.cls p = true := by
  simp [refInsts, List.mem_filter]

theorem refInstsE_ok {S : NsStore} {x : Path} {rc role : Option Name} {l : List Inst}
    (h : refInstsE S x rc role = .ok l) :
    classExists S.classes x.cls = true ∧ filterClassOk S.classes rc = true ∧ l = refInsts S x rc role := by
  unfold refInstsE at h
  by_cases h1 : classExists S.classes x.cls = true
  · by_cases h2 : filterClassOk S.classes rc = true
    · simp [h1, h2] at h; exact ⟨h1, h2, h.symm⟩
    · simp [h1, h2] at h
  · simp [h1] at h

theorem refInstsE_eq_ok {S : NsStore} {x : Path} {rc role : Option Name}
    (h1 : classExists S.classes x.cls = true) (h2 : filterClassOk S.classes rc = true) :
    refInstsE S x rc role = .ok (refInsts S x rc role) := by
  simp [refInstsE, h1, h2]

theorem refInstsE_error {S : NsStore} {x : Path} {rc role : Option Name} {e : PyExc}
    (h : refInstsE S x rc role = .error e) : e = errParam := by
  unfold refInstsE at h
  by_cases h1 : classExists S.classes x.cls = true
  · by_cases h2 : filterClassOk S.classes rc = true
    · simp [h1, h2] at h
    · simp [h1, h2] at h; exact h.symm
  · simp [h1] at h; exact h.symm

theorem assocInstNames_ok {S : NsStore} {x : Path} {f : AFilter} {l : List Path}
    (h : assocInstNames S x f = .ok l) :
    filterClassOk S.classes f.assocClass = true ∧ filterClassOk S.classes f.resultClass = true ∧
    classExists S.classes x.cls = true ∧
    l = (refInsts S x f.assocClass f.role).flatMap
          (fun a => a.props.filterMap (otherEnd S.classes x f.resultClass f.resultRole)) := by
  unfold assocInstNames at h
  by_cases h1 : filterClassOk S.classes f.assocClass = true
  · by_cases h2 : filterClassOk S.classes f.resultClass = true
    · simp only [h1, h2, Bool.not_true, Bool.false_eq_true, if_false] at h
      cases hr : refInstsE S x f.assocClass f.role with
      | error e => simp [hr] at h
      | ok l0 =>
        simp [hr] at h
        have := refInstsE_ok hr
        exact ⟨h1, h2, this.1, by rw [← h, this.2.2]⟩
    · simp [h1, h2] at h
  · simp [h1] at h

theorem assocInstNames_eq_ok {S : NsStore} {x : Path} {f : AFilter}
    (h1 : filterClassOk S.classes f.assocClass = true) (h2 : filterClassOk S.classes f.resultClass = true)
    (h3 : classExists S.classes x.cls = true) :
    assocInstNames S x f = .ok ((refInsts S x f.assocClass f.role).flatMap
          (fun a => a.props.filterMap (otherEnd S.classes x f.resultClass f.resultRole))) := by
  simp [assocInstNames, h1, h2, refInstsE_eq_ok h3 h1]

theorem assocInstNames_error {S : NsStore} {x : Path} {f : AFilter} {e : PyExc}
    (h : assocInstNames S x f = .error e) : e = errParam := by
  unfold assocInstNames at h
  by_cases h1 : filterClassOk S.classes f.assocClass = true
  · by_cases h2 : filterClassOk S.classes f.resultClass = true
    · simp only [h1, h2, Bool.not_true, Bool.false_eq_true, if_false] at h
      cases hr : refInstsE S x f.assocClass f.role with
      | error e' => simp [hr] at h; rw [← h]; exact refInstsE_error hr
      | ok l0 => simp [hr] at h
    · simp [h1, h2] at h; exact h.symm
  · simp [h1] at h; exact h.symm

/-- membership in the result of `_get_associated_instancenames`, in terms of the two property tests -/
theorem mem_assocInstNames {S : NsStore} {x : Path} {f : AFilter} {l : List Path}
    (h : assocInstNames S x f = .ok l) (y : Path) :
    y ∈ l ↔ ∃ a ∈ S.insts, (∃ p ∈ a.props, refPropHit S.classes x f.assocClass f.role a.cls p = true) ∧
                           (∃ q ∈ a.props, otherEnd S.classes x f.resultClass f.resultRole q = some y) := by
  obtain ⟨_, _, _, hl⟩ := assocInstNames_ok h
  subst hl
  simp only [List.mem_flatMap, List.mem_filterMap, mem_refInsts]
  constructor
  · rintro ⟨a, ⟨ha, hp⟩, hq⟩; exact ⟨a, ha, hp, hq⟩
  · rintro ⟨a, ha, hp, hq⟩; exact ⟨a, ⟨ha, hp⟩, hq⟩

/-! ### mapE -/

theorem mapE_ok_iff {α β : Type} {f : α → Except PyExc β} {l : List α} {r : List β} :
    mapE f l = .ok r ↔ l.map f = r.map Except.ok := by
  induction l generalizing r with
  | nil => cases r <;> simp [mapE]
  | cons a as ih =>
    simp only [mapE]
    cases hfa : f a with
    | error e => cases r <;> simp [hfa]
    | ok b =>
      cases hm : mapE f as with
      | error e =>
        cases r with
        | nil => simp
        | cons b' bs =>
          simp [hfa]
          intro _ h2
          have := ih.mpr h2
          simp_all
      | ok bs =>
        cases r with
        | nil => simp
        | cons b' bs' =>
          simp [hfa]
          intro _
          constructor
          · intro h2; subst h2; exact ih.mp hm
          · intro h2
            have := ih.mpr h2
            simp_all

theorem mapE_ok_of_forall {α β : Type} {f : α → Except PyExc β} {g : α → β} {l : List α}
    (h : ∀ a ∈ l, f a = .ok (g a)) : mapE f l = .ok (l.map g) := by
  induction l with
  | nil => rfl
  | cons a as ih =>
    have h1 := h a (List.mem_cons_self ..)
    have h2 := ih (fun b hb => h b (List.mem_cons_of_mem _ hb))
    simp [mapE, h1, h2]

theorem mapE_map_ok {α β γ : Type} {f : β → Except PyExc γ} {h : α → β} {g : α → γ} {l : List α}
    (hyp : ∀ a ∈ l, f (h a) = .ok (g a)) : mapE f (l.map h) = .ok (l.map g) := by
  induction l with
  | nil => rfl
  | cons a as ih =>
    have h1 := hyp a (List.mem_cons_self ..)
    have h2 := ih (fun b hb => hyp b (List.mem_cons_of_mem _ hb))
    simp [mapE, h1, h2]

theorem mapE_error_mem {α β : Type} {f : α → Except PyExc β} {l : List α} {e : PyExc}
    (h : mapE f l = .error e) : ∃ a ∈ l, f a = .error e := by
  induction l with
  | nil => simp [mapE] at h
  | cons a as ih =>
    simp only [mapE] at h
    cases hfa : f a with
    | error e' => simp [hfa] at h; exact ⟨a, List.mem_cons_self .., by rw [hfa, h]⟩
    | ok b =>
      cases hm : mapE f as with
      | error e' =>
        simp [hfa, hm] at h
        obtain ⟨a', ha', hf⟩ := ih (by rw [hm, h])
        exact ⟨a', List.mem_cons_of_mem _ ha', hf⟩
      | ok bs => simp [hfa, hm] at h

end Pywbem.Model.Assoc
