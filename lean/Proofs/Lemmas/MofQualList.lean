/-
Helper lemmas for C08 stage 2: qualifier lists (`CIMQualifier.tomof`, `_qualifiers_tomof`, `p_qualifierList`,
`p_qualifier`).
-/
import Proofs.Lemmas.MofQual

set_option linter.unusedSimpArgs false
set_option linter.unusedVariables false

namespace Pywbem.Lemmas.MofQualList
open Pywbem.Proto Pywbem.Model Pywbem.Model.MofStr Pywbem.Model.MofLex Pywbem.Model.MofVal Pywbem.Model.MofDecl
open Pywbem.Lemmas.MofStr Pywbem.Lemmas.MofNum Pywbem.Lemmas.MofTok Pywbem.Lemmas.MofValue Pywbem.Lemmas.MofDoc
open Pywbem.Lemmas.MofQual

abbrev Str := List Nat

/-- a qualifier value that MOF can express in the presence of the declarations `decls`: its declaration is there,
    type and flavors are those of the declaration (tomof() writes no flavors: the documented default), the value
    fits the type -/
structure QualifierOk (c : Codec) (L : CodecLaws c) (decls : List (QualDecl c)) (q : Qualifier c) : Prop where
  nameWord : IsWord q.name
  nameOk : qualNameOf q.name = some q.name
  decl : ∃ d, findDecl decls q.name = some d ∧ d.ty = q.ty ∧ d.flavors = q.flavors
  valueOk : ValueOk c L q.ty q.value

def qOpen (isList : Bool) (sp : Bool) : Str := [32] ++ (if isList then [123] else [40]) ++ (if sp then [32] else [])
def qClose (isList : Bool) : Str := if isList then kSpBrace else kSpParen

def qPieces {c : Codec} (q : Qualifier c) (sp : Bool) (out : Str) (toks : List Tok) : List Piece :=
  [.word q.name, .sep (qOpen (Value.isList q.value) sp), .val out toks, .sep (qClose (Value.isList q.value))]

def qToks {c : Codec} (q : Qualifier c) (toks : List Tok) : List Tok :=
  [Tok.id q.name, Tok.p (if Value.isList q.value then 123 else 40)] ++ toks ++
  [Tok.p (if Value.isList q.value then 125 else 41)]

theorem q_doc (c : Codec) (L : CodecLaws c) (q : Qualifier c) (hw : IsWord q.name) (hv : ValueOk c L q.ty q.value)
    (indent maxline : Nat) (hm : indent + 8 ≤ maxline) (linePos : Nat) (t : Str)
    (hr : qualifierTomof c q indent maxline linePos = .ok t) :
    ∃ toks ps, ValueToks c q.value toks ∧ t = docText ps ∧ (∀ p ∈ ps, p.Ok) ∧ WF ps ∧ docToks ps = qToks q toks := by
  unfold qualifierTomof at hr
  simp only [] at hr
  generalize hvm : valueToMof c q.ty q.value indent maxline _ 3 true = res at hr
  cases res with
  | error e => simp at hr
  | ok r =>
    simp only [Except.ok.injEq] at hr
    obtain ⟨toks, hvt, hlex⟩ := value_lex c L q.ty q.value hv indent maxline hm _ 3 true r.1 r.2 hvm
    refine ⟨toks, qPieces q (decide (r.1 ≠ [] ∧ r.1.head? ≠ some 10)) r.1 toks, hvt, ?_, ?_, ?_, ?_⟩
    · rw [← hr]
      by_cases hsp : r.1 ≠ [] ∧ r.1.head? ≠ some 10 <;>
        cases hl : Value.isList q.value <;>
          simp [qPieces, docText, Piece.text, qOpen, qClose, hsp, hl]
    · intro p hp
      simp only [qPieces, List.mem_cons, List.mem_nil_iff, or_false] at hp
      rcases hp with hp | hp | hp | hp <;> subst hp
      · exact hw
      · show (qOpen _ _).all isSepPlain = true
        cases Value.isList q.value <;> cases (decide (r.1 ≠ [] ∧ r.1.head? ≠ some 10)) <;> decide
      · exact hlex
      · show (qClose _).all isSepPlain = true
        cases Value.isList q.value <;> decide
    · refine ⟨.inr ?_, .inl trivial, .inr ?_, trivial⟩
      · show qOpen _ _ ≠ []
        cases Value.isList q.value <;> cases (decide (r.1 ≠ [] ∧ r.1.head? ≠ some 10)) <;> decide
      · show qClose _ ≠ []
        cases Value.isList q.value <;> decide
    · have e1 : punctToks [32, 40] = [Tok.p 40] := by decide
      have e2 : punctToks [32, 40, 32] = [Tok.p 40] := by decide
      have e3 : punctToks [32, 123] = [Tok.p 123] := by decide
      have e4 : punctToks [32, 123, 32] = [Tok.p 123] := by decide
      have e5 : punctToks kSpParen = [Tok.p 41] := by decide
      have e6 : punctToks kSpBrace = [Tok.p 125] := by decide
      cases hl : Value.isList q.value <;> cases (decide (r.1 ≠ [] ∧ r.1.head? ≠ some 10)) <;>
        simp [qPieces, qToks, docToks, Piece.toks, qOpen, qClose, hl, e1, e2, e3, e4, e5, e6]

/-! ### the list -/

def listSep (indent : Nat) : Str := kCommaNl ++ indentStr (indent + 1)

def listPieces (indent : Nat) : List (List Piece) → List Piece
  | [] => [.sep kBracketNl]
  | [p] => p ++ [.sep kBracketNl]
  | p :: q :: r => p ++ (.sep (listSep indent) :: listPieces indent (q :: r))

def listToks : List (List Tok) → List Tok
  | [] => [Tok.p 93]
  | [t] => t ++ [Tok.p 93]
  | t :: u :: r => t ++ (Tok.p 44 :: listToks (u :: r))

theorem listSep_sep (indent : Nat) : (listSep indent).all isSepPlain = true := by
  simp only [listSep, List.all_append, indent_sep, Bool.and_true]; decide

theorem listSep_ne (indent : Nat) : listSep indent ≠ [] := by simp [listSep, kCommaNl]

theorem listSep_toks (indent : Nat) : punctToks (listSep indent) = [Tok.p 44] := by
  have : ∀ n, punctToks (indentStr n) = [] := by
    intro n; induction n with
    | zero => rfl
    | succ n ih => simp only [indentStr, List.replicate_succ] at ih ⊢; simp [punctToks, isPunct, ih]
  simp only [listSep, kCommaNl]
  simp [punctToks, isPunct, this]

theorem listPieces_text (indent : Nat) : ∀ pss : List (List Piece),
    docText (listPieces indent pss) = joinSep (listSep indent) (pss.map docText) ++ kBracketNl
  | [] => by simp [listPieces, docText, joinSep, Piece.text]
  | [p] => by simp [listPieces, docText, joinSep, Piece.text]
  | p :: q :: r => by
    have := listPieces_text indent (q :: r)
    simp only [docText] at this ⊢
    simp only [listPieces, List.map_append, List.map_cons, List.flatten_append, List.flatten_cons, Piece.text, this,
      joinSep]
    simp
    rfl

theorem listPieces_toks (indent : Nat) : ∀ pss : List (List Piece),
    docToks (listPieces indent pss) = listToks (pss.map docToks)
  | [] => by simp [listPieces, docToks, listToks, Piece.toks]; decide
  | [p] => by
    have : punctToks kBracketNl = [Tok.p 93] := by decide
    simp [listPieces, docToks, listToks, Piece.toks, this]
  | p :: q :: r => by
    have := listPieces_toks indent (q :: r)
    simp only [docToks] at this ⊢
    simp only [listPieces, List.map_append, List.map_cons, List.flatten_append, List.flatten_cons, Piece.toks, this,
      listToks, listSep_toks]
    simp
    rfl

theorem listPieces_ok (indent : Nat) : ∀ pss : List (List Piece), (∀ ps ∈ pss, (∀ p ∈ ps, p.Ok) ∧ WF ps) →
    (∀ p ∈ listPieces indent pss, p.Ok) ∧ WF (listPieces indent pss)
  | [], _ => ⟨by intro p hp; simp [listPieces] at hp; subst hp; show kBracketNl.all isSepPlain = true; decide, trivial⟩
  | [ps], h => by
    obtain ⟨hok, hwf⟩ := h ps (by simp)
    refine ⟨?_, WF_append_gap _ _ hwf trivial (by show kBracketNl ≠ []; decide)⟩
    intro p hp
    simp only [listPieces, List.mem_append, List.mem_cons, List.mem_nil_iff, or_false] at hp
    rcases hp with hp | hp
    · exact hok p hp
    · subst hp; show kBracketNl.all isSepPlain = true; decide
  | ps :: qs :: r, h => by
    obtain ⟨hok, hwf⟩ := h ps (by simp)
    obtain ⟨rok, rwf⟩ := listPieces_ok indent (qs :: r) (fun x hx => h x (by simp [hx]))
    refine ⟨?_, WF_append_gap _ _ hwf (WF_sep_cons _ _ rwf) (listSep_ne indent)⟩
    intro p hp
    simp only [listPieces, List.mem_append, List.mem_cons] at hp
    rcases hp with hp | hp | hp
    · exact hok p hp
    · subst hp; exact listSep_sep indent
    · exact rok p hp

/-! ### all qualifiers of a list -/

inductive QAll (c : Codec) : List (Qualifier c) → List (List Tok) → Prop where
  | nil : QAll c [] []
  | cons {q qs t ts} : ValueToks c q.value t → QAll c qs ts → QAll c (q :: qs) (t :: ts)

def qToksList {c : Codec} : List (Qualifier c) → List (List Tok) → List (List Tok)
  | q :: qs, t :: ts => qToks q t :: qToksList qs ts
  | _, _ => []

theorem list_doc (c : Codec) (L : CodecLaws c) (indent maxline : Nat) (hm : indent + 1 + Generated.mofIndent + 8 ≤ maxline) :
    ∀ (qs : List (Qualifier c)) (ts : List Str), (∀ q ∈ qs, IsWord q.name ∧ ValueOk c L q.ty q.value) →
      qualifiersTomofList c indent maxline qs = .ok ts →
      ∃ (tokss : List (List Tok)) (pss : List (List Piece)), QAll c qs tokss ∧ ts = pss.map docText ∧ (∀ ps ∈ pss, (∀ p ∈ ps, p.Ok) ∧ WF ps) ∧
        pss.map docToks = qToksList qs tokss := by
  intro qs
  induction qs with
  | nil =>
    intro ts _ hr
    simp only [qualifiersTomofList, Except.ok.injEq] at hr
    exact ⟨[], [], .nil, by simp [← hr], by simp, rfl⟩
  | cons q qs ih =>
    intro ts hok hr
    simp only [qualifiersTomofList] at hr
    cases hq : qualifierTomof c q (indent + 1 + Generated.mofIndent) maxline (indent + 1) with
    | error e => simp [hq] at hr
    | ok t =>
      simp only [hq] at hr
      cases hrest : qualifiersTomofList c indent maxline qs with
      | error e => simp [hrest, Except.map] at hr
      | ok ts' =>
        simp only [hrest, Except.map, Except.ok.injEq] at hr
        obtain ⟨hw, hv⟩ := hok q (by simp)
        obtain ⟨toks, ps, hvt, htext, hpok, hpwf, hptoks⟩ := q_doc c L q hw hv _ maxline hm _ t hq
        obtain ⟨tokss, pss, hall, hts, hpss, htoks⟩ := ih ts' (fun x hx => hok x (by simp [hx])) hrest
        refine ⟨toks :: tokss, ps :: pss, .cons hvt hall, by simp [← hr, htext, hts], ?_, by simp [qToksList, hptoks, htoks]⟩
        intro x hx
        simp only [List.mem_cons] at hx
        rcases hx with hx | hx
        · subst hx; exact ⟨hpok, hpwf⟩
        · exact hpss x hx

/-! ### reading the list back -/

def ListEnd : List Tok → Prop
  | .p 44 :: _ => True
  | .p 93 :: _ => True
  | _ => False

theorem listEnd_noStr (r : List Tok) (h : ListEnd r) : NoStrHead r := by
  cases r with
  | nil => trivial
  | cons a b => cases a <;> first | trivial | exact absurd h (by simp [ListEnd])

theorem parseQualifier_toks (c : Codec) (L : CodecLaws c) (decls : List (QualDecl c)) (q : Qualifier c)
    (hok : QualifierOk c L decls q) (toks : List Tok) (ht : ValueToks c q.value toks) (rest : List Tok) :
    parseQualifier c decls (qToks q toks ++ rest) = some (q, rest) := by
  obtain ⟨d, hfd, hty, hfl⟩ := hok.decl
  obtain ⟨name, ty, value, flavors⟩ := q
  simp only at hfd hty hfl ht hok ⊢
  have hvok := hok.valueOk
  simp only at hvok
  cases value with
  | scalar s =>
    have hs : ScalarToks c s toks := ht
    have hp := parseConst_scalar c s toks (Tok.p 41 :: rest) hs trivial
    simp only [qToks, Value.isList, Bool.false_eq_true, if_false, List.cons_append, List.nil_append,
      List.append_assoc, parseQualifier, hok.nameOk, hfd, hp, hty]
    rw [typeRaw_scalar c L ty s hvok]
    simp [hfl]
  | array xs =>
    obtain ⟨tokss, hall, e⟩ := ht
    subst e
    have hp := parseInit_array c xs tokss rest hall
    simp only [qToks, Value.isList, if_true, List.cons_append, List.nil_append, List.append_assoc, parseQualifier,
      hok.nameOk, hfd, hp, hty]
    rw [typeRaws_scalars c L ty xs hvok]
    simp [hfl]

theorem parseQualsF_list (c : Codec) (L : CodecLaws c) (decls : List (QualDecl c)) :
    ∀ (qs : List (Qualifier c)) (tokss : List (List Tok)), qs ≠ [] → (∀ q ∈ qs, QualifierOk c L decls q) →
      QAll c qs tokss → ∀ (rest : List Tok) f, qs.length ≤ f →
      parseQualsF c decls f (listToks (qToksList qs tokss) ++ rest) = some (qs, rest) := by
  intro qs
  induction qs with
  | nil => intro _ h; exact absurd rfl h
  | cons q qs ih =>
    intro tokss _ hok hall rest f hf
    cases hall with
    | cons hq hrest =>
      rename_i t ts
      match f, hf with
      | f + 1, hf =>
        simp only [List.length_cons] at hf
        cases qs with
        | nil =>
          cases hrest
          have hp := parseQualifier_toks c L decls q (hok q (by simp)) t hq (Tok.p 93 :: rest)
          simp only [qToksList, listToks, List.append_assoc, List.cons_append, List.nil_append, parseQualsF, hp]
        | cons q2 qs2 =>
          cases hrest with
          | cons hq2 hrest2 =>
            rename_i t2 ts2
            have hp := parseQualifier_toks c L decls q (hok q (by simp)) t hq
              (Tok.p 44 :: (listToks (qToksList (q2 :: qs2) (t2 :: ts2)) ++ rest))
            have hrec := ih (t2 :: ts2) (by simp) (fun x hx => hok x (by simp [hx])) (.cons hq2 hrest2) rest f
              (by simp only [List.length_cons] at hf ⊢; omega)
            simp only [qToksList, listToks, List.append_assoc, List.cons_append, List.nil_append, parseQualsF] at hp hrec ⊢
            simp only [hp, hrec]
            simp

theorem qualifiers_roundtrip (c : Codec) (L : CodecLaws c) (decls : List (QualDecl c)) (qs : List (Qualifier c))
    (hok : ∀ q ∈ qs, QualifierOk c L decls q) (indent maxline : Nat)
    (hm : indent + 1 + Generated.mofIndent + 8 ≤ maxline) (text : Str)
    (hr : qualifiersTomof c qs indent maxline = .ok text) : readQualList c decls text = some qs := by
  unfold qualifiersTomof at hr
  by_cases hnil : qs = []
  · simp only [hnil, if_true, Except.ok.injEq] at hr
    subst hnil; rw [← hr]; rfl
  · simp only [hnil, if_false] at hr
    cases hl : qualifiersTomofList c indent maxline qs with
    | error e => simp [hl] at hr
    | ok ts =>
      simp only [hl, Except.ok.injEq] at hr
      obtain ⟨tokss, pss, hall, hts, hpss, htoks⟩ := list_doc c L indent maxline hm qs ts
        (fun q hq => ⟨(hok q hq).nameWord, (hok q hq).valueOk⟩) hl
      obtain ⟨lok, lwf⟩ := listPieces_ok indent pss hpss
      let ps : List Piece := .sep (indentStr indent ++ [91]) :: listPieces indent pss
      have hsep : (indentStr indent ++ [91]).all isSepPlain = true := by
        simp only [List.all_append, indent_sep, Bool.true_and]; decide
      have hpsok : ∀ p ∈ ps, p.Ok := by
        intro p hp
        simp only [ps, List.mem_cons] at hp
        rcases hp with hp | hp
        · subst hp; exact hsep
        · exact lok p hp
      have hpswf : WF ps := WF_sep_cons _ _ lwf
      have htext : text = docText ps := by
        rw [← hr, hts]
        have := listPieces_text indent pss
        simp only [docText] at this ⊢
        simp only [ps, List.map_cons, List.flatten_cons, Piece.text, this, listSep]
        simp
      have hlex := lex_doc_all ps hpsok hpswf
      rw [← htext] at hlex
      have hpt : punctToks (indentStr indent ++ [91]) = [Tok.p 91] := by
        have : ∀ n, punctToks (indentStr n ++ [91]) = [Tok.p 91] := by
          intro n; induction n with
          | zero => decide
          | succ n ih => simp only [indentStr, List.replicate_succ, List.cons_append] at ih ⊢; simp [punctToks, isPunct, ih]
        exact this indent
      have htk : docToks ps = Tok.p 91 :: listToks (qToksList qs tokss) := by
        have := listPieces_toks indent pss
        simp only [docToks] at this ⊢
        simp only [ps, List.map_cons, List.flatten_cons, Piece.toks, this, hpt, htoks]
        rfl
      rw [htk] at hlex
      have hparse := parseQualsF_list c L decls qs tokss hnil hok hall []
        ((listToks (qToksList qs tokss)).length + 1) ?_
      · simp only [List.append_nil] at hparse
        simp only [readQualList, hlex, parseQualList, hparse]
      · -- every qualifier contributes at least one token
        have : ∀ (qs : List (Qualifier c)) (tokss : List (List Tok)), QAll c qs tokss →
            qs.length ≤ (listToks (qToksList qs tokss)).length := by
          intro qs
          induction qs with
          | nil => intro _ _; simp
          | cons q r ih =>
            intro tokss h
            cases h with
            | cons hq hr2 =>
              rename_i t ts
              cases r with
              | nil => cases hr2; simp [qToksList, listToks, qToks]
              | cons q2 r2 =>
                cases hr2 with
                | cons hq2 hr3 =>
                  have := ih _ (.cons hq2 hr3)
                  simp only [qToksList, listToks, qToks, List.length_append, List.length_cons] at this ⊢
                  omega
        have := this qs tokss hall
        omega

end Pywbem.Lemmas.MofQualList
