/-
Helper lemmas for C08 stage 2: qualifier declarations and qualifier lists.
-/
import Pywbem.Model.MofDecl
import Proofs.Lemmas.MofDoc

set_option linter.unusedSimpArgs false
set_option linter.unusedVariables false

namespace Pywbem.Lemmas.MofQual
open Pywbem.Proto Pywbem.Model Pywbem.Model.MofStr Pywbem.Model.MofLex Pywbem.Model.MofVal Pywbem.Model.MofDecl
open Pywbem.Lemmas.MofStr Pywbem.Lemmas.MofNum Pywbem.Lemmas.MofTok Pywbem.Lemmas.MofValue Pywbem.Lemmas.MofDoc

abbrev Str := List Nat

/-! ### values as pieces -/

def ValueToks (c : Codec) : Value c → List Tok → Prop
  | .scalar s, toks => ScalarToks c s toks
  | .array xs, toks => ∃ tokss, AllToks c xs tokss ∧ toks = joinToks true tokss

theorem value_lex (c : Codec) (L : CodecLaws c) (ty : CimType) (v : Value c) (hv : ValueOk c L ty v)
    (indent maxline : Nat) (hw : indent + 8 ≤ maxline) (lp : Int) (es : Nat) (avoid : Bool) (out : Str) (lp' : Int)
    (hr : valueToMof c ty v indent maxline lp es avoid = .ok (out, lp')) :
    ∃ toks, ValueToks c v toks ∧ LexesTo out toks := by
  cases v with
  | scalar s =>
    simp only [valueToMof] at hr
    cases hi : scalarItem c ty s with
    | error e => simp [hi] at hr
    | ok i =>
      simp only [hi, valueTomof] at hr
      obtain ⟨toks, hst, hlex⟩ := scalar_lex c L ty s hv indent maxline hw lp es avoid i hi out lp' hr
      exact ⟨toks, hst, hlex⟩
  | array xs =>
    simp only [valueToMof] at hr
    cases hi : scalarItems c ty xs with
    | error e => simp [hi] at hr
    | ok is =>
      simp only [hi, valueTomof] at hr
      obtain ⟨tokss, hall, hlex⟩ := array_lex c L ty indent maxline hw es avoid xs is true lp out lp' hv hi hr
      exact ⟨_, ⟨tokss, hall, rfl⟩, hlex⟩

/-- the first token of a scalar is an identifier, a number or a string: never a PLY literal -/
def NotPunctHead : List Tok → Prop
  | .p _ :: _ => False
  | [] => False
  | _ => True

theorem scalarToks_head (c : Codec) (s : Scalar c) (toks : List Tok) (h : ScalarToks c s toks) :
    NotPunctHead toks := by
  unfold ScalarToks at h
  cases hr : rawOf c s <;> simp only [hr] at h
  · subst h; trivial
  · subst h; trivial
  · subst h; trivial
  · subst h; trivial
  · obtain ⟨ps, hne, _, e⟩ := h
    subst e
    cases ps with
    | nil => exact absurd rfl hne
    | cons a b => trivial

/-- what may follow a value: not a string token and not a comma -/
def ValueEnd : List Tok → Prop
  | .str _ :: _ => False
  | .p 44 :: _ => False
  | _ => True

theorem valueEnd_noStr (r : List Tok) (h : ValueEnd r) : NoStrHead r := by
  cases r with
  | nil => trivial
  | cons a b => cases a <;> first | trivial | exact absurd h (by simp [ValueEnd])

theorem parseConstList_rest (c : Codec) : ∀ (xs : List (Scalar c)) (tokss : List (List Tok)) (s : Scalar c)
    (toks rest : List Tok), ScalarToks c s toks → AllToks c xs tokss → ValueEnd rest →
    ∀ f, xs.length + 1 ≤ f →
      parseConstListF f (toks ++ joinToks false tokss ++ rest) = some (rawOf c s :: xs.map (rawOf c), rest) := by
  intro xs
  induction xs with
  | nil =>
    intro tokss s toks rest hs hf hrest f hfl
    cases hf
    match f, hfl with
    | f + 1, _ =>
      simp only [joinToks, List.append_nil, parseConstListF]
      rw [parseConst_scalar c s toks rest hs (valueEnd_noStr rest hrest)]
      cases rest with
      | nil => rfl
      | cons a b =>
        cases a with
        | p ch =>
          by_cases h44 : ch = 44
          · subst h44; exact absurd hrest (by simp [ValueEnd])
          · split
            · rename_i heq; simp at heq
            · rename_i heq; simp at heq; exact absurd heq.2.1 h44
            · rename_i heq; simp at heq; simp [heq.1, heq.2]
        | id _ => rfl
        | str _ => rfl
        | chr _ => rfl
        | num _ => rfl
  | cons x xs ih =>
    intro tokss s toks rest hs hf hrest f hfl
    cases hf with
    | cons hx hrest2 =>
      rename_i tx trest
      match f, hfl with
      | f + 1, hfl =>
        simp only [List.length_cons] at hfl
        have hns : NoStrHead (joinToks false (tx :: trest) ++ rest) := by simp [joinToks, NoStrHead]
        have hp := parseConst_scalar c s toks (joinToks false (tx :: trest) ++ rest) hs hns
        simp only [List.append_assoc] at hp ⊢
        simp only [parseConstListF, hp]
        simp only [joinToks, Bool.false_eq_true, if_false, List.cons_append, List.nil_append, List.append_assoc]
        have := ih trest x tx rest hx hrest2 hrest f (by omega)
        simp only [List.append_assoc] at this
        rw [this]
        simp

theorem joinToks_length' (c : Codec) (xs : List (Scalar c)) (tokss : List (List Tok)) (first : Bool)
    (h : AllToks c xs tokss) : xs.length ≤ (joinToks first tokss).length := joinToks_length c xs tokss first h

/-- `{ items }` is read back as the list of raw values -/
theorem parseInit_array (c : Codec) (xs : List (Scalar c)) (tokss : List (List Tok)) (rest : List Tok)
    (h : AllToks c xs tokss) :
    parseInit (Tok.p 123 :: (joinToks true tokss ++ Tok.p 125 :: rest)) = some (.inr (xs.map (rawOf c)), rest) := by
  cases h with
  | nil => simp [joinToks, parseInit]
  | cons hs hrest =>
    rename_i s ss t ts
    have hhead := scalarToks_head c s t hs
    have hlen := joinToks_length c (s :: ss) (t :: ts) true (.cons hs hrest)
    have hpl : parseConstList (joinToks true (t :: ts) ++ Tok.p 125 :: rest) =
        some ((s :: ss).map (rawOf c), Tok.p 125 :: rest) := by
      unfold parseConstList
      have := parseConstList_rest c ss ts s t (Tok.p 125 :: rest) hs hrest (by simp [ValueEnd])
        ((joinToks true (t :: ts) ++ Tok.p 125 :: rest).length + 1)
        (by simp only [List.length_cons, List.length_append] at hlen ⊢; omega)
      simpa [joinToks] using this
    cases t with
    | nil => exact absurd hhead (by simp [NotPunctHead])
    | cons a b =>
      cases a with
      | p ch => exact absurd hhead (by simp [NotPunctHead])
      | id w => simp only [joinToks, if_true, List.nil_append, List.cons_append] at hpl ⊢; simp only [parseInit, hpl]
      | str w => simp only [joinToks, if_true, List.nil_append, List.cons_append] at hpl ⊢; simp only [parseInit, hpl]
      | chr w => simp only [joinToks, if_true, List.nil_append, List.cons_append] at hpl ⊢; simp only [parseInit, hpl]
      | num w => simp only [joinToks, if_true, List.nil_append, List.cons_append] at hpl ⊢; simp only [parseInit, hpl]

/-- a scalar constant is read back as its raw value -/
theorem parseInit_scalar (c : Codec) (s : Scalar c) (toks rest : List Tok) (h : ScalarToks c s toks)
    (hr : NoStrHead rest) : parseInit (toks ++ rest) = some (.inl (rawOf c s), rest) := by
  have hhead := scalarToks_head c s toks h
  have hp := parseConst_scalar c s toks rest h hr
  cases toks with
  | nil => exact absurd hhead (by simp [NotPunctHead])
  | cons a b =>
    cases a with
    | p ch => exact absurd hhead (by simp [NotPunctHead])
    | id w => simp only [List.cons_append] at hp ⊢; simp [parseInit, hp]
    | str w => simp only [List.cons_append] at hp ⊢; simp [parseInit, hp]
    | chr w => simp only [List.cons_append] at hp ⊢; simp [parseInit, hp]
    | num w => simp only [List.cons_append] at hp ⊢; simp [parseInit, hp]

/-! ### comma-separated words -/

def wordsPieces : List Str → List Piece
  | [] => []
  | [w] => [.word w]
  | w :: v :: r => .word w :: .sep kCommaSp :: wordsPieces (v :: r)

def wordsToks : List Str → List Tok
  | [] => []
  | [w] => [Tok.id w]
  | w :: v :: r => Tok.id w :: Tok.p 44 :: wordsToks (v :: r)

theorem wordsPieces_text : ∀ ws, docText (wordsPieces ws) = joinSep kCommaSp ws
  | [] => rfl
  | [w] => by simp [wordsPieces, docText, joinSep, Piece.text]
  | w :: v :: r => by
    have := wordsPieces_text (v :: r)
    simp only [docText] at this
    simp [wordsPieces, docText, joinSep, Piece.text, this]

theorem wordsPieces_toks : ∀ ws, docToks (wordsPieces ws) = wordsToks ws
  | [] => rfl
  | [w] => by simp [wordsPieces, docToks, wordsToks, Piece.toks]
  | w :: v :: r => by
    have := wordsPieces_toks (v :: r)
    simp only [docToks] at this
    have hp : punctToks kCommaSp = [Tok.p 44] := by decide
    simp [wordsPieces, docToks, wordsToks, Piece.toks, this, hp]

theorem parseWordsF_words : ∀ (ws : List Str) (rest : List Tok), ws ≠ [] → ∀ f, ws.length ≤ f →
    parseWordsF f (wordsToks ws ++ Tok.p 41 :: rest) = some (ws, rest)
  | [], _, h, _, _ => absurd rfl h
  | [w], rest, _, f, hf => by
    match f, hf with
    | f + 1, _ => simp [wordsToks, parseWordsF]
  | w :: v :: r, rest, _, f, hf => by
    match f, hf with
    | f + 1, hf =>
      simp only [List.length_cons] at hf
      have := parseWordsF_words (v :: r) rest (by simp) f (by simp; omega)
      simp only [wordsToks, List.cons_append, parseWordsF, this]
      simp

/-! ### well-formedness helpers -/

def isWordB : Str → Bool
  | [] => false
  | c :: cs => isIdStart c && cs.all isIdChar

theorem isWord_of_B (w : Str) (h : isWordB w = true) : IsWord w := by
  cases w with
  | nil => simp [isWordB] at h
  | cons c cs =>
    simp only [isWordB, Bool.and_eq_true] at h
    exact ⟨c, cs, rfl, h.1, h.2⟩

theorem isWordB_of (w : Str) (h : IsWord w) : isWordB w = true := by
  obtain ⟨c, cs, e, h1, h2⟩ := h
  subst e; simp [isWordB, h1, h2]

def HeadGap : List Piece → Prop
  | [] => True
  | q :: _ => q.isGap

theorem WF_append_gap : ∀ (a b : List Piece), WF a → WF b → HeadGap b → WF (a ++ b)
  | [], b, _, hb, _ => hb
  | [p], [], _, _, _ => trivial
  | [p], q :: r, _, hb, hg => ⟨.inr hg, hb⟩
  | p :: p2 :: r, b, ha, hb, hg => ⟨ha.1, WF_append_gap (p2 :: r) b ha.2 hb hg⟩

theorem WF_sep_cons (r : Str) (ps : List Piece) (h : WF ps) : WF (.sep r :: ps) := by
  cases ps with
  | nil => trivial
  | cons q rest => exact ⟨.inl trivial, h⟩

theorem WF_cons_gap (p : Piece) (r : Str) (ps : List Piece) (hne : r ≠ []) (h : WF (.sep r :: ps)) :
    WF (p :: .sep r :: ps) := ⟨.inr hne, h⟩

theorem WF_words : ∀ ws, WF (wordsPieces ws)
  | [] => trivial
  | [w] => trivial
  | w :: v :: r => by
    have := WF_words (v :: r)
    exact ⟨.inr (by show kCommaSp ≠ []; decide), WF_sep_cons _ _ this⟩

theorem words_ok (ws : List Str) (h : ∀ w ∈ ws, IsWord w) : ∀ p ∈ wordsPieces ws, p.Ok := by
  induction ws with
  | nil => intro p hp; simp [wordsPieces] at hp
  | cons w r ih =>
    cases r with
    | nil => intro p hp; simp [wordsPieces] at hp; subst hp; exact h w (by simp)
    | cons v r =>
      intro p hp
      simp only [wordsPieces, List.mem_cons] at hp
      rcases hp with hp | hp | hp
      · subst hp; exact h w (by simp)
      · subst hp; show kCommaSp.all isSepPlain = true; decide
      · exact ih (fun x hx => h x (by simp [hx])) p hp

theorem indent_sep (n : Nat) : (indentStr n).all isSepPlain = true := by
  simp [indentStr, isSepPlain, isWs]

theorem tyStr_word (ty : CimType) : IsWord (tyStr ty) := by
  apply isWord_of_B; cases ty <;> decide

theorem dataTypeOf_tyStr (ty : CimType) (h : ty ≠ .reference) : dataTypeOf (tyStr ty) = some ty := by
  cases ty <;> first | rfl | exact absurd rfl h

theorem scopeWords_sub : ∀ (ns : List Str) (bs : List Bool), ∀ w ∈ scopeWords ns bs, w ∈ ns
  | [], _, w, h => by simp [scopeWords] at h
  | n :: ns, [], w, h => by simp [scopeWords] at h
  | n :: ns, b :: bs, w, h => by
    simp only [scopeWords, List.mem_append] at h
    rcases h with h | h
    · cases b <;> simp at h; subst h; simp
    · exact List.mem_cons_of_mem _ (scopeWords_sub ns bs w h)

theorem scopeNames_words : ∀ w ∈ scopeNames, IsWord w := by
  intro w hw
  apply isWord_of_B
  simp only [scopeNames, List.mem_cons, List.mem_nil_iff, or_false] at hw
  rcases hw with h | h | h | h | h | h | h | h <;> subst h <;> decide

theorem flavorWords_words (f : Flavors) : ∀ w ∈ flavorWords f, IsWord w := by
  intro w hw
  apply isWord_of_B
  obtain ⟨o, s, t, i⟩ := f
  simp only [flavorWords, List.mem_append] at hw
  rcases hw with (hw | hw) | hw
  · rcases o with _ | _ | _ <;> simp at hw <;> subst hw <;> decide
  · rcases s with _ | _ | _ <;> simp at hw <;> subst hw <;> decide
  · split at hw <;> simp at hw; subst hw; decide

/-- the flavors that survive tomof(): `translatable` only when true, `toinstance` never (documented) -/
def normFlavors (f : Flavors) : Flavors :=
  ⟨f.overridable, f.tosubclass, if f.translatable = some true then some true else none, none⟩

theorem buildFlavors_words (f : Flavors) : buildFlavors noFlavors (flavorWords f) = some (normFlavors f) := by
  obtain ⟨o, s, t, i⟩ := f
  rcases o with _ | _ | _ <;> rcases s with _ | _ | _ <;> rcases t with _ | _ | _ <;> rfl

theorem scopesOf_words (b1 b2 b3 b4 b5 b6 b7 b8 : Bool) :
    scopesOf (scopeWords scopeNames [b1, b2, b3, b4, b5, b6, b7, b8]) = some [b1, b2, b3, b4, b5, b6, b7, b8] := by
  cases b1 <;> cases b2 <;> cases b3 <;> cases b4 <;> cases b5 <;> cases b6 <;> cases b7 <;> cases b8 <;> rfl

theorem scopeWords_ne (bs : List Bool) (hl : bs.length = 8) (h : true ∈ bs) : scopeWords scopeNames bs ≠ [] := by
  match bs, hl with
  | [b1, b2, b3, b4, b5, b6, b7, b8], _ =>
    cases b1 <;> cases b2 <;> cases b3 <;> cases b4 <;> cases b5 <;> cases b6 <;> cases b7 <;> cases b8 <;>
      first | (exact absurd h (by decide)) | (intro e; exact absurd (congrArg List.length e) (by decide))

/-! ### the qualifier declaration as a document -/

def kwQualifier : Str := [81, 117, 97, 108, 105, 102, 105, 101, 114]
def kwScope : Str := [83, 99, 111, 112, 101]
def kwFlavor : Str := [70, 108, 97, 118, 111, 114]

def arrPieces (isArray : Bool) (size : Option Nat) : List Piece :=
  if isArray then [.sep [91]] ++ (match size with | some n => [.nat n] | none => []) ++ [.sep [93]] else []

def arrToksOf (isArray : Bool) (size : Option Nat) : List Tok :=
  if isArray then [Tok.p 91] ++ (match size with | some n => [Tok.num (.int (n : Int))] | none => []) ++ [Tok.p 93]
  else []

theorem arr_text (isArray : Bool) (size : Option Nat) :
    docText (arrPieces isArray size) =
      (if isArray then [91] ++ (match size with | some n => natStr n | none => []) ++ [93] else []) := by
  cases isArray <;> cases size <;> simp [arrPieces, docText, Piece.text]

theorem arr_toks (isArray : Bool) (size : Option Nat) :
    docToks (arrPieces isArray size) = arrToksOf isArray size := by
  have h91 : punctToks [91] = [Tok.p 91] := by decide
  have h93 : punctToks [93] = [Tok.p 93] := by decide
  cases isArray <;> cases size <;> simp [arrPieces, arrToksOf, docToks, Piece.toks, h91, h93]

theorem arr_ok (isArray : Bool) (size : Option Nat) : (∀ p ∈ arrPieces isArray size, p.Ok) ∧
    WF (arrPieces isArray size) ∧ HeadGap (arrPieces isArray size) := by
  have s91 : ([91] : Str).all isSepPlain = true := by decide
  have s93 : ([93] : Str).all isSepPlain = true := by decide
  cases isArray <;> cases size <;> simp [arrPieces, WF, HeadGap, Piece.isGap, Piece.isSep] <;>
    (try constructor) <;> (try intro p hp) <;> simp_all [Piece.Ok]

/-- what follows the array part in a declaration: `=`, `,`, `;`, `)` ... anything but `[` -/
def NotBracketHead : List Tok → Prop
  | .p 91 :: _ => False
  | _ => True

theorem parseArr_toks (isArray : Bool) (size : Option Nat) (hs : size.isSome = true → isArray = true)
    (rest : List Tok) (hr : NotBracketHead rest) :
    parseArr (arrToksOf isArray size ++ rest) = some ((isArray, size), rest) := by
  cases isArray with
  | true =>
    cases size with
    | none => simp [arrToksOf, parseArr]
    | some n => simp [arrToksOf, parseArr]
  | false =>
    cases size with
    | some n => simp at hs
    | none =>
      simp only [arrToksOf, Bool.false_eq_true, if_false, List.nil_append]
      cases rest with
      | nil => rfl
      | cons a b =>
        cases a with
        | p ch =>
          by_cases h : ch = 91
          · subst h; exact absurd hr (by simp [NotBracketHead])
          · unfold parseArr
            split <;> first | rfl | (rename_i heq; simp at heq; try exact absurd heq.1 h) | skip
            all_goals (rename_i heq; simp at heq; exact absurd heq.1 h)
        | id _ => rfl
        | str _ => rfl
        | chr _ => rfl
        | num _ => rfl

/-! ### `, Keyword(word, word, ...)` -/

def kwPieces (kw : Str) (ws : List Str) : List Piece :=
  [.sep (kCommaNl ++ indentStr (Generated.mofIndent + 1)), .word kw, .sep [40]] ++ wordsPieces ws ++ [.sep [41]]

def kwToks (kw : Str) (ws : List Str) : List Tok :=
  [Tok.p 44, Tok.id kw, Tok.p 40] ++ wordsToks ws ++ [Tok.p 41]

theorem kw_text (kw : Str) (ws : List Str) :
    docText (kwPieces kw ws) = kCommaNl ++ indentStr (Generated.mofIndent + 1) ++ kw ++ [40] ++ joinSep kCommaSp ws ++ [41] := by
  have := wordsPieces_text ws
  simp only [docText] at this
  simp [kwPieces, docText, Piece.text, this]

theorem kw_toks (kw : Str) (ws : List Str) : docToks (kwPieces kw ws) = kwToks kw ws := by
  have := wordsPieces_toks ws
  simp only [docToks] at this
  have h1 : punctToks (kCommaNl ++ indentStr (Generated.mofIndent + 1)) = [Tok.p 44] := by decide
  have h40 : punctToks [40] = [Tok.p 40] := by decide
  have h41 : punctToks [41] = [Tok.p 41] := by decide
  simp [kwPieces, kwToks, docToks, Piece.toks, this, h1, h40, h41]

theorem kw_ok (kw : Str) (hkw : IsWord kw) (ws : List Str) (hws : ∀ w ∈ ws, IsWord w) :
    (∀ p ∈ kwPieces kw ws, p.Ok) ∧ WF (kwPieces kw ws) ∧ HeadGap (kwPieces kw ws) := by
  have s1 : (kCommaNl ++ indentStr (Generated.mofIndent + 1)).all isSepPlain = true := by decide
  have s40 : ([40] : Str).all isSepPlain = true := by decide
  have s41 : ([41] : Str).all isSepPlain = true := by decide
  refine ⟨?_, ?_, ?_⟩
  · intro p hp
    simp only [kwPieces, List.mem_append, List.mem_cons, List.mem_nil_iff, or_false] at hp
    rcases hp with ((hp | hp | hp) | hp) | hp
    · subst hp; exact s1
    · subst hp; exact hkw
    · subst hp; exact s40
    · exact words_ok ws hws p hp
    · subst hp; exact s41
  · have hw : WF (wordsPieces ws ++ [.sep [41]]) :=
      WF_append_gap _ _ (WF_words ws) trivial (by show ([41] : Str) ≠ []; decide)
    show WF (.sep _ :: .word kw :: .sep [40] :: (wordsPieces ws ++ [.sep [41]]))
    exact WF_sep_cons _ _ (WF_cons_gap _ _ _ (by decide) (WF_sep_cons _ _ hw))
  · show (kCommaNl ++ indentStr (Generated.mofIndent + 1)) ≠ []
    decide

theorem wordsToks_length (ws : List Str) : ws.length ≤ (wordsToks ws).length := by
  induction ws with
  | nil => simp
  | cons w r ih =>
    cases r with
    | nil => simp [wordsToks]
    | cons v r => simp only [wordsToks, List.length_cons] at ih ⊢; omega

theorem parseKwWords_toks (kws : String) (kw : Str) (hk : isKw kw kws = true) (ws : List Str) (hne : ws ≠ [])
    (rest : List Tok) : parseKwWords kws (kwToks kw ws ++ rest) = some (ws, rest) := by
  simp only [kwToks, List.cons_append, List.nil_append, List.append_assoc, parseKwWords, hk, if_true]
  have hl := wordsToks_length ws
  exact parseWordsF_words ws rest hne _ (by simp; omega)

/-! ### `= value` -/

def defPieces (vp : Option (Str × List Tok)) (isList : Bool) : List Piece :=
  match vp with
  | none => []
  | some (out, toks) =>
    [.sep (kSpEqSp ++ (if isList then kBraceSp else [])), .val out toks] ++ (if isList then [.sep kSpBrace] else [])

def defToks (vp : Option (Str × List Tok)) (isList : Bool) : List Tok :=
  match vp with
  | none => []
  | some (_, toks) => [Tok.p 61] ++ (if isList then [Tok.p 123] else []) ++ toks ++ (if isList then [Tok.p 125] else [])

theorem def_toks (vp : Option (Str × List Tok)) (isList : Bool) :
    docToks (defPieces vp isList) = defToks vp isList := by
  have h1 : punctToks kSpEqSp = [Tok.p 61] := by decide
  have h2 : punctToks (kSpEqSp ++ kBraceSp) = [Tok.p 61, Tok.p 123] := by decide
  have h3 : punctToks kSpBrace = [Tok.p 125] := by decide
  cases vp with
  | none => rfl
  | some x => cases isList <;> simp [defPieces, defToks, docToks, Piece.toks, h1, h2, h3]

theorem def_ok (vp : Option (Str × List Tok)) (isList : Bool) (h : ∀ x, vp = some x → LexesTo x.1 x.2) :
    (∀ p ∈ defPieces vp isList, p.Ok) ∧ WF (defPieces vp isList) ∧ HeadGap (defPieces vp isList) := by
  have s1 : kSpEqSp.all isSepPlain = true := by decide
  have s2 : (kSpEqSp ++ kBraceSp).all isSepPlain = true := by decide
  have s3 : kSpBrace.all isSepPlain = true := by decide
  cases vp with
  | none => exact ⟨by simp [defPieces], trivial, trivial⟩
  | some x =>
    have hx := h x rfl
    cases isList with
    | false =>
      refine ⟨?_, ?_, ?_⟩
      · intro p hp; simp [defPieces] at hp; rcases hp with hp | hp <;> subst hp
        · exact s1
        · exact hx
      · exact WF_sep_cons _ _ trivial
      · show kSpEqSp ++ [] ≠ []; decide
    | true =>
      refine ⟨?_, ?_, ?_⟩
      · intro p hp; simp [defPieces] at hp; rcases hp with hp | hp | hp <;> subst hp
        · exact s2
        · exact hx
        · exact s3
      · exact WF_sep_cons _ _ ⟨.inr (by show kSpBrace ≠ []; decide), trivial⟩
      · show kSpEqSp ++ kBraceSp ≠ []; decide

/-- what follows the default value in a declaration: not `=`, not a string, not a comma-less continuation -/
def NotEqHead : List Tok → Prop
  | .p 61 :: _ => False
  | _ => True

theorem parseDefault_none (c : Codec) (ty : CimType) (isArray : Bool) (rest : List Tok) (h : NotEqHead rest) :
    parseDefault c ty isArray rest = some (none, rest) := by
  cases rest with
  | nil => rfl
  | cons a b =>
    cases a with
    | p ch =>
      by_cases e : ch = 61
      · subst e; exact absurd h (by simp [NotEqHead])
      · unfold parseDefault
        split
        · rename_i heq; simp at heq; exact absurd heq.1 e
        · rfl
    | id _ => rfl
    | str _ => rfl
    | chr _ => rfl
    | num _ => rfl

theorem rawOf_null (c : Codec) (s : Scalar c) (h : rawOf c s = .null) : s = .null := by
  cases s <;> simp [rawOf] at h <;> rfl

theorem parseDefault_value (c : Codec) (L : CodecLaws c) (ty : CimType) (v : Value c) (toks : List Tok)
    (hv : ValueOk c L ty v) (ht : ValueToks c v toks) (hnn : v ≠ .scalar .null) (out : Str) (rest : List Tok)
    (hr : NoStrHead rest) :
    parseDefault c ty (Value.isList v) (defToks (some (out, toks)) (Value.isList v) ++ rest) = some (some v, rest) := by
  cases v with
  | scalar s =>
    have hs : ScalarToks c s toks := ht
    have hp := parseInit_scalar c s toks rest hs hr
    have hne : rawOf c s ≠ .null := fun e => hnn (by rw [rawOf_null c s e])
    simp only [Value.isList, defToks, Bool.false_eq_true, if_false, List.append_nil, List.cons_append,
      List.nil_append, parseDefault, hp]
    have ht2 := typeRaw_scalar c L ty s hv
    cases hraw : rawOf c s with
    | null => exact absurd hraw hne
    | _ => simp [typeInit, hraw ▸ ht2]
  | array xs =>
    obtain ⟨tokss, hall, e⟩ := ht
    subst e
    have hp := parseInit_array c xs tokss rest hall
    simp only [Value.isList, defToks, if_true, List.cons_append, List.nil_append, List.append_assoc, parseDefault, hp]
    simp [typeInit, typeRaws_scalars c L ty xs hv]

/-! ### the qualifier declaration round trip -/

/-- a qualifier declaration that MOF can express -/
structure QualDeclOk (c : Codec) (L : CodecLaws c) (qd : QualDecl c) : Prop where
  nameWord : IsWord qd.name
  nameOk : qualNameOf qd.name = some qd.name
  tyOk : qd.ty ≠ .reference
  sizeArr : qd.arraySize.isSome = true → qd.isArray = true
  scopesLen : qd.scopes.length = 8
  scopeSome : true ∈ qd.scopes
  valueOk : ∀ v, qd.value = some v → ValueOk c L qd.ty v ∧ Value.isList v = qd.isArray ∧ v ≠ .scalar .null

/-- the documented normalisation: `translatable` survives only when true, `toinstance` is not written -/
def normQualDecl {c : Codec} (qd : QualDecl c) : QualDecl c := { qd with flavors := normFlavors qd.flavors }

theorem docText_append (a b : List Piece) : docText (a ++ b) = docText a ++ docText b := by simp [docText]
theorem docToks_append (a b : List Piece) : docToks (a ++ b) = docToks a ++ docToks b := by simp [docToks]

theorem normFlavors_nil (f : Flavors) (h : flavorWords f = []) : normFlavors f = noFlavors := by
  obtain ⟨o, s, t, i⟩ := f
  rcases o with _ | _ | _ <;> rcases s with _ | _ | _ <;> rcases t with _ | _ | _ <;>
    first | rfl | (exact absurd (congrArg List.length h) (by simp [flavorWords]))

def qdPieces {c : Codec} (qd : QualDecl c) (vp : Option (Str × List Tok)) : List Piece :=
  [.word kwQualifier, .sep [32], .word qd.name, .sep kSpColonSp, .word (tyStr qd.ty)] ++
  arrPieces qd.isArray qd.arraySize ++ defPieces vp qd.isArray ++
  kwPieces kwScope (scopeWords scopeNames qd.scopes) ++
  (if flavorWords qd.flavors = [] then [] else kwPieces kwFlavor (flavorWords qd.flavors)) ++ [.sep kSemiNl]

def qdToks {c : Codec} (qd : QualDecl c) (vp : Option (Str × List Tok)) : List Tok :=
  [Tok.id kwQualifier, Tok.id qd.name, Tok.p 58, Tok.id (tyStr qd.ty)] ++
  (arrToksOf qd.isArray qd.arraySize ++ (defToks vp qd.isArray ++
  (kwToks kwScope (scopeWords scopeNames qd.scopes) ++
  ((if flavorWords qd.flavors = [] then [] else kwToks kwFlavor (flavorWords qd.flavors)) ++ [Tok.p 59]))))

theorem qd_toks {c : Codec} (qd : QualDecl c) (vp : Option (Str × List Tok)) :
    docToks (qdPieces qd vp) = qdToks qd vp := by
  have h32 : punctToks [32] = [] := by decide
  have hc : punctToks kSpColonSp = [Tok.p 58] := by decide
  have hs : punctToks kSemiNl = [Tok.p 59] := by decide
  simp only [qdPieces, qdToks, docToks_append, arr_toks, def_toks, kw_toks]
  have hfl : docToks (if flavorWords qd.flavors = [] then [] else kwPieces kwFlavor (flavorWords qd.flavors)) =
      (if flavorWords qd.flavors = [] then [] else kwToks kwFlavor (flavorWords qd.flavors)) := by
    split
    · rfl
    · exact kw_toks _ _
  rw [hfl]
  simp [docToks, Piece.toks, h32, hc, hs]

theorem qd_wf {c : Codec} (L : CodecLaws c) (qd : QualDecl c) (hok : QualDeclOk c L qd)
    (vp : Option (Str × List Tok)) (hvp : ∀ x, vp = some x → LexesTo x.1 x.2) :
    (∀ p ∈ qdPieces qd vp, p.Ok) ∧ WF (qdPieces qd vp) := by
  obtain ⟨aok, awf, ag⟩ := arr_ok qd.isArray qd.arraySize
  obtain ⟨dok, dwf, dg⟩ := def_ok vp qd.isArray hvp
  obtain ⟨sok, swf, sg⟩ := kw_ok kwScope (isWord_of_B _ (by decide)) (scopeWords scopeNames qd.scopes)
    (fun w hw => scopeNames_words w (scopeWords_sub _ _ w hw))
  obtain ⟨fok, fwf, fg⟩ := kw_ok kwFlavor (isWord_of_B _ (by decide)) (flavorWords qd.flavors) (flavorWords_words _)
  have s32 : ([32] : Str).all isSepPlain = true := by decide
  have sc : kSpColonSp.all isSepPlain = true := by decide
  have ss : kSemiNl.all isSepPlain = true := by decide
  have hhead : WF [Piece.word kwQualifier, .sep [32], .word qd.name, .sep kSpColonSp, .word (tyStr qd.ty)] :=
    ⟨.inr (by show ([32] : Str) ≠ []; decide), .inl trivial, .inr (by show kSpColonSp ≠ []; decide), .inl trivial, trivial⟩
  refine ⟨?_, ?_⟩
  · intro p hp
    simp only [qdPieces, List.mem_append, List.mem_cons, List.mem_nil_iff, or_false] at hp
    rcases hp with ((((hp | hp) | hp) | hp) | hp) | hp
    · rcases hp with hp | hp | hp | hp | hp <;> subst hp
      · exact isWord_of_B _ (by decide)
      · exact s32
      · exact hok.nameWord
      · exact sc
      · exact tyStr_word _
    · exact aok p hp
    · exact dok p hp
    · exact sok p hp
    · split at hp
      · simp at hp
      · exact fok p hp
    · subst hp; exact ss
  · unfold qdPieces
    refine WF_append_gap _ _ (WF_append_gap _ _ (WF_append_gap _ _ (WF_append_gap _ _ (WF_append_gap _ _ hhead awf ag)
      dwf dg) swf sg) ?_ ?_) trivial (by show kSemiNl ≠ []; decide)
    · split
      · trivial
      · exact fwf
    · split
      · trivial
      · exact fg

theorem qd_parse (c : Codec) (L : CodecLaws c) (qd : QualDecl c) (hok : QualDeclOk c L qd)
    (vp : Option (Str × List Tok))
    (hvp : match qd.value, vp with
      | none, none => True
      | some v, some x => ValueToks c v x.2
      | _, _ => False) :
    parseQualDecl c (qdToks qd vp) = some (normQualDecl qd, []) := by
  have hkq : isKw kwQualifier "qualifier" = true := by decide
  have hks : isKw kwScope "scope" = true := by decide
  have hkf : isKw kwFlavor "flavor" = true := by decide
  have hsw := scopeWords_ne qd.scopes hok.scopesLen hok.scopeSome
  obtain ⟨name, ty, isArray, size, value, scopes, flavors⟩ := qd
  simp only at hok hvp hsw ⊢
  have hsc : scopesOf (scopeWords scopeNames scopes) = some scopes := by
    have hl := hok.scopesLen
    simp only at hl
    match scopes, hl with
    | [b1, b2, b3, b4, b5, b6, b7, b8], _ => exact scopesOf_words _ _ _ _ _ _ _ _
  -- the tail after the default value
  have htail : ∀ (v : Option (Value c)),
      (match parseKwWords "scope" (kwToks kwScope (scopeWords scopeNames scopes) ++
          ((if flavorWords flavors = [] then [] else kwToks kwFlavor (flavorWords flavors)) ++ [Tok.p 59])) with
        | none => none
        | some (sws, r3) =>
          match scopesOf sws with
          | none => none
          | some scs =>
            match r3 with
            | .p 59 :: r4 => some ((⟨name, ty, isArray, size, v, scs, noFlavors⟩ : QualDecl c), r4)
            | r4 =>
              match parseKwWords "flavor" r4 with
              | some (fws, .p 59 :: r5) =>
                (buildFlavors noFlavors fws).map (fun f => ((⟨name, ty, isArray, size, v, scs, f⟩ : QualDecl c), r5))
              | _ => none) = some (⟨name, ty, isArray, size, v, scopes, normFlavors flavors⟩, []) := by
    intro v
    rw [parseKwWords_toks "scope" kwScope hks _ hsw]
    simp only [hsc]
    by_cases hf : flavorWords flavors = []
    · simp only [hf, if_true, List.nil_append, normFlavors_nil flavors hf]
    · simp only [hf, if_false]
      have hp := parseKwWords_toks "flavor" kwFlavor hkf (flavorWords flavors) hf [Tok.p 59]
      simp only [kwToks, List.cons_append, List.nil_append, List.append_assoc] at hp ⊢
      simp only [hp, buildFlavors_words]
      rfl
  simp only [qdToks, List.cons_append, List.nil_append, parseQualDecl, hkq, Bool.not_true, Bool.false_eq_true,
    if_false, hok.nameOk, dataTypeOf_tyStr ty hok.tyOk]
  -- array part
  have hnb : ∀ (x : List Tok), NotBracketHead (defToks vp isArray ++ (kwToks kwScope (scopeWords scopeNames scopes) ++ x)) := by
    intro x
    cases vp with
    | none => simp [defToks, kwToks, NotBracketHead]
    | some y => simp [defToks, NotBracketHead]
  rw [parseArr_toks isArray size hok.sizeArr _ (hnb _)]
  simp only []
  cases value with
  | none =>
    cases vp with
    | some y => exact absurd hvp (by simp)
    | none =>
      simp only [defToks, List.nil_append]
      rw [parseDefault_none c ty isArray _ (by simp [kwToks, NotEqHead])]
      exact htail none
  | some v =>
    cases vp with
    | none => exact absurd hvp (by simp)
    | some y =>
      obtain ⟨hv1, hv2, hv3⟩ := hok.valueOk v rfl
      simp only at hv2
      have hvt : ValueToks c v y.2 := hvp
      have hpd := parseDefault_value c L ty v y.2 hv1 hvt hv3 y.1
        (kwToks kwScope (scopeWords scopeNames scopes) ++
          ((if flavorWords flavors = [] then [] else kwToks kwFlavor (flavorWords flavors)) ++ [Tok.p 59]))
        (by simp [kwToks, NoStrHead])
      rw [hv2] at hpd
      rw [hpd]
      exact htail (some v)

theorem flav_text (f : Flavors) :
    docText (if flavorWords f = [] then [] else kwPieces kwFlavor (flavorWords f)) =
      (if flavorWords f = [] then []
       else kCommaNl ++ indentStr (Generated.mofIndent + 1) ++ kFlavorOpen ++ joinSep kCommaSp (flavorWords f) ++ [41]) := by
  split
  · rfl
  · rw [kw_text]; simp [kwFlavor, kFlavorOpen]

theorem qualDecl_roundtrip (c : Codec) (L : CodecLaws c) (qd : QualDecl c) (hok : QualDeclOk c L qd)
    (maxline : Nat) (hm : Generated.mofIndent + 8 ≤ maxline) (text : Str)
    (hr : qualDeclTomof c qd maxline = .ok text) : readQualDecl c text = some (normQualDecl qd) := by
  have hkq : kQualifierSp = kwQualifier ++ [32] := by decide
  have hks : kScopeOpen = kwScope ++ [40] := by decide
  -- the value part
  have hvp : ∃ vp : Option (Str × List Tok), text = docText (qdPieces qd vp) ∧
      (∀ x, vp = some x → LexesTo x.1 x.2) ∧
      (match qd.value, vp with
        | none, none => True
        | some v, some x => ValueToks c v x.2
        | _, _ => False) := by
    unfold qualDeclTomof at hr
    cases hv : qd.value with
    | none =>
      simp only [hv, Except.ok.injEq] at hr
      refine ⟨none, ?_, by simp, by simp⟩
      rw [← hr]
      simp only [qdPieces, docText_append, arr_text, kw_text, flav_text, defPieces]
      cases qd.isArray <;> cases qd.arraySize <;> simp [docText, Piece.text, hkq, hks, kwScope]
    | some v =>
      obtain ⟨hv1, hv2, _⟩ := hok.valueOk v hv
      simp only [hv] at hr
      split at hr
      · simp at hr
      · rename_i r hvm
        simp only [Except.ok.injEq] at hr
        obtain ⟨toks, hvt, hlex⟩ := value_lex c L qd.ty v hv1 Generated.mofIndent maxline hm _ 3 false r.1 r.2 hvm
        refine ⟨some (r.1, toks), ?_, ?_, by simpa using hvt⟩
        · rw [← hr, hv2]
          simp only [qdPieces, docText_append, arr_text, kw_text, flav_text, defPieces]
          cases qd.isArray <;> cases qd.arraySize <;> simp [docText, Piece.text, hkq, hks, kwScope]
        · intro x hx; simp at hx; subst hx; exact hlex
  obtain ⟨vp, htext, hlexv, hvals⟩ := hvp
  obtain ⟨pok, pwf⟩ := qd_wf L qd hok vp hlexv
  have hlex := lex_doc_all (qdPieces qd vp) pok pwf
  rw [← htext, qd_toks] at hlex
  simp only [readQualDecl, hlex, qd_parse c L qd hok vp hvals]

end Pywbem.Lemmas.MofQual
