/-
C13: lemmas about the write path of association instances (`Model/AssocWrite.lean`): the shadow-copy
discipline `WInv` and its preservation by create / modify / delete.
-/
import Pywbem.Model.AssocWrite
import Proofs.Lemmas.AssocStore

namespace C13
open Pywbem.Proto Pywbem.Model.Assoc

/-! ### pkEq, inNss -/

theorem pkEq_iff {p q : Path} : pkEq p q = true ↔ lower p.cls = lower q.cls ∧ p.key = q.key := by
  simp [pkEq, ieq]

theorem pkEq_refl (p : Path) : pkEq p p = true := by simp [pkEq_iff]

theorem pkEq_symm_eq (p q : Path) : pkEq p q = pkEq q p := by
  cases h1 : pkEq p q <;> cases h2 : pkEq q p <;> try rfl
  · rw [pkEq_iff] at h2; have : pkEq p q = true := pkEq_iff.mpr ⟨h2.1.symm, h2.2.symm⟩; simp_all
  · rw [pkEq_iff] at h1; have : pkEq q p = true := pkEq_iff.mpr ⟨h1.1.symm, h1.2.symm⟩; simp_all

theorem pkEq_symm {p q : Path} (h : pkEq p q = true) : pkEq q p = true := by
  rw [pkEq_iff] at *; exact ⟨h.1.symm, h.2.symm⟩

theorem pkEq_trans {p q r : Path} (h1 : pkEq p q = true) (h2 : pkEq q r = true) : pkEq p r = true := by
  rw [pkEq_iff] at *; exact ⟨h1.1.trans h2.1, h1.2.trans h2.2⟩

theorem pkEq_congr_right {p q r : Path} (h : pkEq q r = true) : pkEq p q = pkEq p r := by
  cases h1 : pkEq p q <;> cases h2 : pkEq p r <;> try rfl
  · have := pkEq_trans h2 (pkEq_symm h); simp_all
  · have := pkEq_trans h1 h; simp_all

theorem pkEq_rebase_left (a : Inst) (n : Name) (p : Path) : pkEq (rebase a n).path p = pkEq a.path p := by
  simp [pkEq, rebase]

theorem pkEq_rebase_right (a : Inst) (n : Name) (p : Path) : pkEq p (rebase a n).path = pkEq p a.path := by
  simp [pkEq, rebase]

theorem inNss_iff {nss : List Name} {n : Name} : inNss nss n = true ↔ ∃ m ∈ nss, ieq m n = true := by
  simp [inNss]

theorem inNss_congr {nss : List Name} {a b : Name} (h : ieq a b = true) : inNss nss a = inNss nss b := by
  have := ieq_iff.mp h
  simp [inNss, ieq, this]

theorem endNss_rebase (a : Inst) (n : Name) : endNss (rebase a n) = endNss a := rfl

theorem endNss_of_props {a b : Inst} (h : a.props = b.props) : endNss a = endNss b := by
  simp [endNss, ends, h]

theorem mem_endNss {a : Inst} {n : Name} :
    n ∈ endNss a ↔ ∃ p ∈ a.props, p.isRef = true ∧ ∃ v, p.value = some v ∧ v.ns = some n := by
  simp only [endNss, ends, List.mem_filterMap]
  constructor
  · rintro ⟨v, ⟨p, hp, hpv⟩, hn⟩
    by_cases hr : p.isRef = true
    · simp [hr] at hpv; exact ⟨p, hp, hr, v, hpv, hn⟩
    · simp [hr] at hpv
  · rintro ⟨p, hp, hr, v, hv, hn⟩
    exact ⟨v, ⟨p, hp, by simp [hr, hv]⟩, hn⟩

/-- every namespace named by an end is the target or represented in `otherNamespaces` -/
theorem inNss_other_of_endNss {a : Inst} {target n : Name} (h : n ∈ endNss a) :
    inNss (otherNamespaces a target ++ [target]) n = true := by
  obtain ⟨p, hp, hr, v, hv, hn⟩ := mem_endNss.mp h
  obtain ⟨m, hm, hmn⟩ := end_namespace_covered (target := target) hp hr hv hn
  exact inNss_iff.mpr ⟨m, hm, hmn⟩

theorem dedupe_subset : ∀ (l acc : List Name) (m : Name),
    m ∈ l.foldl (fun acc n => if acc.any (fun k => ieq k n) then acc else acc ++ [n]) acc → m ∈ acc ∨ m ∈ l
  | [], acc, m, h => Or.inl h
  | k :: l, acc, m, h => by
    simp only [List.foldl_cons] at h
    rcases dedupe_subset l _ m h with h1 | h1
    · by_cases hany : acc.any (fun j => ieq j k) = true
      · simp only [hany, if_true] at h1; exact Or.inl h1
      · simp only [hany] at h1
        rcases List.mem_append.mp h1 with h2 | h2
        · exact Or.inl h2
        · simp at h2; subst h2; exact Or.inr (List.mem_cons_self ..)
    · exact Or.inr (List.mem_cons_of_mem _ h1)

/-- the members of `otherNamespaces` are namespaces named by ends, and differ from the target -/
theorem mem_otherNamespaces {a : Inst} {target m : Name} (h : m ∈ otherNamespaces a target) :
    m ∈ endNss a ∧ ieq m target = false := by
  unfold otherNamespaces at h
  rcases dedupe_subset _ [] m h with h1 | h1
  · cases h1
  · rw [List.mem_filterMap] at h1
    obtain ⟨p, hp, hpm⟩ := h1
    by_cases hr : p.isRef = true
    · cases hv : p.value with
      | none => simp [hr, hv] at hpm
      | some v =>
        cases hn : v.ns with
        | none => simp [hr, hv, hn] at hpm
        | some n =>
          by_cases ht : ieq n target = true
          · simp [hr, hv, hn, ht] at hpm
          · simp [hr, hv, hn, ht] at hpm
            subst hpm
            exact ⟨mem_endNss.mpr ⟨p, hp, hr, v, hv, hn⟩, by simpa using ht⟩
    · simp [hr] at hpm

theorem inNss_endNss_of_other {a : Inst} {target n : Name}
    (h : inNss (otherNamespaces a target) n = true) : inNss (endNss a) n = true := by
  obtain ⟨m, hm, hmn⟩ := inNss_iff.mp h
  exact inNss_iff.mpr ⟨m, (mem_otherNamespaces hm).1, hmn⟩

theorem otherNamespaces_of_props {a b : Inst} (h : a.props = b.props) (t : Name) :
    otherNamespaces a t = otherNamespaces b t := by
  simp [otherNamespaces, h]

/-! ### the shadow-copy discipline -/

/-- The discipline the write path keeps (all comparisons of namespace and class names modulo case):
* `uniq`   the repository is a NocaseDict of namespaces;
* `keyed`  stored paths carry no host and the namespace of their store;
* `nodup`  an instance store is a dict: one instance per class name + keybindings;
* `loc`    a stored instance with ends lives in a namespace that one of its ends names;
* `conf`   a stored association instance (one with a reference property) without ends has no namesake (same class name + keybindings) in another namespace;
* `shadow` for every namespace an end names there is a namesake stored in that namespace;
* `coh`    namesakes of an association instance have its properties and class: they are copies of one instance. -/
structure WInv (r : Repo) : Prop where
  uniq : ∀ S ∈ r, ∀ T ∈ r, ieq S.name T.name = true → S = T
  keyed : ∀ S ∈ r, ∀ a ∈ S.insts, a.path.host = none ∧ ∃ m, a.path.ns = some m ∧ ieq m S.name = true
  nodup : ∀ S ∈ r, ∀ a ∈ S.insts, ∀ b ∈ S.insts, pkEq a.path b.path = true → a = b
  loc : ∀ S ∈ r, ∀ a ∈ S.insts, endNss a = [] ∨ inNss (endNss a) S.name = true
  conf : ∀ S ∈ r, ∀ T ∈ r, ∀ a ∈ S.insts, ∀ b ∈ T.insts, pkEq a.path b.path = true → hasRef a = true →
    endNss a = [] → S = T
  shadow : ∀ S ∈ r, ∀ a ∈ S.insts, ∀ n ∈ endNss a,
    ∃ T ∈ r, ieq T.name n = true ∧ ∃ a' ∈ T.insts, pkEq a'.path a.path = true
  coh : ∀ S ∈ r, ∀ T ∈ r, ∀ a ∈ S.insts, ∀ b ∈ T.insts, pkEq a.path b.path = true → hasRef a = true →
    a.props = b.props ∧ a.cls = b.cls

/-- a repository transformed store by store (names and class stores untouched) -/
def mapInsts (r : Repo) (F : NsStore → List Inst) : Repo := r.map (fun S => { S with insts := F S })

theorem mem_mapInsts {r : Repo} {F : NsStore → List Inst} {S' : NsStore} :
    S' ∈ mapInsts r F ↔ ∃ S ∈ r, S' = { S with insts := F S } := by
  simp [mapInsts, List.mem_map, eq_comm]

/-- the generic preservation argument: it suffices to check the clauses on the new instance lists -/
theorem winv_mapInsts {r : Repo} {F : NsStore → List Inst} (hinv : WInv r)
    (hkeyed : ∀ S ∈ r, ∀ a ∈ F S, a.path.host = none ∧ ∃ m, a.path.ns = some m ∧ ieq m S.name = true)
    (hnodup : ∀ S ∈ r, ∀ a ∈ F S, ∀ b ∈ F S, pkEq a.path b.path = true → a = b)
    (hloc : ∀ S ∈ r, ∀ a ∈ F S, endNss a = [] ∨ inNss (endNss a) S.name = true)
    (hconf : ∀ S ∈ r, ∀ T ∈ r, ∀ a ∈ F S, ∀ b ∈ F T, pkEq a.path b.path = true → hasRef a = true →
      endNss a = [] → S = T)
    (hshadow : ∀ S ∈ r, ∀ a ∈ F S, ∀ n ∈ endNss a,
      ∃ T ∈ r, ieq T.name n = true ∧ ∃ a' ∈ F T, pkEq a'.path a.path = true)
    (hcoh : ∀ S ∈ r, ∀ T ∈ r, ∀ a ∈ F S, ∀ b ∈ F T, pkEq a.path b.path = true → hasRef a = true →
      a.props = b.props ∧ a.cls = b.cls) : WInv (mapInsts r F) := by
  constructor
  · intro S' hS' T' hT' hn
    obtain ⟨S, hS, rfl⟩ := mem_mapInsts.mp hS'
    obtain ⟨T, hT, rfl⟩ := mem_mapInsts.mp hT'
    have := hinv.uniq S hS T hT hn
    subst this; rfl
  · intro S' hS' a ha
    obtain ⟨S, hS, rfl⟩ := mem_mapInsts.mp hS'
    exact hkeyed S hS a ha
  · intro S' hS' a ha b hb
    obtain ⟨S, hS, rfl⟩ := mem_mapInsts.mp hS'
    exact hnodup S hS a ha b hb
  · intro S' hS' a ha
    obtain ⟨S, hS, rfl⟩ := mem_mapInsts.mp hS'
    exact hloc S hS a ha
  · intro S' hS' T' hT' a ha b hb hpk hr he
    obtain ⟨S, hS, rfl⟩ := mem_mapInsts.mp hS'
    obtain ⟨T, hT, rfl⟩ := mem_mapInsts.mp hT'
    have := hconf S hS T hT a ha b hb hpk hr he
    subst this; rfl
  · intro S' hS' a ha n hn
    obtain ⟨S, hS, rfl⟩ := mem_mapInsts.mp hS'
    obtain ⟨T, hT, hTn, a', ha', hpk⟩ := hshadow S hS a ha n hn
    exact ⟨{ T with insts := F T }, mem_mapInsts.mpr ⟨T, hT, rfl⟩, hTn, a', ha', hpk⟩
  · intro S' hS' T' hT' a ha b hb
    obtain ⟨S, hS, rfl⟩ := mem_mapInsts.mp hS'
    obtain ⟨T, hT, rfl⟩ := mem_mapInsts.mp hT'
    exact hcoh S hS T hT a ha b hb

theorem hasRef_of_props {a b : Inst} (h : a.props = b.props) : hasRef a = hasRef b := by
  simp [hasRef, h]

theorem hasRef_of_endNss {a : Inst} {n : Name} (h : n ∈ endNss a) : hasRef a = true := by
  obtain ⟨p, hp, hr, _⟩ := mem_endNss.mp h
  simp only [hasRef, List.any_eq_true]
  exact ⟨p, hp, hr⟩

theorem findNs_mem {r : Repo} {n : Name} {S : NsStore} (h : findNs r n = some S) :
    S ∈ r ∧ ieq S.name n = true := by
  refine ⟨List.mem_of_find?_eq_some h, ?_⟩
  have := List.find?_some h; exact this

theorem findNs_of_mem {r : Repo} (hu : ∀ S ∈ r, ∀ T ∈ r, ieq S.name T.name = true → S = T)
    {S : NsStore} {n : Name} (hS : S ∈ r) (hn : ieq S.name n = true) : findNs r n = some S := by
  unfold findNs
  cases hf : r.find? (fun s => ieq s.name n) with
  | none =>
    rw [List.find?_eq_none] at hf
    have := hf S hS; simp [hn] at this
  | some T =>
    have hT := List.mem_of_find?_eq_some hf
    have hTn : ieq T.name n = true := by have := List.find?_some hf; exact this
    rw [hu T hT S hS (ieq_trans hTn (ieq_symm hn))]

/-- under the discipline, every namesake of `a` lives in `a`'s own store or in a namespace `a`'s ends name -/
theorem namesake_confined {r : Repo} (hinv : WInv r) {S T : NsStore} (hS : S ∈ r) (hT : T ∈ r)
    {a b : Inst} (ha : a ∈ S.insts) (hb : b ∈ T.insts) (hpk : pkEq b.path a.path = true)
    (hr : hasRef a = true) :
    T = S ∨ inNss (endNss a) T.name = true := by
  have hprops := (hinv.coh S hS T hT a ha b hb (pkEq_symm hpk) hr).1
  have he : endNss b = endNss a := endNss_of_props hprops.symm
  have hrb : hasRef b = true := by rw [← hasRef_of_props hprops]; exact hr
  rcases hinv.loc T hT b hb with h0 | h1
  · exact Or.inl (hinv.conf T hT S hS b hb a ha hpk hrb h0)
  · right; rw [← he]; exact h1

end C13
