/-
Helper lemmas for C18, part 9: the filter/destination invariant over all histories with unrestricted
subscription operations (cross-manager subscriptions, failing remove_server, retries).
-/
import Proofs.Lemmas.SubMgr8

namespace Proofs.SubMgr
open Pywbem.Model.SubMgr Pywbem.Proto

/-! ### world invariant for filters and destinations -/

structure WInvFD (w : World) : Prop where
  stores : ∀ s, FDInv (w.store s)
  idok : ∀ m id, w.ids m = some id → ':' ∉ id
  distinct : ∀ m m' id, w.ids m = some id → w.ids m' = some id → m = m'
  agree : ∀ m s id, w.ids m = some id → w.reg m s = true → AgreeFD id (w.store s) (w.owned m s)
  snodup : ∀ m, (w.servers m).Nodup
  fresh : ∀ m, w.nMgr ≤ m → w.ids m = none ∧ w.servers m = []

theorem WInv.fd {w : World} (h : WInv w) : WInvFD w :=
  ⟨fun s => (h.stores s).fd, h.idok, h.distinct, fun m s id hi hr => (h.agree m s id hi hr).fd, h.snodup, h.fresh⟩

/-- operations allowed for the filter/destination invariant.  Subscriptions are UNRESTRICTED (cross-manager
    subscriptions, owned subscriptions on unowned ends, removal of anybody's subscription).  Still excluded: a
    permanent Name carrying a marker (KF3), explicit removal of a filter/destination carrying another id's
    marker (external modification), a second live manager with the same id. -/
def WBfd (w : World) : Op → Prop
  | .newMgr id => ∀ m, w.ids m ≠ some id
  | .addDest _ _ a => a.owned = false → NoMarker .dest (a.name.getD [])
  | .addFilter _ _ owned _ name => owned = false → NoMarker .filt (name.getD [])
  | .removeDests m _ sel => ∀ id, w.ids m = some id →
      ∀ p, (sel = .one p ∨ ∃ ps, sel = .many ps ∧ p ∈ ps) → NotOthers .dest id p.name
  | .removeFilter m _ p => ∀ id, w.ids m = some id → NotOthers .filt id p.name
  | _ => True

theorem WB.fd {w : World} {op : Op} (h : WB w op) : WBfd w op := by
  cases op <;> first | exact h | trivial

theorem upd_inv_fd {w : World} (hw : WInvFD w) {m s : Nat} {id : Str} (hid : w.ids m = some id)
    (st' : Store) (o' : Owned) (srv' : List Nat)
    (hinv : FDInv st') (hframe : FrameFD id (w.store s) st')
    (hsrv : ∀ s', s' ≠ s → (s' ∈ srv' ↔ s' ∈ w.servers m)) (hnd : srv'.Nodup)
    (hag : s ∈ srv' → AgreeFD id st' o') :
    WInvFD (updW w m s st' o' srv') := by
  have hregm : ∀ s', (updW w m s st' o' srv').reg m s' = decide (s' ∈ srv') := by
    intro s'; simp [World.reg, updW, List.contains_iff_mem]
  have hrego : ∀ m' s', m' ≠ m → (updW w m s st' o' srv').reg m' s' = w.reg m' s' := by
    intro m' s' h; simp [World.reg, updW, World.put, h]
  have hstore_same : (updW w m s st' o' srv').store s = st' := by simp [updW, World.put]
  have hstore_other : ∀ s', s' ≠ s → (updW w m s st' o' srv').store s' = w.store s' := by
    intro s' h; simp [updW, World.put, h]
  have howned_same : (updW w m s st' o' srv').owned m s = o' := by simp [updW, World.put]
  have howned_other : ∀ m' s', ¬ (m' = m ∧ s' = s) → (updW w m s st' o' srv').owned m' s' = w.owned m' s' := by
    intro m' s' h; simp [updW, World.put, h]
  refine ⟨?_, hw.idok, hw.distinct, ?_, ?_, ?_⟩
  · intro s'
    by_cases e : s' = s
    · subst e; rw [hstore_same]; exact hinv
    · rw [hstore_other s' e]; exact hw.stores s'
  · intro m' s' id' hid0 hreg0
    have hid' : w.ids m' = some id' := hid0
    by_cases em : m' = m
    · subst em
      have : id' = id := by rw [hid] at hid'; exact (Option.some.inj hid').symm
      subst this
      rw [hregm] at hreg0
      have hmem : s' ∈ srv' := by simpa using hreg0
      by_cases e : s' = s
      · subst e; rw [hstore_same, howned_same]; exact hag hmem
      · rw [hstore_other s' e, howned_other m' s' (fun h => e h.2)]
        refine hw.agree m' s' id' hid' ?_
        simp [World.reg, List.contains_iff_mem, (hsrv s' e).mp hmem]
    · rw [hrego m' s' em] at hreg0
      have hag' := hw.agree m' s' id' hid' hreg0
      rw [howned_other m' s' (fun h => em h.1)]
      by_cases e : s' = s
      · subst e
        rw [hstore_same]
        have hne : id' ≠ id := fun h => em (hw.distinct m' m id' hid' (h ▸ hid))
        exact hag'.frame hframe hne (hw.idok m' id' hid')
      · rw [hstore_other s' e]; exact hag'
  · intro m'
    by_cases em : m' = m
    · subst em; simp [updW, hnd]
    · simp only [updW, em, if_false]; exact hw.snodup m'
  · intro m' hm'
    have hm'' : w.nMgr ≤ m' := hm'
    have hne : m' ≠ m := by
      intro e; subst e
      have := (hw.fresh m' hm'').1
      rw [hid] at this; simp at this
    obtain ⟨h1, h2⟩ := hw.fresh m' hm''
    exact ⟨h1, by simp [updW, hne, h2]⟩

/-- a local step written back -/
theorem put_inv_fd {w : World} (hw : WInvFD w) {m s : Nat} {id : Str} (hid : w.ids m = some id) (r : R)
    (hinv : FDInv r.st) (hframe : FrameFD id (w.store s) r.st)
    (hag : w.reg m s = true → AgreeFD id r.st r.o) : WInvFD (w.put m s r.st r.o) := by
  rw [put_eq_upd]
  exact upd_inv_fd hw hid _ _ _ hinv hframe (fun _ _ => Iff.rfl) (hw.snodup m)
    (fun h => hag (by simp [World.reg, List.contains_iff_mem, h]))

theorem put_inv_fd_good {w : World} (hw : WInvFD w) {m s : Nat} {id : Str} (hid : w.ids m = some id) (r : R)
    (hreg : w.reg m s = true → GoodFD id (w.store s) r) (hunreg : w.reg m s = false → r.st = w.store s) :
    WInvFD (w.put m s r.st r.o) := by
  cases hr : w.reg m s with
  | true => exact put_inv_fd hw hid r (hreg hr).inv (hreg hr).frame (fun _ => (hreg hr).agree)
  | false =>
    refine put_inv_fd hw hid r ?_ ?_ (fun h => by simp [hr] at h)
    · rw [hunreg hr]; exact hw.stores s
    · rw [hunreg hr]; exact FrameFD.refl id _

theorem put_inv_fd_subs {w : World} (hw : WInvFD w) {m s : Nat} {id : Str} (hid : w.ids m = some id) (r : R)
    (h : SubsOnly (w.store s) (w.owned m s) r) : WInvFD (w.put m s r.st r.o) := by
  refine put_inv_fd hw hid r ⟨by rw [h.f]; exact (hw.stores s).fnd, by rw [h.d]; exact (hw.stores s).dnd⟩
    (FrameFD.of_eq h.f h.d) (fun hr => ?_)
  exact (GoodFD.of_subsOnly (hw.stores s) (hw.agree m s id hid hr) h).agree

theorem removeServerW_inv_fd {w : World} (hw : WInvFD w) {m : Nat} {id : Str} (hid : w.ids m = some id) (s : Nat) :
    WInvFD (stepRemoveServerW w m s).1 := by
  have hc := hw.idok m id hid
  unfold stepRemoveServerW
  cases hr : w.reg m s with
  | false =>
    simp only [stepRemoveServer, Bool.not_false, if_true, Bool.or_true]
    exact put_inv_fd hw hid ⟨w.store s, w.owned m s, Res.err PyExc.valueError⟩ (hw.stores s) (FrameFD.refl id _)
      (fun h => by simp [hr] at h)
  | true =>
    have hag := hw.agree m s id hid hr
    have hg := goodFD_removeServer (hw.stores s) hag hc true
    generalize stepRemoveServer true (w.store s) (w.owned m s) = rs at hg
    obtain ⟨r, still⟩ := rs
    simp only [Bool.not_true, Bool.or_false]
    cases still with
    | true =>
      simp only [if_true]
      exact put_inv_fd hw hid r hg.inv hg.frame (fun _ => hg.agree)
    | false =>
      simp only [Bool.false_eq_true, if_false]
      have hnd := hw.snodup m
      exact upd_inv_fd hw hid r.st r.o ((w.servers m).erase s) hg.inv hg.frame
        (fun s' hs' => by rw [hnd.mem_erase_iff]; exact ⟨fun h => h.2, fun h => ⟨hs', h⟩⟩)
        (hnd.erase s) (fun _ => hg.agree)

theorem removeServerW_ids (w : World) (m s : Nat) : (stepRemoveServerW w m s).1.ids = w.ids := by
  unfold stepRemoveServerW
  split
  split <;> rfl

theorem removeAllLoop_inv_fd {m : Nat} {id : Str} :
    ∀ (l : List Nat) (w : World), WInvFD w → w.ids m = some id → WInvFD (removeAllLoop m w l).1 := by
  intro l
  induction l with
  | nil => intro w hw _; exact hw
  | cons s rest ih =>
    intro w hw hid
    have h1 := removeServerW_inv_fd hw hid s
    have hid1 : (stepRemoveServerW w m s).1.ids m = some id := by rw [removeServerW_ids]; exact hid
    unfold removeAllLoop
    generalize stepRemoveServerW w m s = r at h1 hid1
    obtain ⟨w1, out1⟩ := r
    cases out1 with
    | done => simp only []; exact ih w1 h1 hid1
    | _ => exact h1

theorem step_inv_fd {w : World} (hw : WInvFD w) (op : Op) (wb : WBfd w op) : WInvFD (step w op).1 := by
  cases op with
  | newMgr id =>
    simp only [step]
    by_cases hb : managerIdBad id = true
    · simp only [hb, if_true]; exact hw
    simp only [hb, Bool.false_eq_true, if_false]
    have hcid : ':' ∉ id := by
      simpa [managerIdBad, Pywbem.Generated.SubMgr.managerIdColonRejected] using hb
    have hfr := hw.fresh w.nMgr (Nat.le_refl _)
    refine ⟨hw.stores, ?_, ?_, ?_, hw.snodup, ?_⟩
    · intro m i h
      by_cases e : m = w.nMgr
      · simp only [e, if_true] at h; exact (Option.some.inj h) ▸ hcid
      · simp only [e, if_false] at h; exact hw.idok m i h
    · intro m m' i h h'
      by_cases e : m = w.nMgr <;> by_cases e' : m' = w.nMgr
      · rw [e, e']
      · simp only [e, if_true, e', if_false] at h h'
        exact absurd ((Option.some.inj h) ▸ h') (wb m')
      · simp only [e, if_false, e', if_true] at h h'
        exact absurd ((Option.some.inj h') ▸ h) (wb m)
      · simp only [e, e', if_false] at h h'; exact hw.distinct m m' i h h'
    · intro m s i h hr
      have hr' : w.reg m s = true := hr
      by_cases e : m = w.nMgr
      · subst e; simp [World.reg, hfr.2] at hr'
      · simp only [e, if_false] at h; exact hw.agree m s i h hr'
    · intro m hm
      have hm' : w.nMgr + 1 ≤ m := hm
      have hne : m ≠ w.nMgr := by omega
      obtain ⟨h1, h2⟩ := hw.fresh m (by omega)
      exact ⟨by simp [hne, h1], h2⟩
  | dropMgr m =>
    simp only [step]
    refine ⟨hw.stores, ?_, ?_, ?_, hw.snodup, ?_⟩
    · intro m' i h
      by_cases e : m' = m
      · simp [e] at h
      · simp only [e, if_false] at h; exact hw.idok m' i h
    · intro m1 m2 i h1 h2
      by_cases e1 : m1 = m
      · simp [e1] at h1
      by_cases e2 : m2 = m
      · simp [e2] at h2
      simp only [e1, e2, if_false] at h1 h2; exact hw.distinct m1 m2 i h1 h2
    · intro m' s i h hr
      by_cases e : m' = m
      · simp [e] at h
      · simp only [e, if_false] at h; exact hw.agree m' s i h hr
    · intro m' hm'
      obtain ⟨h1, h2⟩ := hw.fresh m' hm'
      exact ⟨by by_cases e : m' = m <;> simp [e, h1], h2⟩
  | addServer m s =>
    simp only [step]
    cases hid : w.ids m with
    | none => exact hw
    | some id =>
      simp only []
      cases hr : w.reg m s with
      | true => simp only [if_true]; exact hw
      | false =>
        simp only [Bool.false_eq_true, if_false]
        have hnm : s ∉ w.servers m := by simpa [World.reg, List.contains_iff_mem] using hr
        exact upd_inv_fd hw hid (w.store s) (discover id (w.store s)) (w.servers m ++ [s])
          (hw.stores s) (FrameFD.refl id _) (fun s' hs' => by simp [hs']) (nodup_snoc (hw.snodup m) hnm)
          (fun _ => discover_agreeFD id (w.store s) (hw.stores s))
  | removeServer m s =>
    simp only [step]
    cases hid : w.ids m with
    | none => exact hw
    | some id => exact removeServerW_inv_fd hw hid s
  | removeAll m =>
    simp only [step]
    cases hid : w.ids m with
    | none => exact hw
    | some id => exact removeAllLoop_inv_fd _ w hw hid
  | exitCtx m exc =>
    simp only [step]
    cases hid : w.ids m with
    | none => exact hw
    | some id =>
      have h := removeAllLoop_inv_fd (w.servers m) w hw hid
      simp only []
      generalize removeAllLoop m w (w.servers m) = r at h
      obtain ⟨w1, out1⟩ := r
      cases out1 <;> exact h
  | addDest m s a =>
    simp only [step]
    cases hid : w.ids m with
    | none => exact hw
    | some id =>
      simp only [World.applyR]
      refine put_inv_fd_good hw hid _ (fun hr => ?_) (fun hr => ?_)
      · exact goodFD_addDest (hw.stores s) (hw.agree m s id hid hr) (hw.idok m id hid) _ a wb
      · rw [hr]; exact (addDest_unreg id (w.store s) (w.owned m s) a).1
  | addFilter m s owned fid name =>
    simp only [step]
    cases hid : w.ids m with
    | none => exact hw
    | some id =>
      simp only [World.applyR]
      refine put_inv_fd_good hw hid _ (fun hr => ?_) (fun hr => ?_)
      · exact goodFD_addFilter (hw.stores s) (hw.agree m s id hid hr) (hw.idok m id hid) _ owned fid name wb
      · rw [hr]; exact (addFilter_unreg id (w.store s) (w.owned m s) owned fid name).1
  | addSubs m s f sel owned =>
    simp only [step]
    cases hid : w.ids m with
    | none => exact hw
    | some id =>
      simp only [World.applyR]
      exact put_inv_fd_subs hw hid _ (subsOnly_addSubs _ id _ _ f sel owned)
  | removeDests m s sel =>
    simp only [step]
    cases hid : w.ids m with
    | none => exact hw
    | some id =>
      simp only [World.applyR]
      refine put_inv_fd_good hw hid _ (fun hr => ?_) (fun hr => ?_)
      · exact goodFD_removeDests (hw.stores s) (hw.agree m s id hid hr) _ sel (wb id hid)
      · rw [hr]; exact (removeDests_unreg (w.store s) (w.owned m s) sel).1
  | removeFilter m s p =>
    simp only [step]
    cases hid : w.ids m with
    | none => exact hw
    | some id =>
      simp only [World.applyR]
      refine put_inv_fd_good hw hid _ (fun hr => ?_) (fun hr => ?_)
      · exact goodFD_removeFilter (hw.stores s) (hw.agree m s id hid hr) _ p (wb id hid)
      · rw [hr]; exact (removeFilter_unreg (w.store s) (w.owned m s) p).1
  | removeSubs m s sel =>
    simp only [step]
    cases hid : w.ids m with
    | none => exact hw
    | some id =>
      simp only [World.applyR]
      exact put_inv_fd_subs hw hid _ (subsOnly_removeSubs _ _ _ sel)
  | getOwned m s which =>
    simp only [step]
    cases hid : w.ids m <;> exact hw
  | getAll m s which =>
    simp only [step]
    cases hid : w.ids m <;> exact hw

def WBfdRun : World → List Op → Prop
  | _, [] => True
  | w, op :: ops => WBfd w op ∧ WBfdRun (step w op).1 ops

theorem run_inv_fd : ∀ (ops : List Op) (w : World), WInvFD w → WBfdRun w ops → WInvFD (run w ops).1 := by
  intro ops
  induction ops with
  | nil => intro w hw _; exact hw
  | cons op ops ih =>
    intro w hw hwb
    simp only [run]
    exact ih _ (step_inv_fd hw op hwb.1) hwb.2

theorem init_inv_fd (stores : Nat → Store) (h : ∀ s, FDInv (stores s)) : WInvFD (World.init stores) := by
  refine ⟨h, ?_, ?_, ?_, ?_, ?_⟩
  · intro m id hid; simp [World.init] at hid
  · intro m m' id hid; simp [World.init] at hid
  · intro m s id hid; simp [World.init] at hid
  · intro m; simp [World.init]
  · intro m _; exact ⟨rfl, rfl⟩

/-! ### no operation changes the filters / destinations another id owns -/

theorem put_frameFD {w : World} {m s : Nat} {id : Str} (r : R)
    (h : FrameFD id (w.store s) r.st) (s' : Nat) : FrameFD id (w.store s') ((w.put m s r.st r.o).store s') := by
  by_cases e : s' = s
  · subst e; rw [put_store_same]; exact h
  · rw [put_store_other _ _ _ _ _ _ e]; exact FrameFD.refl id _

theorem removeServerW_frame_fd {w : World} (hw : WInvFD w) {m : Nat} {id : Str} (hid : w.ids m = some id)
    (s s' : Nat) : FrameFD id (w.store s') ((stepRemoveServerW w m s).1.store s') := by
  have hc := hw.idok m id hid
  unfold stepRemoveServerW
  cases hr : w.reg m s with
  | false =>
    simp only [stepRemoveServer, Bool.not_false, if_true, Bool.or_true]
    exact put_frameFD ⟨w.store s, w.owned m s, Res.err PyExc.valueError⟩ (FrameFD.refl id _) s'
  | true =>
    have hg := goodFD_removeServer (hw.stores s) (hw.agree m s id hid hr) hc true
    generalize stepRemoveServer true (w.store s) (w.owned m s) = rs at hg
    obtain ⟨r, still⟩ := rs
    simp only [Bool.not_true, Bool.or_false]
    cases still with
    | true => simp only [if_true]; exact put_frameFD r hg.frame s'
    | false => simp only [Bool.false_eq_true, if_false]; exact put_frameFD r hg.frame s'

theorem removeAllLoop_frame_fd {m : Nat} {id : Str} (s' : Nat) :
    ∀ (l : List Nat) (w : World), WInvFD w → w.ids m = some id →
      FrameFD id (w.store s') ((removeAllLoop m w l).1.store s') := by
  intro l
  induction l with
  | nil => intro w _ _; exact FrameFD.refl id _
  | cons s rest ih =>
    intro w hw hid
    have h1 := removeServerW_inv_fd hw hid s
    have hf := removeServerW_frame_fd hw hid s s'
    have hid1 : (stepRemoveServerW w m s).1.ids m = some id := by rw [removeServerW_ids]; exact hid
    unfold removeAllLoop
    generalize stepRemoveServerW w m s = r at h1 hid1 hf
    obtain ⟨w1, out1⟩ := r
    cases out1 with
    | done => simp only []; exact hf.trans (ih w1 h1 hid1)
    | _ => exact hf

theorem step_frame_fd {w : World} (hw : WInvFD w) (op : Op) (wb : WBfd w op) (m : Nat) (id : Str)
    (ha : actor op = some m) (hid : w.ids m = some id) (s' : Nat) :
    FrameFD id (w.store s') ((step w op).1.store s') := by
  have hc := hw.idok m id hid
  have local_ : ∀ (s : Nat) (r : R), (w.reg m s = true → GoodFD id (w.store s) r) →
      (w.reg m s = false → r.st = w.store s) →
      FrameFD id (w.store s') ((w.put m s r.st r.o).store s') := by
    intro s r h1 h2
    apply put_frameFD
    cases hr : w.reg m s with
    | true => exact (h1 hr).frame
    | false => rw [h2 hr]; exact FrameFD.refl id _
  cases op with
  | newMgr i => simp [actor] at ha
  | dropMgr i => simp [actor] at ha
  | addServer m0 s =>
    simp only [actor, Option.some.injEq] at ha; subst ha
    simp only [step, hid]
    cases hr : w.reg m0 s with
    | true => simp only [if_true]; exact FrameFD.refl id _
    | false =>
      simp only [Bool.false_eq_true, if_false]
      exact put_frameFD ⟨w.store s, discover id (w.store s), .done⟩ (FrameFD.refl id _) s'
  | removeServer m0 s =>
    simp only [actor, Option.some.injEq] at ha; subst ha
    simp only [step, hid]
    exact removeServerW_frame_fd hw hid s s'
  | removeAll m0 =>
    simp only [actor, Option.some.injEq] at ha; subst ha
    simp only [step, hid]
    exact removeAllLoop_frame_fd s' _ w hw hid
  | exitCtx m0 exc =>
    simp only [actor, Option.some.injEq] at ha; subst ha
    simp only [step, hid]
    have h := removeAllLoop_frame_fd (m := m0) (id := id) s' (w.servers m0) w hw hid
    generalize removeAllLoop m0 w (w.servers m0) = r at h
    obtain ⟨w1, out1⟩ := r
    cases out1 <;> exact h
  | addDest m0 s a =>
    simp only [actor, Option.some.injEq] at ha; subst ha
    simp only [step, hid, World.applyR]
    exact local_ s _ (fun hr => goodFD_addDest (hw.stores s) (hw.agree m0 s id hid hr) hc _ a wb)
      (fun hr => by rw [hr]; exact (addDest_unreg id _ _ a).1)
  | addFilter m0 s owned fid name =>
    simp only [actor, Option.some.injEq] at ha; subst ha
    simp only [step, hid, World.applyR]
    exact local_ s _ (fun hr => goodFD_addFilter (hw.stores s) (hw.agree m0 s id hid hr) hc _ owned fid name wb)
      (fun hr => by rw [hr]; exact (addFilter_unreg id _ _ owned fid name).1)
  | addSubs m0 s f sel owned =>
    simp only [actor, Option.some.injEq] at ha; subst ha
    simp only [step, hid, World.applyR]
    have h := subsOnly_addSubs (w.reg m0 s) id (w.store s) (w.owned m0 s) f sel owned
    exact put_frameFD _ (FrameFD.of_eq h.f h.d) s'
  | removeDests m0 s sel =>
    simp only [actor, Option.some.injEq] at ha; subst ha
    simp only [step, hid, World.applyR]
    exact local_ s _ (fun hr => goodFD_removeDests (hw.stores s) (hw.agree m0 s id hid hr) _ sel (wb id hid))
      (fun hr => by rw [hr]; exact (removeDests_unreg _ _ sel).1)
  | removeFilter m0 s p =>
    simp only [actor, Option.some.injEq] at ha; subst ha
    simp only [step, hid, World.applyR]
    exact local_ s _ (fun hr => goodFD_removeFilter (hw.stores s) (hw.agree m0 s id hid hr) _ p (wb id hid))
      (fun hr => by rw [hr]; exact (removeFilter_unreg _ _ p).1)
  | removeSubs m0 s sel =>
    simp only [actor, Option.some.injEq] at ha; subst ha
    simp only [step, hid, World.applyR]
    have h := subsOnly_removeSubs (w.reg m0 s) (w.store s) (w.owned m0 s) sel
    exact put_frameFD _ (FrameFD.of_eq h.f h.d) s'
  | getOwned m0 s which =>
    simp only [actor, Option.some.injEq] at ha; subst ha
    simp only [step, hid]; exact FrameFD.refl id _
  | getAll m0 s which =>
    simp only [actor, Option.some.injEq] at ha; subst ha
    simp only [step, hid]; exact FrameFD.refl id _

/-! ### retry after a half-way failure -/

theorem rmFilts_exact_fd {id : Str} {st : Store} {o : Owned} (hi : FDInv st)
    (hof : ∃ l, o.of = some l ∧ l.Nodup ∧ ∀ f, f ∈ l ↔ (f ∈ st.filts ∧ ownsSpec .filt id f.path.name))
    (hnoref : ∀ s ∈ st.subs, ¬ ownsSpec .filt id s.filter.name) :
    rmFilts st o = ({ st with filts := st.filts.filter (fun f => !decide (ownsSpec .filt id f.path.name)) },
                    { o with of := none }, none) := by
  obtain ⟨lf, hlf, hnd, hmem⟩ := hof
  have hsub : ∀ f ∈ lf, f ∈ st.filts := fun f hf => ((hmem f).mp hf).1
  have hkn : (lf.reverse.map (·.path)).Nodup := by
    apply nodup_map_of_inj_on _ (hnd.perm (List.reverse_perm _).symm)
    intro a ha b hb e
    exact eq_of_key (·.path) hi.fnd (hsub a (by simpa using ha)) (hsub b (by simpa using hb)) e
  have hp : ∀ f ∈ lf.reverse, st.hasFilt f.path = true := by
    intro f hf
    exact hasFilt_iff.mpr ⟨f, hsub f (by simpa using hf), rfl⟩
  have hr : ∀ f ∈ lf.reverse, st.filtReferenced f.path = false := by
    intro f hf
    have hown := ((hmem f).mp (by simpa using hf)).2
    cases h : st.filtReferenced f.path with
    | false => rfl
    | true =>
      obtain ⟨s, hs, e⟩ := filtReferenced_iff.mp h
      exact absurd (e ▸ hown) (hnoref s hs)
  have hloop := delLoop_filts lf.reverse st hp hr hkn
  have hf : st.filts.filter (fun f => !decide (f.path ∈ lf.reverse.map (·.path))) =
      st.filts.filter (fun f => !decide (ownsSpec .filt id f.path.name)) := by
    apply List.filter_congr
    intro f hf
    congr 1
    apply decide_eq_decide.mpr
    constructor
    · intro h
      simp only [List.mem_map, List.mem_reverse] at h
      obtain ⟨y, hy, e⟩ := h
      have := eq_of_key (·.path) hi.fnd (hsub y hy) hf e
      subst this
      exact ((hmem y).mp hy).2
    · intro h
      simp only [List.mem_map, List.mem_reverse]
      exact ⟨f, (hmem f).mpr ⟨hf, h⟩, rfl⟩
  simp only [rmFilts, hlf, delBackwards, hloop, hf, List.reverse_nil]

theorem rmDests_exact_fd {id : Str} {st : Store} {o : Owned} (hi : FDInv st)
    (hod : ∃ l, o.od = some l ∧ l.Nodup ∧ ∀ d, d ∈ l ↔ (d ∈ st.dests ∧ ownsSpec .dest id d.path.name))
    (hnoref : ∀ s ∈ st.subs, ¬ ownsSpec .dest id s.handler.name) :
    rmDests st o = ({ st with dests := st.dests.filter (fun d => !decide (ownsSpec .dest id d.path.name)) },
                    { o with od := none }, none) := by
  obtain ⟨ld, hld, hnd, hmem⟩ := hod
  have hsub : ∀ d ∈ ld, d ∈ st.dests := fun d hd => ((hmem d).mp hd).1
  have hkn : (ld.reverse.map (·.path)).Nodup := by
    apply nodup_map_of_inj_on _ (hnd.perm (List.reverse_perm _).symm)
    intro a ha b hb e
    exact eq_of_key (·.path) hi.dnd (hsub a (by simpa using ha)) (hsub b (by simpa using hb)) e
  have hp : ∀ d ∈ ld.reverse, st.hasDest d.path = true := by
    intro d hd
    exact hasDest_iff.mpr ⟨d, hsub d (by simpa using hd), rfl⟩
  have hr : ∀ d ∈ ld.reverse, st.destReferenced d.path = false := by
    intro d hd
    have hown := ((hmem d).mp (by simpa using hd)).2
    cases h : st.destReferenced d.path with
    | false => rfl
    | true =>
      obtain ⟨s, hs, e⟩ := destReferenced_iff.mp h
      exact absurd (e ▸ hown) (hnoref s hs)
  have hloop := delLoop_dests ld.reverse st hp hr hkn
  have hf : st.dests.filter (fun d => !decide (d.path ∈ ld.reverse.map (·.path))) =
      st.dests.filter (fun d => !decide (ownsSpec .dest id d.path.name)) := by
    apply List.filter_congr
    intro d hd
    congr 1
    apply decide_eq_decide.mpr
    constructor
    · intro h
      simp only [List.mem_map, List.mem_reverse] at h
      obtain ⟨y, hy, e⟩ := h
      have := eq_of_key (·.path) hi.dnd (hsub y hy) hd e
      subst this
      exact ((hmem y).mp hy).2
    · intro h
      simp only [List.mem_map, List.mem_reverse]
      exact ⟨d, (hmem d).mpr ⟨hd, h⟩, rfl⟩
  simp only [rmDests, hld, delBackwards, hloop, hf, List.reverse_nil]


/-- **Retry.** The state a half-way failure in the FILTER loop leaves behind: `_owned_subscriptions[sid]` is
    gone, the other two entries exist.  Once no subscription references an instance carrying the manager's
    marker any more, remove_server succeeds, un-registers and deletes exactly the marked filters and
    destinations; subscriptions are not touched. -/
theorem removeServer_retry_exact {id : Str} {st : Store} {o : Owned} (hi : FDInv st) (ha : AgreeFD id st o)
    (lf : List Filt) (ld : List Dest) (hos : o.os = none) (hof : o.of = some lf) (hod : o.od = some ld)
    (hnoref : ∀ s ∈ st.subs, ¬ ownsSpec .filt id s.filter.name ∧ ¬ ownsSpec .dest id s.handler.name) :
    stepRemoveServer true st o =
      (⟨{ dests := st.dests.filter (fun d => !decide (ownsSpec .dest id d.path.name)),
          filts := st.filts.filter (fun f => !decide (ownsSpec .filt id f.path.name)),
          subs := st.subs }, ⟨none, none, none⟩, .done⟩, false) := by
  have h1 : rmSubs st o = (st, o, none) := by simp [rmSubs, hos]
  have h2 := rmFilts_exact_fd (id := id) (o := o) hi ⟨lf, hof, (ha.of lf hof).1, (ha.of lf hof).2⟩
    (fun s hs => (hnoref s hs).1)
  have hi2 : FDInv { st with filts := st.filts.filter (fun f => !decide (ownsSpec .filt id f.path.name)) } :=
    ⟨List.Nodup.sublist (List.Sublist.map _ List.filter_sublist) hi.fnd, hi.dnd⟩
  have h3 := rmDests_exact_fd (id := id) (o := { o with of := none })
    (st := { st with filts := st.filts.filter (fun f => !decide (ownsSpec .filt id f.path.name)) }) hi2
    ⟨ld, hod, (ha.od ld hod).1, (ha.od ld hod).2⟩ (fun s hs => (hnoref s hs).2)
  simp only [stepRemoveServer, h1, h2, h3, Bool.not_true, Bool.false_eq_true, if_false]
  cases o; simp_all

end Proofs.SubMgr
