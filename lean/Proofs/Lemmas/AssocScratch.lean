import Proofs.Props.C13
namespace C13
open Pywbem.Proto Pywbem.Model.Assoc

/-- every stored reference end can be fetched: no host, an existing namespace, an existing instance
    (what CreateInstance / ModifyInstance check for the ends they store; DeleteInstance of a referenced
    instance breaks it: finding C13-KF1) -/
def EndsExist (sv : Server) : Prop :=
  ∀ S ∈ sv.repo, ∀ a ∈ S.insts, ∀ v ∈ ends a, endOk sv v = true

theorem fetchEnd_of_endOk {sv : Server} {v : Path} (h : endOk sv v = true) : ∃ i, fetchEnd sv v = .ok i := by
  unfold endOk at h
  unfold fetchEnd endStore
  cases hn : v.ns with
  | none => simp [hn] at h
  | some n =>
    simp only [hn] at h ⊢
    cases hT : findNs sv.repo n with
    | none => simp [hT] at h
    | some T =>
      simp only [hT] at h ⊢
      unfold getInstance
      cases hf : findInst T.insts v with
      | none => simp [hf] at h
      | some i => exact ⟨_, rfl⟩

/-- **Names = full, converse, with the dangling-end hypothesis as a checkable repository predicate**: in a
    repository where every stored end can be fetched, Associators succeeds whenever AssociatorNames does. -/
theorem C13_names_full_converse_of_ends_exist {sv : Server} {ns : Name} {x : Path} {f : AFilter} {l : List Path}
    (hends : EndsExist sv) (h : associatorNamesI sv ns x f = .ok l) :
    ∃ is, associatorsI sv ns x f = .ok is := by
  apply C13_names_are_paths_of_full_associators_converse_partial h
  intro S hS l0 hl0 y hy
  obtain ⟨a, ha, _, q, hq, hoe⟩ := (mem_assocInstNames hl0 y).mp hy
  obtain ⟨hqr, hqv, _⟩ := otherEnd_iff.mp hoe
  have hmem : y ∈ ends a := by
    simp only [ends, List.mem_filterMap]
    exact ⟨q, hq, by simp [hqr, hqv]⟩
  exact fetchEnd_of_endOk (hends S (findNs_mem hS).1 a ha y hmem)

end C13
