/-
Helper lemmas for C08 (declaration level): the token-level lexer `lexToks` on texts assembled from pieces.
-/
import Pywbem.Model.MofVal
import Proofs.Lemmas.MofStr
import Proofs.Lemmas.MofNum

set_option linter.unusedSimpArgs false

namespace Pywbem.Lemmas.MofTok
open Pywbem.Proto Pywbem.Model Pywbem.Model.MofStr Pywbem.Model.MofLex Pywbem.Model.MofVal
open Pywbem.Lemmas.MofStr Pywbem.Lemmas.MofNum

abbrev Str := List Nat

/-! ### fuel -/

theorem lexToksF_fuel : ∀ (f1 f2 : Nat) (t : Str), t.length + 1 ≤ f1 → t.length + 1 ≤ f2 →
    lexToksF f1 t = lexToksF f2 t := by
  intro f1
  induction f1 with
  | zero => intro f2 t h; omega
  | succ f1 ih =>
    intro f2 t h1 h2
    match f2, h2 with
    | f2 + 1, h2 =>
      cases t with
      | nil => rfl
      | cons c cs =>
        simp only [List.length_cons] at h1 h2
        simp only [lexToksF]
        split
        · exact ih f2 cs (by omega) (by omega)
        · split
          · cases lexNumber (c :: cs) with
            | none => rfl
            | some r =>
              simp only []
              split
              · rw [ih f2 r.2 (by omega) (by omega)]
              · rfl
          · split
            · cases lexCharValue (c :: cs) with
              | none => rfl
              | some r =>
                simp only []
                split
                · rw [ih f2 r.2 (by omega) (by omega)]
                · rfl
            · split
              · cases scanBody 34 cs with
                | none => rfl
                | some r =>
                  simp only []
                  split
                  · rw [ih f2 r.2 (by omega) (by omega)]
                  · rfl
              · split
                · split
                  · rw [ih f2 _ (by omega) (by omega)]
                  · rfl
                · split
                  · rw [ih f2 cs (by omega) (by omega)]
                  · rfl

theorem lexToks_of_fuel (f : Nat) (t : Str) (h : t.length + 1 ≤ f) : lexToksF f t = lexToks t :=
  lexToksF_fuel f _ t h (Nat.le_refl _)

/-! ### separators -/

/-- characters that end a number or an identifier: white space, the PLY literals, the two quote characters -/
def isSepChar (c : Nat) : Bool := isWs c || isPunct c || c == 34 || c == 39

/-- the text is empty or starts with a separator character -/
def Closed (t : Str) : Prop :=
  match t with
  | [] => True
  | c :: _ => isSepChar c = true

theorem closed_cons (c : Nat) (t : Str) (h : isSepChar c = true) : Closed (c :: t) := h

theorem sep_not_digit (c : Nat) (h : isSepChar c = true) : isDigit c = false := by
  revert h; unfold isSepChar isWs isPunct isDigit
  simp only [Bool.or_eq_true, beq_iff_eq, Bool.and_eq_false_iff, decide_eq_false_iff_not]
  intro h; omega

theorem sep_not_idchar (c : Nat) (h : isSepChar c = true) : isIdChar c = false := by
  revert h; unfold isSepChar isWs isPunct isIdChar isIdStart isDigit
  simp only [Bool.or_eq_true, beq_iff_eq, Bool.or_eq_false_iff, Bool.and_eq_false_iff, decide_eq_false_iff_not,
    Bool.and_eq_true, decide_eq_true_eq, beq_eq_false_iff_ne]
  intro h; omega

theorem closed_delim (t : Str) (h : Closed t) : Delim t := by
  cases t with
  | nil => trivial
  | cons c r =>
    have hs : isSepChar c = true := h
    refine ⟨sep_not_digit c hs, ?_⟩
    revert hs; unfold isSepChar isWs isPunct
    simp only [Bool.or_eq_true, beq_iff_eq]
    intro hs; omega

/-! ### one token at the head -/

theorem lexToks_ws (ws : Str) (h : ws.all isWs = true) (t : Str) : lexToks (ws ++ t) = lexToks t := by
  induction ws with
  | nil => rfl
  | cons w ws ih =>
    simp only [List.all_cons, Bool.and_eq_true] at h
    have : lexToks (w :: ws ++ t) = lexToksF ((ws ++ t).length + 1) (ws ++ t) := by
      simp only [lexToks, List.cons_append, List.length_cons, lexToksF, h.1, if_true]
    rw [this]
    exact ih h.2

theorem lexToks_punct (c : Nat) (h : isPunct c = true) (t : Str) :
    lexToks (c :: t) = (lexToks t).map (Tok.p c :: ·) := by
  have hw : isWs c = false := by
    revert h; unfold isPunct isWs; simp only [Bool.or_eq_true, beq_iff_eq, Bool.or_eq_false_iff, beq_eq_false_iff_ne]
    intro h; omega
  have hn : (isDigit c || c == 43 || c == 45 || c == 46) = false := by
    revert h; unfold isPunct isDigit
    simp only [Bool.or_eq_true, beq_iff_eq, Bool.or_eq_false_iff, beq_eq_false_iff_ne, Bool.and_eq_false_iff,
      decide_eq_false_iff_not]
    intro h; omega
  have h39 : ¬ c = 39 := by
    revert h; unfold isPunct; simp only [Bool.or_eq_true, beq_iff_eq]; intro h; omega
  have h34 : ¬ c = 34 := by
    revert h; unfold isPunct; simp only [Bool.or_eq_true, beq_iff_eq]; intro h; omega
  have hi : isIdStart c = false := by
    revert h; unfold isPunct isIdStart
    simp only [Bool.or_eq_true, beq_iff_eq, Bool.or_eq_false_iff, beq_eq_false_iff_ne, Bool.and_eq_false_iff,
      decide_eq_false_iff_not]
    intro h; omega
  simp only [lexToks, List.length_cons, lexToksF, hw, hn, h39, h34, hi, h, Bool.false_eq_true, if_false, if_true]

theorem lexToks_str (s t : Str) :
    lexToks (34 :: escape s ++ 34 :: t) = (lexToks t).map (Tok.str (34 :: escape s ++ [34]) :: ·) := by
  have hw : isWs 34 = false := by decide
  have hn : (isDigit 34 || (34 : Nat) == 43 || (34 : Nat) == 45 || (34 : Nat) == 46) = false := by decide
  have h39 : ¬ (34 : Nat) = 39 := by decide
  simp only [lexToks, List.cons_append, List.length_cons, lexToksF, hw, hn, h39, Bool.false_eq_true, if_false, if_true]
  rw [scan_escape 34 (.inl rfl)]
  have hl : t.length ≤ (escape s ++ 34 :: t).length := by simp; omega
  simp only [hl, if_true]
  rw [lexToks_of_fuel _ t (by simp; omega)]; rfl

/-- pieces of a folded string (Lemmas/MofStr `render`) are string tokens -/
theorem lexToks_render (ps : List (Str × Str)) (hs : ∀ p ∈ ps, p.1.all isWs = true) (t : Str) :
    lexToks (render 34 ps ++ t) = (lexToks t).map ((ps.map (fun p => Tok.str (tokOf p))) ++ ·) := by
  induction ps with
  | nil => simp [render]
  | cons p ps ih =>
    have hp := hs p (by simp)
    have : render 34 (p :: ps) ++ t = p.1 ++ (34 :: escape p.2 ++ 34 :: (render 34 ps ++ t)) := by
      simp [render]
    rw [this, lexToks_ws _ hp, lexToks_str, ih (fun q hq => hs q (by simp [hq]))]
    simp [tokOf, Option.map_map, Function.comp_def]

/-- an identifier followed by a separator -/
theorem lexToks_id (c : Nat) (cs t : Str) (hc : isIdStart c = true) (hcs : cs.all isIdChar = true)
    (ht : Closed t) : lexToks (c :: cs ++ t) = (lexToks t).map (Tok.id (c :: cs) :: ·) := by
  have hw : isWs c = false := by
    revert hc; unfold isIdStart isWs
    simp only [Bool.or_eq_true, beq_iff_eq, Bool.or_eq_false_iff, beq_eq_false_iff_ne, Bool.and_eq_true,
      decide_eq_true_eq]
    intro h; omega
  have hn : (isDigit c || c == 43 || c == 45 || c == 46) = false := by
    revert hc; unfold isIdStart isDigit
    simp only [Bool.or_eq_true, beq_iff_eq, Bool.or_eq_false_iff, beq_eq_false_iff_ne, Bool.and_eq_true,
      decide_eq_true_eq, Bool.and_eq_false_iff, decide_eq_false_iff_not]
    intro h; omega
  have h39 : ¬ c = 39 := by
    revert hc; unfold isIdStart
    simp only [Bool.or_eq_true, beq_iff_eq, Bool.and_eq_true, decide_eq_true_eq]; intro h; omega
  have h34 : ¬ c = 34 := by
    revert hc; unfold isIdStart
    simp only [Bool.or_eq_true, beq_iff_eq, Bool.and_eq_true, decide_eq_true_eq]; intro h; omega
  have hspan : spanP isIdChar (cs ++ t) = (cs, t) := by
    apply spanP_append isIdChar cs t hcs
    intro x r e; subst e; exact sep_not_idchar x ht
  simp only [lexToks, List.cons_append, List.length_cons, lexToksF, hw, hn, h39, h34, hc, hspan, Bool.false_eq_true,
    if_false, if_true]
  have hl : t.length ≤ (cs ++ t).length := by simp
  simp only [hl, if_true]
  rw [lexToks_of_fuel _ t (by simp)]; rfl

/-- a numeric token at the head: whatever `lexNumber` says, provided the text starts like a number -/
theorem lexToks_num (c : Nat) (cs t : Str) (n : NumTok)
    (hstart : (isDigit c || c == 43 || c == 45 || c == 46) = true) (hws : isWs c = false)
    (hlex : lexNumber (c :: cs) = some (n, t)) (hlen : t.length ≤ cs.length) :
    lexToks (c :: cs) = (lexToks t).map (Tok.num n :: ·) := by
  simp only [lexToks, List.length_cons, lexToksF, hws, hstart, hlex, hlen, Bool.false_eq_true, if_false, if_true]
  rw [lexToks_of_fuel _ t (by omega)]; rfl

end Pywbem.Lemmas.MofTok
