/-
Helper lemmas for C08 (declaration level): the token-level lexer `lexToks` on texts assembled from pieces.
-/
import Pywbem.Model.MofVal
import Proofs.Lemmas.MofStr
import Proofs.Lemmas.MofNum

set_option linter.unusedSimpArgs false

namespace Pywbem.Lemmas.MofTok
open Pywbem.Proto Pywbem.Model Pywbem.Model.MofStr Pywbem.Model.MofLex Pywbem.Model.MofVal
open Pywbem.Lemmas.MofStr Pywbem.Lemmas.MofNum

abbrev Str := List Nat

/-! ### fuel -/

theorem lexToksF_fuel : ∀ (f1 f2 : Nat) (t : Str), t.length + 1 ≤ f1 → t.length + 1 ≤ f2 →
    lexToksF f1 t = lexToksF f2 t := by
  intro f1
  induction f1 with
  | zero => intro f2 t h; omega
  | succ f1 ih =>
    intro f2 t h1 h2
    match f2, h2 with
    | f2 + 1, h2 =>
      cases t with
      | nil => rfl
      | cons c cs =>
        simp only [List.length_cons] at h1 h2
        simp only [lexToksF]
        split
        · exact ih f2 cs (by omega) (by omega)
        · split
          · cases lexNumber (c :: cs) with
            | none => rfl
            | some r =>
              simp only []
              split
              · rw [ih f2 r.2 (by omega) (by omega)]
              · rfl
          · split
            · cases lexCharValue (c :: cs) with
              | none => rfl
              | some r =>
                simp only []
                split
                · rw [ih f2 r.2 (by omega) (by omega)]
                · rfl
            · split
              · cases scanBody 34 cs with
                | none => rfl
                | some r =>
                  simp only []
                  split
                  · rw [ih f2 r.2 (by omega) (by omega)]
                  · rfl
              · split
                · split
                  · rw [ih f2 _ (by omega) (by omega)]
                  · rfl
                · split
                  · rw [ih f2 cs (by omega) (by omega)]
                  · rfl

theorem lexToks_of_fuel (f : Nat) (t : Str) (h : t.length + 1 ≤ f) : lexToksF f t = lexToks t :=
  lexToksF_fuel f _ t h (Nat.le_refl _)

/-! ### separators -/

/-- characters that end a number or an identifier: white space, the PLY literals, the two quote characters -/
def isSepChar (c : Nat) : Bool := isWs c || isPunct c || c == 34 || c == 39

/-- the text is empty or starts with a separator character -/
def Closed (t : Str) : Prop :=
  match t with
  | [] => True
  | c :: _ => isSepChar c = true

theorem closed_cons (c : Nat) (t : Str) (h : isSepChar c = true) : Closed (c :: t) := h

theorem sep_not_digit (c : Nat) (h : isSepChar c = true) : isDigit c = false := by
  revert h; unfold isSepChar isWs isPunct isDigit
  simp only [Bool.or_eq_true, beq_iff_eq, Bool.and_eq_false_iff, decide_eq_false_iff_not]
  intro h; omega

theorem sep_not_idchar (c : Nat) (h : isSepChar c = true) : isIdChar c = false := by
  revert h; unfold isSepChar isWs isPunct isIdChar isIdStart isDigit
  simp only [Bool.or_eq_true, beq_iff_eq, Bool.or_eq_false_iff, Bool.and_eq_false_iff, decide_eq_false_iff_not,
    Bool.and_eq_true, decide_eq_true_eq, beq_eq_false_iff_ne]
  intro h; omega

theorem closed_delim (t : Str) (h : Closed t) : Delim t := by
  cases t with
  | nil => trivial
  | cons c r =>
    have hs : isSepChar c = true := h
    refine ⟨sep_not_digit c hs, ?_⟩
    revert hs; unfold isSepChar isWs isPunct
    simp only [Bool.or_eq_true, beq_iff_eq]
    intro hs; omega

/-! ### one token at the head -/

theorem lexToks_ws (ws : Str) (h : ws.all isWs = true) (t : Str) : lexToks (ws ++ t) = lexToks t := by
  induction ws with
  | nil => rfl
  | cons w ws ih =>
    simp only [List.all_cons, Bool.and_eq_true] at h
    have : lexToks (w :: ws ++ t) = lexToksF ((ws ++ t).length + 1) (ws ++ t) := by
      simp only [lexToks, List.cons_append, List.length_cons, lexToksF, h.1, if_true]
    rw [this]
    exact ih h.2

theorem lexToks_punct (c : Nat) (h : isPunct c = true) (t : Str) :
    lexToks (c :: t) = (lexToks t).map (Tok.p c :: ·) := by
  have hw : isWs c = false := by
    revert h; unfold isPunct isWs; simp only [Bool.or_eq_true, beq_iff_eq, Bool.or_eq_false_iff, beq_eq_false_iff_ne]
    intro h; omega
  have hn : (isDigit c || c == 43 || c == 45 || c == 46) = false := by
    revert h; unfold isPunct isDigit
    simp only [Bool.or_eq_true, beq_iff_eq, Bool.or_eq_false_iff, beq_eq_false_iff_ne, Bool.and_eq_false_iff,
      decide_eq_false_iff_not]
    intro h; omega
  have h39 : ¬ c = 39 := by
    revert h; unfold isPunct; simp only [Bool.or_eq_true, beq_iff_eq]; intro h; omega
  have h34 : ¬ c = 34 := by
    revert h; unfold isPunct; simp only [Bool.or_eq_true, beq_iff_eq]; intro h; omega
  have hi : isIdStart c = false := by
    revert h; unfold isPunct isIdStart
    simp only [Bool.or_eq_true, beq_iff_eq, Bool.or_eq_false_iff, beq_eq_false_iff_ne, Bool.and_eq_false_iff,
      decide_eq_false_iff_not]
    intro h; omega
  simp only [lexToks, List.length_cons, lexToksF, hw, hn, h39, h34, hi, h, Bool.false_eq_true, if_false, if_true]

theorem lexToks_str (s t : Str) :
    lexToks (34 :: escape s ++ 34 :: t) = (lexToks t).map (Tok.str (34 :: escape s ++ [34]) :: ·) := by
  have hw : isWs 34 = false := by decide
  have hn : (isDigit 34 || (34 : Nat) == 43 || (34 : Nat) == 45 || (34 : Nat) == 46) = false := by decide
  have h39 : ¬ (34 : Nat) = 39 := by decide
  simp only [lexToks, List.cons_append, List.length_cons, lexToksF, hw, hn, h39, Bool.false_eq_true, if_false, if_true]
  rw [scan_escape 34 (.inl rfl)]
  have hl : t.length ≤ (escape s ++ 34 :: t).length := by simp; omega
  simp only [hl, if_true]
  rw [lexToks_of_fuel _ t (by simp; omega)]; rfl

/-- pieces of a folded string (Lemmas/MofStr `render`) are string tokens -/
theorem lexToks_render (ps : List (Str × Str)) (hs : ∀ p ∈ ps, p.1.all isWs = true) (t : Str) :
    lexToks (render 34 ps ++ t) = (lexToks t).map ((ps.map (fun p => Tok.str (tokOf p))) ++ ·) := by
  induction ps with
  | nil => simp [render]
  | cons p ps ih =>
    have hp := hs p (by simp)
    have : render 34 (p :: ps) ++ t = p.1 ++ (34 :: escape p.2 ++ 34 :: (render 34 ps ++ t)) := by
      simp [render]
    rw [this, lexToks_ws _ hp, lexToks_str, ih (fun q hq => hs q (by simp [hq]))]
    simp [tokOf, Option.map_map, Function.comp_def]

/-- an identifier followed by a separator -/
theorem lexToks_id (c : Nat) (cs t : Str) (hc : isIdStart c = true) (hcs : cs.all isIdChar = true)
    (ht : Closed t) : lexToks (c :: cs ++ t) = (lexToks t).map (Tok.id (c :: cs) :: ·) := by
  have hw : isWs c = false := by
    revert hc; unfold isIdStart isWs
    simp only [Bool.or_eq_true, beq_iff_eq, Bool.or_eq_false_iff, beq_eq_false_iff_ne, Bool.and_eq_true,
      decide_eq_true_eq]
    intro h; omega
  have hn : (isDigit c || c == 43 || c == 45 || c == 46) = false := by
    revert hc; unfold isIdStart isDigit
    simp only [Bool.or_eq_true, beq_iff_eq, Bool.or_eq_false_iff, beq_eq_false_iff_ne, Bool.and_eq_true,
      decide_eq_true_eq, Bool.and_eq_false_iff, decide_eq_false_iff_not]
    intro h; omega
  have h39 : ¬ c = 39 := by
    revert hc; unfold isIdStart
    simp only [Bool.or_eq_true, beq_iff_eq, Bool.and_eq_true, decide_eq_true_eq]; intro h; omega
  have h34 : ¬ c = 34 := by
    revert hc; unfold isIdStart
    simp only [Bool.or_eq_true, beq_iff_eq, Bool.and_eq_true, decide_eq_true_eq]; intro h; omega
  have hspan : spanP isIdChar (cs ++ t) = (cs, t) := by
    apply spanP_append isIdChar cs t hcs
    intro x r e; subst e; exact sep_not_idchar x ht
  simp only [lexToks, List.cons_append, List.length_cons, lexToksF, hw, hn, h39, h34, hc, hspan, Bool.false_eq_true,
    if_false, if_true]
  have hl : t.length ≤ (cs ++ t).length := by simp
  simp only [hl, if_true]
  rw [lexToks_of_fuel _ t (by simp)]; rfl

/-- a numeric token at the head: whatever `lexNumber` says, provided the text starts like a number -/
theorem lexToks_num (c : Nat) (cs t : Str) (n : NumTok)
    (hstart : (isDigit c || c == 43 || c == 45 || c == 46) = true) (hws : isWs c = false)
    (hlex : lexNumber (c :: cs) = some (n, t)) (hlen : t.length ≤ cs.length) :
    lexToks (c :: cs) = (lexToks t).map (Tok.num n :: ·) := by
  simp only [lexToks, List.length_cons, lexToksF, hws, hstart, hlex, hlen, Bool.false_eq_true, if_false, if_true]
  rw [lexToks_of_fuel _ t (by omega)]; rfl

/-! ### integer and real literals -/

theorem decDigits_ne_nil (f n : Nat) : decDigits (f + 1) n ≠ [] := by
  unfold decDigits; split <;> simp

theorem intStr_cons (v : Int) : ∃ c cs, intStr v = c :: cs ∧ (isDigit c || c == 43 || c == 45 || c == 46) = true ∧
    isWs c = false := by
  unfold intStr
  split
  · exact ⟨45, _, rfl, by decide, by decide⟩
  · have hne := decDigits_ne_nil v.natAbs v.natAbs
    have hd := decDigits_digits (v.natAbs + 1) v.natAbs (by omega)
    unfold natStr
    cases hx : decDigits (v.natAbs + 1) v.natAbs with
    | nil => exact absurd hx hne
    | cons c cs =>
      rw [hx] at hd
      simp only [List.all_cons, Bool.and_eq_true] at hd
      refine ⟨c, cs, rfl, by simp [hd.1], ?_⟩
      have := hd.1; revert this; unfold isDigit isWs
      simp only [Bool.and_eq_true, decide_eq_true_eq, Bool.or_eq_false_iff, beq_eq_false_iff_ne]
      intro h; omega

theorem lexToks_int (v : Int) (t : Str) (ht : Closed t) :
    lexToks (intStr v ++ t) = (lexToks t).map (Tok.num (.int v) :: ·) := by
  obtain ⟨c, cs, e, hs, hw⟩ := intStr_cons v
  have hl := lexNumber_intStr v t (closed_delim t ht)
  rw [e] at hl ⊢
  exact lexToks_num c (cs ++ t) t (.int v) hs hw hl (by simp)

theorem replaceChar_id (a : Nat) (b s : Str) (h : a ∉ s) : replaceChar a b s = s := by
  induction s with
  | nil => rfl
  | cons c cs ih =>
    have hc : ¬ c = a := fun e => h (by simp [e])
    have := ih (fun hm => h (by simp [hm]))
    simp only [replaceChar, List.flatMap_cons, hc, if_false] at this ⊢
    rw [this]; rfl

theorem replaceChar_append (a : Nat) (b s t : Str) :
    replaceChar a b (s ++ t) = replaceChar a b s ++ replaceChar a b t := by
  simp [replaceChar]

theorem digits_no (d : Str) (h : d.all isDigit = true) (x : Nat) (hx : isDigit x = false) : x ∉ d := by
  intro hm
  have := (List.all_eq_true.mp h) x hm
  rw [hx] at this; exact absurd this (by simp)

/-- the text tomof() writes for a real value: the repr with a fraction forced in -/
def withFrac (g : ReprText) : ReprText := match g.frac with | some _ => g | none => { g with frac := some [48] }

theorem withFrac_ok (g : ReprText) (h : g.ok = true) : (withFrac g).ok = true := by
  unfold withFrac
  cases hf : g.frac with
  | some f => simpa [hf] using h
  | none =>
    simp only [ReprText.ok, hf] at h ⊢
    simp only [Bool.and_eq_true] at h ⊢
    refine ⟨⟨⟨h.1.1.1, by decide⟩, h.1.2⟩, by simp⟩

theorem realLit_render (g : ReprText) (h : g.ok = true) : realLit g.render = (withFrac g).render := by
  unfold ReprText.ok at h
  simp only [Bool.and_eq_true] at h
  obtain ⟨⟨⟨⟨_, hip⟩, hfrac⟩, hexp⟩, hfe⟩ := h
  unfold withFrac
  cases hf : g.frac with
  | some f =>
    have : g.render.contains 46 = true := by simp [ReprText.render, hf]
    have hm : (46 : Nat) ∈ g.render := by simpa using this
    simp only [realLit, this, not_true_eq_false, and_false, if_false]
  | none =>
    cases he : g.exp with
    | none => simp [hf, he] at hfe
    | some e =>
      simp only [he] at hexp
      simp only [Bool.and_eq_true] at hexp
      have n46ip : (46 : Nat) ∉ g.ip := digits_no _ hip 46 (by decide)
      have n46e : (46 : Nat) ∉ e.2 := digits_no _ hexp.2 46 (by decide)
      have n101ip : (101 : Nat) ∉ g.ip := digits_no _ hip 101 (by decide)
      have n101e : (101 : Nat) ∉ e.2 := digits_no _ hexp.2 101 (by decide)
      have hrender : g.render = (if g.neg then [45] else []) ++ g.ip ++ (101 :: (if e.1 then 45 else 43) :: e.2) := by
        simp [ReprText.render, hf, he]
      have hc101 : g.render.contains 101 = true := by rw [hrender]; simp
      have hc46 : g.render.contains 46 = false := by
        rw [hrender]
        simp only [List.contains_eq_mem, List.mem_append, List.mem_cons, decide_eq_false_iff_not, not_or]
        refine ⟨⟨?_, n46ip⟩, by decide, ?_, n46e⟩
        · cases g.neg <;> simp
        · cases e.1 <;> simp
      simp only [realLit, hc101, hc46, Bool.false_eq_true, not_false_eq_true, and_self, if_true]
      rw [hrender, replaceChar_append, replaceChar_append]
      have h1 : replaceChar 101 [46, 48, 101] (if g.neg then [45] else []) = (if g.neg then [45] else []) := by
        apply replaceChar_id; cases g.neg <;> simp
      have h2 := replaceChar_id 101 [46, 48, 101] g.ip n101ip
      have h3 : replaceChar 101 [46, 48, 101] (101 :: (if e.1 then 45 else 43) :: e.2) =
          46 :: 48 :: 101 :: (if e.1 then 45 else 43) :: e.2 := by
        have := replaceChar_id 101 [46, 48, 101] ((if e.1 then 45 else 43) :: e.2)
          (by cases e.1 <;> simp [n101e])
        simp only [replaceChar, List.flatMap_cons, if_true] at this ⊢
        rw [this]; rfl
      rw [h1, h2, h3]
      simp [ReprText.render, hf, he]

/-- a repr text with a fraction, followed by a separator, is one floatValue token -/
theorem lexFloat_render (g : ReprText) (h : g.ok = true) (f : Str) (hf : g.frac = some f) (t : Str)
    (ht : Closed t) : lexFloat (g.render ++ t) = some (g.render, t) := by
  unfold ReprText.ok at h
  simp only [Bool.and_eq_true, hf] at h
  obtain ⟨⟨⟨⟨hipne, hip⟩, hfne, hfd⟩, hexp⟩, _⟩ := h
  have hipne' : g.ip ≠ [] := by intro e; simp [e] at hipne
  have hfne' : f ≠ [] := by intro e; simp [e] at hfne
  have hdelim : ∀ x r, t = x :: r → isDigit x = false := by
    intro x r e; subst e; exact sep_not_digit x ht
  -- the part after the sign
  obtain ⟨i0, irest, hi0⟩ : ∃ i0 irest, g.ip = i0 :: irest := by
    cases hx : g.ip with
    | nil => exact absurd hx hipne'
    | cons a b => exact ⟨a, b, rfl⟩
  have hi0d : isDigit i0 = true := by rw [hi0] at hip; simp at hip; exact hip.1
  have hi0s : i0 ≠ 43 ∧ i0 ≠ 45 := by
    revert hi0d; unfold isDigit; simp only [Bool.and_eq_true, decide_eq_true_eq]; intro h; omega
  cases he : g.exp with
  | none =>
    have hr : g.render ++ t = (if g.neg then [45] else []) ++ (g.ip ++ 46 :: (f ++ t)) := by
      simp [ReprText.render, hf, he]
    have hsg : optSign (g.render ++ t) = ((if g.neg then [45] else []), g.ip ++ 46 :: (f ++ t)) := by
      rw [hr]; cases g.neg
      · simp only [Bool.false_eq_true, if_false, List.nil_append, hi0, List.cons_append]
        unfold optSign; split <;> simp_all
      · simp [optSign]
    have hsp1 : spanP isDigit (g.ip ++ 46 :: (f ++ t)) = (g.ip, 46 :: (f ++ t)) :=
      spanP_append isDigit g.ip _ hip (by intro x r e; simp at e; rw [← e.1]; decide)
    have hsp2 : spanP isDigit (f ++ t) = (f, t) := spanP_append isDigit f t hfd hdelim
    unfold lexFloat
    simp only [hsg, hsp1, hsp2, hfne', if_false]
    cases t with
    | nil => simp [ReprText.render, hf, he]
    | cons x r =>
      have hx : isSepChar x = true := ht
      have hne : ¬ (x = 101 ∨ x = 69) := by
        revert hx; unfold isSepChar isWs isPunct; simp only [Bool.or_eq_true, beq_iff_eq]; intro h; omega
      simp [hne, ReprText.render, hf, he]
  | some e =>
    simp only [he, Bool.and_eq_true] at hexp
    have hene : e.2 ≠ [] := by intro x; simp [x] at hexp
    have hr : g.render ++ t = (if g.neg then [45] else []) ++
        (g.ip ++ 46 :: (f ++ 101 :: (if e.1 then 45 else 43) :: (e.2 ++ t))) := by
      simp [ReprText.render, hf, he]
    have hsg : optSign (g.render ++ t) = ((if g.neg then [45] else []),
        g.ip ++ 46 :: (f ++ 101 :: (if e.1 then 45 else 43) :: (e.2 ++ t))) := by
      rw [hr]; cases g.neg
      · simp only [Bool.false_eq_true, if_false, List.nil_append, hi0, List.cons_append]
        unfold optSign; split <;> simp_all
      · simp [optSign]
    have hsp1 : spanP isDigit (g.ip ++ 46 :: (f ++ 101 :: (if e.1 then 45 else 43) :: (e.2 ++ t))) =
        (g.ip, 46 :: (f ++ 101 :: (if e.1 then 45 else 43) :: (e.2 ++ t))) :=
      spanP_append isDigit g.ip _ hip (by intro x r e; simp at e; rw [← e.1]; decide)
    have hsp2 : spanP isDigit (f ++ 101 :: (if e.1 then 45 else 43) :: (e.2 ++ t)) =
        (f, 101 :: (if e.1 then 45 else 43) :: (e.2 ++ t)) :=
      spanP_append isDigit f _ hfd (by intro x r e; simp at e; rw [← e.1]; decide)
    have hsp3 : spanP isDigit (e.2 ++ t) = (e.2, t) := spanP_append isDigit e.2 t hexp.2 hdelim
    have hos : optSign ((if e.1 then 45 else 43) :: (e.2 ++ t)) = ([if e.1 then 45 else 43], e.2 ++ t) := by
      cases e.1 <;> simp [optSign]
    unfold lexFloat
    simp only [hsg, hsp1, hsp2, hfne', if_false, true_or, if_true, hos, hsp3, hene]
    simp [ReprText.render, hf, he]

theorem render_cons (g : ReprText) (h : g.ok = true) : ∃ c cs, g.render = c :: cs ∧
    (isDigit c || c == 43 || c == 45 || c == 46) = true ∧ isWs c = false := by
  unfold ReprText.ok at h
  simp only [Bool.and_eq_true] at h
  have hip := h.1.1.1
  cases hx : g.ip with
  | nil => simp [hx] at hip
  | cons a b =>
    rw [hx] at hip
    simp only [List.isEmpty_cons, Bool.not_false, List.all_cons, Bool.and_eq_true, true_and] at hip
    cases hn : g.neg
    · refine ⟨a, _, by simp [ReprText.render, hn, hx]; rfl, by simp [hip.1], ?_⟩
      have := hip.1; revert this; unfold isDigit isWs
      simp only [Bool.and_eq_true, decide_eq_true_eq, Bool.or_eq_false_iff, beq_eq_false_iff_ne]
      intro h; omega
    · exact ⟨45, _, by simp [ReprText.render, hn]; rfl, by decide, by decide⟩

theorem lexToks_real (g : ReprText) (h : g.ok = true) (t : Str) (ht : Closed t) :
    lexToks (realLit g.render ++ t) = (lexToks t).map (Tok.num (.float (realLit g.render)) :: ·) := by
  rw [realLit_render g h]
  have hok := withFrac_ok g h
  obtain ⟨f, hf⟩ : ∃ f, (withFrac g).frac = some f := by
    unfold withFrac; cases hx : g.frac with
    | some f => exact ⟨f, by simp [hx]⟩
    | none => exact ⟨[48], by simp⟩
  have hlf := lexFloat_render (withFrac g) hok f hf t ht
  obtain ⟨c, cs, e, hs, hw⟩ := render_cons (withFrac g) hok
  have hln : lexNumber ((withFrac g).render ++ t) = some (.float (withFrac g).render, t) := by
    unfold lexNumber; rw [hlf]
  rw [e] at hln ⊢
  exact lexToks_num c (cs ++ t) t _ hs hw hln (by simp)

end Pywbem.Lemmas.MofTok
