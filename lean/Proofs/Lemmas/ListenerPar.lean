/-
C17 helper lemmas, part 4: what `XmlParse.par` hands out consists of XML characters (attribute values),
so the concrete request parser satisfies `XmlCharsEnv`.
-/
import Proofs.Lemmas.ListenerXml

namespace Proofs.ListenerHttp
open Pywbem.Proto Pywbem.Model Pywbem.Model.XmlText Pywbem.Model.ListenerHttp Pywbem.Model.XmlParse

def okStr (s : Str) : Prop := ∀ c ∈ s, isXmlChar c = true

theorem okStr_nil : okStr [] := by intro c hc; cases hc
theorem okStr_cons {c : Char} {s : Str} (hc : isXmlChar c = true) (hs : okStr s) : okStr (c :: s) := by
  intro x hx
  simp only [List.mem_cons] at hx
  rcases hx with rfl | hx
  · exact hc
  · exact hs x hx
theorem okStr_append {a b : Str} (ha : okStr a) (hb : okStr b) : okStr (a ++ b) := by
  intro x hx
  simp only [List.mem_append] at hx
  rcases hx with hx | hx
  · exact ha x hx
  · exact hb x hx

theorem resolve_ok {name : Str} {ch : Char} (h : resolve name = some ch) : isXmlChar ch = true := by
  unfold resolve at h
  repeat' split at h
  all_goals first
    | (cases h; decide)
    | (simp only [Option.some.injEq] at h; subst h; rename_i hc; exact hc.2)
    | cases h

theorem recvAttr_ok : ∀ (s : Str) (m : Mode) (v : Str), recvAttr m s = some v → okStr v := by
  intro s
  induction s with
  | nil =>
    intro m v h
    cases m with
    | txt sk => simp [recvAttr] at h; subst h; exact okStr_nil
    | ent acc => simp [recvAttr] at h
  | cons c cs ih =>
    intro m v h
    cases m with
    | txt sk =>
      unfold recvAttr at h
      repeat' split at h
      all_goals first
        | cases h
        | exact ih _ _ h
        | (simp only [Option.map_eq_some_iff] at h
           obtain ⟨w, hw, rfl⟩ := h
           refine okStr_cons ?_ (ih _ _ hw)
           first | decide | (rename_i hx _ _ _; simpa using hx) | (rename_i hx _ _ _ _; simpa using hx))
    | ent acc =>
      unfold recvAttr at h
      split at h
      · split at h
        · rename_i ch hres
          simp only [Option.map_eq_some_iff] at h
          obtain ⟨w, hw, rfl⟩ := h
          exact okStr_cons (resolve_ok hres) (ih _ _ hw)
        · cases h
      · exact ih _ _ h

theorem joinQuot_ok : ∀ (ps : List Str) (v : Str), joinQuot ps = some v → okStr v := by
  intro ps
  induction ps with
  | nil => intro v h; simp [joinQuot] at h; subst h; exact okStr_nil
  | cons p rest ih =>
    intro v h
    cases rest with
    | nil => simp only [joinQuot] at h; exact recvAttr_ok _ _ _ h
    | cons q qs =>
      simp only [joinQuot] at h
      split at h
      · rename_i a b ha hb
        cases h
        exact okStr_append (recvAttr_ok _ _ _ ha) (okStr_cons (by decide) (ih _ hb))
      · cases h

theorem decodeAttr_ok {q : Char} {raw v : Str} (h : decodeAttr q raw = some v) : okStr v := by
  unfold decodeAttr at h
  split at h
  · exact recvAttr_ok _ _ _ h
  · exact joinQuot_ok _ _ h

def okAttrs (as : List (Str × Str)) : Prop := as.all (fun p => p.2.all isXmlChar) = true

theorem okAttrs_cons {k v : Str} {rest : List (Str × Str)} (hv : okStr v) (hr : okAttrs rest) : okAttrs ((k, v) :: rest) := by
  simp only [okAttrs, List.all_cons, Bool.and_eq_true]
  exact ⟨List.all_eq_true.mpr hv, hr⟩

theorem parseAttrs_ok : ∀ (f : Nat) (s : Str) (as : List (Str × Str)) (r : Str),
    parseAttrs f s = some (as, r) → okAttrs as := by
  intro f
  induction f with
  | zero => intro s as r h; simp [parseAttrs] at h
  | succ f ih =>
    intro s as r h
    unfold parseAttrs at h
    repeat' split at h
    all_goals first
      | (cases h; done)
      | (simp only [Option.some.injEq, Prod.mk.injEq] at h; obtain ⟨rfl, _⟩ := h; simp [okAttrs]; done)
      | (simp only [Option.some.injEq, Prod.mk.injEq] at h
         obtain ⟨rfl, _⟩ := h
         exact okAttrs_cons (decodeAttr_ok (by assumption)) (ih _ _ _ (by assumption)))

theorem addText_ok (t : Str) (ks : List Xml) (h : attrsOkKids ks = true) : attrsOkKids (addText t ks) = true := by
  unfold addText
  split
  · exact h
  · split
    · simp only [attrsOkKids, attrsOkTree, Bool.true_and] at h ⊢; exact h
    · simp only [attrsOkKids, attrsOkTree, Bool.true_and]; exact h

theorem contentLoop_ok (pe : Str → Option (Xml × Str))
    (hpe : ∀ s e r, pe s = some (e, r) → attrsOkTree e = true) :
    ∀ (f : Nat) (s : Str) (ks : List Xml) (r : Str), contentLoop pe f s = some (ks, r) → attrsOkKids ks = true := by
  intro f
  induction f with
  | zero => intro s ks r h; simp [contentLoop] at h
  | succ f ih =>
    intro s ks r h
    unfold contentLoop at h
    split at h
    · cases h
    · split at h
      · -- '<'
        repeat' split at h
        all_goals first
          | (cases h; done)
          | (simp only [Option.some.injEq, Prod.mk.injEq] at h; obtain ⟨rfl, _⟩ := h; rfl)
          | exact ih _ _ _ h
          | (simp only [Option.some.injEq, Prod.mk.injEq] at h
             obtain ⟨rfl, _⟩ := h
             exact addText_ok _ _ (ih _ _ _ (by assumption)))
          | (simp only [Option.some.injEq, Prod.mk.injEq] at h
             obtain ⟨rfl, _⟩ := h
             simp only [attrsOkKids, Bool.and_eq_true]
             exact ⟨hpe _ _ _ (by assumption), ih _ _ _ (by assumption)⟩)
      · -- character data
        simp only at h
        split at h
        · cases h
        · split at h
          · cases h
          · split at h
            · cases h
            · rename_i hk
              simp only [Option.some.injEq, Prod.mk.injEq] at h
              obtain ⟨rfl, _⟩ := h
              exact addText_ok _ _ (ih _ _ _ hk)

theorem parseElemWith_ok (content : Str → Option (List Xml × Str))
    (hc : ∀ r ks r2, content r = some (ks, r2) → attrsOkKids ks = true) (fa : Nat) (s : Str) (e : Xml) (r : Str)
    (h : parseElemWith content fa s = some (e, r)) : attrsOkTree e = true := by
  unfold parseElemWith at h
  repeat' split at h
  all_goals first
    | (cases h; done)
    | (simp only [Option.some.injEq, Prod.mk.injEq] at h
       obtain ⟨rfl, _⟩ := h
       simp only [attrsOkTree, Bool.and_eq_true]
       refine ⟨parseAttrs_ok _ _ _ _ (by assumption), hc _ _ _ (by assumption)⟩)
    | (simp only [Option.some.injEq, Prod.mk.injEq] at h
       obtain ⟨rfl, _⟩ := h
       simp only [attrsOkTree, attrsOkKids, Bool.and_true]
       exact parseAttrs_ok _ _ _ _ (by assumption))

theorem parseElem_ok : ∀ (f : Nat) (s : Str) (e : Xml) (r : Str), parseElem f s = some (e, r) → attrsOkTree e = true := by
  intro f
  induction f with
  | zero => intro s e r h; simp [parseElem] at h
  | succ f ih =>
    intro s e r h
    unfold parseElem at h
    exact parseElemWith_ok _ (fun r ks r2 hc => contentLoop_ok (parseElem f) ih (f + 1) r ks r2 hc) _ _ _ _ h

theorem par_ok {s : Str} {t : Xml} (h : par s = some t) : attrsOkTree t = true := by
  unfold par at h
  repeat' split at h
  all_goals first
    | (cases h; done)
    | (unfold parRoot at h
       repeat' split at h
       all_goals first
         | (cases h; done)
         | (simp only [Option.some.injEq] at h; subst h; exact parseElem_ok _ _ _ _ (by assumption)))

/-- **the concrete request parser hands out attribute values made of XML characters** -/
theorem parEnv_xmlChars (instP : Xml → Except PyExc Unit) : XmlCharsEnv (parEnv instP) := by
  intro b t h
  have h' : parseBytes b = .ok t := h
  unfold parseBytes at h'
  repeat' split at h'
  all_goals first
    | (cases h'; done)
    | (simp only [Except.ok.injEq] at h'; subst h'; exact par_ok (by assumption))

end Proofs.ListenerHttp
