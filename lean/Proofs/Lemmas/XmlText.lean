/-
Text-level wire lemmas: what expat hands to the SAX handler for what minidom wrote.
-/
import Pywbem.Model.XmlText

set_option linter.unusedSimpArgs false

namespace Proofs.XmlText
open Pywbem.Model.XmlText

theorem resolve_amp : resolve ['a', 'm', 'p'] = some '&' := by decide
theorem resolve_lt : resolve ['l', 't'] = some '<' := by decide
theorem resolve_gt : resolve ['g', 't'] = some '>' := by decide
theorem resolve_quot : resolve ['q', 'u', 'o', 't'] = some '"' := by decide

theorem recvText_amp (skip : Bool) (rest : Str) :
    recvText (.txt skip) ("&amp;".toList ++ rest) = (recvText (.txt false) rest).map ('&' :: ·) := by
  simp [recvText, resolve_amp]
  
theorem recvText_lt (skip : Bool) (rest : Str) :
    recvText (.txt skip) ("&lt;".toList ++ rest) = (recvText (.txt false) rest).map ('<' :: ·) := by
  simp [recvText, resolve_lt]

theorem recvText_gt (skip : Bool) (rest : Str) :
    recvText (.txt skip) ("&gt;".toList ++ rest) = (recvText (.txt false) rest).map ('>' :: ·) := by
  simp [recvText, resolve_gt]

theorem recvText_quot (skip : Bool) (rest : Str) :
    recvText (.txt skip) ("&quot;".toList ++ rest) = (recvText (.txt false) rest).map ('"' :: ·) := by
  simp [recvText, resolve_quot]

/-- **text round trip**: character data written by minidom is received by expat as its
    end-of-line-normalised form, for every string of XML characters -/
theorem recvText_esc (s : Str) (skip : Bool) (h : ∀ c ∈ s, isXmlChar c = true) :
    recvText (.txt skip) (esc s) = some (normEOL skip s) := by
  induction s generalizing skip with
  | nil => simp [esc, recvText, normEOL]
  | cons c cs ih =>
    have hc : isXmlChar c = true := h c (by simp)
    have ih' := fun sk => ih sk (fun x hx => h x (by simp [hx]))
    simp only [esc, escChar]
    by_cases h1 : c = '&'
    · subst h1; simp only [if_true]; rw [recvText_amp, ih']; simp [normEOL]
    by_cases h2 : c = '<'
    · subst h2; simp only [h1, if_false, if_true]; rw [recvText_lt, ih']; simp [normEOL]
    by_cases h3 : c = '"'
    · subst h3; simp only [h1, h2, if_false, if_true]; rw [recvText_quot, ih']; simp [normEOL]
    by_cases h4 : c = '>'
    · subst h4; simp only [h1, h2, h3, if_false, if_true]; rw [recvText_gt, ih']; simp [normEOL]
    simp only [h1, h2, h3, h4, if_false, List.singleton_append]
    by_cases h5 : c = '\r'
    · subst h5; simp [recvText, normEOL, ih', hc]
    by_cases h6 : c = '\n'
    · subst h6
      cases skip <;> simp [recvText, normEOL, ih', hc]
    · simp [recvText, normEOL, ih', hc, h1, h2, h5, h6]

theorem normEOL_noCR (s : Str) (h : '\r' ∉ s) : normEOL false s = s := by
  induction s with
  | nil => rfl
  | cons c cs ih =>
    have hc : c ≠ '\r' := fun e => h (by simp [e])
    have hcs : '\r' ∉ cs := fun e => h (by simp [e])
    simp [normEOL, hc, ih hcs]

theorem wireText_id (s : Str) (h : ∀ c ∈ s, isXmlChar c = true) (hcr : '\r' ∉ s) :
    wireText s = some s := by
  unfold wireText; rw [recvText_esc s false h, normEOL_noCR s hcr]

theorem recvAttr_amp (skip : Bool) (rest : Str) :
    recvAttr (.txt skip) ("&amp;".toList ++ rest) = (recvAttr (.txt false) rest).map ('&' :: ·) := by
  simp [recvAttr, resolve_amp]
theorem recvAttr_lt (skip : Bool) (rest : Str) :
    recvAttr (.txt skip) ("&lt;".toList ++ rest) = (recvAttr (.txt false) rest).map ('<' :: ·) := by
  simp [recvAttr, resolve_lt]
theorem recvAttr_gt (skip : Bool) (rest : Str) :
    recvAttr (.txt skip) ("&gt;".toList ++ rest) = (recvAttr (.txt false) rest).map ('>' :: ·) := by
  simp [recvAttr, resolve_gt]
theorem recvAttr_quot (skip : Bool) (rest : Str) :
    recvAttr (.txt skip) ("&quot;".toList ++ rest) = (recvAttr (.txt false) rest).map ('"' :: ·) := by
  simp [recvAttr, resolve_quot]

/-- **attribute round trip** up to attribute-value normalisation -/
theorem recvAttr_esc (s : Str) (skip : Bool) (h : ∀ c ∈ s, isXmlChar c = true) :
    recvAttr (.txt skip) (esc s) = some (normAttr skip s) := by
  induction s generalizing skip with
  | nil => simp [esc, recvAttr, normAttr]
  | cons c cs ih =>
    have hc : isXmlChar c = true := h c (by simp)
    have ih' := fun sk => ih sk (fun x hx => h x (by simp [hx]))
    simp only [esc, escChar]
    by_cases h1 : c = '&'
    · subst h1; simp only [if_true]; rw [recvAttr_amp, ih']; simp [normAttr]
    by_cases h2 : c = '<'
    · subst h2; simp only [h1, if_false, if_true]; rw [recvAttr_lt, ih']; simp [normAttr]
    by_cases h3 : c = '"'
    · subst h3; simp only [h1, h2, if_false, if_true]; rw [recvAttr_quot, ih']; simp [normAttr]
    by_cases h4 : c = '>'
    · subst h4; simp only [h1, h2, h3, if_false, if_true]; rw [recvAttr_gt, ih']; simp [normAttr]
    simp only [h1, h2, h3, h4, if_false, List.singleton_append]
    by_cases h5 : c = '\r'
    · subst h5; simp [recvAttr, normAttr, ih', hc]
    by_cases h6 : c = '\n'
    · subst h6
      cases skip <;> simp [recvAttr, normAttr, ih', hc]
    by_cases h7 : c = '\t'
    · subst h7; simp [recvAttr, normAttr, ih', hc]
    · simp [recvAttr, normAttr, ih', hc, h1, h2, h3, h5, h6, h7]

theorem normAttr_plain (s : Str) (h : ∀ c ∈ s, c ≠ '\r' ∧ c ≠ '\n' ∧ c ≠ '\t') : normAttr false s = s := by
  induction s with
  | nil => rfl
  | cons c cs ih =>
    obtain ⟨a, b, d⟩ := h c (by simp)
    simp [normAttr, a, b, d, ih (fun x hx => h x (by simp [hx]))]

theorem wireAttr_id (s : Str) (h : ∀ c ∈ s, isXmlChar c = true)
    (hp : ∀ c ∈ s, c ≠ '\r' ∧ c ≠ '\n' ∧ c ≠ '\t') : wireAttr s = some s := by
  unfold wireAttr; rw [recvAttr_esc s false h, normAttr_plain s hp]

end Proofs.XmlText
