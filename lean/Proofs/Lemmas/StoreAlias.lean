/-
C10 — isolation: the copy functions of Model/StoreAlias.lean allocate or share nodes as specified, and with the copy
configuration of the code (after fix F6) no node of the repository is ever a node the client holds.
-/
import Pywbem.Model.StoreAlias

set_option linter.unusedSimpArgs false
set_option linter.unusedVariables false

namespace Proofs.StoreAlias
open Pywbem.Model.StoreAlias

/-- a server-allocated identity with number in [a, b) -/
def InRange (a b : Nat) (i : Id) : Prop := ∃ n, i = .srv n ∧ a ≤ n ∧ n < b

theorem InRange.mono {a b a' b' : Nat} {i : Id} (h : InRange a b i) (ha : a' ≤ a) (hb : b ≤ b') : InRange a' b' i := by
  obtain ⟨n, rfl, h1, h2⟩ := h
  exact ⟨n, rfl, by omega, by omega⟩

theorem freshIds_range (n k : Nat) : ∀ i ∈ freshIds n k, InRange n (n + k) i := by
  intro i hi
  unfold freshIds at hi
  obtain ⟨j, hj, rfl⟩ := List.mem_map.mp hi
  have := List.mem_range.mp hj
  exact ⟨n + j, rfl, by omega, by omega⟩

theorem deepPath_spec (n : Nat) (p : PathO) :
    n < (deepPath n p).2 ∧ ∀ i ∈ (deepPath n p).1.nodes, InRange n (deepPath n p).2 i := by
  unfold deepPath PathO.nodes
  refine ⟨by simp; omega, ?_⟩
  intro i hi
  simp only [List.mem_cons] at hi
  rcases hi with rfl | hi
  · exact ⟨n, rfl, by omega, by simp; omega⟩
  · exact (freshIds_range (n + 1) _ i hi).mono (by omega) (by simp)

theorem deepProp_spec (n : Nat) (p : PropO) :
    n < (deepProp n p).2 ∧ ∀ i ∈ (deepProp n p).1.nodes, InRange n (deepProp n p).2 i := by
  unfold deepProp PropO.nodes
  refine ⟨by simp; omega, ?_⟩
  intro i hi
  simp only [List.mem_cons] at hi
  rcases hi with rfl | hi
  · exact ⟨n, rfl, by omega, by simp; omega⟩
  · exact (freshIds_range (n + 1) _ i hi).mono (by omega) (by simp)

theorem deepProps_spec : ∀ (ps : List PropO) (n : Nat),
    n ≤ (deepProps n ps).2 ∧ ∀ i ∈ (deepProps n ps).1.flatMap PropO.nodes, InRange n (deepProps n ps).2 i
  | [], n => by simp [deepProps]
  | p :: t, n => by
    have h1 := deepProp_spec n p
    have h2 := deepProps_spec t (deepProp n p).2
    simp only [deepProps]
    refine ⟨by omega, ?_⟩
    intro i hi
    simp only [List.flatMap_cons, List.mem_append] at hi
    rcases hi with hi | hi
    · exact (h1.2 i hi).mono (by omega) (by omega)
    · exact (h2.2 i hi).mono (by omega) (by omega)

theorem deepInst_spec (n : Nat) (x : InstO) :
    n < (deepInst n x).2 ∧ ∀ i ∈ (deepInst n x).1.nodes, InRange n (deepInst n x).2 i := by
  have hp := deepProps_spec x.props (n + 1)
  unfold deepInst
  cases hx : x.path with
  | none =>
    simp only [InstO.nodes]
    refine ⟨by omega, ?_⟩
    intro i hi
    simp only [List.mem_cons, List.append_nil] at hi
    rcases hi with rfl | hi
    · exact ⟨n, rfl, by omega, by omega⟩
    · exact (hp.2 i hi).mono (by omega) (by omega)
  | some q =>
    have hq := deepPath_spec (deepProps (n + 1) x.props).2 q
    simp only [InstO.nodes]
    refine ⟨by omega, ?_⟩
    intro i hi
    simp only [List.mem_cons, List.mem_append] at hi
    rcases hi with rfl | hi | hi
    · exact ⟨n, rfl, by omega, by omega⟩
    · exact (hp.2 i hi).mono (by omega) (by omega)
    · exact (hq.2 i hi).mono (by omega) (by omega)

/-- a shallow copy: its nodes are new or nodes of the original -/
theorem copyPath_spec (n : Nat) (p : PathO) :
    n < (copyPath n p).2 ∧ ∀ i ∈ (copyPath n p).1.nodes, InRange n (copyPath n p).2 i ∨ i ∈ p.nodes := by
  unfold copyPath PathO.nodes
  refine ⟨by simp, ?_⟩
  intro i hi
  simp only [List.mem_cons] at hi
  rcases hi with rfl | hi
  · exact Or.inl ⟨n, rfl, by omega, by simp⟩
  · exact Or.inr (by simp [hi])

theorem copyProps_spec : ∀ (ps : List PropO) (n : Nat),
    n ≤ (copyProps n ps).2 ∧
      ∀ i ∈ (copyProps n ps).1.flatMap PropO.nodes, InRange n (copyProps n ps).2 i ∨ i ∈ ps.flatMap PropO.nodes
  | [], n => by simp [copyProps]
  | p :: t, n => by
    have h2 := copyProps_spec t (n + 1)
    simp only [copyProps]
    refine ⟨by omega, ?_⟩
    intro i hi
    simp only [List.flatMap_cons, List.mem_append, PropO.nodes, List.mem_cons] at hi ⊢
    rcases hi with (rfl | hi) | hi
    · exact Or.inl ⟨n, rfl, by omega, by omega⟩
    · exact Or.inr (Or.inl (Or.inr hi))
    · rcases h2.2 i hi with h | h
      · exact Or.inl (h.mono (by omega) (by omega))
      · exact Or.inr (Or.inr h)

theorem copyInst_spec (n : Nat) (x : InstO) :
    n < (copyInst n x).2 ∧ ∀ i ∈ (copyInst n x).1.nodes, InRange n (copyInst n x).2 i ∨ i ∈ x.nodes := by
  have hp := copyProps_spec x.props (n + 1)
  unfold copyInst
  cases hx : x.path with
  | none =>
    simp only [InstO.nodes, hx]
    refine ⟨by omega, ?_⟩
    intro i hi
    simp only [List.mem_cons, List.append_nil] at hi ⊢
    rcases hi with rfl | hi
    · exact Or.inl ⟨n, rfl, by omega, by omega⟩
    · rcases hp.2 i hi with h | h
      · exact Or.inl (h.mono (by omega) (by omega))
      · exact Or.inr (Or.inr h)
  | some q =>
    have hq := copyPath_spec (copyProps (n + 1) x.props).2 q
    simp only [InstO.nodes, hx]
    refine ⟨by omega, ?_⟩
    intro i hi
    simp only [List.mem_cons, List.mem_append] at hi ⊢
    rcases hi with rfl | hi | hi
    · exact Or.inl ⟨n, rfl, by omega, by omega⟩
    · rcases hp.2 i hi with h | h
      · exact Or.inl (h.mono (by omega) (by omega))
      · exact Or.inr (Or.inr (Or.inl h))
    · rcases hq.2 i hi with h | h
      · exact Or.inl (h.mono (by omega) (by omega))
      · exact Or.inr (Or.inr (Or.inr h))

theorem fromInstanceO_spec (n : Nat) (x : InstO) (f : PropO → Bool) :
    (fromInstanceO n x f).2 = n + 1 ∧
      ∀ i ∈ (fromInstanceO n x f).1.nodes, i = .srv n ∨ i ∈ x.nodes := by
  unfold fromInstanceO PathO.nodes
  refine ⟨rfl, ?_⟩
  intro i hi
  simp only [List.mem_cons, List.mem_flatMap, List.mem_filter] at hi
  rcases hi with rfl | ⟨p, ⟨hp, _⟩, hv⟩
  · exact Or.inl rfl
  · right
    simp only [InstO.nodes, List.mem_cons, List.mem_append, List.mem_flatMap, PropO.nodes]
    exact Or.inr (Or.inl ⟨p, hp, Or.inr hv⟩)

/-! ### the isolation invariant -/

structure Iso (s : AState) : Prop where
  storeSrv : ∀ i ∈ storeIds s, InRange 0 s.next i
  clientSrv : ∀ i ∈ s.client, ∀ n, i = .srv n → n < s.next
  disjoint : ∀ i ∈ storeIds s, i ∉ s.client

/-- the objects an operation is called with consist of nodes the client made itself or was handed before -/
def InputOk (s : AState) (op : AOp) : Prop := ∀ i ∈ op.inputIds, (∃ n, i = .cli n) ∨ i ∈ s.client

def cfg0 : CopyCfg := {}

theorem iso_init : Iso {} := ⟨by simp [storeIds], by simp, by simp [storeIds]⟩

theorem storeIds_append (s : AState) (k : PathO) (v : InstO) (n : Nat) (c : List Id) :
    storeIds { next := n, store := s.store ++ [(k, v)], client := c } = storeIds s ++ (k.nodes ++ v.nodes) := by
  simp [storeIds]

/-- fresh nodes are not among the nodes the client holds -/
theorem fresh_not_client {s : AState} (h : Iso s) {a b : Nat} (ha : s.next ≤ a) {i : Id} (hi : InRange a b i) :
    i ∉ s.client := by
  intro hc
  obtain ⟨n, rfl, h1, _⟩ := hi
  have := h.clientSrv _ hc n rfl
  omega

theorem iso_create (s : AState) (h : Iso s) (x : InstO) (keys : List Nat) : Iso (stepCreate cfg0 s x keys) := by
  unfold stepCreate cfg0
  simp only [↓reduceIte]
  -- names for the intermediate objects
  generalize hc1 : copyInst s.next { x with path := none } = c1
  have s1 := copyInst_spec s.next { x with path := none }; rw [hc1] at s1
  generalize hd : deepInst c1.2 c1.1 = d
  have s2 := deepInst_spec c1.2 c1.1; rw [hd] at s2
  generalize hp : fromInstanceO d.2 d.1 (isKeyAt d.1.props keys) = p
  have s3 := fromInstanceO_spec d.2 d.1 (isKeyAt d.1.props keys); rw [hp] at s3
  generalize hk : deepPath p.2 p.1 = key
  have s4 := deepPath_spec p.2 p.1; rw [hk] at s4
  generalize hv : deepInst key.2 { d.1 with path := some p.1 } = val
  have s5 := deepInst_spec key.2 { d.1 with path := some p.1 }; rw [hv] at s5
  have hpn : ∀ i ∈ p.1.nodes, InRange c1.2 (d.2 + 1) i := by
    intro i hi
    rcases s3.2 i hi with rfl | hi'
    · exact ⟨d.2, rfl, by omega, by omega⟩
    · exact (s2.2 i hi').mono (by omega) (by omega)
  have hp2 := s3.1
  have q1 := s1.1
  have q2 := s2.1
  have q4 := s4.1
  have q5 := s5.1
  refine ⟨?_, ?_, ?_⟩
  · intro i hi
    rw [storeIds_append] at hi
    simp only [List.mem_append] at hi
    show InRange 0 val.2 i
    rcases hi with hi | hi | hi
    · exact (h.storeSrv i hi).mono (by omega) (by omega)
    · exact (s4.2 i hi).mono (by omega) (by omega)
    · exact (s5.2 i hi).mono (by omega) (by omega)
  · intro i hi n hn
    show n < val.2
    simp only [List.mem_append] at hi
    rcases hi with hi | hi
    · have := h.clientSrv i hi n hn; omega
    · obtain ⟨m, hm, _, h2⟩ := hpn i hi
      rw [hn] at hm; cases hm; omega
  · intro i hi hcl
    rw [storeIds_append] at hi
    simp only [List.mem_append] at hi hcl
    rcases hi with hi | hi | hi
    · rcases hcl with hcl | hcl
      · exact h.disjoint i hi hcl
      · obtain ⟨m, rfl, h1, _⟩ := hpn i hcl
        obtain ⟨m', hm', _, h2'⟩ := h.storeSrv _ hi
        cases hm'; omega
    · obtain ⟨m, rfl, h1, h2⟩ := s4.2 i hi
      rcases hcl with hcl | hcl
      · have := h.clientSrv _ hcl m rfl; omega
      · obtain ⟨m', hm', _, h2'⟩ := hpn _ hcl
        cases hm'; omega
    · obtain ⟨m, rfl, h1, h2⟩ := s5.2 i hi
      rcases hcl with hcl | hcl
      · have := h.clientSrv _ hcl m rfl; omega
      · obtain ⟨m', hm', _, h2'⟩ := hpn _ hcl
        cases hm'; omega

theorem mem_storeIds_of_getElem {s : AState} {idx : Nat} {e : PathO × InstO} (h : s.store[idx]? = some e) :
    ∀ i, i ∈ e.1.nodes ∨ i ∈ e.2.nodes → i ∈ storeIds s := by
  intro i hi
  unfold storeIds
  rw [List.mem_flatMap]
  exact ⟨e, List.mem_of_getElem? h, by simpa using hi⟩

/-- an input node is never a node of the repository, and it is bounded by the allocation counter -/
theorem input_ok {s : AState} (h : Iso s) {i : Id} (hi : (∃ n, i = .cli n) ∨ i ∈ s.client) :
    i ∉ storeIds s ∧ ∀ n, i = .srv n → n < s.next := by
  rcases hi with ⟨m, rfl⟩ | hc
  · refine ⟨?_, by intro n hn; cases hn⟩
    intro hs
    obtain ⟨n, hn, _⟩ := h.storeSrv _ hs
    cases hn
  · exact ⟨fun hs => h.disjoint i hs hc, h.clientSrv i hc⟩

theorem iso_get (s : AState) (h : Iso s) (name : PathO) (idx : Nat) (hin : InputOk s (.get name idx)) :
    Iso (stepGet cfg0 s name idx) := by
  unfold stepGet cfg0
  cases he : s.store[idx]? with
  | none => exact h
  | some e =>
    simp only [↓reduceIte]
    generalize hn1 : copyPath s.next name = n1
    have s1 := copyPath_spec s.next name; rw [hn1] at s1
    generalize hr : deepInst n1.2 e.2 = r
    have s2 := deepInst_spec n1.2 e.2; rw [hr] at s2
    generalize hn2 : copyPath r.2 n1.1 = n2
    have s3 := copyPath_spec r.2 n1.1; rw [hn2] at s3
    have q1 := s1.1; have q2 := s2.1; have q3 := s3.1
    -- every node handed out is new or a node of the client's own argument
    have hres : ∀ i ∈ ({ r.1 with path := some n2.1 } : InstO).nodes, InRange s.next n2.2 i ∨ i ∈ name.nodes := by
      intro i hi
      simp only [InstO.nodes, List.mem_cons, List.mem_append] at hi
      have hr1 : ∀ j, j = r.1.id ∨ j ∈ r.1.props.flatMap PropO.nodes → InRange s.next n2.2 j := by
        intro j hj
        have : j ∈ r.1.nodes := by
          simp only [InstO.nodes, List.mem_cons, List.mem_append]
          rcases hj with hj | hj
          · exact Or.inl hj
          · exact Or.inr (Or.inl hj)
        exact (s2.2 j this).mono (by omega) (by omega)
      rcases hi with hi | hi | hi
      · exact Or.inl (hr1 i (Or.inl hi))
      · exact Or.inl (hr1 i (Or.inr hi))
      · rcases s3.2 i hi with h3 | h3
        · exact Or.inl (h3.mono (by omega) (by omega))
        · rcases s1.2 i h3 with h1 | h1
          · exact Or.inl (h1.mono (by omega) (by omega))
          · exact Or.inr h1
    have hname : ∀ i ∈ name.nodes, i ∉ storeIds s ∧ ∀ n, i = .srv n → n < s.next :=
      fun i hi => input_ok h (hin i hi)
    refine ⟨?_, ?_, ?_⟩
    · intro i hi
      show InRange 0 n2.2 i
      exact (h.storeSrv i hi).mono (by omega) (by omega)
    · intro i hi n hn
      show n < n2.2
      simp only [List.mem_append] at hi
      rcases hi with hi | hi
      · have := h.clientSrv i hi n hn; omega
      · rcases hres i hi with ⟨m, hm, _, h2⟩ | hnm
        · rw [hn] at hm; cases hm; omega
        · have := (hname i hnm).2 n hn; omega
    · intro i hi hcl
      simp only [List.mem_append] at hcl
      rcases hcl with hcl | hcl
      · exact h.disjoint i hi hcl
      · rcases hres i hcl with ⟨m, rfl, h1, _⟩ | hnm
        · obtain ⟨m', hm', _, h2'⟩ := h.storeSrv _ hi
          cases hm'; omega
        · exact (hname i hnm).1 hi

theorem storeIds_eraseIdx (s : AState) (idx : Nat) : ∀ i ∈ storeIds { s with store := s.store.eraseIdx idx }, i ∈ storeIds s := by
  intro i hi
  unfold storeIds at hi ⊢
  rw [List.mem_flatMap] at hi ⊢
  obtain ⟨e, he, hie⟩ := hi
  exact ⟨e, List.mem_of_mem_eraseIdx he, hie⟩

theorem iso_delete (s : AState) (h : Iso s) (idx : Nat) : Iso (stepDelete s idx) := by
  unfold stepDelete
  exact ⟨fun i hi => h.storeSrv i (storeIds_eraseIdx s idx i hi), h.clientSrv,
    fun i hi => h.disjoint i (storeIds_eraseIdx s idx i hi)⟩

theorem mem_setEntry {st : List (PathO × InstO)} {idx : Nat} {v : InstO} {e' : PathO × InstO}
    (h : e' ∈ setEntry st idx v) : e' ∈ st ∨ ∃ e ∈ st, e' = (e.1, v) := by
  unfold setEntry at h
  rw [List.mem_mapIdx] at h
  obtain ⟨j, hj, rfl⟩ := h
  by_cases hji : (j == idx) = true
  · simp only [hji, ↓reduceIte]; exact Or.inr ⟨st[j], List.getElem_mem hj, rfl⟩
  · simp only [hji]; exact Or.inl (List.getElem_mem hj)

/-- replacing a stored object by one made of nodes allocated after every node the client holds -/
theorem iso_setEntry (s : AState) (h : Iso s) (idx : Nat) (v : InstO) (n' : Nat) (hn : s.next ≤ n')
    (hv : ∀ i ∈ v.nodes, InRange s.next n' i) :
    Iso { s with next := n', store := setEntry s.store idx v } := by
  have hmem : ∀ i ∈ storeIds { s with next := n', store := setEntry s.store idx v },
      i ∈ storeIds s ∨ i ∈ v.nodes := by
    intro i hi
    unfold storeIds at hi ⊢
    rw [List.mem_flatMap] at hi
    obtain ⟨e', he', hie⟩ := hi
    rcases mem_setEntry he' with h1 | ⟨e, he, rfl⟩
    · exact Or.inl (List.mem_flatMap.mpr ⟨e', h1, hie⟩)
    · simp only [List.mem_append] at hie
      rcases hie with h2 | h2
      · exact Or.inl (List.mem_flatMap.mpr ⟨e, he, by simp [h2]⟩)
      · exact Or.inr h2
  refine ⟨?_, ?_, ?_⟩
  · intro i hi
    show InRange 0 n' i
    rcases hmem i hi with h1 | h1
    · exact (h.storeSrv i h1).mono (by omega) hn
    · exact (hv i h1).mono (by omega) (by omega)
  · intro i hi n hn'
    show n < n'
    have := h.clientSrv i hi n hn'; omega
  · intro i hi hcl
    rcases hmem i hi with h1 | h1
    · exact h.disjoint i h1 hcl
    · exact fresh_not_client h (Nat.le_refl _) (hv i h1) hcl

theorem extraCopies_spec : ∀ (k n : Nat) (i : InstO),
    n ≤ (extraCopies n k i).2 ∧ ∀ c ∈ (extraCopies n k i).1, ∀ j ∈ c.nodes, InRange n (extraCopies n k i).2 j
  | 0, n, i => by simp [extraCopies]
  | k + 1, n, i => by
    have h1 := deepInst_spec n i
    have h2 := extraCopies_spec k (deepInst n i).2 i
    simp only [extraCopies]
    refine ⟨by omega, ?_⟩
    intro c hc j hj
    simp only [List.mem_cons] at hc
    rcases hc with rfl | hc
    · exact (h1.2 j hj).mono (by omega) (by omega)
    · exact (h2.2 c hc j hj).mono (by omega) (by omega)

theorem iso_modify (s : AState) (h : Iso s) (x : InstO) (idx others : Nat) : Iso (stepModify cfg0 s x idx others) := by
  unfold stepModify
  cases he : s.store[idx]? with
  | none => exact h
  | some e =>
    simp only []
    generalize hc1 : copyInst s.next x = c1
    have s1 := copyInst_spec s.next x; rw [hc1] at s1
    generalize hg0 : deepInst c1.2 e.2 = g0
    have s2 := deepInst_spec c1.2 e.2; rw [hg0] at s2
    generalize hd : deepInst g0.2 c1.1 = d
    have s3 := deepInst_spec g0.2 c1.1; rw [hd] at s3
    generalize ho : deepInst d.2 e.2 = o
    have s4 := deepInst_spec d.2 e.2; rw [ho] at s4
    have q1 := s1.1; have q2 := s2.1; have q3 := s3.1; have q4 := s4.1
    have hmerged : ∀ i ∈ ({ o.1 with props := o.1.props ++ d.1.props } : InstO).nodes, InRange s.next o.2 i := by
      intro i hi
      simp only [InstO.nodes, List.mem_cons, List.mem_append, List.flatMap_append] at hi
      have ho' : ∀ j ∈ o.1.nodes, InRange s.next o.2 j := fun j hj => (s4.2 j hj).mono (by omega) (by omega)
      have hd' : ∀ j ∈ d.1.nodes, InRange s.next o.2 j := fun j hj => (s3.2 j hj).mono (by omega) (by omega)
      rcases hi with hi | (hi | hi) | hi
      · exact ho' i (by simp [InstO.nodes, hi])
      · exact ho' i (by simp only [InstO.nodes, List.mem_cons, List.mem_append]; exact Or.inr (Or.inl hi))
      · exact hd' i (by simp only [InstO.nodes, List.mem_cons, List.mem_append]; exact Or.inr (Or.inl hi))
      · exact ho' i (by simp only [InstO.nodes, List.mem_cons, List.mem_append]; exact Or.inr (Or.inr hi))
    generalize hm : ({ o.1 with props := o.1.props ++ d.1.props } : InstO) = merged at hmerged ⊢
    by_cases hoth : (others == 0) = true
    · simp only [hoth, ↓reduceIte]
      exact iso_setEntry s h idx _ o.2 (by omega) hmerged
    · simp only [hoth]
      have s5 := extraCopies_spec (others + 1) o.2 merged
      have q5 := s5.1
      apply iso_setEntry s h idx _ _ (by omega)
      intro i hi
      cases hl : (extraCopies o.2 (others + 1) merged).1 with
      | nil =>
        rw [hl] at hi
        simp only [List.headD_nil] at hi
        exact (hmerged i hi).mono (by omega) s5.1
      | cons c t =>
        rw [hl] at hi
        simp only [List.headD_cons] at hi
        exact (s5.2 c (by rw [hl]; simp) i hi).mono (by omega) (by omega)

/-- handing out nodes allocated after everything the repository holds keeps the invariant -/
theorem iso_handout (s : AState) (h : Iso s) (n' : Nat) (hn : s.next ≤ n') (l : List Id)
    (hl : ∀ i ∈ l, InRange s.next n' i) : Iso { s with next := n', client := s.client ++ l } := by
  refine ⟨?_, ?_, ?_⟩
  · intro i hi
    show InRange 0 n' i
    exact (h.storeSrv i hi).mono (by omega) hn
  · intro i hi n hn'
    show n < n'
    simp only [List.mem_append] at hi
    rcases hi with hi | hi
    · have := h.clientSrv i hi n hn'; omega
    · obtain ⟨m, hm, _, h2⟩ := hl i hi
      rw [hn'] at hm; cases hm; omega
  · intro i hi hcl
    simp only [List.mem_append] at hcl
    rcases hcl with hcl | hcl
    · exact h.disjoint i hi hcl
    · obtain ⟨m, rfl, h1, _⟩ := hl i hcl
      obtain ⟨m', hm', _, h2'⟩ := h.storeSrv _ hi
      cases hm'; omega

theorem iso_next (s : AState) (h : Iso s) (n' : Nat) (hn : s.next ≤ n') : Iso { s with next := n' } := by
  have := iso_handout s h n' hn [] (by simp)
  simpa using this

theorem iso_enumInsts (idxs : List Nat) : ∀ (s : AState), Iso s → Iso (enumInstsFold cfg0 s idxs) := by
  induction idxs with
  | nil => intro s h; exact h
  | cons idx t ih =>
    intro s h
    simp only [enumInstsFold]
    cases he : s.store[idx]? with
    | none => exact ih s h
    | some e =>
      simp only [cfg0, ↓reduceIte]
      apply ih
      have s1 := deepInst_spec s.next e.2
      have s2 := deepInst_spec (deepInst s.next e.2).2 e.2
      have q1 := s1.1; have q2 := s2.1
      exact iso_handout s h _ (by omega) _ (fun i hi => (s2.2 i hi).mono (by omega) (by omega))

theorem iso_enumNames (idxs : List Nat) : ∀ (s : AState), Iso s → Iso (enumNamesFold s idxs) := by
  induction idxs with
  | nil => intro s h; exact h
  | cons idx t ih =>
    intro s h
    simp only [enumNamesFold]
    cases he : s.store[idx]? with
    | none => exact ih s h
    | some e =>
      simp only []
      have s1 := deepInst_spec s.next e.2
      have q1 := s1.1
      cases hp : (deepInst s.next e.2).1.path with
      | none => exact ih _ (iso_next s h _ (by omega))
      | some p =>
        simp only []
        apply ih
        have s2 := copyPath_spec (deepInst s.next e.2).2 p
        have q2 := s2.1
        apply iso_handout s h _ (by omega)
        intro i hi
        rcases s2.2 i hi with h1 | h1
        · exact h1.mono (by omega) (by omega)
        · have : i ∈ (deepInst s.next e.2).1.nodes := by
            simp only [InstO.nodes, hp, List.mem_cons, List.mem_append]
            exact Or.inr (Or.inr h1)
          exact (s1.2 i this).mono (by omega) (by omega)

theorem iso_step (s : AState) (h : Iso s) (op : AOp) (hin : InputOk s op) : Iso (stepA cfg0 s op) := by
  cases op with
  | create x keys => exact iso_create s h x keys
  | modify x idx others => exact iso_modify s h x idx others
  | delete idx => exact iso_delete s h idx
  | get name idx => exact iso_get s h name idx hin
  | enumInsts idxs => exact iso_enumInsts idxs s h
  | enumNames idxs => exact iso_enumNames idxs s h

/-- the inputs of a history are made of client-made nodes and nodes handed out earlier in that history -/
def InputsOk (cfg : CopyCfg) : AState → List AOp → Prop
  | _, [] => True
  | s, op :: t => InputOk s op ∧ InputsOk cfg (stepA cfg s op) t

theorem iso_run (ops : List AOp) : ∀ (s : AState), Iso s → InputsOk cfg0 s ops → Iso (runA cfg0 s ops) := by
  induction ops with
  | nil => intro s h _; exact h
  | cons op t ih =>
    intro s h hin
    exact ih _ (iso_step s h op hin.1) hin.2

end Proofs.StoreAlias
