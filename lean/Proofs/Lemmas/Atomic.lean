/-
C11 helper lemmas: a small calculus "validation phase (read-only) then write phase" for the monad `M`
of Model/Atomic.lean, the atomicity of every store primitive, and the no-failure lemma for the
per-namespace write loops of the multi-namespace association operations.
-/
import Pywbem.Model.Atomic

namespace Pywbem.Model.Atomic
open Pywbem.Proto

/-- `m` started in `s`: if it raises, the repository is still `s` -/
def AtomicAt {α} (m : M α) (s : State) : Prop := ∀ e, (m s).2 = .error e → (m s).1 = s

/-- `m` never changes the repository (a validation step) -/
def ReadOnly {α} (m : M α) : Prop := ∀ s, (m s).1 = s

theorem bind_apply {α β} (m : M α) (f : α → M β) (s : State) :
    (m >>= f) s = match m s with
      | (s', .ok a) => f a s'
      | (s', .error e) => (s', .error e) := rfl

/-! ### read-only steps -/

theorem readOnly_pure {α} (a : α) : ReadOnly (pure a : M α) := fun _ => rfl
theorem readOnly_raise {α} (e : PyExc) : ReadOnly (raise e : M α) := fun _ => rfl
theorem readOnly_getS : ReadOnly getS := fun _ => rfl
theorem readOnly_liftE {α} (x : Except PyExc α) : ReadOnly (liftE x) := fun _ => rfl

theorem readOnly_validateNs (ns : Name) : ReadOnly (validateNs ns) := by
  intro s; unfold validateNs; cases findNs s ns <;> rfl

theorem readOnly_getNs (ns : Name) : ReadOnly (getNs ns) := by
  intro s; unfold getNs; cases findNs s ns <;> rfl

theorem readOnly_bind {α β} {m : M α} {f : α → M β} (hm : ReadOnly m) (hf : ∀ a, ReadOnly (f a)) :
    ReadOnly (m >>= f) := by
  intro s
  rw [bind_apply]
  have h1 := hm s
  revert h1
  cases hms : m s with
  | mk s' r =>
    intro h1
    simp only at h1
    subst h1
    cases r with
    | error e => rfl
    | ok a => exact hf a s'

theorem readOnly_ite {α} (c : Prop) [Decidable c] {a b : M α} (ha : ReadOnly a) (hb : ReadOnly b) :
    ReadOnly (if c then a else b) := by
  by_cases h : c <;> simp [h, ha, hb]

theorem readOnly_forM_ {α} {f : α → M Unit} (hf : ∀ x, ReadOnly (f x)) : ∀ l, ReadOnly (forM_ f l)
  | [] => readOnly_pure ()
  | x :: xs => by
    unfold forM_
    exact readOnly_bind (hf x) (fun _ => readOnly_forM_ hf xs)

theorem readOnly_endpointOk (p : Path0) : ReadOnly (endpointOk p) := by
  unfold endpointOk
  by_cases hh : p.host.isSome
  · simp only [hh, if_true]; exact readOnly_raise _
  · simp only [hh]
    cases hns : p.ns with
    | none => exact readOnly_raise _
    | some ns =>
      apply readOnly_bind readOnly_getS
      intro s0
      cases findNs s0 ns with
      | none => exact readOnly_raise _
      | some r =>
        by_cases h2 : hasInst r (path0Key p ns) = true
        · simp only [h2, if_true]; exact readOnly_pure _
        · simp only [h2]; exact readOnly_raise _

/-! ### atomic steps -/

theorem atomicAt_of_readOnly {α} {m : M α} (h : ReadOnly m) (s : State) : AtomicAt m s := fun _ _ => h s

theorem atomicAt_raise {α} (e : PyExc) (s : State) : AtomicAt (raise e : M α) s := fun _ _ => rfl
theorem atomicAt_pure {α} (a : α) (s : State) : AtomicAt (pure a : M α) s := fun _ _ => rfl

/-- a run that returns normally is (vacuously) atomic -/
theorem atomicAt_of_ok {α} {m : M α} {s s' : State} {a : α} (h : m s = (s', .ok a)) : AtomicAt m s := by
  intro e he; rw [h] at he; cases he

/-- validation, then the rest: the rest only has to be atomic from the SAME state, for the values the
    validation can return there -/
theorem atomicAt_bind {α β} {m : M α} {f : α → M β} {s : State} (hm : ReadOnly m)
    (hf : ∀ a, m s = (s, .ok a) → AtomicAt (f a) s) : AtomicAt (m >>= f) s := by
  intro e he
  rw [bind_apply] at he ⊢
  have h1 := hm s
  revert he h1
  cases hms : m s with
  | mk s' r =>
    intro he h1
    simp only at h1
    subst h1
    cases r with
    | error e' => rfl
    | ok a => exact hf a hms e he

theorem atomicAt_ite {α} (c : Prop) [Decidable c] {a b : M α} {s : State}
    (ha : c → AtomicAt a s) (hb : ¬c → AtomicAt b s) : AtomicAt (if c then a else b) s := by
  by_cases h : c
  · simp only [h, if_true]; exact ha h
  · simp only [h, if_false]; exact hb h

/-- `snapshot … except: restore; raise` makes anything atomic -/
theorem atomicAt_withRollback {α} (m : M α) (s : State) : AtomicAt (withRollback m) s := by
  intro e he
  unfold withRollback at he ⊢
  revert he
  cases hms : m s with
  | mk s' r =>
    intro he
    cases r with
    | ok a => cases he
    | error e' => rfl

/-- `try: m except: h` where `m` is atomic: the handler starts from the unchanged repository -/
theorem atomicAt_tryCatch {α} {m : M α} {h : PyExc → M α} {s : State} (hm : AtomicAt m s)
    (hh : ∀ e, (m s).2 = .error e → AtomicAt (h e) s) : AtomicAt (tryCatch m h) s := by
  intro e he
  unfold tryCatch at he ⊢
  have hm' := hm
  unfold AtomicAt at hm'
  revert he hh hm'
  cases hms : m s with
  | mk s' r =>
    intro hh he hm'
    cases r with
    | ok a => cases he
    | error e' =>
      have hs : s' = s := hm' e' rfl
      subst hs
      exact hh e' rfl e he

/-- a single store write inside one namespace either fails before writing or writes -/
theorem atomicAt_inNs (ns : Name) (w : NsRec → Except PyExc NsRec) (s : State) : AtomicAt (inNs ns w) s := by
  intro e he
  unfold inNs at he ⊢
  revert he
  cases findNs s ns with
  | none => intro _; rfl
  | some r =>
    simp only
    cases hw : w r with
    | error e' => intro _; rfl
    | ok r' => intro he; cases he

/-- tactic: `getNs ns >>= fun r => if c then raise … else write` -/
theorem atomicAt_getNs_then {β} (ns : Name) (f : NsRec → M β) (s : State)
    (hf : ∀ r, findNs s ns = some r → AtomicAt (f r) s) : AtomicAt (getNs ns >>= f) s := by
  apply atomicAt_bind (readOnly_getNs ns)
  intro r hr
  apply hf
  unfold getNs at hr
  cases h : findNs s ns with
  | none => rw [h] at hr; cases hr
  | some r' => rw [h] at hr; cases hr; rfl

theorem atomicAt_write {s : State} (s' : State) : AtomicAt (fun _ => (s', Except.ok ()) : M Unit) s := by
  intro e he; cases he

theorem atomicAt_classCreate (ns : Name) (c : ClassRec) (s : State) : AtomicAt (classCreate ns c) s := by
  unfold classCreate
  apply atomicAt_getNs_then; intro r _
  apply atomicAt_ite
  · intro _; exact atomicAt_raise _ _
  · intro _; intro e he; cases he

theorem atomicAt_classUpdate (ns : Name) (c : ClassRec) (s : State) : AtomicAt (classUpdate ns c) s := by
  unfold classUpdate
  apply atomicAt_getNs_then; intro r _
  apply atomicAt_ite
  · intro _; exact atomicAt_raise _ _
  · intro _; intro e he; cases he

theorem atomicAt_classDelete (ns : Name) (n : Name) (s : State) : AtomicAt (classDelete ns n) s := by
  unfold classDelete
  apply atomicAt_getNs_then; intro r _
  apply atomicAt_ite
  · intro _; exact atomicAt_raise _ _
  · intro _; intro e he; cases he

theorem atomicAt_qualCreate (ns : Name) (q : QualDecl) (s : State) : AtomicAt (qualCreate ns q) s := by
  unfold qualCreate
  apply atomicAt_getNs_then; intro r _
  apply atomicAt_ite
  · intro _; exact atomicAt_raise _ _
  · intro _; intro e he; cases he

theorem atomicAt_qualUpdate (ns : Name) (q : QualDecl) (s : State) : AtomicAt (qualUpdate ns q) s := by
  unfold qualUpdate
  apply atomicAt_getNs_then; intro r _
  apply atomicAt_ite
  · intro _; exact atomicAt_raise _ _
  · intro _; intro e he; cases he

theorem atomicAt_qualDelete (ns : Name) (n : Name) (s : State) : AtomicAt (qualDelete ns n) s := by
  unfold qualDelete
  apply atomicAt_getNs_then; intro r _
  apply atomicAt_ite
  · intro _; exact atomicAt_raise _ _
  · intro _; intro e he; cases he

theorem atomicAt_liftE_then {α β} (x : Except PyExc α) (f : α → M β) (s : State)
    (hf : ∀ a, x = .ok a → AtomicAt (f a) s) : AtomicAt (liftE x >>= f) s := by
  apply atomicAt_bind (readOnly_liftE x)
  intro a ha
  apply hf
  unfold liftE at ha
  cases x with
  | error e => cases ha
  | ok b => cases ha; rfl

theorem atomicAt_getS_then {β} (f : State → M β) (s : State) (hf : AtomicAt (f s) s) :
    AtomicAt (getS >>= f) s := by
  apply atomicAt_bind readOnly_getS
  intro a ha
  unfold getS at ha
  cases ha
  exact hf

/-! ### the per-namespace write loops -/

/-- namespace names pairwise different as NocaseDict keys -/
def DistinctLower (l : List Name) : Prop := l.Pairwise (fun a b => lower a ≠ lower b)

theorem nameEq_iff (a b : Name) : nameEq a b = true ↔ lower a = lower b := by
  unfold nameEq; simp

theorem findNs_putNs_other (s : State) (n n' : Name) (r r' : NsRec)
    (hr : findNs s n = some r) (hname : r'.name = r.name) (hne : lower n' ≠ lower n) :
    findNs (putNs s n r') n' = findNs s n' := by
  have hrn : nameEq r.name n = true := by
    unfold findNs at hr
    exact (by simpa using List.find?_some hr)
  unfold findNs putNs
  simp only
  generalize s.nss = l
  induction l with
  | nil => rfl
  | cons x xs ih =>
    simp only [List.map_cons, List.find?_cons]
    by_cases hx : nameEq x.name n = true
    · -- x is replaced by r'; neither x nor r' matches n'
      simp only [hx, if_true]
      have h1 : nameEq r'.name n' = false := by
        rw [hname]
        cases hc : nameEq r.name n' with
        | false => rfl
        | true =>
          exfalso; apply hne
          rw [nameEq_iff] at hc hrn
          rw [← hc, hrn]
      have h2 : nameEq x.name n' = false := by
        cases hc : nameEq x.name n' with
        | false => rfl
        | true =>
          exfalso; apply hne
          rw [nameEq_iff] at hc hx
          rw [← hc, hx]
      simp only [h1, h2]
      exact ih
    · simp only [hx]
      cases hc : nameEq x.name n' with
      | true => simp only [Bool.false_eq_true, if_false, hc]
      | false => simp only [Bool.false_eq_true, if_false, hc]; exact ih

/-- what the validation before a write loop establishes: every namespace exists and its write succeeds -/
def WritesOk (w : Name → NsRec → Except PyExc NsRec) (nss : List Name) (s : State) : Prop :=
  ∀ n ∈ nss, ∃ r r', findNs s n = some r ∧ w n r = .ok r'

/-- the writes keep the namespace record's name (they only touch one store) -/
def KeepsName (w : Name → NsRec → Except PyExc NsRec) : Prop :=
  ∀ n r r', w n r = .ok r' → r'.name = r.name

/-- a write loop over pairwise different namespaces whose writes were all validated cannot fail:
    a write in one namespace does not disturb the validated facts about the others -/
theorem forM_inNs_ok (w : Name → NsRec → Except PyExc NsRec) (hk : KeepsName w) :
    ∀ (nss : List Name) (s : State), DistinctLower nss → WritesOk w nss s →
      ∃ s', forM_ (fun n => inNs n (w n)) nss s = (s', .ok ())
  | [], s, _, _ => ⟨s, rfl⟩
  | n :: rest, s, hd, hw => by
    obtain ⟨r, r', hr, hwr⟩ := hw n (List.mem_cons_self)
    have hstep : inNs n (w n) s = (putNs s n r', .ok ()) := by
      unfold inNs; rw [hr]; simp only; rw [hwr]
    have hd' : DistinctLower rest := (List.pairwise_cons.mp hd).2
    have hw' : WritesOk w rest (putNs s n r') := by
      intro n' hn'
      obtain ⟨q, q', hq, hwq⟩ := hw n' (List.mem_cons_of_mem _ hn')
      have hne : lower n' ≠ lower n := fun h => (List.pairwise_cons.mp hd).1 n' hn' h.symm
      exact ⟨q, q', by rw [findNs_putNs_other s n n' r r' hr (hk n r r' hwr) hne]; exact hq, hwq⟩
    obtain ⟨s', hs'⟩ := forM_inNs_ok w hk rest (putNs s n r') hd' hw'
    refine ⟨s', ?_⟩
    unfold forM_
    rw [bind_apply, hstep]
    exact hs'

theorem keepsName_create (f : Name → InstRec) : KeepsName (fun n => instCreateR (f n)) := by
  intro n r r' h
  unfold instCreateR at h
  by_cases hh : hasInst r (f n).key = true
  · simp [hh] at h
  · simp only [hh] at h; cases h; rfl

theorem keepsName_update (f : Name → InstRec) : KeepsName (fun n => instUpdateR (f n)) := by
  intro n r r' h
  unfold instUpdateR at h
  by_cases hh : hasInst r (f n).key = true
  · simp only [hh, Bool.not_true] at h; cases h; rfl
  · simp [hh] at h

theorem keepsName_delete (f : Name → PKey) : KeepsName (fun n => instDeleteR (f n)) := by
  intro n r r' h
  unfold instDeleteR at h
  by_cases hh : hasInst r (f n) = true
  · simp only [hh, Bool.not_true] at h; cases h; rfl
  · simp [hh] at h

/-! ### success of the three instance-store writes under what the validation established -/

theorem instCreateR_ok (i : InstRec) (r : NsRec) (h : hasInst r i.key = false) :
    ∃ r', instCreateR i r = .ok r' := by
  unfold instCreateR; simp [h]

theorem instUpdateR_ok (i : InstRec) (r : NsRec) (h : hasInst r i.key = true) :
    ∃ r', instUpdateR i r = .ok r' := by
  unfold instUpdateR; simp [h]

theorem instDeleteR_ok (k : PKey) (r : NsRec) (h : hasInst r k = true) :
    ∃ r', instDeleteR k r = .ok r' := by
  unfold instDeleteR; simp [h]

theorem findNs_putNs_same (s : State) (n n' : Name) (r r' : NsRec)
    (hr : findNs s n = some r) (hname : r'.name = r.name) (heq : lower n' = lower n) :
    findNs (putNs s n r') n' = some r' := by
  have hrn : nameEq r.name n = true := by
    unfold findNs at hr
    exact (by simpa using List.find?_some hr)
  have hsame : ∀ x : Name, nameEq x n' = nameEq x n := by
    intro x; unfold nameEq; rw [heq]
  unfold findNs putNs at *
  simp only
  revert hr
  generalize s.nss = l
  induction l with
  | nil => intro hr; cases hr
  | cons x xs ih =>
    intro hr
    simp only [List.map_cons, List.find?_cons] at hr ⊢
    by_cases hx : nameEq x.name n = true
    · simp only [hx, if_true]
      have : nameEq r'.name n' = true := by rw [hname, hsame]; exact hrn
      simp only [this]
    · have hx' : nameEq x.name n = false := by simpa using hx
      simp only [hx', Bool.false_eq_true, if_false] at hr ⊢
      have : nameEq x.name n' = false := by rw [hsame]; exact hx'
      simp only [this]
      exact ih hr

/-- `instance_store.update` keeps every dict key -/
theorem hasInst_update (i : InstRec) (r r' : NsRec) (k : PKey) (h : instUpdateR i r = .ok r') :
    hasInst r' k = hasInst r k := by
  unfold instUpdateR at h
  by_cases hh : hasInst r i.key = true
  · simp only [hh, Bool.not_true, Bool.false_eq_true, if_false] at h
    cases h
    unfold hasInst findInst
    simp only
    rw [List.find?_map]
    have : ((fun (j : InstRec) => j.key == k) ∘ fun (x : InstRec) => if (x.key == i.key) = true then { i with key := x.key } else x)
        = (fun (j : InstRec) => j.key == k) := by
      funext x
      simp only [Function.comp]
      by_cases hx : (x.key == i.key) = true <;> simp [hx]
    rw [this]
    cases List.find? (fun j => j.key == k) r.insts <;> rfl
  · simp [hh] at h

/-- an update loop whose targets were all found cannot fail, even when a namespace occurs twice in the list
    (an update does not remove what the validation found) -/
theorem forM_update_ok (f : Name → InstRec) :
    ∀ (nss : List Name) (s : State),
      (∀ n ∈ nss, ∃ r, findNs s n = some r ∧ hasInst r (f n).key = true) →
      ∃ s', forM_ (fun n => inNs n (instUpdateR (f n))) nss s = (s', .ok ())
  | [], s, _ => ⟨s, rfl⟩
  | n :: rest, s, hw => by
    obtain ⟨r, hr, hi⟩ := hw n (List.mem_cons_self)
    obtain ⟨r', hwr⟩ := instUpdateR_ok (f n) r hi
    have hstep : inNs n (instUpdateR (f n)) s = (putNs s n r', .ok ()) := by
      unfold inNs; rw [hr]; simp only; rw [hwr]
    have hname : r'.name = r.name := keepsName_update f n r r' hwr
    have hw' : ∀ n' ∈ rest, ∃ q, findNs (putNs s n r') n' = some q ∧ hasInst q (f n').key = true := by
      intro n' hn'
      obtain ⟨q, hq, hqi⟩ := hw n' (List.mem_cons_of_mem _ hn')
      by_cases heq : lower n' = lower n
      · refine ⟨r', findNs_putNs_same s n n' r r' hr hname heq, ?_⟩
        rw [hasInst_update (f n) r r' _ hwr]
        -- q = r: both are the record found for the same NocaseDict key
        have : findNs s n' = findNs s n := by unfold findNs nameEq; rw [heq]
        rw [this, hr] at hq
        cases hq
        exact hqi
      · exact ⟨q, by rw [findNs_putNs_other s n n' r r' hr hname heq]; exact hq, hqi⟩
    obtain ⟨s', hs'⟩ := forM_update_ok f rest (putNs s n r') hw'
    refine ⟨s', ?_⟩
    unfold forM_
    rw [bind_apply, hstep]
    exact hs'

theorem requireClassAll_none (s : State) (cls : Name) :
    ∀ (nss : List Name), requireClassAll s cls nss = none → ∀ n ∈ nss, ∃ r, findNs s n = some r
  | [], _, n, hn => by cases hn
  | m :: rest, h, n, hn => by
    unfold requireClassAll at h
    cases hf : findNs s m with
    | none => rw [hf] at h; cases h
    | some r =>
      rw [hf] at h
      simp only at h
      by_cases hc : hasClass r cls = true
      · simp only [hc, if_true] at h
        cases hn with
        | head => exact ⟨r, hf⟩
        | tail _ hn' => exact requireClassAll_none s cls rest h n hn'
      · simp only [hc] at h; cases h

/-! ### the namespace list of a multi-namespace association -/

theorem nmem_false_iff (n : Name) (acc : List Name) : nmem n acc = false ↔ ∀ x ∈ acc, lower x ≠ lower n := by
  unfold nmem
  rw [List.any_eq_false]
  constructor
  · intro h x hx heq
    have := h x hx
    rw [← nameEq_iff] at heq
    exact this heq
  · intro h x hx hc
    exact h x hx ((nameEq_iff _ _).mp hc)

theorem multiNsAux_distinct (target : Name) :
    ∀ (ps : List PropV) (acc out : List Name),
      DistinctLower acc → (∀ x ∈ acc, lower x ≠ lower target) →
      multiNsAux target ps acc = .ok out →
      DistinctLower out ∧ (∀ x ∈ out, lower x ≠ lower target)
  | [], acc, out, hd, ht, h => by
    unfold multiNsAux at h; cases h; exact ⟨hd, ht⟩
  | p :: ps, acc, out, hd, ht, h => by
    unfold multiNsAux at h
    cases hv : p.val with
    | null => rw [hv] at h; exact multiNsAux_distinct target ps acc out hd ht h
    | sc _ => rw [hv] at h; cases h
    | ref q =>
      rw [hv] at h
      simp only at h
      cases hns : q.ns with
      | none => rw [hns] at h; cases h
      | some n =>
        rw [hns] at h
        simp only at h
        by_cases hc : (!n.isEmpty && !nameEq n target && !nmem n acc) = true
        · rw [if_pos hc] at h
          simp only [Bool.and_eq_true, Bool.not_eq_eq_eq_not, Bool.not_true] at hc
          obtain ⟨⟨_, h2⟩, h3⟩ := hc
          have hnt : lower n ≠ lower target := by
            intro heq; rw [← nameEq_iff] at heq; rw [heq] at h2; cases h2
          have hacc := (nmem_false_iff n acc).mp h3
          apply multiNsAux_distinct target ps (acc ++ [n]) out _ _ h
          · unfold DistinctLower
            rw [List.pairwise_append]
            refine ⟨hd, List.pairwise_singleton _ _, ?_⟩
            intro a ha b hb
            simp only [List.mem_singleton] at hb
            subst hb
            exact hacc a ha
          · intro x hx
            rw [List.mem_append] at hx
            cases hx with
            | inl hx => exact ht x hx
            | inr hx => simp only [List.mem_singleton] at hx; subst hx; exact hnt
        · rw [if_neg hc] at h
          exact multiNsAux_distinct target ps acc out hd ht h

/-- the list the multi-namespace operations loop over (`others ++ [target]`) has no namespace twice -/
theorem multiNs_distinct (ps : List PropV) (target : Name) (others : List Name)
    (h : multiNs ps target = .ok others) : DistinctLower (others ++ [target]) := by
  unfold multiNs at h
  obtain ⟨hd, ht⟩ := multiNsAux_distinct target (refProps ps) [] others List.Pairwise.nil (by simp) h
  unfold DistinctLower
  rw [List.pairwise_append]
  refine ⟨hd, List.pairwise_singleton _ _, ?_⟩
  intro a ha b hb
  simp only [List.mem_singleton] at hb
  subst hb
  exact ht a ha

/-! ### `str.strip('/')` is idempotent (add_namespace strips a name the namespace provider has already stripped) -/

theorem dropWhile_head_false {α} (p : α → Bool) : ∀ (l : List α) (x : α) (t : List α),
    l.dropWhile p = x :: t → p x = false
  | [], _, _, h => by simp at h
  | a :: l, x, t, h => by
    rw [List.dropWhile_cons] at h
    by_cases ha : p a = true
    · rw [if_pos ha] at h; exact dropWhile_head_false p l x t h
    · rw [if_neg ha] at h; cases h; simpa using ha

theorem dropWhile_of_head_false {α} (p : α → Bool) (x : α) (t : List α) (h : p x = false) :
    (x :: t).dropWhile p = x :: t := by
  rw [List.dropWhile_cons]; simp [h]

theorem dropWhile_append_last_false {α} (p : α → Bool) (x : α) (h : p x = false) :
    ∀ (a : List α), (a ++ [x]).dropWhile p = a.dropWhile p ++ [x]
  | [] => by simp [h]
  | y :: a => by
    rw [List.cons_append, List.dropWhile_cons, List.dropWhile_cons]
    by_cases hy : p y = true
    · rw [if_pos hy, if_pos hy]; exact dropWhile_append_last_false p x h a
    · rw [if_neg hy, if_neg hy]; rfl

/-- strip trailing elements satisfying `p` -/
def rstrip {α} (p : α → Bool) (l : List α) : List α := ((l.reverse).dropWhile p).reverse

theorem rstrip_idem {α} (p : α → Bool) (l : List α) : rstrip p (rstrip p l) = rstrip p l := by
  unfold rstrip
  rw [List.reverse_reverse]
  cases h : l.reverse.dropWhile p with
  | nil => rfl
  | cons x t =>
    have hx := dropWhile_head_false p _ x t h
    rw [dropWhile_of_head_false p x t hx]

theorem rstrip_cons_head {α} (p : α → Bool) (x : α) (t : List α) (h : p x = false) :
    ∃ t', rstrip p (x :: t) = x :: t' := by
  unfold rstrip
  rw [List.reverse_cons, dropWhile_append_last_false p x h, List.reverse_append]
  exact ⟨_, rfl⟩

theorem stripSlashes_eq (n : Name) : stripSlashes n = rstrip (· == '/') (n.dropWhile (· == '/')) := rfl

theorem stripSlashes_idem (n : Name) : stripSlashes (stripSlashes n) = stripSlashes n := by
  rw [stripSlashes_eq, stripSlashes_eq]
  cases h : n.dropWhile (· == '/') with
  | nil => rfl
  | cons x t =>
    have hx := dropWhile_head_false _ _ x t h
    obtain ⟨t', ht'⟩ := rstrip_cons_head (· == '/') x t hx
    rw [ht', dropWhile_of_head_false _ x t' hx, ← ht', rstrip_idem]

/-! ### sequencing a first (atomic) write with a rest that undoes it when it fails -/

theorem atomicAt_bind_write {α β} {m : M α} {f : α → M β} {s : State} (hm : AtomicAt m s)
    (hf : ∀ s1 a, m s = (s1, .ok a) → ∀ e, (f a s1).2 = .error e → (f a s1).1 = s) :
    AtomicAt (m >>= f) s := by
  intro e he
  rw [bind_apply] at he ⊢
  have hm' := hm
  unfold AtomicAt at hm'
  revert he hf hm'
  cases hms : m s with
  | mk s1 r =>
    intro hf he hm'
    cases r with
    | error e' => exact hm' e' rfl
    | ok a => exact hf s1 a rfl e he

theorem addNamespace_cases (ns : Name) (s : State) (hstrip : stripSlashes ns = ns) :
    (∃ e, addNamespace ns s = (s, .error e)) ∨
    addNamespace ns s = (({ s with nss := s.nss ++ [{ name := ns }] } : State), Except.ok ()) := by
  unfold addNamespace
  simp only [hstrip]
  rw [bind_apply]
  simp only [getS]
  by_cases h1 : (isInterop ns && s.nss.any (fun r => isInterop r.name)) = true
  · left; rw [if_pos h1]; exact ⟨_, rfl⟩
  · rw [if_neg h1]
    by_cases h2 : (findNs s ns).isSome = true
    · left; rw [if_pos h2]; exact ⟨_, rfl⟩
    · right; rw [if_neg h2]; rfl

theorem filter_append_new (l : List NsRec) (ns : Name) (h : l.find? (fun r => nameEq r.name ns) = none) :
    (l ++ [({ name := ns } : NsRec)]).filter (fun x => !nameEq x.name ns) = l := by
  rw [List.filter_append]
  have h1 : l.filter (fun x => !nameEq x.name ns) = l := by
    rw [List.filter_eq_self]
    intro a ha
    have := List.find?_eq_none.mp h a ha
    simpa using this
  have h2 : ([{ name := ns }] : List NsRec).filter (fun x => !nameEq x.name ns) = [] := by
    simp [nameEq]
  rw [h1, h2, List.append_nil]

theorem findNs_append_some (s : State) (ns : Name) (r : NsRec) (extra : List NsRec)
    (h : findNs s ns = some r) : findNs { s with nss := s.nss ++ extra } ns = some r := by
  unfold findNs at h ⊢
  simp only
  rw [List.find?_append, h]
  rfl

theorem removeNamespace_cases (ns0 : Name) (s : State) :
    (∃ e, removeNamespace ns0 s = (s, .error e)) ∨
    (∃ rt, findNs s (stripSlashes ns0) = some rt ∧ rt.insts.isEmpty = true ∧
      removeNamespace ns0 s =
        (({ s with nss := s.nss.filter (fun x => !nameEq x.name (stripSlashes ns0)) } : State), Except.ok ())) := by
  unfold removeNamespace
  rw [bind_apply]
  simp only [getS]
  cases hf : findNs s (stripSlashes ns0) with
  | none => left; exact ⟨_, rfl⟩
  | some rt =>
    simp only
    by_cases h1 : isInterop (stripSlashes ns0) = true
    · left; rw [if_pos h1]; exact ⟨_, rfl⟩
    · rw [if_neg h1]
      by_cases h2 : (!(rt.classes.isEmpty && rt.quals.isEmpty && rt.insts.isEmpty)) = true
      · left; rw [if_pos h2]; exact ⟨_, rfl⟩
      · right
        rw [if_neg h2]
        refine ⟨rt, rfl, ?_, rfl⟩
        simp only [Bool.not_eq_true, Bool.not_eq_false', Bool.and_eq_true] at h2
        exact h2.2

theorem findNs_filter_other (s : State) (ns t : Name) (r : NsRec) (h : findNs s ns = some r)
    (hne : lower ns ≠ lower t) :
    findNs { s with nss := s.nss.filter (fun x => !nameEq x.name t) } ns = some r := by
  unfold findNs at h ⊢
  simp only
  revert h
  generalize s.nss = l
  induction l with
  | nil => intro h; cases h
  | cons x xs ih =>
    intro h
    rw [List.find?_cons] at h
    by_cases hx : nameEq x.name ns = true
    · rw [hx] at h
      simp only at h
      cases h
      have hk : (!nameEq r.name t) = true := by
        cases hc : nameEq r.name t with
        | false => rfl
        | true =>
          exfalso; apply hne
          rw [nameEq_iff] at hc hx
          rw [← hx, hc]
      rw [List.filter_cons, if_pos hk, List.find?_cons, hx]
    · have hx' : nameEq x.name ns = false := by simpa using hx
      rw [hx'] at h
      simp only at h
      rw [List.filter_cons]
      by_cases hk : (!nameEq x.name t) = true
      · rw [if_pos hk, List.find?_cons, hx']; exact ih h
      · rw [if_neg hk]; exact ih h

/-! ### monad laws used for the MOF item fold -/

theorem bind_assoc' {α β γ} (m : M α) (f : α → M β) (g : β → M γ) :
    (m >>= f) >>= g = m >>= fun a => f a >>= g := by
  funext s
  rw [bind_apply, bind_apply, bind_apply]
  cases m s with
  | mk s' r => cases r <;> rfl

theorem pure_bind' {α β} (a : α) (f : α → M β) : (pure a : M α) >>= f = f a := rfl

/-! ### operations that keep the set of namespaces (used to sequence two write phases) -/

/-- every successful run of `m` leaves the existence of every namespace as it was -/
def NsPreserving {α} (m : M α) : Prop :=
  ∀ s s1 a, m s = (s1, .ok a) → ∀ x, (findNs s1 x).isSome = (findNs s x).isSome

theorem exists_putNs (s : State) (n : Name) (r r' : NsRec) (hr : findNs s n = some r) (hname : r'.name = r.name)
    (x : Name) : (findNs (putNs s n r') x).isSome = (findNs s x).isSome := by
  by_cases heq : lower x = lower n
  · rw [findNs_putNs_same s n x r r' hr hname heq]
    have : findNs s x = findNs s n := by unfold findNs nameEq; rw [heq]
    rw [this, hr]
    rfl
  · rw [findNs_putNs_other s n x r r' hr hname heq]

theorem nsPreserving_inNs (n : Name) (w : NsRec → Except PyExc NsRec)
    (hw : ∀ r r', w r = .ok r' → r'.name = r.name) : NsPreserving (inNs n w) := by
  intro s s1 a h x
  unfold inNs at h
  cases hf : findNs s n with
  | none => rw [hf] at h; cases h
  | some r =>
    rw [hf] at h
    simp only at h
    cases hwr : w r with
    | error e => rw [hwr] at h; cases h
    | ok r' =>
      rw [hwr] at h
      cases h
      exact exists_putNs s n r r' hf (hw r r' hwr) x

theorem nsPreserving_bind {α β} {m : M α} {f : α → M β} (hm : NsPreserving m) (hf : ∀ a, NsPreserving (f a)) :
    NsPreserving (m >>= f) := by
  intro s s1 b h x
  rw [bind_apply] at h
  revert h
  cases hms : m s with
  | mk s' r =>
    cases r with
    | error e => intro h; cases h
    | ok a =>
      intro h
      rw [hf a s' s1 b h x, hm s s' a hms x]

theorem nsPreserving_of_readOnly {α} {m : M α} (h : ReadOnly m) : NsPreserving m := by
  intro s s1 a hs x
  have := h s
  rw [hs] at this
  simp only at this
  rw [this]

theorem nsPreserving_ite {α} (c : Prop) [Decidable c] {a b : M α} (ha : NsPreserving a) (hb : NsPreserving b) :
    NsPreserving (if c then a else b) := by
  by_cases h : c <;> simp [h, ha, hb]

theorem nsPreserving_forM_ {α} {f : α → M Unit} (hf : ∀ x, NsPreserving (f x)) : ∀ l, NsPreserving (forM_ f l)
  | [] => nsPreserving_of_readOnly (readOnly_pure ())
  | x :: xs => by
    unfold forM_
    exact nsPreserving_bind (hf x) (fun _ => nsPreserving_forM_ hf xs)

/-- a loop of writes that always succeed in an existing namespace (delete-if-present) cannot fail when all its
    namespaces exist - also when a namespace occurs twice -/
theorem forM_total_ok (w : Name → NsRec → Except PyExc NsRec)
    (hw : ∀ n r, ∃ r', w n r = .ok r' ∧ r'.name = r.name) :
    ∀ (nss : List Name) (s : State), (∀ n ∈ nss, (findNs s n).isSome = true) →
      ∃ s', forM_ (fun n => inNs n (w n)) nss s = (s', .ok ())
  | [], s, _ => ⟨s, rfl⟩
  | n :: rest, s, h => by
    have hn := h n (List.mem_cons_self)
    cases hf : findNs s n with
    | none => rw [hf] at hn; cases hn
    | some r =>
      obtain ⟨r', hwr, hname⟩ := hw n r
      have hstep : inNs n (w n) s = (putNs s n r', .ok ()) := by
        unfold inNs; rw [hf]; simp only; rw [hwr]
      have h' : ∀ m ∈ rest, (findNs (putNs s n r') m).isSome = true := by
        intro m hm
        rw [exists_putNs s n r r' hf hname m]
        exact h m (List.mem_cons_of_mem _ hm)
      obtain ⟨s', hs'⟩ := forM_total_ok w hw rest (putNs s n r') h'
      refine ⟨s', ?_⟩
      unfold forM_
      rw [bind_apply, hstep]
      exact hs'

theorem instDeleteIfPresentR_total (k : PKey) (r : NsRec) :
    ∃ r', instDeleteIfPresentR k r = .ok r' ∧ r'.name = r.name := by
  unfold instDeleteIfPresentR
  by_cases hi : hasInst r k = true
  · obtain ⟨r', hr'⟩ := instDeleteR_ok k r hi
    refine ⟨r', by simp only [hi, if_true]; exact hr', ?_⟩
    exact keepsName_delete (fun _ => k) [] r r' hr'
  · exact ⟨r, by simp only [hi]; rfl, rfl⟩

end Pywbem.Model.Atomic
