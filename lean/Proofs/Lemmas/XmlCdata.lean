/-
XmlSyntax lemmas, CDATA-based escaping: `pcdata.split("]]>")` and the sections built from it, what the content
parser makes of them, and the tree-level round trip for `Xml.serWith`.
-/
import Pywbem.Model.XmlCdata
import Proofs.Lemmas.XmlParse

set_option linter.unusedSimpArgs false
set_option linter.unusedVariables false

namespace Proofs.XmlCdata
open Pywbem.Model Pywbem.Model.XmlText Pywbem.Model.XmlParse Pywbem.Model.XmlCdata Proofs.XmlText Proofs.XmlParse

/-! ### `split("]]>")` -/

theorem cdEnd_lit : "]]>".toList = [']', ']', '>'] := rfl
theorem cdStart_lit : "<![CDATA[".toList = ['<', '!', '[', 'C', 'D', 'A', 'T', 'A', '['] := rfl
theorem cdStart_lit' : "[CDATA[".toList = ['[', 'C', 'D', 'A', 'T', 'A', '['] := rfl

theorem splitCd_ne_nil (s : Str) : splitCd s ≠ [] := by
  induction s using splitCd.induct with
  | case1 => simp [splitCd]
  | case2 c => simp [splitCd]
  | case3 c d => simp [splitCd]
  | case4 c d e rest h ih => simp [splitCd, h]
  | case5 c d e rest h ih =>
    simp only [splitCd, h, if_false]
    cases splitCd (d :: e :: rest) <;> simp [consHead]

/-- the first part is a prefix of the string; no part contains `]]>` -/
theorem splitCd_spec (s : Str) :
    ∃ p ps, splitCd s = p :: ps ∧ p <+: s ∧ hasCdEnd p = false ∧ ∀ q ∈ ps, hasCdEnd q = false := by
  induction s using splitCd.induct with
  | case1 => exact ⟨[], [], by simp [splitCd], by simp, rfl, by simp⟩
  | case2 c => exact ⟨[c], [], by simp [splitCd], by simp, by simp [hasCdEnd, cdEnd_lit, List.isPrefixOf], by simp⟩
  | case3 c d =>
    exact ⟨[c, d], [], by simp [splitCd], by simp, by simp [hasCdEnd, cdEnd_lit, List.isPrefixOf], by simp⟩
  | case4 c d e rest h ih =>
    obtain ⟨p, ps, hs, hp, hn, hq⟩ := ih
    refine ⟨[], p :: ps, by simp [splitCd, h, hs], by simp, rfl, ?_⟩
    intro q hq'
    rcases List.mem_cons.mp hq' with rfl | h'
    · exact hn
    · exact hq q h'
  | case5 c d e rest h ih =>
    obtain ⟨p, ps, hs, hp, hn, hq⟩ := ih
    refine ⟨c :: p, ps, by simp [splitCd, h, hs, consHead], by simpa using hp, ?_, hq⟩
    simp only [hasCdEnd, hn, Bool.or_false]
    cases hpre : "]]>".toList.isPrefixOf (c :: p) with
    | false => rfl
    | true =>
      exfalso
      rw [List.isPrefixOf_iff_prefix] at hpre
      have h2 : "]]>".toList <+: c :: d :: e :: rest := hpre.trans (by simpa using hp)
      rw [cdEnd_lit] at h2
      obtain ⟨t, ht⟩ := h2
      simp at ht
      exact h ⟨ht.1.symm, ht.2.1.symm, ht.2.2.1.symm⟩

theorem splitCd_noEnd (s : Str) : ∀ p ∈ splitCd s, hasCdEnd p = false := by
  obtain ⟨p, ps, hs, _, hn, hq⟩ := splitCd_spec s
  intro q hq'
  rw [hs] at hq'
  rcases List.mem_cons.mp hq' with rfl | h'
  · exact hn
  · exact hq q h'

/-! ### the section data -/

theorem cdataData_length : ∀ (first : Bool) (parts : List Str), (cdataData first parts).length = parts.length
  | _, [] => rfl
  | _, [p] => rfl
  | first, p :: q :: ps => by simp [cdataData, cdataData_length false (q :: ps)]

theorem cdataData_false_flatten : ∀ (parts : List Str), parts ≠ [] →
    (cdataData false parts).flatten = ']' :: '>' :: (cdataData true parts).flatten
  | [], h => absurd rfl h
  | [p], _ => by simp [cdataData]
  | p :: q :: ps, _ => by simp [cdataData]

/-- **re-joining**: the contents of the sections, concatenated, are the string — for any number of `]]>`
    occurrences, overlapping or adjacent -/
theorem cdataData_join (s : Str) : (cdataData true (splitCd s)).flatten = s := by
  induction s using splitCd.induct with
  | case1 => simp [splitCd, cdataData]
  | case2 c => simp [splitCd, cdataData]
  | case3 c d => simp [splitCd, cdataData]
  | case4 c d e rest h ih =>
    obtain ⟨h1, h2, h3⟩ := h
    subst h1 h2 h3
    simp only [splitCd, and_self, if_true]
    cases hs : splitCd rest with
    | nil => exact absurd hs (splitCd_ne_nil rest)
    | cons q qs =>
      rw [hs] at ih
      simp only [cdataData, if_true, List.nil_append, List.flatten_cons,
        cdataData_false_flatten (q :: qs) (by simp), ih]
      simp
  | case5 c d e rest h ih =>
    simp only [splitCd, h, if_false]
    cases hs : splitCd (d :: e :: rest) with
    | nil => exact absurd hs (splitCd_ne_nil _)
    | cons q qs =>
      rw [hs] at ih
      cases qs with
      | nil => simp only [consHead, cdataData, if_true, List.nil_append, List.flatten_cons, List.flatten_nil,
          List.append_nil] at ih ⊢; rw [ih]
      | cons r rs =>
        simp only [consHead, cdataData, if_true, List.nil_append, List.flatten_cons] at ih ⊢
        simp only [List.cons_append, ih]

theorem hasCdEnd_snoc (p : Str) : hasCdEnd (p ++ [']']) = hasCdEnd p := by
  induction p with
  | nil => simp [hasCdEnd, cdEnd_lit, List.isPrefixOf]
  | cons c t ih =>
    simp only [List.cons_append, hasCdEnd, ih]
    congr 1
    cases t with
    | nil => simp [cdEnd_lit, List.isPrefixOf]
    | cons x t' =>
      cases t' with
      | nil => simp [cdEnd_lit, List.isPrefixOf]
      | cons y t'' => simp [cdEnd_lit, List.isPrefixOf]

theorem hasCdEnd_left (p : Str) : hasCdEnd (']' :: '>' :: p) = hasCdEnd p := by
  simp [hasCdEnd, cdEnd_lit, List.isPrefixOf]

/-- no section's data contains `]]>` (minidom never raises) -/
theorem cdataData_noEnd : ∀ (first : Bool) (parts : List Str), (∀ p ∈ parts, hasCdEnd p = false) →
    ∀ d ∈ cdataData first parts, hasCdEnd d = false
  | _, [], _, d, hd => by simp [cdataData] at hd
  | first, [p], h, d, hd => by
    simp only [cdataData, List.mem_singleton] at hd
    subst hd
    cases first <;> simp [hasCdEnd_left, h p (by simp)]
  | first, p :: q :: ps, h, d, hd => by
    simp only [cdataData, List.mem_cons] at hd
    rcases hd with rfl | hd
    · cases first <;> simp [hasCdEnd_snoc, hasCdEnd_left, h p (by simp)]
    · exact cdataData_noEnd false (q :: ps) (fun x hx => h x (by simp [hx])) d hd

/-! ### end-of-line normalisation and concatenation -/

theorem endsCR_cons_cons (c d : Char) (t : Str) : endsCR (c :: d :: t) = endsCR (d :: t) := by
  simp [endsCR]

theorem endsCR_append : ∀ (a b : Str), endsCR (a ++ b) = if b = [] then endsCR a else endsCR b
  | [], b => by cases b <;> simp [endsCR]
  | [c], b => by
    cases b with
    | nil => simp
    | cons x t => simp [endsCR]
  | c :: d :: t, b => by
    have ih := endsCR_append (d :: t) b
    simp only [List.cons_append] at ih ⊢
    rw [endsCR_cons_cons, ih, endsCR_cons_cons]

theorem endsCR_snoc (a : Str) : endsCR (a ++ [']']) = false := by
  rw [endsCR_append]; simp [endsCR]

theorem normEOL_eq_nil (p : Str) : normEOL false p = [] ↔ p = [] := by
  cases p with
  | nil => simp [normEOL]
  | cons c t =>
    simp only [normEOL]
    by_cases h : c = '\r' <;> simp [h]

theorem normEOL_cons (sk : Bool) (c : Char) (cs : Str) :
    normEOL sk (c :: cs) = if c = '\r' then '\n' :: normEOL true cs
      else if c = '\n' ∧ sk = true then normEOL false cs else c :: normEOL false cs := by
  rw [normEOL]

/-- two strings normalised separately are the concatenation normalised, unless the first ends in CR -/
theorem normEOL_append : ∀ (a b : Str) (sk : Bool), endsCR a = false → (a = [] → sk = false) →
    normEOL sk (a ++ b) = normEOL sk a ++ normEOL false b
  | [], b, sk, _, h0 => by simp [h0 rfl, normEOL]
  | [c], b, sk, h, _ => by
    have hc : c ≠ '\r' := by intro e; subst e; simp [endsCR] at h
    simp only [List.cons_append, List.nil_append, normEOL, hc, if_false]
    by_cases h1 : c = '\n' ∧ sk = true <;> simp [h1]
  | c :: d :: t, b, sk, h, _ => by
    rw [endsCR_cons_cons] at h
    have ih := fun sk' => normEOL_append (d :: t) b sk' h (by simp)
    simp only [List.cons_append] at ih ⊢
    rw [normEOL_cons sk c (d :: (t ++ b)), normEOL_cons sk c (d :: t)]
    by_cases h1 : c = '\r'
    · simp [h1, ih]
    · by_cases h2 : c = '\n' ∧ sk = true <;> simp [h1, h2, ih]

/-- normalising the sections one by one (what the parser does) is normalising the whole: every section but the last
    ends in `]` -/
theorem cdataData_normEOL : ∀ (first : Bool) (parts : List Str),
    ((cdataData first parts).map (normEOL false)).flatten = normEOL false (cdataData first parts).flatten
  | _, [] => by simp [cdataData, normEOL]
  | _, [p] => by simp [cdataData]
  | first, p :: q :: ps => by
    have ih := cdataData_normEOL false (q :: ps)
    simp only [cdataData, List.map_cons, List.flatten_cons] at ih ⊢
    rw [ih, ← normEOL_append _ _ false (endsCR_snoc _) (by simp)]

/-! ### the content parser on CDATA sections -/

theorem splitAtPat_cdEnd : ∀ (d rest : Str), hasCdEnd d = false →
    splitAtPat "]]>".toList (d ++ ']' :: ']' :: '>' :: rest) = some (d, rest)
  | [], rest, _ => by simp [splitAtPat, cdEnd_lit, List.isPrefixOf]
  | c :: t, rest, h => by
    simp only [hasCdEnd, Bool.or_eq_false_iff] at h
    have ih := splitAtPat_cdEnd t rest h.2
    have h1 : "]]>".toList.isPrefixOf (c :: (t ++ ']' :: ']' :: '>' :: rest)) = false := by
      have := h.1
      cases t with
      | nil => simp [cdEnd_lit, List.isPrefixOf]
      | cons x t' =>
        cases t' with
        | nil => simp [cdEnd_lit, List.isPrefixOf]
        | cons y t'' => simpa [cdEnd_lit, List.isPrefixOf] using this
    simp only [List.cons_append, splitAtPat, h1, Bool.false_eq_true, if_false, ih, Option.map_some]

theorem stripPrefix_append (pat X : Str) : stripPrefix pat (pat ++ X) = some X := by
  have : pat.isPrefixOf (pat ++ X) = true := List.isPrefixOf_iff_prefix.mpr (List.prefix_append _ _)
  simp [stripPrefix, this]

/-- one CDATA section: its data, end-of-line normalised, is added to the text that follows -/
theorem contentLoop_section (pe : Str → Option (Xml × Str)) (f : Nat) (d Y : Str) (hd : hasCdEnd d = false)
    (hx : ∀ c ∈ d, isXmlChar c = true) :
    contentLoop pe (f + 1) (cdataSection d ++ Y) =
      match contentLoop pe f Y with
      | none => none
      | some (ks, r) => some (addText (normEOL false d) ks, r) := by
  have hform : cdataSection d ++ Y = '<' :: '!' :: ("[CDATA[".toList ++ (d ++ ']' :: ']' :: '>' :: Y)) := by
    unfold cdataSection
    rw [cdStart_lit, cdStart_lit', cdEnd_lit]
    simp only [List.cons_append, List.nil_append, List.append_assoc]
  have hsp : stripPrefix "[CDATA[".toList ("[CDATA[".toList ++ (d ++ ']' :: ']' :: '>' :: Y)) =
      some (d ++ ']' :: ']' :: '>' :: Y) := stripPrefix_append _ _
  have hall : d.all isXmlChar = true := by simpa [List.all_eq_true] using hx
  have h1 : ('!' : Char) ≠ '/' := by decide
  rw [hform]
  simp only [contentLoop, if_true, h1, if_false, hsp, splitAtPat_cdEnd d Y hd, hall]
  cases contentLoop pe f Y <;> rfl

theorem addText_addText (a b : Str) (ks : List Xml) : addText a (addText b ks) = addText (a ++ b) ks := by
  unfold addText
  by_cases ha : a = [] <;> by_cases hb : b = []
  · simp [ha, hb]
  · subst ha; simp [hb]
  · subst hb; simp [ha]
  · simp only [ha, hb, if_false, List.append_eq_nil_iff, false_and]
    cases ks with
    | nil => simp
    | cons k t => cases k <;> simp

/-- a run of CDATA sections: one text, the concatenation of the normalised data -/
theorem contentLoop_sections (pe : Str → Option (Xml × Str)) (Y : Str) :
    ∀ (ds : List Str) (f : Nat), (∀ d ∈ ds, hasCdEnd d = false) → (∀ d ∈ ds, ∀ c ∈ d, isXmlChar c = true) →
      contentLoop pe (f + ds.length) ((ds.map cdataSection).flatten ++ Y) =
        match contentLoop pe f Y with
        | none => none
        | some (ks, r) => some (addText ((ds.map (normEOL false)).flatten) ks, r)
  | [], f, _, _ => by
    simp only [List.map_nil, List.flatten_nil, List.nil_append, List.length_nil, Nat.add_zero]
    cases contentLoop pe f Y with
    | none => rfl
    | some kr => simp [addText]
  | d :: ds, f, h1, h2 => by
    have ih := contentLoop_sections pe Y ds f (fun x hx => h1 x (by simp [hx])) (fun x hx => h2 x (by simp [hx]))
    simp only [List.map_cons, List.flatten_cons, List.append_assoc, List.length_cons, ← Nat.add_assoc]
    rw [contentLoop_section pe _ d _ (h1 d (by simp)) (h2 d (by simp)), ih]
    cases contentLoop pe f Y with
    | none => rfl
    | some kr => simp [addText_addText]

/-- **CDATA branch read back**: the sections `_pcdata_nodes` writes for `s` are read as the text `normEOL false s` -/
theorem contentLoop_cdataSer (pe : Str → Option (Xml × Str)) (f : Nat) (s Y : Str)
    (hx : ∀ c ∈ s, isXmlChar c = true) :
    contentLoop pe (f + (splitCd s).length) (cdataSer s ++ Y) =
      match contentLoop pe f Y with
      | none => none
      | some (ks, r) => some (addText (normEOL false s) ks, r) := by
  have hlen := cdataData_length true (splitCd s)
  have hjoin := cdataData_join s
  have h := contentLoop_sections pe Y (cdataData true (splitCd s)) f
    (cdataData_noEnd true _ (splitCd_noEnd s))
    (fun d hd c hc => hx c (by rw [← hjoin]; exact List.mem_flatten.mpr ⟨d, hd, hc⟩))
  rw [hlen, cdataData_normEOL, hjoin] at h
  exact h

/-! ### pending character data at tree level -/

theorem wireText_xml {p : Str} (hp : ∀ c ∈ p, isXmlChar c = true) : wireText p = some (normEOL false p) := by
  unfold wireText; exact recvText_esc p false hp

theorem flushText_xml {p : Str} (hp : ∀ c ∈ p, isXmlChar c = true) (r : List Xml) :
    flushText p r = some (if p = [] then r else .text (normEOL false p) :: r) := by
  unfold flushText
  by_cases h : p = [] <;> simp [h, wireText_xml hp]

theorem addText_nonText (t : Str) (k : Xml) (r : List Xml) (hk : k.isElem = true) :
    addText t (k :: r) = if t = [] then k :: r else .text t :: k :: r := by
  cases k with
  | text s => simp [Xml.isElem] at hk
  | elem n as ks => simp [addText]

/-- pending character data in front of a child list: concatenate-then-normalise (`wireKids p`) is
    normalise-then-merge, provided no CR … LF pair is split over two text children -/
theorem wireKids_pending : ∀ (ks : List Xml) (p : Str), (∀ c ∈ p, isXmlChar c = true) → wfKids ks = true →
    cdSafeKids ks = true → (headIsText ks = true → endsCR p = false) →
    wireKids p ks = (wireKids [] ks).map (addText (normEOL false p))
  | [], p, hp, _, _, _ => by
    simp only [wireKids, flushText_xml hp, flushText_xml (p := []) (by simp), if_true, Option.map_some, addText,
      normEOL_eq_nil]
  | .text s :: ks, p, hp, hw, hs, hh => by
    simp only [wfKids, wfTree, Bool.and_eq_true, List.all_eq_true] at hw
    simp only [cdSafeKids, Bool.and_eq_true, Bool.not_eq_true', Bool.and_eq_false_iff] at hs
    have hpe : endsCR p = false := hh (by simp [headIsText])
    have hse : headIsText ks = true → endsCR s = false := by
      intro h; rcases hs.1 with h' | h'
      · exact h'
      · simp [h] at h'
    have hps : ∀ c ∈ p ++ s, isXmlChar c = true := by
      intro c hc
      rcases List.mem_append.mp hc with h | h
      · exact hp c h
      · exact hw.1 c h
    have ih1 := wireKids_pending ks (p ++ s) hps hw.2 hs.2 (by
      intro h
      rw [endsCR_append]
      by_cases hs0 : s = []
      · simp [hs0, hpe]
      · simp [hs0, hse h])
    have ih2 := wireKids_pending ks s hw.1 hw.2 hs.2 hse
    simp only [wireKids, List.nil_append]
    rw [ih1, ih2, Option.map_map, normEOL_append p s false hpe (by simp)]
    congr 1
    funext r
    simp [addText_addText]
  | .elem n as kk :: ks, p, hp, _, _, _ => by
    simp only [wireKids]
    cases ht : wireTree (.elem n as kk) with
    | none => simp
    | some t =>
      obtain ⟨as', ks', rfl⟩ := wireTree_elem_some ht
      cases wireKids [] ks with
      | none => simp
      | some r =>
        simp only [flushText_xml hp, flushText_xml (p := []) (by simp), if_true, Option.map_some, addText,
          normEOL_eq_nil]

/-! ### content in CDATA mode -/

/-- `wireKids p (e :: ks)` for an element `e`, given the wire images of `e` and of `ks` -/
def elemRes (p : Str) (te : Option Xml) (rk : Option (List Xml)) : Option (List Xml) :=
  match te, rk with
  | some t, some r => flushText p (t :: r)
  | _, _ => none

/-- an element child behind pending character data (the step shared by both escaping modes) -/
theorem contentLoop_pending_elem (pe : Str → Option (Xml × Str)) (rest p E Y : Str) (f G : Nat)
    (te : Option Xml) (rk : Option (List Xml)) (hE : StartsTag E)
    (hte : ∀ t, te = some t → t.isElem = true)
    (hpe : pe (E ++ Y) = te.map (fun t => (t, Y)))
    (hY : ∀ g, G ≤ g → contentLoop pe g Y = rk.map (fun l => (l, rest)))
    (hf : G + 2 ≤ f) :
    contentLoop pe f (esc p ++ (E ++ Y)) = (elemRes p te rk).map (fun l => (l, rest)) := by
  have key : ∀ g, G + 1 ≤ g → contentLoop pe g (E ++ Y) = (elemRes [] te rk).map (fun l => (l, rest)) := by
    intro g hg
    obtain ⟨g, rfl⟩ : ∃ g', g = g' + 1 := ⟨g - 1, by omega⟩
    rw [contentLoop_elem pe g E Y hE, hpe]
    cases te with
    | none => simp [elemRes]
    | some t => simp only [Option.map_some, hY g (by omega)]; cases rk <;> simp [elemRes, flushText]
  by_cases hp : p = []
  · subst hp
    simp only [esc, List.nil_append, key f (by omega)]
  · obtain ⟨f, rfl⟩ : ∃ g, f = g + 1 := ⟨f - 1, by omega⟩
    obtain ⟨c, X, hc, rfl⟩ := hE
    have key' := key f (by omega)
    simp only [List.cons_append] at key' ⊢
    rw [contentLoop_text pe f p hp, key']
    cases hw : wireText p with
    | none => cases te <;> cases rk <;> simp [elemRes, flushText, hp, hw]
    | some tx =>
      cases hte' : te with
      | none => simp [elemRes]
      | some t =>
        have := hte t hte'
        cases rk with
        | none => simp [elemRes]
        | some r => simp [elemRes, flushText, hp, hw, addText_nonText tx t r this, wireText_ne_nil hp hw]

theorem wireKids_elem (p n : Str) (as : List (Str × Str)) (kk ks : List Xml) :
    wireKids p (.elem n as kk :: ks) = elemRes p (wireTree (.elem n as kk)) (wireKids [] ks) := by
  simp only [wireKids, elemRes]
  cases wireTree (.elem n as kk) <;> cases wireKids [] ks <;> rfl

def cost : List Xml → Nat
  | [] => 0
  | .text s :: ks => (if hasSpecial s = true then (splitCd s).length + 1 else 0) + cost ks
  | .elem .. :: ks => 2 + cost ks

theorem cdataSection_head (d : Str) : ∃ R, cdataSection d = '<' :: R := by
  unfold cdataSection
  rw [cdStart_lit]
  exact ⟨_, rfl⟩

theorem cdataSer_head (s : Str) : ∃ R, cdataSer s = '<' :: R := by
  unfold cdataSer
  have hl := cdataData_length true (splitCd s)
  cases hd : cdataData true (splitCd s) with
  | nil =>
    rw [hd] at hl
    exact absurd (List.length_eq_zero_iff.mp hl.symm) (splitCd_ne_nil s)
  | cons d ds =>
    obtain ⟨R, hR⟩ := cdataSection_head d
    exact ⟨R ++ (ds.map cdataSection).flatten, by simp only [List.map_cons, List.flatten_cons, hR, List.cons_append]⟩

theorem wireTree_elem_isElem {n : Str} {as : List (Str × Str)} {kk : List Xml} :
    ∀ t, wireTree (.elem n as kk) = some t → t.isElem = true := by
  intro t ht
  obtain ⟨as', ks', rfl⟩ := wireTree_elem_some ht
  rfl

/-- **content, CDATA mode**: pending character data `p` (entity-escaped), the children serialised with CDATA
    escaping and the `</` of the end tag → the children as `wireKids` gives them -/
theorem contentLoop_serWith (pe : Str → Option (Xml × Str)) (rest : Str) :
    ∀ (ks : List Xml) (p : Str) (f : Nat),
      (∀ n as kk, Xml.elem n as kk ∈ ks → isName n = true ∧
        ∀ Y, pe (Xml.serWith true (.elem n as kk) ++ Y) = (wireTree (.elem n as kk)).map (fun t => (t, Y))) →
      (∀ c ∈ p, isXmlChar c = true) → wfKids ks = true → cdSafeKids ks = true →
      (headIsText ks = true → endsCR p = false) → cost ks + 2 ≤ f →
      contentLoop pe f (esc p ++ (Xml.serListWith true ks ++ '<' :: '/' :: rest)) =
        (wireKids p ks).map (fun l => (l, rest))
  | [], p, f, _, _, _, _, _, hf => by
    have h := contentLoop_ser pe rest [] p f (by simp) (by simp [elemCount]; simp [cost] at hf; omega)
    simpa [Xml.serList, Xml.serListWith] using h
  | .text s :: ks, p, f, hpe, hp, hw, hs, hh, hf => by
    have hw' := hw
    simp only [wfKids, wfTree, Bool.and_eq_true, List.all_eq_true] at hw'
    have hs' := hs
    simp only [cdSafeKids, Bool.and_eq_true, Bool.not_eq_true', Bool.and_eq_false_iff] at hs'
    have hpe' : ∀ n as kk, Xml.elem n as kk ∈ ks → _ := fun n as kk hm => hpe n as kk (by simp [hm])
    have hpcr : endsCR p = false := hh (by simp [headIsText])
    have hse : headIsText ks = true → endsCR s = false := by
      intro h; rcases hs'.1 with h' | h'
      · exact h'
      · simp [h] at h'
    have hps : ∀ c ∈ p ++ s, isXmlChar c = true := by
      intro c hc
      rcases List.mem_append.mp hc with h | h
      · exact hp c h
      · exact hw'.1 c h
    have hpscr : headIsText ks = true → endsCR (p ++ s) = false := by
      intro h
      rw [endsCR_append]
      by_cases hs0 : s = []
      · simp [hs0, hpcr]
      · simp [hs0, hse h]
    by_cases hsp : hasSpecial s = true
    · -- CDATA sections
      simp only [cost, hsp, if_true] at hf
      have ih0 : ∀ g, cost ks + 2 ≤ g → contentLoop pe g (Xml.serListWith true ks ++ '<' :: '/' :: rest) =
          (wireKids [] ks).map (fun l => (l, rest)) := by
        intro g hg
        have := contentLoop_serWith pe rest ks [] g hpe' (by simp) hw'.2 hs'.2 (by simp [endsCR]) hg
        simpa [esc] using this
      have hW := wireKids_pending ks (p ++ s) hps hw'.2 hs'.2 hpscr
      simp only [Xml.serListWith, Xml.serWith, pcdataSer, hsp, Bool.true_and, if_true, wireKids, List.append_assoc]
      rw [hW, normEOL_append p s false hpcr (by simp)]
      by_cases hp0 : p = []
      · subst hp0
        obtain ⟨g, rfl⟩ : ∃ g, f = g + (splitCd s).length := ⟨f - (splitCd s).length, by omega⟩
        simp only [esc, List.nil_append, normEOL]
        rw [contentLoop_cdataSer pe g s _ hw'.1, ih0 g (by omega)]
        cases wireKids [] ks <;> simp
      · obtain ⟨g, rfl⟩ : ∃ g, f = g + (splitCd s).length + 1 := ⟨f - (splitCd s).length - 1, by omega⟩
        obtain ⟨R, hR⟩ := cdataSer_head s
        have h1 := contentLoop_text pe (g + (splitCd s).length) p hp0 (R ++ (Xml.serListWith true ks ++ '<' :: '/' :: rest))
        have hform : cdataSer s ++ (Xml.serListWith true ks ++ '<' :: '/' :: rest) =
            '<' :: (R ++ (Xml.serListWith true ks ++ '<' :: '/' :: rest)) := by rw [hR]; rfl
        rw [hform, h1, ← hform, contentLoop_cdataSer pe g s _ hw'.1, ih0 g (by omega), wireText_xml hp]
        cases wireKids [] ks <;> simp [addText_addText]
    · -- plain text node
      have hsp' : hasSpecial s = false := by simpa using hsp
      simp only [cost, hsp', Bool.false_eq_true, if_false, Nat.zero_add] at hf
      have ih := contentLoop_serWith pe rest ks (p ++ s) f hpe' hps hw'.2 hs'.2 hpscr hf
      simp only [Xml.serListWith, Xml.serWith, pcdataSer, hsp', Bool.and_false, Bool.false_eq_true, if_false,
        wireKids, List.append_assoc]
      rw [← ih, esc_append, List.append_assoc]
  | .elem n as kk :: ks, p, f, hpe, hp, hw, hs, _, hf => by
    obtain ⟨hn, hk⟩ := hpe n as kk (by simp)
    simp only [wfKids, Bool.and_eq_true] at hw
    simp only [cdSafeKids, Bool.and_eq_true] at hs
    simp only [cost] at hf
    have hpe' : ∀ n as kk, Xml.elem n as kk ∈ ks → _ := fun n as kk hm => hpe n as kk (by simp [hm])
    have ih0 : ∀ g, cost ks + 2 ≤ g → contentLoop pe g (Xml.serListWith true ks ++ '<' :: '/' :: rest) =
        (wireKids [] ks).map (fun l => (l, rest)) := by
      intro g hg
      have := contentLoop_serWith pe rest ks [] g hpe' (by simp) hw.2 hs.2 (by simp [endsCR]) hg
      simpa [esc] using this
    have hst : StartsTag (Xml.serWith true (.elem n as kk)) := by
      obtain ⟨c, t, rfl, hc, _⟩ := isName_cons hn
      cases kk with
      | nil => exact ⟨c, _, hc, by simp [Xml.serWith]; rfl⟩
      | cons k ks => exact ⟨c, _, hc, by simp [Xml.serWith]; rfl⟩
    have h := contentLoop_pending_elem pe rest p (Xml.serWith true (.elem n as kk))
      (Xml.serListWith true ks ++ '<' :: '/' :: rest) f (cost ks + 2) (wireTree (.elem n as kk)) (wireKids [] ks)
      hst wireTree_elem_isElem (hk _) ih0 (by omega)
    simp only [Xml.serListWith, List.append_assoc, wireKids_elem]
    rw [h]

/-! ### elements, documents -/

/-- an element with a start and an end tag around an arbitrary body, given that `content` reads the body -/
theorem parseElemWith_open (content : Str → Option (List Xml × Str)) (n : Str) (as : List (Str × Str))
    (body rest : Str) (fa : Nat) (rk : Option (List Xml)) (hn : isName n = true)
    (has : ∀ p ∈ as, isName p.1 = true) (hd : hasDup (as.map (·.1)) = false) (hfa : as.length < fa)
    (hcontent : content (body ++ '<' :: '/' :: (n ++ '>' :: rest)) = rk.map (fun l => (l, n ++ '>' :: rest))) :
    parseElemWith content fa ('<' :: (n ++ (Xml.serAttrs as ++ '>' :: (body ++ '<' :: '/' :: (n ++ '>' :: rest))))) =
      (match wireAttrs as, rk with
        | some as', some ks' => some (Xml.elem n as' ks')
        | _, _ => none).map (fun t => (t, rest)) := by
  have hws2 : isWS '>' = false := by decide
  have hpn := parseName_append n (Xml.serAttrs as ++ '>' :: (body ++ '<' :: '/' :: (n ++ '>' :: rest))) hn
    (serAttrs_head as _ (by simp [headP]; decide))
  have hpa := parseAttrs_ser '>' (body ++ '<' :: '/' :: (n ++ '>' :: rest)) hws2 ns_gt as fa has hfa
  have hpn2 := parseName_append n ('>' :: rest) hn (by simp [headP]; decide)
  simp only [parseElemWith, expectChar, if_true, hpn, hpa]
  cases hw : wireAttrs as with
  | none => simp
  | some as' =>
    have hk := wireAttrs_keys as as' hw
    simp only [Option.map_some, hk, hd, Bool.false_eq_true, if_false, if_true, hcontent]
    cases rk with
    | none => simp
    | some l => simp [hpn2, skipWS, hws2, expectChar]

theorem serWith_elem_nil (m : Bool) (n : Str) (as : List (Str × Str)) :
    Xml.serWith m (.elem n as []) = Xml.ser (.elem n as []) := by
  simp [Xml.serWith, Xml.ser]

theorem serWith_elem_cons (m : Bool) (n : Str) (as : List (Str × Str)) (k : Xml) (ks : List Xml) (rest : Str) :
    Xml.serWith m (.elem n as (k :: ks)) ++ rest =
      '<' :: (n ++ (Xml.serAttrs as ++ '>' :: (Xml.serListWith m (k :: ks) ++ '<' :: '/' :: (n ++ '>' :: rest)))) := by
  simp [Xml.serWith, List.append_assoc]

theorem serWith_elem_startsTag (m : Bool) (n : Str) (as : List (Str × Str)) (kk : List Xml) (hn : isName n = true) :
    StartsTag (Xml.serWith m (.elem n as kk)) := by
  obtain ⟨c, t, rfl, hc, _⟩ := isName_cons hn
  cases kk with
  | nil => exact ⟨c, _, hc, by simp [Xml.serWith]; rfl⟩
  | cons k ks => exact ⟨c, _, hc, by simp [Xml.serWith]; rfl⟩

theorem mem_serListWith_length (m : Bool) {k : Xml} {ks : List Xml} (h : k ∈ ks) :
    (Xml.serWith m k).length ≤ (Xml.serListWith m ks).length := by
  induction ks with
  | nil => simp at h
  | cons a l ih =>
    simp only [Xml.serListWith, List.length_append]
    rcases List.mem_cons.mp h with rfl | h'
    · omega
    · have := ih h'; omega

theorem serWith_elem_length (m : Bool) (n : Str) (as : List (Str × Str)) (ks : List Xml) :
    (Xml.serAttrs as).length + (Xml.serListWith m ks).length + 2 ≤ (Xml.serWith m (.elem n as ks)).length := by
  cases ks with
  | nil => simp [Xml.serWith, Xml.serListWith]; omega
  | cons k l => simp [Xml.serWith]; omega

theorem sections_length (ds : List Str) : 2 * ds.length ≤ ((ds.map cdataSection).flatten).length := by
  induction ds with
  | nil => simp
  | cons d t ih =>
    obtain ⟨R, hR⟩ := cdataSection_head d
    have h2 : 2 ≤ (cdataSection d).length := by
      unfold cdataSection; rw [cdStart_lit]; simp
    simp only [List.map_cons, List.flatten_cons, List.length_append, List.length_cons]; omega

theorem cost_le : ∀ (ks : List Xml), cost ks ≤ (Xml.serListWith true ks).length
  | [] => by simp [cost]
  | .text s :: ks => by
    have ih := cost_le ks
    simp only [cost, Xml.serListWith, Xml.serWith, pcdataSer, List.length_append, Bool.true_and]
    by_cases h : hasSpecial s = true
    · simp only [h, if_true]
      have h1 := sections_length (cdataData true (splitCd s))
      rw [cdataData_length] at h1
      have h2 : 1 ≤ (splitCd s).length := by
        cases hs : splitCd s with
        | nil => exact absurd hs (splitCd_ne_nil s)
        | cons a b => simp
      unfold cdataSer; omega
    · simp only [h, if_false, Bool.false_eq_true]; omega
  | .elem n as kk :: ks => by
    have ih := cost_le ks
    have := serWith_elem_length true n as kk
    simp only [cost, Xml.serListWith, List.length_append]; omega

/-- **element, CDATA mode** -/
theorem parseElem_serWith : ∀ (f : Nat) (n : Str) (as : List (Str × Str)) (ks : List Xml) (rest : Str),
    wfTree (.elem n as ks) = true → cdSafe (.elem n as ks) = true →
    (Xml.serWith true (.elem n as ks)).length < f →
    parseElem f (Xml.serWith true (.elem n as ks) ++ rest) = (wireTree (.elem n as ks)).map (fun t => (t, rest))
  | 0, _, _, _, _, _, _, hf => by omega
  | f + 1, n, as, ks, rest, hwf, hcd, hf => by
    have hwf' := hwf
    simp only [wfTree, Bool.and_eq_true, Bool.not_eq_true'] at hwf'
    obtain ⟨⟨⟨hn, hwa⟩, hd⟩, hwk⟩ := hwf'
    have hlen := serWith_elem_length true n as ks
    have hal := serAttrs_length as
    cases ks with
    | nil =>
      rw [serWith_elem_nil]
      exact parseElem_ser (f + 1) n as [] rest hwf (by rw [← serWith_elem_nil true]; exact hf)
    | cons k ks' =>
      have hcost := cost_le (k :: ks')
      simp only [cdSafe] at hcd
      simp only [parseElem]
      rw [serWith_elem_cons]
      have hcontent := contentLoop_serWith (parseElem f) (n ++ '>' :: rest) (k :: ks') [] (f + 1) ?_ (by simp) hwk hcd
        (by simp [endsCR]) (by omega)
      · simp only [esc, List.nil_append] at hcontent
        have h := parseElemWith_open (fun r => contentLoop (parseElem f) (f + 1) r) n as
          (Xml.serListWith true (k :: ks')) rest (f + 1) (wireKids [] (k :: ks')) hn (wfAttrs_names as hwa) hd
          (by omega) hcontent
        rw [h]
        simp only [wireTree]
        cases wireAttrs as <;> cases wireKids [] (k :: ks') <;> rfl
      · intro n' as' kk hm
        have hwk' := wfKids_mem hwk hm
        have hcd' : cdSafe (.elem n' as' kk) = true := by
          clear hcost hlen hf
          revert hm hcd
          generalize (k :: ks') = l
          intro hcd hm
          induction l with
          | nil => simp at hm
          | cons a t ih =>
            rcases List.mem_cons.mp hm with rfl | h'
            · simp only [cdSafeKids, Bool.and_eq_true] at hcd; exact hcd.1
            · cases a with
              | text s => simp only [cdSafeKids, Bool.and_eq_true] at hcd; exact ih hcd.2 h'
              | elem _ _ _ => simp only [cdSafeKids, Bool.and_eq_true] at hcd; exact ih hcd.2 h'
        refine ⟨?_, fun Y => parseElem_serWith f n' as' kk Y hwk' hcd' ?_⟩
        · simp only [wfTree, Bool.and_eq_true] at hwk'; exact hwk'.1.1.1
        · have := mem_serListWith_length true hm
          omega

theorem par_serWith_true (n : Str) (as : List (Str × Str)) (ks : List Xml) (hwf : wfTree (.elem n as ks) = true)
    (hcd : cdSafe (.elem n as ks) = true) :
    par (Xml.serWith true (.elem n as ks)) = wireTree (.elem n as ks) := by
  have hn : isName n = true := by
    simp only [wfTree, Bool.and_eq_true] at hwf; exact hwf.1.1.1
  rw [par_startsTag (serWith_elem_startsTag true n as ks hn), parRoot]
  have h := parseElem_serWith ((Xml.serWith true (.elem n as ks)).length + 1) n as ks [] hwf hcd (by omega)
  rw [List.append_nil] at h
  rw [h]
  cases wireTree (.elem n as ks) with
  | none => rfl
  | some t => simp [skipMisc_nil]

/-! ### switch off: the plain serialiser -/

mutual
theorem serWith_false : (t : Xml) → Xml.serWith false t = Xml.ser t
  | .text s => by simp [Xml.serWith, Xml.ser, pcdataSer]
  | .elem n as [] => by simp [Xml.serWith, Xml.ser]
  | .elem n as (k :: ks) => by simp [Xml.serWith, Xml.ser, serListWith_false (k :: ks)]
theorem serListWith_false : (ks : List Xml) → Xml.serListWith false ks = Xml.serList ks
  | [] => by simp [Xml.serListWith, Xml.serList]
  | k :: ks => by simp [Xml.serListWith, Xml.serList, serWith_false k, serListWith_false ks]
end

/-- a single text child is always CDATA-safe -/
theorem cdSafe_single (n : Str) (as : List (Str × Str)) (s : Str) : cdSafe (.elem n as [.text s]) = true := by
  simp [cdSafe, cdSafeKids, headIsText]

mutual
theorem stable_cdSafe : (t : Xml) → stableTree t = true → cdSafe t = true
  | .text s, _ => rfl
  | .elem n as ks, h => by
    simp only [stableTree, Bool.and_eq_true] at h
    simp only [cdSafe]; exact stableKids_cdSafe ks h.2
theorem stableKids_cdSafe : (ks : List Xml) → stableKids ks = true → cdSafeKids ks = true
  | [], _ => rfl
  | .text s :: ks, h => by
    simp only [stableKids, Bool.and_eq_true, Bool.not_eq_true'] at h
    simp [cdSafeKids, h.1.2, stableKids_cdSafe ks h.2]
  | .elem n as kk :: ks, h => by
    simp only [stableKids, Bool.and_eq_true] at h
    simp only [cdSafeKids, Bool.and_eq_true]
    exact ⟨stable_cdSafe (.elem n as kk) h.1, stableKids_cdSafe ks h.2⟩
end

end Proofs.XmlCdata
